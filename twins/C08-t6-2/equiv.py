"""Equivalence program for twin 2 (C08: velocity / displacement integrals and peaks).

Run with the edit applied and cwd = the worktree:
    cd <worktree> && PYTHONPATH=<worktree> /venv/bin/python out/equiv2.py

The ORIGINAL package source is taken from git (`git archive HEAD eqsig`) into a temporary
directory.  The same deterministic battery of cases is executed in two subprocesses, one
importing the original package and one importing the edited package of the worktree; all
outcomes (returned values bit for bit, dtypes, shapes, ownership flags, exceptions with
their messages, warnings, effects on the arguments, object state seen through the public
API along histories of operations) are compared.  Exit status 0 iff everything matches.
"""
import copy
import hashlib
import io
import os
import pickle
import subprocess
import sys
import tarfile
import tempfile
import warnings

FOCUS = "twin2"  # only used in messages
N_HIST = 2000  # number of random histories of operations on AccSignal objects


# --------------------------------------------------------------------------------------
# canonical form of outcomes
# --------------------------------------------------------------------------------------
def canon(x, depth=0):
    import numpy as np
    if depth > 6:
        return ("deep", type(x).__name__)
    if isinstance(x, np.ndarray):
        if x.dtype == object:  # tobytes() would give addresses
            raw = repr(canon(x.tolist(), depth + 1)).encode()
        elif x.dtype.kind in "fc" and x.dtype.itemsize > 16 // (1 if x.dtype.kind == "c" else 2):
            raw = repr(x.tolist()).encode()  # extended precision: storage has undefined padding bytes
        else:
            raw = np.ascontiguousarray(x).tobytes()
        head = repr(x.ravel()[:4].tolist()) if x.dtype != object else ""
        return ("nd", type(x).__name__, str(x.dtype), tuple(x.shape), hashlib.sha1(raw).hexdigest(), head,
                bool(x.flags.owndata), bool(x.flags.writeable))
    if isinstance(x, np.generic):
        return ("ng", type(x).__name__, str(x.dtype), canon(np.asarray(x), depth + 1)[4], repr(x))
    if isinstance(x, bool) or x is None or isinstance(x, (int, str)):
        return (type(x).__name__, repr(x))
    if isinstance(x, float):
        return ("float", x.hex() if x == x and abs(x) != float("inf") else repr(x))
    if isinstance(x, complex):
        return ("complex", repr(x))
    if isinstance(x, (tuple, list)):
        return (type(x).__name__, [canon(v, depth + 1) for v in x])
    if isinstance(x, dict):
        return ("dict", sorted((repr(k), canon(v, depth + 1)) for k, v in x.items()))
    return ("obj", type(x).__name__)


def run(fn):
    """Outcome of a call: value or exception, plus the set of warnings raised."""
    with warnings.catch_warnings(record=True) as wlist:
        warnings.simplefilter("always")
        try:
            res = ("ok", canon(fn()))
        except Exception as e:  # noqa
            res = ("exc", type(e).__name__, str(e))
    ws = sorted({(w.category.__name__, str(w.message)) for w in wlist})
    return (res, ws)


# --------------------------------------------------------------------------------------
# inputs
# --------------------------------------------------------------------------------------
def record_factories():
    """List of (label, factory); every factory returns a FRESH object on each call."""
    import numpy as np
    rng = np.random.default_rng(20260928)
    facs = []

    def add(label, arr_maker):
        facs.append((label, arr_maker))

    lengths = [2, 3, 4, 5, 7, 8, 16, 17, 31, 64, 100, 101, 257, 1000]
    for n in lengths:
        base = rng.standard_normal(n)
        add("f64 n=%d" % n, lambda b=base: b.copy())
        add("f64 scaled n=%d" % n, lambda b=base: b * 9.81e-3)
    for n in [2, 3, 6, 33, 128]:
        base = rng.standard_normal(n)
        add("f32 n=%d" % n, lambda b=base: b.astype(np.float32))
        add("f16 n=%d" % n, lambda b=base: b.astype(np.float16))
        ib = rng.integers(-50, 50, size=n)
        add("i64 n=%d" % n, lambda b=ib: b.astype(np.int64))
        add("i32 n=%d" % n, lambda b=ib: b.astype(np.int32))
        add("i16 n=%d" % n, lambda b=ib: b.astype(np.int16))
        add("i8 n=%d" % n, lambda b=ib: b.astype(np.int8))
        add("u8 n=%d" % n, lambda b=ib: np.abs(b).astype(np.uint8))
        add("bool n=%d" % n, lambda b=ib: b > 0)
        add("list float n=%d" % n, lambda b=base: [float(v) for v in b])
        add("list int n=%d" % n, lambda b=ib: [int(v) for v in b])
        add("tuple float n=%d" % n, lambda b=base: tuple(float(v) for v in b))
        add("list mixed n=%d" % n, lambda b=base, c=ib: [int(c[0])] + [float(v) for v in b[1:]])
        big = rng.standard_normal(3 * n + 1)
        add("strided n=%d" % n, lambda b=big, n=n: b.copy()[1:1 + 2 * n:2])
        add("reversed n=%d" % n, lambda b=base: b.copy()[::-1])
        add("readonly n=%d" % n, lambda b=base: _readonly(b.copy()))
        add("fortran col n=%d" % n, lambda b=big, n=n: np.asfortranarray(np.tile(b[:n], (3, 1)).T)[:, 1])
        add("const n=%d" % n, lambda n=n: np.full(n, 2.5))
        add("zeros n=%d" % n, lambda n=n: np.zeros(n))
        add("negzeros n=%d" % n, lambda n=n: -np.zeros(n))
        add("ramp n=%d" % n, lambda n=n: 0.3 * np.arange(n) - 1.0)
        add("int ramp n=%d" % n, lambda n=n: np.arange(n))
        add("range n=%d" % n, lambda n=n: range(n))
        add("with nan n=%d" % n, lambda b=base: _put(b.copy(), len(b) // 2, np.nan))
        add("with inf n=%d" % n, lambda b=base: _put(b.copy(), len(b) - 1, np.inf))
        add("with -inf n=%d" % n, lambda b=base: _put(b.copy(), 0, -np.inf))
        add("huge n=%d" % n, lambda b=base: b * 1e307)
        add("tiny n=%d" % n, lambda b=base: b * 1e-310)
        add("big ints n=%d" % n, lambda b=ib: b.astype(np.int64) * (2 ** 55) + 1)
        add("2d (n,3) n=%d" % n, lambda b=big, n=n: b[:3 * n].reshape(n, 3).copy())
        add("2d (1,n) n=%d" % n, lambda b=base: b.copy()[None, :])
        add("2d (n,1) n=%d" % n, lambda b=base: b.copy()[:, None])
        add("list of lists n=%d" % n, lambda b=base: [[float(v), 1.0] for v in b])
        add("complex n=%d" % n, lambda b=base: b + 1j * b[::-1])
        add("object n=%d" % n, lambda b=base: np.array([float(v) for v in b], dtype=object))
        add("longdouble n=%d" % n, lambda b=base: b.astype(np.longdouble))
    # degenerate / out-of-domain forms (exceptions must agree as well)
    add("len1 array", lambda: np.array([1.5]))
    add("len1 list", lambda: [2])
    add("empty array", lambda: np.array([]))
    add("empty list", lambda: [])
    add("0-d array", lambda: np.array(3.0))
    add("py float", lambda: 3.0)
    add("py int", lambda: 3)
    add("None", lambda: None)
    add("str", lambda: "abc")
    add("3d", lambda: np.arange(24.0).reshape(2, 3, 4))
    return facs


def _readonly(a):
    a.setflags(write=False)
    return a


def _put(a, i, v):
    a[i] = v
    return a


def dt_values():
    import numpy as np
    return [("0.01", lambda: 0.01), ("0.005", lambda: 0.005), ("1.0", lambda: 1.0), ("1 int", lambda: 1),
            ("2 int", lambda: 2), ("0 int", lambda: 0), ("0.0", lambda: 0.0), ("-0.02", lambda: -0.02),
            ("np64 0.02", lambda: np.float64(0.02)), ("np32 0.02", lambda: np.float32(0.02)),
            ("npint 3", lambda: np.int64(3)), ("1e-300", lambda: 1e-300), ("1e300", lambda: 1e300),
            ("inf", lambda: float("inf")), ("nan", lambda: float("nan")), ("0d arr", lambda: np.array(0.04)),
            ("1/3", lambda: 1.0 / 3.0), ("True", lambda: True), ("str", lambda: "0.01"), ("None", lambda: None),
            ("arr n", lambda: np.array([0.01, 0.02])), ("complex", lambda: 0.01 + 0.0j)]


def trap_values():
    import numpy as np
    return [("default", None), ("True", (True,)), ("False", (False,)), ("0", (0,)), ("1", (1,)), ("None", (None,)),
            ("np.False_", (np.False_,)), ("np.True_", (np.True_,)), ("'False'", ("False",)), ("0.0", (0.0,)),
            ("[]", ([],))]


# --------------------------------------------------------------------------------------
# batteries
# --------------------------------------------------------------------------------------
def battery_array_level(out):
    import numpy as np
    import eqsig
    from eqsig import displacements as sd

    facs = record_factories()
    dts = dt_values()
    traps = trap_values()
    entry_points = [("calc", sd.calc_velo_and_disp_from_accel_arr),
                    ("old", sd.velocity_and_displacement_from_acceleration)]
    k = 0
    for rl, rf in facs:
        for dl, df in dts:
            for tl, targs in traps:
                k += 1
                # all combinations for the main entry point, a thinned subset for the wrapper
                for el, fn in entry_points:
                    if el == "old" and k % 5:
                        continue
                    acc = rf()
                    dt = df()
                    before = canon(acc)

                    def call():
                        if targs is None:
                            res = fn(acc, dt)
                        elif k % 2:
                            res = fn(acc, dt, trap=targs[0])
                        else:
                            res = fn(acc, dt, targs[0])
                        extra = []
                        if isinstance(res, tuple) and len(res) == 2:
                            v, d = res
                            if isinstance(acc, np.ndarray) and isinstance(v, np.ndarray):
                                extra.append(bool(np.shares_memory(v, acc)))
                                extra.append(bool(np.shares_memory(d, acc)))
                                extra.append(bool(np.shares_memory(v, d)))
                        return (res, extra)

                    o = run(call)
                    after = canon(acc)
                    out.append((("arr", el, rl, dl, tl), (o, before == after, after)))

    # keyword spellings / bad signatures
    a = np.linspace(-1, 1, 11)
    out.append((("arr-kw", 1), run(lambda: sd.calc_velo_and_disp_from_accel_arr(acceleration=a, dt=0.1, trap=False))))
    out.append((("arr-kw", 2), run(lambda: sd.calc_velo_and_disp_from_accel_arr(dt=0.1, acceleration=a))))
    out.append((("arr-kw", 3), run(lambda: sd.calc_velo_and_disp_from_accel_arr(a))))
    out.append((("arr-kw", 4), run(lambda: sd.calc_velo_and_disp_from_accel_arr(a, 0.1, True, 1))))
    out.append((("arr-kw", 5), run(lambda: sd.calc_velo_and_disp_from_accel_arr(a, 0.1, trapz=True))))
    out.append((("arr-kw", 6), run(lambda: sd.velocity_and_displacement_from_acceleration(acceleration=a, dt=0.1,
                                                                                         trap=False))))
    # results are independent objects from call to call, and writeable
    def twice(trap):
        v1, d1 = sd.calc_velo_and_disp_from_accel_arr(a, 0.1, trap=trap)
        v2, d2 = sd.calc_velo_and_disp_from_accel_arr(a, 0.1, trap=trap)
        v1[3] = 99.0
        d1[4] = -99.0
        return (v1, d1, v2, d2, bool(np.shares_memory(v1, v2)), bool(np.shares_memory(d1, d2)))
    out.append((("arr-twice", True), run(lambda: twice(True))))
    out.append((("arr-twice", False), run(lambda: twice(False))))
    # under raised floating point errors
    for trap in (True, False):
        for scale in (1.0, 1e308):
            def strict():
                with np.errstate(all="raise"):
                    return sd.calc_velo_and_disp_from_accel_arr(np.array([1.0, 2.0, -3.0, 4.0]) * scale, 10.0, trap=trap)
            out.append((("arr-errstate", trap, scale), run(strict)))


def battery_peak(out):
    import fractions
    import numpy as np
    import eqsig
    from eqsig import im
    rng = np.random.default_rng(77)
    motions = []
    for n in [1, 2, 3, 5, 10, 50, 333]:
        for rep in range(12):
            b = rng.standard_normal(n) * 10.0 ** int(rng.integers(-3, 4))
            motions.append(("f64 %d %d" % (n, rep), lambda b=b: b.copy()))
            motions.append(("neg %d %d" % (n, rep), lambda b=b: -np.abs(b)))
            motions.append(("pos %d %d" % (n, rep), lambda b=b: np.abs(b)))
            motions.append(("list %d %d" % (n, rep), lambda b=b: [float(v) for v in b]))
            ib = rng.integers(-1000, 1000, size=n)
            motions.append(("i64 %d %d" % (n, rep), lambda b=ib: b.copy()))
            motions.append(("i8 %d %d" % (n, rep), lambda b=ib: (b // 8).astype(np.int8)))
            motions.append(("list int %d %d" % (n, rep), lambda b=ib: [int(v) for v in b]))
            motions.append(("tuple int %d %d" % (n, rep), lambda b=ib: tuple(int(v) for v in b)))
            motions.append(("f32 %d %d" % (n, rep), lambda b=b: b.astype(np.float32)))
            motions.append(("gen %d %d" % (n, rep), lambda b=b: (float(v) for v in b)))
            motions.append(("iter %d %d" % (n, rep), lambda b=b: iter([float(v) for v in b])))
            for pos in {0, n // 2, n - 1}:
                motions.append(("nan@%d %d %d" % (pos, n, rep), lambda b=b, p=pos: _put(b.copy(), p, np.nan)))
                motions.append(("inf@%d %d %d" % (pos, n, rep), lambda b=b, p=pos: _put(b.copy(), p, np.inf)))
                motions.append(("-inf@%d %d %d" % (pos, n, rep), lambda b=b, p=pos: _put(b.copy(), p, -np.inf)))
            motions.append(("tie %d %d" % (n, rep), lambda b=b: np.concatenate([b, -b])))
            motions.append(("2d rows %d %d" % (n, rep), lambda b=b: np.stack([b, -b])))
            motions.append(("2d 1row %d %d" % (n, rep), lambda b=b: b.copy()[None, :]))
            motions.append(("2d col %d %d" % (n, rep), lambda b=b: b.copy()[:, None]))
    motions += [("empty", lambda: np.array([])), ("empty list", lambda: []), ("scalar", lambda: 2.0),
                ("0d", lambda: np.array(2.0)), ("None", lambda: None), ("str", lambda: "hello"),
                ("strs", lambda: ["a", "b"]), ("zeros", lambda: np.zeros(4)), ("negzeros", lambda: -np.zeros(4)),
                ("mixed zero", lambda: [0.0, -0.0]), ("mixed zero 2", lambda: [-0.0, 0.0]),
                ("int8 min", lambda: np.array([-128, 5], dtype=np.int8)),
                ("int64 min", lambda: np.array([np.iinfo(np.int64).min, 5])),
                ("uint8", lambda: np.array([3, 200, 7], dtype=np.uint8)), ("bools", lambda: [True, False]),
                ("np bools", lambda: np.array([True, False])),
                ("fractions", lambda: [fractions.Fraction(-7, 3), fractions.Fraction(1, 2)]),
                ("complex", lambda: np.array([1 + 1j, 2 - 1j])), ("range", lambda: range(-7, 4)),
                ("dict", lambda: {-3.0: 1, 2.0: 2}), ("set", lambda: {-3.5, 1.0}),
                ("object arr", lambda: np.array([-3.5, 1.0], dtype=object)),
                ("mixed types", lambda: [1, "a"]), ("nan only", lambda: [float("nan")]),
                ("nan first list", lambda: [float("nan"), -5.0, 2.0]),
                ("nan last list", lambda: [-5.0, 2.0, float("nan")])]
    for label, mf in motions:
        out.append((("peak", label), run(lambda: im.calc_peak(mf()))))
    for label, mf in motions[::7]:
        out.append((("peak-dep", label), run(lambda: im.calculate_peak(mf()))))
        out.append((("peak-dep-top", label), run(lambda: eqsig.calculate_peak(mf()))))
    m = np.array([3.0, -4.0, 1.0])
    out.append((("peak-kw", 1), run(lambda: im.calc_peak(motion=m))))
    out.append((("peak-kw", 2), run(lambda: im.calc_peak())))
    out.append((("peak-kw", 3), run(lambda: im.calc_peak(m, m))))
    out.append((("peak-nomut", 1), (run(lambda: im.calc_peak(m)), canon(m))))


OPS = ["velocity", "displacement", "pga", "pgv", "pgd", "values", "npts", "time", "gen", "gen", "reset_values",
       "add_constant", "add_series", "add_signal", "clear_cache", "rebase_displacement", "szrv", "szrd", "szrdv",
       "remove_average", "remove_poly", "running_average", "rra", "butter", "mut_velocity", "mut_displacement",
       "mut_values", "reset_stats", "deepcopy", "generate_peak_values", "peaks3", "vd", "im_fns", "set_values",
       "all_stats"]


def battery_histories(out, n_hist=700):
    import numpy as np
    import eqsig
    from eqsig import im
    rng = np.random.default_rng(4242)

    def new_record(n=None, kind=None):
        n = int(rng.integers(2, 120)) if n is None else n
        kind = int(rng.integers(0, 10)) if kind is None else kind
        b = rng.standard_normal(n) * float(10.0 ** rng.integers(-2, 2))
        if kind == 0:
            return rng.integers(-20, 20, size=n)  # integer typed record
        if kind == 1:
            return [float(v) for v in b]
        if kind == 2:
            return [int(v) for v in rng.integers(-9, 9, size=n)]
        if kind == 3:
            return b.astype(np.float32)
        if kind == 4:
            return tuple(float(v) for v in b)
        if kind == 5:
            return np.full(n, float(rng.standard_normal()))  # constant acceleration
        if kind == 6:
            return 0.1 * np.arange(n) - 0.7  # linearly varying acceleration
        return b

    def observe(asig):
        return [run(lambda: asig.values), run(lambda: asig.npts), run(lambda: asig.dt),
                run(lambda: asig.velocity), run(lambda: asig.displacement),
                run(lambda: asig.pga), run(lambda: asig.pgv), run(lambda: asig.pgd)]

    for h in range(n_hist):
        dt = [0.01, 0.005, 0.02, 1, 0.1, np.float64(0.04), 2, 0.25][int(rng.integers(0, 8))]
        rec = new_record()
        log = []
        holder = {}
        def build():
            holder["a"] = eqsig.AccSignal(rec, dt, label="h%d" % h)
        log.append(run(build))
        if "a" not in holder:
            out.append((("hist", h), log))
            continue
        n_ops = int(rng.integers(3, 22))
        for step in range(n_ops):
            asig = holder["a"]
            op = OPS[int(rng.integers(0, len(OPS)))]
            # every random draw happens here, outside the library calls, so both runs see the same draws
            r1 = float(rng.standard_normal())
            i1 = int(rng.integers(0, 1000))
            i2 = int(rng.integers(0, 1000))
            fresh = new_record()
            same_len = new_record(n=max(int(asig.npts or 2), 1))
            if op in ("velocity", "displacement", "pga", "pgv", "pgd", "values", "npts", "time"):
                o = run(lambda: getattr(asig, op))
            elif op == "gen":
                choice = i1 % 7
                if choice == 0:
                    o = run(lambda: asig.generate_displacement_and_velocity_series())
                elif choice == 1:
                    o = run(lambda: asig.generate_displacement_and_velocity_series(True))
                elif choice in (2, 3):
                    o = run(lambda: asig.generate_displacement_and_velocity_series(trap=False))
                elif choice == 4:
                    o = run(lambda: asig.generate_displacement_and_velocity_series(trap=0))
                elif choice == 5:
                    o = run(lambda: asig.generate_displacement_and_velocity_series(False))
                else:
                    o = run(lambda: asig.generate_displacement_and_velocity_series(trap=None))
            elif op == "reset_values":
                o = run(lambda: asig.reset_values(fresh))
            elif op == "set_values":
                def setv():
                    asig.values = fresh
                o = run(setv)
            elif op == "add_constant":
                o = run(lambda: asig.add_constant(r1 if i1 % 3 else int(i2 % 5)))
            elif op == "add_series":
                o = run(lambda: asig.add_series(same_len if i1 % 4 else fresh))
            elif op == "add_signal":
                def addsig():
                    other = eqsig.AccSignal(same_len, dt if i1 % 5 else 0.123)
                    other.pgv  # fill the other object's cache, must not leak
                    return asig.add_signal(other)
                o = run(addsig)
            elif op == "clear_cache":
                o = run(lambda: asig.clear_cache())
            elif op == "rebase_displacement":
                o = run(lambda: asig.rebase_displacement())
            elif op == "szrv":
                tz = None if i1 % 3 == 0 else ((0.0, None) if i1 % 3 == 1 else
                                               (asig.dt * (i2 % 5), asig.dt * (i2 % 5 + 1 + i1 % 9)))
                o = run(lambda: asig.set_zero_residual_velocity(timezone=tz))
            elif op == "szrd":
                o = run(lambda: asig.set_zero_residual_displacement(None if i1 % 5 else (0.0, 0.1)))
            elif op == "szrdv":
                tz = None if i1 % 3 == 0 else ((asig.dt * (i2 % 4), None) if i1 % 3 == 1 else
                                               (asig.dt * (i2 % 5), asig.dt * (i2 % 5 + 2 + i1 % 9)))
                o = run(lambda: asig.set_zero_residual_displacement_and_velocity(timezone=tz))
            elif op == "remove_average":
                o = run(lambda: asig.remove_average())
            elif op == "remove_poly":
                o = run(lambda: asig.remove_poly(poly_fit=i1 % 3))
            elif op == "running_average":
                o = run(lambda: asig.running_average(width=1 + i1 % 6))
            elif op == "rra":
                mt = "velocity" if i1 % 2 else "acceleration"
                o = run(lambda: asig.remove_rolling_average(mtype=mt, freq_window=[0.5, 5, 1000][i2 % 3]))
            elif op == "butter":
                o = run(lambda: asig.butter_pass(cut_off=[(0.5, 10), (None, 8), (1.0, None)][i1 % 3]))
            elif op == "mut_velocity":
                def mv():
                    v = asig.velocity
                    v[i1 % len(v)] += r1
                    return (v, asig.velocity is v, asig.pgv)
                o = run(mv)
            elif op == "mut_displacement":
                def md():
                    d = asig.displacement
                    d[i1 % len(d)] = r1
                    return (d, asig.displacement is d, asig.pgd, asig.velocity)
                o = run(md)
            elif op == "mut_values":
                def mva():
                    vals = asig.values
                    vals[i1 % len(vals)] = 3
                    return (asig.values, asig.pga, asig.velocity)
                o = run(mva)
            elif op == "reset_stats":
                o = run(lambda: asig.reset_all_motion_stats())
            elif op == "deepcopy":
                def dc():
                    holder["a"] = copy.deepcopy(asig)
                o = run(dc)
            elif op == "generate_peak_values":
                o = run(lambda: asig.generate_peak_values())
            elif op == "peaks3":
                order = [("pga", "pgv", "pgd"), ("pgd", "pgv", "pga"), ("pgv", "pgd", "pga")][i1 % 3]
                o = run(lambda: [getattr(asig, nm) for nm in order] + [getattr(asig, nm) for nm in order])
            elif op == "vd":
                def vd():
                    if i1 % 2:
                        d = asig.displacement
                        v = asig.velocity
                    else:
                        v = asig.velocity
                        d = asig.displacement
                    return (v, d, v is asig.velocity, d is asig.displacement)
                o = run(vd)
            elif op == "im_fns":
                o = run(lambda: (im.calc_peak(asig.values), im.calc_peak(asig.velocity),
                                 im.calc_peak(asig.displacement), im.calc_integral_of_abs_velocity(asig),
                                 im.calc_isv(asig)))
            elif op == "all_stats":
                o = run(lambda: asig.generate_all_motion_stats())
            else:
                raise RuntimeError(op)
            log.append((op, o))
            if step % 4 == 3:
                log.append(("observe", observe(holder["a"])))
        log.append(("final", observe(holder["a"])))
        out.append((("hist", h), log))

    # a few long records through the object level (lengths of real records)
    for n, dt in [(2000, 0.01), (8192, 0.005), (20001, 0.02)]:
        rec = rng.standard_normal(n) * np.hanning(n)
        asig = eqsig.AccSignal(rec, dt)
        log = [run(lambda: asig.pgd), run(lambda: asig.pgv), run(lambda: asig.pga), run(lambda: asig.velocity),
               run(lambda: asig.displacement), run(lambda: asig.generate_displacement_and_velocity_series(trap=False)),
               run(lambda: asig.velocity), run(lambda: asig.displacement), run(lambda: asig.pgv),
               run(lambda: asig.rebase_displacement()), run(lambda: asig.pgd), run(lambda: asig.displacement),
               canon(rec)]
        out.append((("long", n), log))

    # untouched object: the placeholders seen before any integration
    asig = eqsig.AccSignal([1.0, -2.0, 0.5, 0.25], 0.5)
    out.append((("fresh", 0), [run(lambda: asig.pga), run(lambda: asig.values), run(lambda: asig.pgd),
                               run(lambda: asig.velocity), run(lambda: asig.pgv)]))
    sig = eqsig.Signal([1.0, -2.0, 0.5, 0.25], 0.5)
    out.append((("plain-signal", 0), [run(lambda: sig.velocity), run(lambda: sig.pga), run(lambda: sig.values)]))


def battery_subclass(out):
    """Sub-classes that override the pieces the lazy properties are built from."""
    import numpy as np
    import eqsig
    rng = np.random.default_rng(99)

    class RectSignal(eqsig.AccSignal):
        n_gen = 0

        def generate_displacement_and_velocity_series(self, trap=False):
            self.n_gen += 1
            super(RectSignal, self).generate_displacement_and_velocity_series(trap=trap)

    class ScaledSignal(eqsig.AccSignal):
        n_v = 0
        n_d = 0
        n_a = 0

        @property
        def values(self):
            self.n_a += 1
            return self._values

        @property
        def velocity(self):
            self.n_v += 1
            return 2.0 * super(ScaledSignal, self).velocity

        @property
        def displacement(self):
            self.n_d += 1
            return -3.0 * super(ScaledSignal, self).displacement

    for rep in range(60):
        n = int(rng.integers(2, 80))
        rec = rng.standard_normal(n)
        dt = [0.01, 0.02, 1, 0.5][rep % 4]
        a = RectSignal(rec, dt)
        b = ScaledSignal(rec if rep % 2 else rng.integers(-9, 9, size=n), dt)
        log = []
        names = ["pgv", "velocity", "pgd", "displacement", "pga", "pgd", "pgv", "pga", "values"]
        order = rng.permutation(len(names))
        for j in order:
            nm = names[int(j)]
            log.append((nm, run(lambda: getattr(a, nm)), a.n_gen))
            log.append((nm, run(lambda: getattr(b, nm)), (b.n_v, b.n_d, b.n_a)))
            if int(j) == 3:
                log.append(run(lambda: a.add_constant(0.5)))
                log.append(run(lambda: b.clear_cache()))
        log.append((a.n_gen, b.n_v, b.n_d, b.n_a))
        out.append((("subclass", rep), log))


def worker(root, outfile):
    sys.path.insert(0, root)
    import numpy as np  # noqa
    import eqsig
    loaded = os.path.realpath(os.path.dirname(os.path.dirname(eqsig.__file__)))
    assert loaded == os.path.realpath(root), (loaded, root)
    out = []
    battery_array_level(out)
    battery_peak(out)
    battery_histories(out, N_HIST)
    battery_subclass(out)
    with open(outfile, "wb") as f:
        pickle.dump(out, f)


# --------------------------------------------------------------------------------------
# driver
# --------------------------------------------------------------------------------------
def main():
    cwd = os.getcwd()
    if not os.path.isdir(os.path.join(cwd, "eqsig")):
        print("run with cwd = the worktree")
        return 2
    me = os.path.abspath(__file__)
    with tempfile.TemporaryDirectory() as tmp:
        orig_root = os.path.join(tmp, "orig")
        os.mkdir(orig_root)
        blob = subprocess.run(["git", "archive", "HEAD", "eqsig"], cwd=cwd, check=True, stdout=subprocess.PIPE).stdout
        with tarfile.open(fileobj=io.BytesIO(blob)) as tf:
            tf.extractall(orig_root)
        results = {}
        procs = {}
        for tag, root in (("orig", orig_root), ("edit", cwd)):
            outfile = os.path.join(tmp, tag + ".pkl")
            env = dict(os.environ)
            env["PYTHONPATH"] = root
            env["PYTHONHASHSEED"] = "0"
            env["PYTHONDONTWRITEBYTECODE"] = "1"
            procs[tag] = (subprocess.Popen([sys.executable, me, "--worker", root, outfile], cwd=tmp, env=env), outfile)
        for tag, (p, outfile) in procs.items():
            if p.wait() != 0:
                print("worker %s failed" % tag)
                return 2
            with open(outfile, "rb") as f:
                results[tag] = pickle.load(f)
    a, b = results["orig"], results["edit"]
    bad = 0
    if len(a) != len(b):
        print("different number of cases: %d vs %d" % (len(a), len(b)))
        bad += 1
    n_leaf = 0
    for (ka, va), (kb, vb) in zip(a, b):
        n_leaf += 1
        if ka != kb or va != vb:
            bad += 1
            if bad <= 10:
                print("MISMATCH at case %r" % (ka,))
                sa, sb = repr(va), repr(vb)
                if len(sa) > 1500 or len(sb) > 1500:
                    i = next((i for i, (x, y) in enumerate(zip(sa, sb)) if x != y), min(len(sa), len(sb)))
                    sa, sb = sa[max(0, i - 300):i + 300], sb[max(0, i - 300):i + 300]
                print("   original:", sa)
                print("   edited  :", sb)
    print("%s: %d cases compared, %d mismatches" % (FOCUS, n_leaf, bad))
    return 0 if bad == 0 else 1


if __name__ == "__main__":
    if len(sys.argv) == 4 and sys.argv[1] == "--worker":
        worker(sys.argv[2], sys.argv[3])
        sys.exit(0)
    sys.exit(main())

"""Equivalence check for twin2 (calc_brac_dur in eqsig/im.py: try/except IndexError replaced by an explicit emptiness test,
boolean-mask selection instead of np.where, np.abs, locals renamed).

Run with twin2 applied, cwd = the worktree.  Exit 0 iff the original and the edited functions agree.
"""
import os
import subprocess
import sys
import types
import warnings

HERE = os.getcwd()
sys.path.insert(0, HERE)
warnings.simplefilter("ignore")

import numpy as np  # noqa: E402
import eqsig  # noqa: E402
import eqsig.im as new_im  # noqa: E402

assert eqsig.__file__.startswith(HERE), eqsig.__file__


def load_original(relpath, modname):
    src = subprocess.check_output(["git", "show", "HEAD:" + relpath], cwd=HERE).decode()
    mod = types.ModuleType(modname)
    mod.__package__ = "eqsig"
    mod.__file__ = os.path.join(HERE, relpath)
    exec(compile(src, relpath + "@HEAD", "exec"), mod.__dict__)
    return mod


old_im = load_original("eqsig/im.py", "eqsig._orig_im")


def _brac_src(text):
    return text.split("def calc_brac_dur")[1].split("def calc_acc_rms")[0]


_old_src = subprocess.check_output(["git", "show", "HEAD:eqsig/im.py"], cwd=HERE).decode()
assert "except IndexError" in _brac_src(_old_src)
assert "except IndexError" not in _brac_src(open(new_im.__file__).read()), "twin2 is not applied"

N_CHECKS = 0


def outcome(fn, *args, **kwargs):
    try:
        return ("ok", fn(*args, **kwargs))
    except Exception as e:  # noqa
        return ("exc", type(e), str(e))


def same_scalar(a, b):
    if type(a) is not type(b):
        return False
    if a is None:
        return True
    a_arr, b_arr = np.asarray(a), np.asarray(b)
    return a_arr.dtype == b_arr.dtype and a_arr.shape == b_arr.shape and a_arr.tobytes() == b_arr.tobytes()


def same(o1, o2):
    if o1[0] != o2[0]:
        return False
    if o1[0] == "exc":
        return o1[1] is o2[1] and o1[2] == o2[2]
    v1, v2 = o1[1], o2[1]
    if isinstance(v1, tuple) or isinstance(v2, tuple):
        return (type(v1) is type(v2) and len(v1) == len(v2)
                and all(same_scalar(x, y) for x, y in zip(v1, v2)))
    return same_scalar(v1, v2)


def check(desc, o1, o2):
    global N_CHECKS
    N_CHECKS += 1
    if not same(o1, o2):
        print("MISMATCH", desc, o1, o2)
        sys.exit(1)


rng = np.random.default_rng(777)

DTS = [0.01, 0.005, 0.02, 1.0, 0.1, 1. / 3, np.float64(0.01), np.float32(0.01), 1, 2]


def state_of(asig):
    out = {}
    for k, v in sorted(asig.__dict__.items()):
        if isinstance(v, np.ndarray):
            out[k] = (str(v.dtype), v.shape, v.tobytes())
        elif isinstance(v, dict):
            out[k] = sorted((kk, repr(vv)) for kk, vv in v.items())
        else:
            out[k] = repr(v)
    return out


def records():
    recs = []
    for n in (1, 2, 3, 4, 5, 8, 17, 100, 1000, 4096):
        for _ in range(5):
            recs.append(rng.standard_normal(n) * rng.choice([1e-6, 1e-2, 1.0, 9.8, 1e4]))
    for n in (50, 300, 2500):
        t = np.arange(n) / n
        recs.append(np.sin(40 * t) * np.exp(-((t - 0.4) / 0.15) ** 2) * 3.0)
    base = rng.standard_normal(40)
    for k in (1, 3, 10):
        recs.append(np.concatenate([np.zeros(k), base]))
        recs.append(np.concatenate([base, np.zeros(k)]))
    recs.append(np.zeros(10))
    recs.append(np.zeros(1))
    recs.append(np.ones(12))
    recs.append(-np.ones(12) * 0.3)
    spike = np.zeros(20)
    spike[7] = -2.0
    recs.append(spike)
    first_last = np.zeros(20)
    first_last[0] = 1.0
    first_last[-1] = -1.0
    recs.append(first_last)
    recs.append(rng.integers(-5, 6, size=50))
    recs.append(rng.integers(-5, 6, size=50).astype(np.int32))
    recs.append(rng.integers(-100, 100, size=30).astype(np.int16))
    recs.append(np.array([0, 1, -2, 3, 0, 0, 1]))
    recs.append(np.array([True, False, True, False]))
    recs.append(rng.standard_normal(64).astype(np.float32))
    recs.append(rng.standard_normal(200)[::3])
    with_nan = rng.standard_normal(20)
    with_nan[5] = np.nan
    recs.append(with_nan)
    with_inf = rng.standard_normal(20)
    with_inf[5] = -np.inf
    recs.append(with_inf)
    recs.append(np.array([]))
    return recs


RECORDS = records()


def thresholds_for(rec):
    thr = [0, 0.0, 1e-12, 0.01 * 9.8, 0.05 * 9.8, 0.1 * 9.8, 1, 2, 1e9, np.inf, np.float64(0.3), np.float32(0.3),
           np.nan, -1.0]
    if rec.size:
        a = np.abs(rec.astype(float))
        a = a[np.isfinite(a)]
        if a.size:
            # values equal to samples (strictness of the comparison), the peak, quantiles
            thr += [a.max(), a.min(), np.nextafter(a.max(), 0), np.nextafter(a.max(), np.inf),
                    float(np.median(a)), float(np.quantile(a, 0.9)), float(a[0]), float(a[-1])]
            thr += list(rng.uniform(0, a.max() * 1.1 + 1e-30, size=6))
    return thr


for i, rec in enumerate(RECORDS):
    for dt in (DTS if i % 4 == 0 else DTS[:3]):
        a_old, a_new = eqsig.AccSignal(rec.copy(), dt), eqsig.AccSignal(rec.copy(), dt)
        for thr in thresholds_for(rec):
            for se in (False, True):
                o1 = outcome(old_im.calc_brac_dur, a_old, thr, se=se)
                o2 = outcome(new_im.calc_brac_dur, a_new, thr, se=se)
                check(("brac", i, dt, thr, se), o1, o2)
            check(("brac-default", i, dt, thr), outcome(old_im.calc_brac_dur, a_old, thr),
                  outcome(new_im.calc_brac_dur, a_new, thr))
            check(("brac-pos", i, dt, thr), outcome(old_im.calc_brac_dur, a_old, thr, True),
                  outcome(new_im.calc_brac_dur, a_new, thr, True))
            check(("brac-truthy", i, dt, thr), outcome(old_im.calc_brac_dur, a_old, thr, 1),
                  outcome(new_im.calc_brac_dur, a_new, thr, 1))
            check(("brac-deprecated", i, dt, thr), outcome(old_im.calc_bracketed_duration, a_old, thr),
                  outcome(new_im.calc_bracketed_duration, a_new, thr))
        # array-valued / odd thresholds behave alike as well
        for thr in (None, "a", np.full(rec.shape, 0.5), [0.5] * len(rec), np.array([0.5]), np.array(0.5)):
            for se in (False, True):
                check(("brac-odd", i, dt, se), outcome(old_im.calc_brac_dur, a_old, thr, se=se),
                      outcome(new_im.calc_brac_dur, a_new, thr, se=se))
        assert state_of(a_old) == state_of(a_new), ("state", i)
        assert a_old.values.tobytes() == rec.tobytes() and a_new.values.tobytes() == rec.tobytes()

# records given as lists / tuples / integer lists
for vals in ([0.0, 0.5, -2.0, 0.1, 0.0], (0.0, 0.5, -2.0, 0.1), [0, 3, -2, 0, 1], [0.0], []):
    a_old, a_new = eqsig.AccSignal(vals, 0.01), eqsig.AccSignal(vals, 0.01)
    for thr in (0, 0.3, 1, 2.0, 5):
        for se in (False, True):
            check(("brac-list", vals, thr, se), outcome(old_im.calc_brac_dur, a_old, thr, se=se),
                  outcome(new_im.calc_brac_dur, a_new, thr, se=se))

# multi-step history on one object: scale record and threshold together, prepend zeros, reset values
rec = RECORDS[36]
a_old, a_new = eqsig.AccSignal(rec.copy(), 0.01), eqsig.AccSignal(rec.copy(), 0.01)
scale = 1.0
for step in range(8):
    peak = np.abs(a_old.values).max()
    for frac in (0.0, 0.1, 0.5, 0.9, 1.0, 1.5):
        for se in (False, True):
            check(("hist", step, frac, se), outcome(old_im.calc_brac_dur, a_old, frac * peak, se=se),
                  outcome(new_im.calc_brac_dur, a_new, frac * peak, se=se))
    if step % 2 == 0:
        nv = np.concatenate([np.zeros(step + 1), a_old.values * (step + 2.5)])
    else:
        nv = a_old.values[::-1] * 0.1
    a_old.reset_values(nv.copy())
    a_new.reset_values(nv.copy())
    assert state_of(a_old) == state_of(a_new)

# a duck-typed record (values, npts, dt only)
for rec in RECORDS[30:40]:
    duck = types.SimpleNamespace(values=rec.copy(), npts=len(rec), dt=0.02)
    for thr in (0, 0.5, 1e9):
        for se in (False, True):
            check(("duck", thr, se), outcome(old_im.calc_brac_dur, duck, thr, se=se),
                  outcome(new_im.calc_brac_dur, duck, thr, se=se))
    assert duck.values.tobytes() == rec.tobytes()

print("equiv2: %d comparisons, all identical" % N_CHECKS)
sys.exit(0)

"""Equivalence check for twin3 (wrappers: sdof.response_series coerces its array arguments and calls the
integrator with keyword arguments; AccSignal.response_series picks the damping with a conditional expression and
returns the wrapped call directly, with keyword arguments).

Run with the twin applied, cwd = the worktree.  Exit 0 iff original and edited code agree bit-for-bit.
"""
import os
import subprocess
import sys
import types
import warnings

HERE = os.getcwd()
sys.path.insert(0, HERE)

import numpy as np  # noqa: E402
import eqsig  # noqa: E402
import eqsig.sdof as new_sdof  # noqa: E402
import eqsig.single as new_single  # noqa: E402

assert os.path.abspath(eqsig.__file__).startswith(HERE), eqsig.__file__


def load_original(relpath, modname):
    src = subprocess.check_output(['git', 'show', 'HEAD:' + relpath], cwd=HERE).decode()
    mod = types.ModuleType(modname)
    mod.__file__ = '<HEAD:%s>' % relpath
    exec(compile(src, mod.__file__, 'exec'), mod.__dict__)
    return mod


old_sdof = load_original('eqsig/sdof.py', 'eqsig_orig_sdof')
# the original single.py: its absolute imports resolve to the (otherwise unchanged) package; its `dh` is re-pointed
# to the original sdof module so that original method + original wrapper are compared with edited method + edited wrapper
old_single = load_original('eqsig/single.py', 'eqsig_orig_single')
assert old_single.dh is new_sdof
old_single.dh = old_sdof
assert new_single.dh is new_sdof
assert old_single.AccSignal is not new_single.AccSignal and eqsig.AccSignal is new_single.AccSignal

N_CHECKS = [0]


def same(x, y, what):
    """bit-for-bit identity (type, dtype, shape, bytes: distinguishes -0.0 / NaN payloads)"""
    N_CHECKS[0] += 1
    assert type(x) is type(y), (what, type(x), type(y))
    if isinstance(x, (tuple, list)):
        assert len(x) == len(y), what
        for k, (p, q) in enumerate(zip(x, y)):
            same(p, q, '%s[%d]' % (what, k))
        return
    if isinstance(x, np.ndarray):
        assert x.dtype == y.dtype, (what, x.dtype, y.dtype)
        assert x.shape == y.shape, (what, x.shape, y.shape)
        assert x.tobytes() == y.tobytes(), (what, np.max(np.abs(x - y)))
        for flag in ('c_contiguous', 'f_contiguous', 'writeable', 'owndata'):
            assert getattr(x.flags, flag) == getattr(y.flags, flag), (what, flag)
        return
    if isinstance(x, (float, np.floating)):
        assert np.float64(x).tobytes() == np.float64(y).tobytes(), (what, x, y)
        return
    assert x == y, (what, x, y)


def call(f, *args):
    """returns ('ok', result) or ('exc', type, text); warnings are recorded, too"""
    with warnings.catch_warnings(record=True) as wlist:
        warnings.simplefilter('always')
        try:
            out = ('ok', f(*args))
        except Exception as e:  # noqa
            out = ('exc', type(e), str(e))
    # a set: a shared term that is evaluated once instead of several times warns once instead of several times
    # (only possible outside the property's domain, e.g. xi == 1)
    return out, sorted(set((w.category.__name__, str(w.message)) for w in wlist))


def compare(fname, make_args, what):
    args_o = make_args()
    args_n = make_args()
    keep = make_args()
    (ro, wo) = call(getattr(old_sdof, fname), *args_o)
    (rn, wn) = call(getattr(new_sdof, fname), *args_n)
    assert ro[0] == rn[0], (what, ro, rn)
    if ro[0] == 'ok':
        same(ro[1], rn[1], what)
    else:
        assert ro[1:] == rn[1:], (what, ro, rn)
    assert wo == wn, (what, wo, wn)
    # arguments untouched (and hence identically "mutated") by both
    for k, (p, q, r) in enumerate(zip(args_o, args_n, keep)):
        same(p, r, what + ' arg%d (orig)' % k)
        same(q, r, what + ' arg%d (new)' % k)


rng = np.random.RandomState(20240101)


import contextlib  # noqa: E402
import io  # noqa: E402


def records():
    yield 'len2', np.array([0.3, -1.2])
    yield 'len2 list', [0.3, -1.2]
    yield 'len3 tuple', (0.0, 1.0, 0.0)
    yield 'zeros', np.zeros(17)
    yield 'int dtype', np.array([0, 3, -2, 5, 7, -11, 0, 1], dtype=np.int64)
    yield 'int32', np.arange(-5, 6, dtype=np.int32)
    yield 'uint8', np.arange(0, 12, dtype=np.uint8)
    yield 'bool', np.array([True, False, True, True])
    yield 'int list', [1, 0, -1, 2]
    yield 'mixed list', [1, 0.5, -1, np.float32(2)]
    yield 'float32', rng.normal(size=33).astype(np.float32)
    yield 'float16', rng.normal(size=12).astype(np.float16)
    yield 'impulse', np.concatenate([[1.0], np.zeros(60)])
    yield 'step', np.ones(41)
    yield 'ramp', np.linspace(0, 5, 50)
    yield 'sine', np.sin(0.1 * np.arange(300)) * 0.01
    yield 'huge', rng.normal(size=64) * 1e12
    yield 'tiny', rng.normal(size=64) * 1e-14
    yield 'neg zeros', -np.zeros(9)
    yield 'noncontig', rng.normal(size=200)[::3]
    yield 'reversed view', rng.normal(size=40)[::-1]
    yield 'fortran col', np.asfortranarray(rng.normal(size=(30, 2)))[:, 1]
    yield 'masked', np.ma.masked_array(rng.normal(size=10))
    yield 'readonly', np.frombuffer(rng.normal(size=20).tobytes(), dtype=float)
    for n in (2, 3, 5, 16, 101, 400):
        yield 'rand%d' % n, rng.normal(size=n) * 10 ** rng.uniform(-3, 3)


def period_sets(dt):
    yield np.array([0.2 * dt])
    yield np.array([2e4 * dt])
    yield [1.0 * dt]
    yield (0.0, 0.5 * dt, 7 * dt)
    yield np.array([0.0])
    yield np.array([0.0, 0.2 * dt, dt, 6 * dt, 20 * dt, 2e4 * dt])
    yield np.sort(dt * 10 ** rng.uniform(np.log10(0.2), np.log10(2e4), 9))
    yield dt * 10 ** rng.uniform(np.log10(0.2), np.log10(2e4), 4)  # unsorted
    yield np.array([3, 5, 40]) if dt >= 0.005 else np.array([1, 2])   # integer periods
    yield [0, 1, 2]
    yield np.array([0.0, 5 * dt, 50 * dt], dtype=np.float32)
    yield np.linspace(dt, 100 * dt, 12)[::2]  # non-contiguous view


def clone(x):
    if isinstance(x, np.ma.MaskedArray):
        return x.copy()
    if isinstance(x, np.ndarray):
        if not x.flags.writeable:
            return np.frombuffer(x.tobytes(), dtype=x.dtype)
        return x.copy()
    return type(x)(x) if isinstance(x, (list, tuple)) else x


def same_arg(p, r, what):
    if isinstance(p, np.ma.MaskedArray):
        assert isinstance(r, np.ma.MaskedArray) and np.array_equal(p.data, r.data) and np.array_equal(p.mask, r.mask), what
    else:
        same(p, r, what)


def compare_fn(fname, make_args, what, kw=False):
    args_o, args_n, keep = make_args(), make_args(), make_args()
    names = ('motion', 'dt', 'periods', 'xi')
    if kw:
        (ro, wo) = call(lambda: getattr(old_sdof, fname)(**dict(zip(names, args_o))))
        (rn, wn) = call(lambda: getattr(new_sdof, fname)(**dict(zip(names, args_n))))
    else:
        (ro, wo) = call(getattr(old_sdof, fname), *args_o)
        (rn, wn) = call(getattr(new_sdof, fname), *args_n)
    assert ro[0] == rn[0], (what, ro, rn)
    if ro[0] == 'ok':
        same(ro[1], rn[1], what)
        # the edited wrapper must not hand back anything that aliases its inputs
        for out in rn[1]:
            for arg in args_n:
                if isinstance(arg, np.ndarray):
                    assert not np.shares_memory(out, arg), what
    else:
        assert ro[1:] == rn[1:], (what, ro, rn)
    assert wo == wn, (what, wo, wn)
    for k, (p, q, r) in enumerate(zip(args_o, args_n, keep)):
        same_arg(p, r, what + ' arg%d (orig)' % k)
        same_arg(q, r, what + ' arg%d (new)' % k)


# ------------------------------------------------------------------ sdof.response_series
for name, rec in records():
    for dt in (0.001, 0.01, 0.025, 1.0, np.float64(0.02), 2):
        for periods in period_sets(float(dt)):
            for xi in (0.0, 0.05, rng.uniform(0, 1), 0.99, np.float64(0.3), 0):
                compare_fn('response_series', lambda: (clone(rec), dt, clone(periods), xi),
                           'response_series %s dt=%r T=%r xi=%r' % (name, dt, periods, xi))
            compare_fn('response_series', lambda: (clone(rec), dt, clone(periods), 0.05), 'keywords ' + name, kw=True)

# edited wrapper == the integrator it wraps (original one), i.e. the two entry points still agree
for name, rec in records():
    periods = np.array([0.0, 0.03, 0.4, 2.0])
    same(old_sdof.nigam_and_jennings_response(clone(rec), 0.01, periods, 0.05),
         new_sdof.response_series(clone(rec), 0.01, periods, 0.05), 'wrapper vs integrator ' + name)

rec = rng.normal(size=50)
for bad in (lambda: (rec.copy(), 0.01, 1.0, 0.05),            # scalar period
            lambda: (rec.copy(), 0.01, np.array([]), 0.05),    # no periods
            lambda: (rec.copy(), 0.01, [], 0.05),
            lambda: (rec.copy(), 'x', np.array([1.0]), 0.05),
            lambda: (rec.copy(), 0.01, np.array([1.0]), None),
            lambda: (np.array([]), 0.01, np.array([1.0]), 0.05),  # empty record
            lambda: ([], 0.01, np.array([1.0]), 0.05),
            lambda: (np.array([1.0]), 0.01, np.array([0.0, 1.0]), 0.05),  # one sample
            lambda: (3.0, 0.01, np.array([0.0, 1.0]), 0.05),  # scalar record
            lambda: (None, 0.01, np.array([1.0]), 0.05),
            lambda: ('abc', 0.01, np.array([1.0]), 0.05),
            lambda: (['a', 'b'], 0.01, np.array([1.0]), 0.05),
            lambda: ([[1.0, 2.0], [3.0]], 0.01, np.array([1.0]), 0.05),  # ragged
            lambda: (rec.copy(), 0.01, [[1.0, 2.0], [3.0]], 0.05),
            lambda: (rec.copy(), 0.01, None, 0.05),
            lambda: (rec.copy() + 1j, 0.01, np.array([1.0]), 0.05),  # complex record
            lambda: (rec.copy(), 0.01, np.array([1.0 + 0j]), 0.05),
            lambda: (rec.copy(), 0.01, np.array([-1.0, 1.0]), 0.05),
            lambda: (rec.copy(), 0.01, np.array([1.0, 0.0]), 0.05),   # zero not leading
            lambda: (rec.copy(), 0.01, np.array([0.0, 0.0, 1.0]), 0.05),
            lambda: (rec.copy(), 0.01, np.array([1.0]), 1.0),
            lambda: (rec.copy(), 0.01, np.array([np.nan, 1.0]), 0.05),
            lambda: (np.array([np.nan, 1.0, np.inf]), 0.01, np.array([1.0]), 0.05),
            lambda: (rec.reshape(5, 10).copy(), 0.01, np.array([1.0]), 0.05),  # 2-D record
            lambda: (rec.copy(), 0.01, np.array([[1.0, 2.0]]), 0.05),  # 2-D periods
            lambda: (rec.copy(), np.float64(0.01), np.array([1.0]), np.float32(0.05)),
            lambda: (rec.copy(), np.array(0.01), np.array([0.5, 1.0]), np.array([0.05]))):
    compare_fn('response_series', bad, 'malformed')
    compare_fn('response_series', bad, 'malformed kw', kw=True)

# ------------------------------------------------------------------ AccSignal.response_series: histories


def snapshot(obj):
    return dict(obj.__dict__)


def same_state(so, sn, what):
    assert sorted(so) == sorted(sn), what
    for k in so:
        x, y = so[k], sn[k]
        if isinstance(x, (np.ndarray, float, np.floating, tuple, list)):
            same(x, y, what + ' state ' + k)
        elif isinstance(x, dict):
            assert sorted(x) == sorted(y), (what, k)
            for kk in x:
                same(x[kk], y[kk], what + ' state %s[%r]' % (k, kk))
        else:
            assert x == y or x is y, (what, k, x, y)


def run_history(cls, rec, dt, steps, verbose):
    """steps: list of (method, kwargs-factory); returns the list of (result, state snapshot, stdout) after every step"""
    buf = io.StringIO()
    log = []
    with contextlib.redirect_stdout(buf):
        asig = cls(np.array(rec, dtype=float), dt, verbose=verbose,
                   response_times=np.array([0.0, 0.3 * dt, 0.1, 1.0, 4.0]))
    log.append((None, snapshot(asig), buf.getvalue()))
    passed = []
    for meth, make_kwargs in steps:
        kwargs = make_kwargs()
        passed.append(kwargs)
        buf = io.StringIO()
        with contextlib.redirect_stdout(buf):
            out, warns = call(lambda: getattr(asig, meth)(**kwargs))
        # the object stores exactly the object it was given (no copy) in both versions
        if out[0] == 'ok' and kwargs.get('response_times') is not None:
            assert asig.response_times is kwargs['response_times']
        log.append(((out, warns), snapshot(asig), buf.getvalue()))
    return log, passed, asig


def compare_history(rec, dt, steps, verbose, what):
    lo, po, ao = run_history(old_single.AccSignal, rec, dt, steps, verbose)
    ln, pn, an = run_history(new_single.AccSignal, rec, dt, steps, verbose)
    assert len(lo) == len(ln)
    for k, ((ro, so, to), (rn, sn, tn)) in enumerate(zip(lo, ln)):
        w = '%s step %d' % (what, k)
        assert to == tn, (w, to, tn)
        same_state(so, sn, w)
        if ro is None:
            continue
        (oo, wo), (on, wn) = ro, rn
        assert wo == wn, w
        assert oo[0] == on[0], (w, oo, on)
        if oo[0] == 'ok':
            if oo[1] is None:
                assert on[1] is None
            else:
                same(oo[1], on[1], w)
        else:
            assert oo[1:] == on[1:], (w, oo, on)
    # arguments handed over are left as they were
    fresh = [mk() for _, mk in steps]
    for k, (a, b, c) in enumerate(zip(po, pn, fresh)):
        assert sorted(a) == sorted(b) == sorted(c)
        for key in a:
            same_arg(a[key], c[key], what + ' passed (orig) %d %s' % (k, key))
            same_arg(b[key], c[key], what + ' passed (new) %d %s' % (k, key))
    # record untouched
    same(ao.values, an.values, what + ' values')
    same(an.values, np.array(rec, dtype=float), what + ' values unchanged')


def histories(dt):
    rs = 'response_series'
    yield 'defaults', [(rs, lambda: {}), (rs, lambda: {})]
    yield 'xi variants', [(rs, lambda: {'xi': 0.0}), (rs, lambda: {'xi': 0.2}), (rs, lambda: {'xi': -1}), (rs, lambda: {'xi': -1.0}),
                          (rs, lambda: {'xi': np.float64(-1)}), (rs, lambda: {'xi': 0.999}), (rs, lambda: {'xi': 0}),
                          (rs, lambda: {'xi': np.float64(0.1)}), (rs, lambda: {'xi': True}), (rs, lambda: {'xi': -0.999999})]
    yield 'times variants', [(rs, lambda: {'response_times': np.array([0.05, 0.5, 2.0])}),
                             (rs, lambda: {}),
                             (rs, lambda: {'response_times': [0.0, 0.4], 'xi': 0.1}),
                             (rs, lambda: {'xi': 0.3}),
                             (rs, lambda: {'response_times': (0.3,)}),
                             (rs, lambda: {'response_times': np.array([0, 1, 2])}),
                             (rs, lambda: {'response_times': np.array([0.0])}),
                             (rs, lambda: {'response_times': np.array([0.2 * dt, 2e4 * dt])}),
                             (rs, lambda: {'response_times': None, 'xi': -1})]
    yield 'with spectrum cache', [('gen_response_spectrum', lambda: {}),
                                  (rs, lambda: {}),
                                  ('gen_response_spectrum', lambda: {'xi': 0.1}),
                                  (rs, lambda: {'response_times': np.array([0.1, 0.2, 0.3])}),   # invalidates the cache flag
                                  ('gen_response_spectrum', lambda: {}),
                                  (rs, lambda: {'xi': 0.02}),
                                  ('clear_cache', lambda: {}),
                                  (rs, lambda: {})]
    yield 'cached xi changed', [(rs, lambda: {})]
    yield 'errors keep state', [(rs, lambda: {'response_times': 1.0}),      # scalar: raises, but attribute was set
                                (rs, lambda: {}),
                                (rs, lambda: {'response_times': np.array([])}),
                                (rs, lambda: {'response_times': np.array([0.5]), 'xi': 'a'}),
                                (rs, lambda: {'response_times': np.array([0.5]), 'xi': None}),
                                (rs, lambda: {'response_times': [[1.0, 2.0], [3.0]]}),
                                (rs, lambda: {'response_times': np.array([0.5]), 'xi': np.array([0.05])}),
                                (rs, lambda: {'response_times': np.array([0.5]), 'xi': np.array([-1])}),
                                (rs, lambda: {'response_times': np.array([0.5]), 'xi': np.array([0.05, 0.1])}),  # ambiguous truth value
                                (rs, lambda: {'response_times': np.array([0.5])})]


for name, rec in records():
    if isinstance(rec, np.ma.MaskedArray):
        continue
    for dt in (0.005, 0.02):
        for verbose in (0, 1):
            for hname, steps in histories(dt):
                compare_history(rec, dt, steps, verbose, 'AccSignal %s / %s dt=%r verbose=%d' % (name, hname, dt, verbose))

# positional call of the method, changed _cached_xi, default-constructed response_times
for cls_pair in [(old_single.AccSignal, new_single.AccSignal)]:
    outs = []
    for cls in cls_pair:
        asig = cls(np.sin(0.2 * np.arange(120)), 0.01)
        asig._cached_xi = 0.123
        r1 = asig.response_series()
        r2 = asig.response_series(np.array([0.0, 0.2, 0.7]), 0.4)
        r3 = asig.response_series(None, -1)
        outs.append((r1, r2, r3, snapshot(asig)))
    for k in range(3):
        same(outs[0][k], outs[1][k], 'positional %d' % k)
        assert isinstance(outs[1][k], tuple) and len(outs[1][k]) == 3
    same_state(outs[0][3], outs[1][3], 'positional')

print('equiv3: %d comparisons identical' % N_CHECKS[0])

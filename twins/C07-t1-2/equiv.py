"""
Equivalence check for twin2 (C07): eqsig/im.py bandwidth functions and eqsig/fns/frequency.py index range.

Run with twin2 applied, cwd = the worktree.  The ORIGINAL package is taken from git (HEAD) into a
temporary directory and imported side by side with the edited one.  Exit status 0 iff all comparisons match.
"""
import atexit
import io
import os
import shutil
import subprocess
import sys
import tarfile
import tempfile
import warnings

import numpy as np

WT = os.path.abspath(os.getcwd())


def _purge():
    for name in [m for m in sys.modules if m == 'eqsig' or m.startswith('eqsig.')]:
        del sys.modules[name]


def _load(root):
    """Import the eqsig package found under `root` and hand back its modules (removed from sys.modules again)."""
    _purge()
    sys.path.insert(0, root)
    try:
        import importlib
        pkg = importlib.import_module('eqsig')
        assert os.path.abspath(pkg.__file__).startswith(root + os.sep), (pkg.__file__, root)
        mods = {'eqsig': pkg}
        for sub in ('eqsig.fns.frequency', 'eqsig.single', 'eqsig.im'):
            mods[sub] = importlib.import_module(sub)
    finally:
        sys.path.remove(root)
        _purge()
    return mods


def load_both():
    tmp = tempfile.mkdtemp(prefix='c07_orig_', dir='/tmp')
    atexit.register(shutil.rmtree, tmp, True)
    blob = subprocess.check_output(['git', 'archive', 'HEAD', 'eqsig'], cwd=WT)
    tarfile.open(fileobj=io.BytesIO(blob)).extractall(tmp)
    new = _load(WT)
    old = _load(os.path.realpath(tmp))
    assert new['eqsig.fns.frequency'].__file__ != old['eqsig.fns.frequency'].__file__
    return old, new


N_CHECKS = [0]


def outcome(fn, *args, **kwargs):
    with warnings.catch_warnings():
        warnings.simplefilter('ignore')
        with np.errstate(all='ignore'):
            try:
                return 'ok', fn(*args, **kwargs)
            except Exception as exc:  # noqa
                return 'err', (type(exc).__name__, str(exc))


def same_value(a, b, where):
    if isinstance(a, tuple) or isinstance(b, tuple):
        assert type(a) is type(b) and len(a) == len(b), where
        for x, y in zip(a, b):
            same_value(x, y, where)
        return
    assert type(a) is type(b), (where, type(a), type(b))
    if isinstance(a, np.ndarray) or isinstance(a, np.generic):
        assert a.dtype == b.dtype, (where, a.dtype, b.dtype)
        assert np.shape(a) == np.shape(b), (where, np.shape(a), np.shape(b))
        if a.dtype.kind in 'fc':
            assert np.array_equal(a, b, equal_nan=True), (where, a, b)
        else:
            assert np.array_equal(a, b), (where, a, b)
    else:
        assert a == b, (where, a, b)


def compare(old_fn, new_fn, make_args, where):
    """make_args() -> (args, kwargs); called twice so that each side gets private copies"""
    args_o, kw_o = make_args()
    args_n, kw_n = make_args()
    keep_o, _ = make_args()
    res_o = outcome(old_fn, *args_o, **kw_o)
    res_n = outcome(new_fn, *args_n, **kw_n)
    assert res_o[0] == res_n[0], (where, res_o, res_n)
    if res_o[0] == 'err':
        assert res_o[1] == res_n[1], (where, res_o, res_n)
    else:
        same_value(res_o[1], res_n[1], where)
    # identical (non-)mutation of the arguments
    for x_o, x_n, x_k in zip(args_o, args_n, keep_o):
        if isinstance(x_k, np.ndarray):
            same_value(x_o, x_n, where + ' [arg]')
            same_value(x_o, x_k, where + ' [arg untouched]')
        elif isinstance(x_k, list):
            assert x_o == x_n == x_k, where
    N_CHECKS[0] += 1
    return res_o


STATE_ATTRS = ('_smooth_fa_spectrum', '_smooth_fa_freqs', '_cached_smooth_fa', '_cached_fa', '_fa_spectrum', '_fa_freqs',
               '_values', '_npts', '_smooth_freq_range')


def same_state(so, sn, where):
    for attr in STATE_ATTRS:
        same_value(getattr(so, attr), getattr(sn, attr), where + ' ' + attr)


class FakeSig(object):
    """Duck-typed signal with a prescribed smoothed spectrum; records the order of attribute reads."""

    def __init__(self, spectrum, freqs):
        self._s = spectrum
        self._f = freqs
        self.reads = []

    @property
    def smooth_fa_spectrum(self):
        self.reads.append('s')
        return self._s

    @property
    def smooth_fa_frequencies(self):
        self.reads.append('f')
        return self._f


def both(fo, fn, ao, an, where, **kw):
    ro, rn = outcome(fo, ao, **kw), outcome(fn, an, **kw)
    assert ro[0] == rn[0], (where, ro, rn)
    if ro[0] == 'ok':
        same_value(ro[1], rn[1], where)
    else:
        assert ro[1] == rn[1], (where, ro, rn)
    N_CHECKS[0] += 1
    return ro


def main():
    old, new = load_both()
    imo, imn = old['eqsig.im'], new['eqsig.im']
    fo, fn = old['eqsig.fns.frequency'], new['eqsig.fns.frequency']
    rng = np.random.default_rng(72)
    ratios = [0.707, 0.5, 0.1, 0.999, 1.0, 1.5, 0.0, -1.0, 1, np.float64(0.3), 1e-12]
    iratios = [15, 2, 1, 1.0001, 100, 0.5, 1e9, np.int64(3), -2]
    names = ('calc_bandwidth_freqs', 'calc_bandwidth_f_min', 'calc_bandwidth_f_max')

    # ---- prescribed spectra (ties, plateaus, zeros, NaN, integer dtype, lists, length 1) ----
    specs = []
    for n in (1, 2, 3, 7, 50, 61):
        f = np.logspace(-1, 1.5, n)
        specs.append((rng.uniform(0.0, 5.0, n), f))
        specs.append((np.abs(rng.standard_normal(n)) * 1e-300, f))
        specs.append((np.zeros(n), f))
        specs.append((np.ones(n) * 2.5, f))
        specs.append((rng.integers(0, 4, n), f))
        specs.append((rng.integers(0, 4, n).astype(float), np.arange(1, n + 1)))
        specs.append((np.sort(rng.uniform(0, 1, n)), f))
        specs.append((np.sort(rng.uniform(0, 1, n))[::-1], f))
        specs.append((-rng.uniform(0.1, 1, n), f))
        specs.append((rng.uniform(0.0, 5.0, n).astype(np.float32), f.astype(np.float32)))
        sp = rng.uniform(0.0, 5.0, n)
        sp[rng.integers(0, n)] = np.nan
        specs.append((sp, f))
        sp = rng.uniform(0.0, 5.0, n)
        sp[0] = np.nan
        specs.append((sp, f))
        sp = rng.uniform(0.0, 5.0, n)
        sp[-1] = np.inf
        specs.append((sp, f))
        specs.append((list(rng.uniform(0.0, 5.0, n)), f))
        specs.append((rng.uniform(0.0, 5.0, n), list(f)))
        specs.append((rng.uniform(0.0, 5.0, n), f[:-1]))
    specs.append((np.array([]), np.array([])))
    specs.append((np.array([0.0, 3.0, 3.0, 0.0, 3.0, 1.0]), np.array([1.0, 2, 3, 4, 5, 6])))
    specs.append((np.ones((3, 2)), np.ones(3)))
    for sp, f in specs:
        for ratio in ratios:
            for name in names:
                ao, an = FakeSig(sp, f), FakeSig(sp, f)
                where = '%s fake n=%d ratio=%r' % (name, len(sp), ratio)
                both(getattr(imo, name), getattr(imn, name), ao, an, where, ratio=ratio)
                assert ao.reads[:1] == an.reads[:1] == ['s'], where  # spectrum (cache fill) is read first
        for name in names:
            both(getattr(imo, name), getattr(imn, name), FakeSig(sp, f), FakeSig(sp, f), name + ' default ratio')
        for ratio in iratios:
            keep = sp.copy() if isinstance(sp, np.ndarray) else list(sp)
            both(fo.get_sig_freq_range, fn.get_sig_freq_range, FakeSig(sp, f), FakeSig(sp, f), 'sig_freq_range %r' % ratio,
                 ratio=ratio)
            both(fo.get_sig_array_indexes_range, fn.get_sig_array_indexes_range, sp, sp, 'indexes_range %r' % ratio, ratio=ratio)
            if isinstance(sp, np.ndarray):
                same_value(sp, keep, 'argument untouched')
            else:
                assert sp == keep, 'argument untouched'
        both(fo.get_sig_freq_range, fn.get_sig_freq_range, FakeSig(sp, f), FakeSig(sp, f), 'sig_freq_range default')
        both(fo.get_sig_array_indexes_range, fn.get_sig_array_indexes_range, sp, sp, 'indexes_range default')

    # ---- real Signal / AccSignal objects, multi-step histories ----
    def signals():
        for npts in (2, 3, 8, 100, 1024, 1500):
            yield rng.standard_normal(npts), 0.01
            t = np.arange(npts) * 0.02
            yield np.sin(2 * np.pi * 1.3 * t) + 0.3 * np.sin(2 * np.pi * 7.0 * t), 0.02
            yield np.zeros(npts), 0.01
            yield rng.integers(-3, 4, npts), 0.05
            yield list(rng.standard_normal(npts)), 0.005
            yield np.ones(npts), 0.1

    for vals, dt in signals():
        for cls_name in ('Signal', 'AccSignal'):
            for kw in ({}, {'smooth_freq_range': (0.05, 45.0)}, {'smooth_fa_freqs': [0.5, 1.0, 2.0, 4.0, 8.0]},
                       {'smooth_fa_freqs': np.array([3.0])}):
                mk = lambda mods: getattr(mods['eqsig.single'], cls_name)(np.array(vals).copy() if not isinstance(vals, list)
                                                                          else list(vals), dt, **kw)
                so, sn = mk(old), mk(new)
                where = '%s npts=%d dt=%g kw=%s' % (cls_name, len(vals), dt, sorted(kw))
                hist = [
                    ('bw', 0.707), ('fmin', 0.5), ('fmax', 0.5), ('rng', 15),
                    ('set_freqs', None), ('fmax', 0.707), ('bw', 0.9), ('rng', 3),
                    ('gen_grid', None), ('bw', 0.707), ('fmin', 0.2), ('idx', 15),
                    ('gen_band', 10), ('bw', 0.707), ('reset', None), ('fmin', 0.707), ('bw', 0.3), ('rng', 15),
                    ('by_range', None), ('bw', 1.0), ('fmax', 0.0), ('clear', None), ('bw', 0.707),
                ]
                for k, (op, arg) in enumerate(hist):
                    w = where + ' step %d %s' % (k, op)
                    for s, im_, fr in ((so, imo, fo), (sn, imn, fn)):
                        if op == 'bw':
                            r = outcome(im_.calc_bandwidth_freqs, s, ratio=arg)
                        elif op == 'fmin':
                            r = outcome(im_.calc_bandwidth_f_min, s, arg)
                        elif op == 'fmax':
                            r = outcome(im_.calc_bandwidth_f_max, s, arg)
                        elif op == 'rng':
                            r = outcome(fr.get_sig_freq_range, s, arg)
                        elif op == 'idx':
                            r = outcome(fr.get_sig_array_indexes_range, s.smooth_fa_spectrum, arg)
                        elif op == 'set_freqs':
                            r = outcome(setattr, s, 'smooth_fa_freqs', np.logspace(-0.5, 1.2, 23))
                        elif op == 'gen_grid':
                            r = outcome(s.gen_smooth_fa_spectrum, smooth_fa_freqs=s.fa_frequencies[1:])
                        elif op == 'gen_band':
                            r = outcome(s.gen_smooth_fa_spectrum, band=arg)
                        elif op == 'reset':
                            r = outcome(s.reset_values, np.asarray(s.values) * 3 + 1)
                        elif op == 'by_range':
                            r = outcome(s.set_smooth_fa_frequecies_by_range, (0.3, 12.0), 17)
                        elif op == 'clear':
                            r = outcome(s.clear_cache)
                        if s is so:
                            r_old = r
                    assert r_old[0] == r[0], (w, r_old, r)
                    if r_old[0] == 'ok':
                        if r_old[1] is not None:
                            same_value(r_old[1], r[1], w)
                            if op == 'bw' and np.all(np.isfinite(r[1])):
                                assert r[1][0] <= r[1][1], w
                    else:
                        assert r_old[1] == r[1], (w, r_old, r)
                    same_state(so, sn, w)
                    N_CHECKS[0] += 1

    print('equiv2: %d comparisons identical' % N_CHECKS[0])
    return 0


if __name__ == '__main__':
    sys.exit(main())

"""Equivalence program: original (git HEAD) vs edited (working tree) eqsig.fns.time_step.

Run with cwd = the worktree:
    PYTHONPATH=$PWD python out/equiv1.py
Exits 0 iff every case gives identical observations in both versions.
"""
import os
import pickle
import subprocess
import sys
import tempfile
import tarfile
import io

WORKER = r'''
import sys, pickle, warnings, copy
import numpy as np

out_path = sys.argv[1]
import eqsig
import eqsig.fns
import eqsig.fns.time_step as ts
from eqsig.fns.time_step import interp_array_to_approx_dt, interp_to_approx_dt, resample_to_approx_dt


def enc(x):
    """Bit-exact, picklable description of a value."""
    if isinstance(x, np.ndarray):
        if x.dtype == object:
            return ('ndarray-obj', x.shape, repr(x.tolist()))
        return ('ndarray', str(x.dtype), x.shape, np.ascontiguousarray(x).tobytes())
    if isinstance(x, np.generic):
        return ('npscalar', str(x.dtype), x.tobytes())
    if isinstance(x, (list, tuple)):
        return (type(x).__name__, [enc(v) for v in x])
    if isinstance(x, eqsig.AccSignal):
        return ('AccSignal', enc(x.values), enc(x.dt), enc(x.npts), enc(x.time), repr(x.label))
    if isinstance(x, float):
        return ('float', x.hex() if x == x and abs(x) != float('inf') else repr(x))
    return (type(x).__name__, repr(x))


def observe(fn):
    with warnings.catch_warnings(record=True) as w:
        warnings.simplefilter('always')
        try:
            res = ('ok', enc(fn()))
        except Exception as e:  # noqa
            res = ('exc', type(e).__name__, str(e))
    ws = sorted(set((x.category.__name__, str(x.message)) for x in w))
    return res, ws


rng = np.random.RandomState(20240914)
results = []

# namespace seen through the public API
results.append(('names_fns', sorted(n for n in dir(eqsig.fns) if not n.startswith('_'))))
results.append(('names_ts', sorted(n for n in dir(ts) if not n.startswith('_'))))
results.append(('names_eqsig', sorted(n for n in dir(eqsig) if not n.startswith('_'))))
import inspect
for f in (interp_array_to_approx_dt, interp_to_approx_dt, resample_to_approx_dt):
    results.append(('sig', f.__name__, str(inspect.signature(f)), f.__doc__))

base_dts = [0.01, 0.005, 0.02, 0.1, 0.025, 1.0 / 3, 0.003, 0.007, 0.0123, 1.0, 2.0, 0.5, 0.04, 0.2,
            1e-4, 3.0, 0.015, 0.03, 0.06, 0.07, 0.09, 0.011, 0.0099999999999, 0.0100000000001]
pairs = []
for a in base_dts:
    for b in base_dts:
        pairs.append((a, b))
# ratios whose float quotient lands next to an integer
for k in range(1, 40):
    for t in (0.01, 0.005, 0.003, 0.007, 0.1, 1.0 / 3, 0.0123):
        for nudge in (0, 1, -1, 2, -2):
            d = k * t
            for _ in range(abs(nudge)):
                d = np.nextafter(d, np.inf if nudge > 0 else -np.inf)
            pairs.append((float(d), t))
            pairs.append((t, float(d)))
# random non-commensurate
for _ in range(700):
    a = float(10 ** rng.uniform(-3, 0.3))
    b = float(10 ** rng.uniform(-3, 0.3))
    pairs.append((a, b))
# typed variants
typed = []
for a, b in [(0.01, 0.004), (0.02, 0.02), (0.004, 0.01), (0.03, 0.01), (0.01, 0.03)]:
    typed += [(np.float64(a), b), (a, np.float64(b)), (np.float32(a), np.float32(b)), (np.float64(a), np.float64(b)),
              (np.float32(a), b), (a, np.float32(b))]
typed += [(1, 1), (2, 1), (1, 2), (3, 2), (2, 3), (1, 3), (7, 2), (np.int64(2), np.int64(1)), (np.int64(1), np.int64(4)),
          (np.int32(3), 2), (True, 1), (1, True), (2, 0.5), (0.5, 2)]
pairs += typed

lengths = [0, 1, 2, 3, 4, 5, 7, 8, 16, 17, 31, 50, 100, 101, 257]
evens = [True, False]


def make_values(n, kind):
    if kind == 'f':
        return rng.standard_normal(n)
    if kind == 'i':
        return rng.randint(-50, 50, size=n)
    if kind == 'list':
        return [float(v) for v in rng.standard_normal(n)]
    if kind == 'ilist':
        return [int(v) for v in rng.randint(-9, 9, size=n)]
    if kind == 'tuple':
        return tuple(float(v) for v in rng.standard_normal(n))
    if kind == 'f32':
        return rng.standard_normal(n).astype(np.float32)
    if kind == 'const':
        return np.full(n, 2.5)
    if kind == 'nan':
        v = rng.standard_normal(n)
        if n:
            v[n // 2] = np.nan
        if n > 3:
            v[1] = np.inf
        return v
    if kind == 'cplx':
        return rng.standard_normal(n) + 1j * rng.standard_normal(n)
    if kind == 'strided':
        return rng.standard_normal(2 * n)[::2]
    if kind == 'bool':
        return rng.randint(0, 2, size=n).astype(bool)
    raise ValueError(kind)


kinds = ['f', 'i', 'list', 'ilist', 'tuple', 'f32', 'const', 'nan', 'cplx', 'strided', 'bool']

# --- array-level: every pair, cycling lengths / kinds / even ---
ci = 0
for (dt, tdt) in pairs:
    for rep in range(2):
        n = lengths[ci % len(lengths)]
        kind = kinds[(ci // 3) % len(kinds)]
        even = evens[(ci + rep) % 2]
        ci += 1
        vals = make_values(n, kind)
        before = copy.deepcopy(vals)
        r = observe(lambda: interp_array_to_approx_dt(vals, dt, tdt, even))
        results.append(('arr', repr(dt), repr(tdt), n, kind, even, r, enc(vals), enc(before) == enc(vals)))

# keyword / default forms
v = rng.standard_normal(40)
results.append(('kw1', observe(lambda: interp_array_to_approx_dt(v, 0.02))))
results.append(('kw2', observe(lambda: interp_array_to_approx_dt(values=v, dt=0.02, even=False))))
results.append(('kw3', observe(lambda: interp_array_to_approx_dt(v, dt=0.004, target_dt=0.01))))
results.append(('kw4', observe(lambda: interp_array_to_approx_dt(v, 0.01))))

# odd option values and failure modes
weird_even = [0, 1, None, 'yes', '', 2, 0.0, np.bool_(True), np.bool_(False), [], [0]]
for e in weird_even:
    for (dt, tdt) in [(0.02, 0.007), (0.007, 0.02), (0.01, 0.01), (0.03, 0.01)]:
        for n in (0, 1, 9, 10):
            vals = rng.standard_normal(n)
            results.append(('weird_even', repr(e), dt, tdt, n,
                            observe(lambda: interp_array_to_approx_dt(vals, dt, tdt, e))))
bad_pairs = [(0.01, 0), (0.01, 0.0), (np.float64(0.01), 0.0), (0.0, 0.01), (0.0, 0.0), (np.float64(0), np.float64(0)),
             (-0.01, 0.01), (0.01, -0.01), (-0.02, -0.01), (-0.01, -0.02), (float('nan'), 0.01), (0.01, float('nan')),
             (float('inf'), 0.01), (0.01, float('inf')), (np.float64('inf'), 0.01), ('a', 0.01), (0.01, 'a'), (None, 0.01),
             (0.01, None), (1e308, 1e-308), (1e-308, 1e308), (5e-324, 1.0), (1.0, 5e-324), (np.array([0.01, 0.02]), 0.01),
             (np.array([0.02]), 0.01), (np.array(0.02), 0.01), (0.01, np.array([0.02])), (1 + 1j, 1), (2, 0), (0, 2)]
for (dt, tdt) in bad_pairs:
    for e in (True, False):
        for vals in (rng.standard_normal(6), [1, 2, 3], 5, None, np.zeros((3, 2)), np.zeros(0), 'abc', np.float64(3.0)):
            results.append(('bad', repr(dt), repr(tdt), e, repr(type(vals)),
                            observe(lambda: interp_array_to_approx_dt(vals, dt, tdt, e))))
for vals in (np.zeros((4, 3)), np.zeros((4, 1)), 5, None, 'abcd', {1: 2, 3: 4}, range(6), np.array(['a', 'b']),
             [[1, 2], [3, 4]], [1, 'a']):
    for (dt, tdt) in [(0.02, 0.01), (0.01, 0.02), (0.01, 0.01)]:
        for e in (True, False):
            results.append(('badvals', repr(type(vals)), dt, tdt, e,
                            observe(lambda: interp_array_to_approx_dt(vals, dt, tdt, e))))

# --- object-level: interp_to_approx_dt / resample_to_approx_dt ---
obj_pairs = pairs[::7] + typed
ci = 0
for (dt, tdt) in obj_pairs:
    n = lengths[ci % len(lengths)]
    kind = ['f', 'i', 'list', 'f32', 'const', 'strided'][ci % 6]
    even = evens[(ci // 2) % 2]
    ci += 1
    vals = make_values(n, kind)
    r0 = observe(lambda: eqsig.AccSignal(vals, dt))
    results.append(('mk', repr(dt), n, kind, r0))
    if r0[0][0] != 'ok':
        continue
    asig = eqsig.AccSignal(vals, dt)
    st0 = enc(asig)
    r1 = observe(lambda: interp_to_approx_dt(asig, tdt, even))
    st1 = enc(asig)
    r2 = observe(lambda: resample_to_approx_dt(asig, tdt, even))
    st2 = enc(asig)
    r3 = observe(lambda: interp_to_approx_dt(asig, target_dt=tdt, even=not even))
    r4 = observe(lambda: resample_to_approx_dt(asig, target_dt=tdt, even=not even))
    st3 = enc(asig)
    results.append(('obj', repr(dt), repr(tdt), n, kind, even, r1, r2, r3, r4, st0 == st1, st1 == st2, st2 == st3, st3, enc(vals)))

# defaults on objects, chained histories
for n in (20, 21, 64, 99):
    for dt in (0.02, 0.01, 0.005, 0.013):
        asig = eqsig.AccSignal(rng.standard_normal(n), dt, label='rec')

        def chain():
            a1 = interp_to_approx_dt(asig)
            a2 = resample_to_approx_dt(a1, 0.03, even=False)
            a3 = interp_to_approx_dt(a2, 0.004, even=False)
            a4 = resample_to_approx_dt(a3)
            a5 = resample_to_approx_dt(a4, a4.dt)
            a6 = interp_to_approx_dt(a5, a5.dt * 2.5)
            return [a1, a2, a3, a4, a5, a6, asig]
        results.append(('chain', n, dt, observe(chain)))

# band-limited periodic signal through resample
for n in (32, 64, 100):
    t = np.arange(n) * 0.02
    sig = np.sin(2 * np.pi * 2 * t / (n * 0.02)) + 0.3 * np.cos(2 * np.pi * 3 * t / (n * 0.02))
    asig = eqsig.AccSignal(sig, 0.02)
    for tdt in (0.005, 0.01, 0.02, 0.04, 0.07, 0.0033):
        for e in (True, False):
            results.append(('bandlim', n, tdt, e, observe(lambda: resample_to_approx_dt(asig, tdt, e))))

# bad objects
class Fake(object):
    def __init__(self, values, dt, npts=None):
        self.values = values
        self.dt = dt
        if npts is not None:
            self.npts = npts

for obj in (None, 5, Fake(np.arange(10.0), 0.02), Fake(np.arange(10.0), 0.02, 10), Fake(np.arange(10.0), 0.02, 7),
            Fake([1.0, 2.0, 3.0, 4.0], 0.01, 4), Fake(np.arange(6.0), 0, 6), Fake(np.arange(6.0), 'x', 6)):
    for tdt in (0.01, 0.005, 0.03, 0, 'q'):
        for e in (True, False):
            results.append(('fake_i', repr(type(obj)), repr(tdt), e, observe(lambda: interp_to_approx_dt(obj, tdt, e))))
            results.append(('fake_r', repr(type(obj)), repr(tdt), e, observe(lambda: resample_to_approx_dt(obj, tdt, e))))

# access order on failure: record which attributes get touched, in order
class Spy(object):
    def __init__(self, log, missing=()):
        object.__setattr__(self, '_log', log)
        object.__setattr__(self, '_missing', missing)

    def __getattr__(self, name):
        self._log.append(name)
        if name in self._missing:
            raise AttributeError(name)
        return {'dt': 0.02, 'npts': 12, 'values': np.arange(12.0)}[name]

for missing in ((), ('dt',), ('npts',), ('values',), ('dt', 'npts')):
    for tdt in (0.01, 0.05, 0.02, 0):
        for e in (True, False):
            log = []
            r = observe(lambda: resample_to_approx_dt(Spy(log, missing), tdt, e))
            results.append(('spy_r', missing, tdt, e, r, list(log)))
            log = []
            r = observe(lambda: interp_to_approx_dt(Spy(log, missing), tdt, e))
            results.append(('spy_i', missing, tdt, e, r, list(log)))

# --- consumer: response spectrum path (uses interp_array_to_approx_dt(even=False)) ---
for n, dt in ((200, 0.02), (151, 0.01), (120, 0.05), (90, 0.013)):
    acc = rng.standard_normal(n)
    for rts in (np.array([0.1, 0.5, 1.0]), np.array([0.0, 0.03, 0.3]), np.array([0.05, 2.0]), np.array([1.0, 2.0])):
        for ratio in (4, 1, 7.3):
            def spec():
                a = eqsig.AccSignal(acc, dt)
                a.gen_response_spectrum(response_times=rts, min_dt_ratio=ratio)
                return [a.s_a, a.s_v, a.s_d, a.values, a.dt]
            results.append(('spectrum', n, dt, repr(rts), ratio, observe(spec)))

with open(out_path, 'wb') as f:
    pickle.dump(results, f, protocol=2)
'''


def run_worker(pkg_root, tmpdir, tag):
    wpath = os.path.join(tmpdir, 'worker_%s.py' % tag)
    with open(wpath, 'w') as f:
        f.write(WORKER)
    opath = os.path.join(tmpdir, 'res_%s.pkl' % tag)
    env = dict(os.environ)
    env['PYTHONPATH'] = pkg_root
    env['PYTHONDONTWRITEBYTECODE'] = '1'
    env['PYTHONHASHSEED'] = '0'
    p = subprocess.run([sys.executable, wpath, opath], cwd=tmpdir, env=env,
                       stdout=subprocess.PIPE, stderr=subprocess.PIPE)
    if p.returncode != 0:
        sys.stderr.write(p.stderr.decode()[-4000:])
        raise SystemExit('worker %s failed' % tag)
    with open(opath, 'rb') as f:
        return pickle.load(f)


def main():
    wt = os.getcwd()
    with tempfile.TemporaryDirectory() as tmpdir:
        orig_root = os.path.join(tmpdir, 'orig')
        os.makedirs(orig_root)
        data = subprocess.check_output(['git', 'archive', 'HEAD', 'eqsig'], cwd=wt)
        tarfile.open(fileobj=io.BytesIO(data)).extractall(orig_root)
        # edited: copy of the working tree package, so both run from a neutral cwd
        edit_root = os.path.join(tmpdir, 'edit')
        os.makedirs(edit_root)
        import shutil
        shutil.copytree(os.path.join(wt, 'eqsig'), os.path.join(edit_root, 'eqsig'),
                        ignore=shutil.ignore_patterns('__pycache__', '*.pyc'))
        a = run_worker(orig_root, tmpdir, 'orig')
        b = run_worker(edit_root, tmpdir, 'edit')
    bad = 0
    if len(a) != len(b):
        print('different number of records: %d vs %d' % (len(a), len(b)))
        bad += 1
    n_ok = n_exc = 0
    for i, (x, y) in enumerate(zip(a, b)):
        if x != y:
            bad += 1
            if bad <= 10:
                print('MISMATCH at record %d: %r' % (i, x[:6]))
                print('   orig: %.300r' % (x,))
                print('   edit: %.300r' % (y,))
        s = repr(x)
        if "('exc'" in s:
            n_exc += 1
        else:
            n_ok += 1
    print('%d records compared (%d containing an exception), %d mismatches' % (len(a), n_exc, bad))
    sys.exit(1 if bad else 0)


if __name__ == '__main__':
    main()

"""
Equivalence check for twin1 (private _RisingCleanedSeries class in eqsig/fns/peaks_and_crossings.py).

Run with twin1 applied and cwd = the worktree:  /venv/bin/python out/equiv1.py
The ORIGINAL package is extracted from git HEAD into a temporary directory and exercised in a
subprocess; the EDITED package (cwd) is exercised in another subprocess; results are compared
bit-for-bit (type, dtype, shape, bytes), including exceptions and post-call state of the arguments.
"""
import os
import pickle
import shutil
import subprocess
import sys
import tempfile

import numpy as np

FUNCS = ['determine_peaks_only_delta_series', 'determine_pseudo_cyclic_peak_only_series']


def build_cases():
    rng = np.random.RandomState(1313)
    cases = []

    def add(label, v):
        cases.append((label, v))

    # hand-written edge cases
    add('doc', np.array([0, 2, 1, 2, 0, 1, 0, -1, 0, 1, 0]))
    add('doc_float', np.array([0, 2, 1, 2, 0.3, 1, 0.3, -1, 0.4, 1, 0]))
    add('doc_list', [0, 2, 1, 2, 0, 1, 0, -1, 0, 1, 0])
    add('doc_tuple', (0, 2, 1, 2, 0, 1, 0, -1, 0, 1, 0))
    add('list_float', [0.5, 2.0, 1.0, 1.0, -3.0])
    add('len2_up', np.array([1.0, 2.0]))
    add('len2_down', np.array([2.0, 1.0]))
    add('len2_int', np.array([5, -7]))
    add('len2_list', [3, 4])
    add('len3_peak', np.array([0.0, 1.0, 0.0]))
    add('len3_mono', np.array([0.0, 1.0, 2.0]))
    add('len3_plateau_first', np.array([1.0, 1.0, 2.0]))
    add('len3_plateau_last', np.array([1.0, 2.0, 2.0]))
    add('lead_plateau_down', np.array([4.0, 4.0, 4.0, 1.0, 3.0, 3.0, -2.0]))
    add('int_lead_plateau_down', np.array([4, 4, 4, 1, 3, 3, -2]))
    add('mono_up', np.arange(10.0))
    add('mono_down', -np.arange(10))
    add('offset_big', 1.0e6 + np.array([0.0, 0.25, -0.5, 0.125, 0.125, 3.0]))
    add('offset_neg_int', -100 + np.array([0, 3, 3, 1, 7, 7, 7, -2, 0]))
    add('float32', np.array([0.0, 1.5, -0.5, 0.25, 0.25, 2.0], dtype=np.float32))
    add('int32', np.array([3, 1, 4, 1, 5, 9, 2, 6, 5, 3, 5], dtype=np.int32))
    add('int16', np.array([3, 1, 4, 1, 5, 9, 2, 6, 5, 3, 5], dtype=np.int16))
    add('zeros_then_move', np.array([0.0, 0.0, 0.0, 0.0, -1.0, 0.0, 0.0, 1.0]))
    add('returns_to_start', np.array([2.0, 5.0, 2.0, 2.0, -1.0, 2.0]))
    add('neg_zero', np.array([-0.0, 1.0, -0.0, 0.0, -1.0, 0.0]))
    add('sine', np.sin(np.linspace(0, 20, 333)))
    add('neg_sine_offset', 3.0 - np.sin(np.linspace(0, 20, 333)))
    add('noncontig', np.sin(np.linspace(0, 30, 400))[::3])
    add('reversed_view', np.cumsum(rng.randn(50))[::-1])
    # out of the property's domain, but the exceptions should match too
    add('constant', np.array([2.0, 2.0, 2.0]))
    add('single', np.array([2.0]))
    add('empty', np.array([]))

    # random cases
    for i in range(400):
        n = int(rng.randint(2, 120))
        kind = i % 8
        if kind == 0:
            v = rng.randn(n)
        elif kind == 1:
            v = rng.randint(-5, 6, size=n)
        elif kind == 2:
            v = np.round(rng.randn(n), 0)  # many plateaus, float
        elif kind == 3:
            v = np.repeat(rng.randn(n), rng.randint(1, 4, size=n))  # plateaus of random length
        elif kind == 4:
            v = rng.randn(n) + rng.uniform(-1000, 1000)
        elif kind == 5:
            v = list(rng.randint(-3, 4, size=n))  # list of numpy ints
        elif kind == 6:
            v = [float(x) for x in np.round(rng.randn(n), 1)]
        else:
            v = np.cumsum(rng.randint(-2, 3, size=n)) + int(rng.randint(-50, 50))
        add('rand%i' % i, v)
    return cases


def describe(obj):
    """Turn a result into something picklable and exactly comparable"""
    if isinstance(obj, np.ndarray):
        return ('ndarray', type(obj).__name__, str(obj.dtype), obj.shape, np.ascontiguousarray(obj).tobytes())
    if isinstance(obj, np.generic):
        return ('npscalar', type(obj).__name__, obj.tobytes())
    if isinstance(obj, (list, tuple)):
        return (type(obj).__name__, [describe(o) for o in obj])
    return (type(obj).__name__, repr(obj))


def worker(pkg_root, out_path):
    sys.path.insert(0, pkg_root)
    import eqsig
    assert os.path.abspath(eqsig.__file__).startswith(os.path.abspath(pkg_root) + os.sep), eqsig.__file__
    import copy
    import warnings
    from eqsig.fns import peaks_and_crossings as pc
    results = {}
    with warnings.catch_warnings():
        warnings.simplefilter('ignore')
        for label, v in build_cases():
            for fname in FUNCS:
                arg = copy.deepcopy(v)
                try:
                    out = ('ok', describe(getattr(pc, fname)(arg)))
                except Exception as e:  # compare exception type and message
                    out = ('exc', type(e).__name__, str(e))
                # the argument after the call (mutation behaviour) and aliasing with the input
                results[(label, fname)] = (out, describe(arg))
            # the result must not alias the input array
            if isinstance(v, np.ndarray) and len(v) > 1 and not np.all(v == v[0]):
                arg = v.copy()
                res = pc.determine_peaks_only_delta_series(arg)
                results[(label, 'alias')] = bool(np.shares_memory(res, arg))
    with open(out_path, 'wb') as f:
        pickle.dump(results, f)


def main():
    here = os.getcwd()
    assert os.path.isdir(os.path.join(here, 'eqsig')), 'run with cwd = the worktree'
    tmp = tempfile.mkdtemp(prefix='c13_equiv1_', dir='/tmp')
    try:
        orig_root = os.path.join(tmp, 'orig')
        os.mkdir(orig_root)
        subprocess.check_call('git archive HEAD eqsig | tar -x -C "%s"' % orig_root, shell=True, cwd=here)
        outs = {}
        for tag, root in (('orig', orig_root), ('edit', here)):
            out_path = os.path.join(tmp, tag + '.pkl')
            env = dict(os.environ)
            env.pop('PYTHONPATH', None)
            subprocess.check_call([sys.executable, os.path.abspath(__file__), '--worker', root, out_path],
                                  cwd=root, env=env)
            with open(out_path, 'rb') as f:
                outs[tag] = pickle.load(f)
        assert outs['orig'].keys() == outs['edit'].keys()
        n_bad = 0
        n_exc = 0
        for key in outs['orig']:
            if outs['orig'][key] != outs['edit'][key]:
                n_bad += 1
                print('MISMATCH', key)
            elif isinstance(outs['orig'][key], tuple) and outs['orig'][key][0][0] == 'exc':
                n_exc += 1
        print('%i comparisons (%i of them matching exceptions), %i mismatches' % (len(outs['orig']), n_exc, n_bad))
        return 1 if n_bad else 0
    finally:
        shutil.rmtree(tmp, ignore_errors=True)


if __name__ == '__main__':
    if len(sys.argv) > 1 and sys.argv[1] == '--worker':
        worker(sys.argv[2], sys.argv[3])
    else:
        sys.exit(main())

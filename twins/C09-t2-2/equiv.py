"""
Equivalence check for twin 2 of C09 (run with the twin applied, cwd = the worktree).

The ORIGINAL package is taken from git (`git archive HEAD eqsig`) and unpacked under /tmp; the same
deterministic battery of calls is then run in two sub-processes - one importing the original package, one
importing the edited package in the worktree - and the pickled outcomes (returned arrays incl. dtype and
shape, exceptions, mutation of the argument arrays, full object state after every step) are compared for
exact equality.

Exit status 0 iff everything matches.
"""
import os
import pickle
import subprocess
import sys
import tempfile

import numpy as np

FOCUS = ("calc_cav_dp",)

WORKER = r'''
import sys, pickle, warnings
root, out_path = sys.argv[1], sys.argv[2]
sys.path.insert(0, root)
import numpy as np
import eqsig
from eqsig import im
assert eqsig.__file__.startswith(root), (eqsig.__file__, root)
warnings.simplefilter("ignore")

FUNS = ["calc_arias_intensity", "calc_cav", "calc_cav_dp", "calc_isv", "calc_integral_of_abs_velocity",
        "calc_integral_of_abs_acceleration", "calc_unit_kinetic_energy", "calc_cumulative_abs_displacement"]


def freeze(v):
    if isinstance(v, np.ndarray):
        if v.dtype == np.longdouble and v.dtype.itemsize > 8:
            # x87 long doubles carry undefined padding bytes: compare them as an exact (high, low) double pair
            with np.errstate(all="ignore"):
                hi = v.astype(np.float64)
                lo = np.where(np.isfinite(hi), v - hi, 0).astype(np.float64)
            return ("nd-longdouble", str(v.dtype), v.shape, hi.tobytes(), lo.tobytes())
        return ("nd", str(v.dtype), v.shape, v.tobytes())
    if isinstance(v, np.generic):
        return ("npscalar", str(v.dtype), v.tobytes())
    if isinstance(v, dict):
        return ("dict", tuple((k, freeze(v[k])) for k in sorted(v, key=str)))
    if isinstance(v, (list, tuple)):
        return (type(v).__name__, tuple(freeze(a) for a in v))
    if isinstance(v, (int, float, str, bool, type(None))):
        return (type(v).__name__, repr(v))
    return ("obj", type(v).__name__)


def state(asig):
    return freeze(dict(asig.__dict__))


def call(fn, *args):
    try:
        return ("ok", freeze(fn(*args)))
    except Exception as e:  # noqa
        return ("err", type(e).__name__, str(e))


records = []


def log(tag, payload):
    records.append((tag, payload))


def battery(tag, values, dt, funs=FUNS):
    """every measure on a fresh object, then a multi-step history on one object"""
    for name in funs:
        try:
            asig = eqsig.AccSignal(values, dt)
        except Exception as e:  # noqa
            log((tag, name, "ctor"), ("err", type(e).__name__, str(e)))
            continue
        keep = asig.values
        before = freeze(keep)
        res = call(getattr(im, name), asig)
        log((tag, name, "fresh"), (res, before == freeze(keep), keep is asig.values, state(asig)))
    # history: all measures one after the other on one object, twice, with state after every step
    try:
        asig = eqsig.AccSignal(values, dt)
    except Exception:
        return
    for rnd in range(2):
        for name in funs:
            res = call(getattr(im, name), asig)
            log((tag, name, "hist", rnd), (res, state(asig)))
    # history with velocity pre-computed / values replaced / object corrected
    asig = eqsig.AccSignal(values, dt)
    try:
        asig.generate_displacement_and_velocity_series(trap=False)
    except Exception:
        pass
    for name in funs:
        res = call(getattr(im, name), asig)
        log((tag, name, "trapFalse"), (res, state(asig)))
    try:
        asig.reset_values(np.asarray(asig.values)[::-1] * 2)
        for name in funs:
            res = call(getattr(im, name), asig)
            log((tag, name, "afterreset"), (res, state(asig)))
        asig.rebase_displacement()
        for name in funs:
            res = call(getattr(im, name), asig)
            log((tag, name, "afterrebase"), (res, state(asig)))
    except Exception as e:  # noqa
        log((tag, "history-ops"), ("err", type(e).__name__))


rng = np.random.RandomState(20260926)

# ---- random records, many lengths and time steps
dts = [0.01, 0.005, 0.02, 0.1, 0.05, 0.2, 0.25, 0.5, 1.0, 1, 1. / 3, 0.0123, 0.004, 2.0]
for n in [1, 2, 3, 4, 5, 10, 37, 100, 201, 1000, 2001]:
    for dt in dts:
        vals = rng.randn(n) * rng.choice([0.05, 0.3, 3.0])
        battery(("rand", n, repr(dt)), vals, dt)

# ---- amplitude-modulated records around the 0.025 g gate, at least two seconds long
for k in range(40):
    dt = [0.01, 0.005, 0.02, 0.1, 0.05, 0.2, 0.25, 0.5, 1.0, 0.004, 0.008, 0.001][k % 12]
    dur = rng.uniform(2.0, 12.0)
    n = int(dur / dt) + rng.randint(1, 4)
    t = np.arange(n) * dt
    env = np.abs(np.sin(2 * np.pi * t / rng.uniform(1.5, 6.0)))
    vals = env * rng.randn(n) * rng.choice([0.1, 0.2, 0.3, 0.6, 2.0])
    battery(("gate", k, repr(dt), n), vals, dt)
    alpha = rng.choice([-1.0, 2.0, -0.5, 3.7, 1e-3, 1e3])
    battery(("gate-scaled", k, repr(dt), n, alpha), alpha * vals, dt)
    pad = rng.randint(0, 3 * int(1 / dt) + 2)
    padded = np.concatenate((vals[:-1], [0.0], np.zeros(pad)))
    battery(("gate-padded", k, repr(dt), n, pad), padded, dt)
    # exact record lengths of a whole number of seconds (+-1 sample)
    pps = int(1 / dt)
    for extra in (-1, 0, 1):
        m = 3 * pps + 1 + extra
        battery(("gate-whole", k, repr(dt), extra), vals[:m] if m <= n else np.resize(vals, m), dt)

# ---- edge cases
edge = {
    "zeros": np.zeros(300),
    "zeros-int": np.zeros(300, dtype=int),
    "ones-int": np.ones(300, dtype=int),
    "int": rng.randint(-5, 6, size=300),
    "int32": rng.randint(-5, 6, size=300).astype(np.int32),
    "int8": rng.randint(-5, 6, size=300).astype(np.int8),
    "uint8": rng.randint(0, 6, size=300).astype(np.uint8),
    "bool": rng.rand(300) > 0.5,
    "float32": rng.randn(300).astype(np.float32),
    "float32-small": (rng.randn(300) * 0.2).astype(np.float32),
    "float16": rng.randn(300).astype(np.float16),
    "float16-small": (rng.randn(300) * 0.2).astype(np.float16),
    "longdouble": rng.randn(300).astype(np.longdouble),
    "list": list(rng.randn(300)),
    "list-int": [int(v) for v in rng.randint(-3, 4, size=300)],
    "tuple": tuple(rng.randn(250)),
    "negative": -np.abs(rng.randn(300)),
    "positive": np.abs(rng.randn(300)),
    "tiny": rng.randn(300) * 1e-200,
    "subnormal": rng.randn(300) * 1e-310,
    "huge": rng.randn(300) * 1e150,
    "overflow": rng.randn(300) * 1e200,
    "negzero": -np.zeros(300),
    "constant": np.full(300, 0.3),
    "at-gate": np.full(300, 0.025 * 9.81),
    "below-gate": np.full(300, 0.025 * 9.81 * (1 - 1e-12)),
    "spike": np.concatenate((np.zeros(150), [5.0], np.zeros(149))),
    "single": np.array([1.5]),
    "single-zero": np.array([0.0]),
    "pair": np.array([1.0, -2.0]),
    "noncontig": rng.randn(600)[::2],
    "fortran-col": np.asfortranarray(rng.randn(300, 2))[:, 0],
    "with-nan": np.concatenate((rng.randn(100), [np.nan], rng.randn(199))),
    "with-inf": np.concatenate((rng.randn(100), [np.inf], rng.randn(199))),
    "two-d": rng.randn(3, 120),
}
for key, vals in edge.items():
    for dt in [0.01, 0.1, 0.5, 1, 1.0]:
        battery(("edge", key, repr(dt)), vals, dt)
try:
    battery(("edge", "empty", "0.01"), np.array([]), 0.01)
except Exception as e:  # noqa
    log(("edge", "empty", "outer"), ("err", type(e).__name__))

# ---- the raw Arias helper (also used on 2-D response series) and the cumulative response spectra
for k in range(12):
    n = [1, 2, 5, 50, 400][k % 5]
    for arr in (rng.randn(n), rng.randn(3, n), rng.randn(2, 3, n), rng.randint(-4, 5, size=n),
                rng.randint(-4, 5, size=(4, n)), rng.randn(n).astype(np.float32)):
        for dt in (0.01, 0.5, 1, np.float64(0.02), np.float32(0.02)):
            keep = arr.copy()
            res = call(im._raw_calc_arias_intensity, arr, dt)
            log(("raw-arias", k, arr.shape, str(arr.dtype), repr(dt)), (res, np.array_equal(keep, arr)))
for bad in ([1.0, 2.0, 3.0], np.array([]), np.zeros((3, 0)), 2.5):
    log(("raw-arias-bad", repr(bad)), call(im._raw_calc_arias_intensity, bad, 0.01))
for k in range(4):
    vals = rng.randn(300)
    asig = eqsig.AccSignal(vals, 0.01)
    for periods in (None, [0.2, 0.5, 1.0], np.array([0.3])):
        for xi in (None, 0.02):
            res = call(im.cumulative_response_spectra, asig, "arias_intensity", periods, xi)
            log(("crs", k, repr(periods), xi), (res, state(asig)))
    log(("crs-bad", k), call(im.cumulative_response_spectra, asig, "cav"))

# ---- users of the measures elsewhere in the package
for k in range(4):
    asig = eqsig.AccSignal(rng.randn(500) * 0.4, 0.01)
    log(("gen-cum-stats", k), (call(asig.generate_cumulative_stats), state(asig)))
    log(("sig-dur", k), (call(im.calc_sig_dur_vals, asig.values, asig.dt), state(asig)))
    log(("sig-dur-asig", k), (call(im.calc_sig_dur, asig), state(asig)))

with open(out_path, "wb") as f:
    pickle.dump(records, f)
'''


def run_worker(root, workdir, name):
    script = os.path.join(workdir, "worker.py")
    with open(script, "w") as f:
        f.write(WORKER)
    out_path = os.path.join(workdir, name + ".pkl")
    env = dict(os.environ)
    env.pop("PYTHONPATH", None)
    subprocess.run([sys.executable, script, root, out_path], check=True, cwd=root, env=env)
    with open(out_path, "rb") as f:
        return pickle.load(f)


def thaw(fr):
    if isinstance(fr, tuple) and fr and fr[0] == "nd":
        return np.frombuffer(fr[3], dtype=fr[1]).reshape(fr[2])
    return fr


def main():
    here = os.getcwd()
    assert os.path.isdir(os.path.join(here, "eqsig")), "run with cwd = the worktree"
    workdir = tempfile.mkdtemp(prefix="c09_equiv_", dir="/tmp")
    orig_root = os.path.join(workdir, "orig")
    os.mkdir(orig_root)
    subprocess.run("git archive HEAD eqsig | tar -x -C %s" % orig_root, shell=True, check=True, cwd=here)
    diff = subprocess.run(["diff", "-rq", "-x", "__pycache__", os.path.join(orig_root, "eqsig"),
                           os.path.join(here, "eqsig")], stdout=subprocess.PIPE).stdout.decode()
    print("files differing from HEAD:\n" + (diff or "  (none - is the twin applied?)\n"))
    ref = run_worker(orig_root, workdir, "orig")
    new = run_worker(here, workdir, "twin")
    assert len(ref) == len(new), (len(ref), len(new))
    bad = 0
    n_ok = n_err = 0
    for (tag_a, pay_a), (tag_b, pay_b) in zip(ref, new):
        assert tag_a == tag_b, (tag_a, tag_b)
        first = pay_a[0] if isinstance(pay_a[0], tuple) else pay_a
        if first[0] == "ok":
            n_ok += 1
        elif first[0] == "err":
            n_err += 1
        if pay_a != pay_b:
            bad += 1
            if bad <= 15:
                print("MISMATCH at", tag_a)
                ra, rb = pay_a[0], pay_b[0]
                if ra != rb:
                    if ra[0] == "ok" and rb[0] == "ok":
                        a, b = thaw(ra[1]), thaw(rb[1])
                        print("   result differs:", getattr(a, "dtype", None), getattr(b, "dtype", None),
                              getattr(a, "shape", None), getattr(b, "shape", None))
                        if isinstance(a, np.ndarray) and isinstance(b, np.ndarray) and a.shape == b.shape:
                            print("   max abs diff", np.nanmax(np.abs(a.astype(float) - b.astype(float))))
                    else:
                        print("   ", ra[:3] if ra[0] == "err" else ra[0], "|", rb[:3] if rb[0] == "err" else rb[0])
                else:
                    print("   result equal, state / mutation flags differ")
    print("%d outcomes compared (%d returned values, %d raised identically-typed exceptions), %d mismatches"
          % (len(ref), n_ok, n_err, bad))
    print("focus of this twin:", ", ".join(FOCUS))
    return 1 if bad else 0


if __name__ == "__main__":
    sys.exit(main())

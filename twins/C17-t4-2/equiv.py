"""
Equivalence check for twin2 (restructured argument handling and padding bookkeeping in Signal.butter_pass).

Run with twin2 applied and cwd = the worktree:
    /venv/bin/python out/equiv2.py

The original package is extracted from git HEAD in to a temporary directory under /tmp. The same
deterministic list of cases is run in two subprocesses (one importing the original package, one importing
the edited worktree) and the pickled outcomes are compared bit-for-bit.
"""
import os
import pickle
import shutil
import subprocess
import sys
import tempfile
import warnings

import numpy as np


# ----------------------------------------------------------------------------------------------------------------
# generic helpers (run inside the workers)
# ----------------------------------------------------------------------------------------------------------------

def arr_info(a):
    a = np.asarray(a)
    return {'dtype': str(a.dtype), 'shape': tuple(a.shape), 'bytes': a.tobytes()}


def snap(sig):
    """Full observable state of a signal"""
    d = {
        'type': type(sig).__name__,
        'values': arr_info(sig.values),
        'values_is_private': sig.values is sig._values,
        'npts': sig.npts,
        'npts_type': type(sig.npts).__name__,
        'dt': repr(sig.dt),
        'cached_fa': bool(sig._cached_fa),
        'cached_smooth_fa': bool(sig._cached_smooth_fa),
        'label': sig.label,
    }
    for name in ('_cached_response_spectra', '_cached_disp_and_velo', '_cached_xtime', '_cached_params'):
        if hasattr(sig, name):
            v = getattr(sig, name)
            d[name] = repr(v) if not isinstance(v, dict) else sorted(v)
    for name in ('_velocity', '_displacement'):
        if hasattr(sig, name):
            d[name] = arr_info(getattr(sig, name))
    return d


def attempt(fn):
    try:
        ret = fn()
        return ('ok', repr(ret))
    except Exception as e:  # noqa
        return ('exc', type(e).__name__, str(e))


def make_values(rng, n, kind):
    if kind == 'float':
        return rng.standard_normal(n)
    if kind == 'int':
        return rng.integers(-50, 50, size=n)
    if kind == 'zeros':
        return np.zeros(n)
    if kind == 'list':
        return list(rng.standard_normal(n))
    if kind == 'intlist':
        return [int(v) for v in rng.integers(-9, 9, size=n)]
    if kind == 'float32':
        return rng.standard_normal(n).astype(np.float32)
    raise ValueError(kind)


# ----------------------------------------------------------------------------------------------------------------
# the cases
# ----------------------------------------------------------------------------------------------------------------

def make_record(rng, n, kind, dt):
    if kind == 'sine':
        t = np.arange(n) * dt
        f = float(rng.choice([0.05, 0.3, 1.0, 4.0, 12.0, 30.0]))
        return np.sin(2 * np.pi * f * t + float(rng.uniform(0, 6)))
    if kind == 'trend':
        return rng.standard_normal(n) + np.linspace(-3, 8, n)
    return make_values(rng, n, kind)


def cut_off_options():
    valid = [
        ('band_tuple', lambda: (0.1, 15)),
        ('band_list', lambda: [0.2, 25]),
        ('band_array', lambda: np.array([0.5, 10.0])),
        ('band_int_tuple', lambda: (1, 5)),
        ('band_int_array', lambda: np.array([1, 5])),
        ('band_npfloat_list', lambda: [np.float64(0.3), np.float32(8.0)]),
        ('low_tuple', lambda: (None, 15)),
        ('low_list', lambda: [None, 5.0]),
        ('low_objarray', lambda: np.array([None, 8.0], dtype=object)),
        ('high_tuple', lambda: (0.1, None)),
        ('high_list', lambda: [2, None]),
        ('high_objarray', lambda: np.array([0.5, None], dtype=object)),
    ]
    invalid = [
        ('string', lambda: 'ab'),
        ('scalar', lambda: 5.0),
        ('none', lambda: None),
        ('len3', lambda: (1, 2, 3)),
        ('len1', lambda: [4.0]),
        ('empty', lambda: []),
        ('empty_arr', lambda: np.array([])),
        ('both_none', lambda: (None, None)),
        ('set', lambda: {0.1, 15}),
        ('dict', lambda: {0: 0.1, 1: 15}),
        ('reversed', lambda: (15, 0.1)),
        ('above_nyq', lambda: (0.1, 1e4)),
        ('zero_low', lambda: (0, 10)),
        ('negative', lambda: (-1, 10)),
        ('low_above_nyq', lambda: (None, 1e4)),
        ('high_zero', lambda: [0.0, None]),
        ('arr2d', lambda: np.array([[1., 2.], [3., 4.]])),
        ('strings', lambda: ['0.1', '15']),
        ('nan', lambda: (float('nan'), 10)),
        ('range', lambda: range(1, 3)),
    ]
    return valid, invalid


def run_one(eqsig, cls, vals, dt, co_fn, kwargs, pre=None):
    sig = cls(vals, dt)
    if pre == 'fa':
        _ = sig.fa_spectrum
    elif pre == 'smooth' and len(sig.values) > 3:
        _ = sig.smooth_fa_spectrum
    elif pre == 'velocity' and hasattr(sig, 'velocity'):
        _ = sig.velocity
    elif pre == 'stats' and hasattr(sig, 'pga'):
        _ = sig.pga
        _ = sig.pgv
    held = sig.values
    held_before = arr_info(held)
    co = co_fn()
    co_before = repr(co)
    kw = dict(kwargs)
    if co_fn is DEFAULT:
        r = attempt(lambda: sig.butter_pass(**kw))
    else:
        r = attempt(lambda: sig.butter_pass(co, **kw))
    return (r, snap(sig), repr(co) == co_before, kw == kwargs, arr_info(held) == held_before, sig.values is held)


def DEFAULT():
    return None


def run_cases(eqsig):
    rng = np.random.default_rng(1702)
    out = []
    Signal, AccSignal = eqsig.Signal, eqsig.AccSignal
    valid, invalid = cut_off_options()
    gibbs_opts = [None, 'start', 'end', 'mid', 'other']

    # ---- full product of valid cut offs x orders x gibbs options on a few records
    for n, kind, dt in [(1000, 'float', 0.01), (257, 'trend', 0.005), (64, 'int', 0.0125), (1024, 'sine', 0.01)]:
        vals = make_record(rng, n, kind, dt)
        for cname, co_fn in valid:
            for order in (1, 2, 3, 4, None):
                for rg in gibbs_opts + ['absent']:
                    kwargs = {}
                    if order is not None:
                        kwargs['filter_order'] = order
                    if rg != 'absent':
                        kwargs['remove_gibbs'] = rg
                    cls = AccSignal if (n + len(cname)) % 2 else Signal
                    out.append(('product', n, kind, cname, order, rg,
                                run_one(eqsig, cls, vals, dt, co_fn, kwargs, pre='fa')))

    # ---- invalid / odd cut offs
    for n, kind, dt in [(200, 'float', 0.01), (33, 'int', 0.02)]:
        vals = make_record(rng, n, kind, dt)
        for cname, co_fn in invalid:
            for kwargs in ({}, {'remove_gibbs': 'start'}, {'remove_gibbs': 'mid', 'filter_order': 2},
                           {'gibbs_extra': 'x', 'remove_gibbs': 'end'}):
                for cls in (Signal, AccSignal):
                    out.append(('invalid', n, kind, cname, repr(kwargs),
                                run_one(eqsig, cls, vals, dt, co_fn, kwargs, pre='smooth')))

    # ---- default arguments and ignored keyword arguments
    for n in (40, 300, 2048):
        for dt in (0.01, 0.02):
            vals = make_record(rng, n, 'trend', dt)
            for kwargs in ({}, {'order': 2}, {'remove_gibbs': 'end'}, {'filter_order': 2, 'unknown': 5},
                           {'remove_gibbs': None, 'gibbs_extra': 3, 'gibbs_range': 2}):
                for cls in (Signal, AccSignal):
                    out.append(('default', n, dt, repr(kwargs), run_one(eqsig, cls, vals, dt, DEFAULT, kwargs)))

    # ---- short records (filtfilt needs more points than its pad length), and odd dt
    for n in (0, 1, 2, 3, 5, 8, 9, 10, 15, 16, 17, 27, 28, 31, 32, 33):
        for kind in ('float', 'int', 'zeros', 'list'):
            vals = make_values(rng, n, kind)
            for cname, co_fn in (valid[0], valid[2], valid[6], valid[10]):
                for order in (1, 2, 4):
                    for rg in gibbs_opts:
                        for extra in (0, 1):
                            kwargs = {'filter_order': order, 'remove_gibbs': rg, 'gibbs_extra': extra}
                            out.append(('short', n, kind, cname, order, rg, extra,
                                        run_one(eqsig, Signal, vals, 0.02, co_fn, kwargs)))
    for dt in (0, -0.01, float('nan'), 1, np.float32(0.01), np.float64(0.01), 10.0):
        vals = make_values(rng, 120, 'float')
        for cname, co_fn in (valid[1], valid[7], valid[9], invalid[0], invalid[3]):
            for rg in (None, 'mid'):
                out.append(('dt', repr(dt), cname, rg, run_one(eqsig, AccSignal, vals, dt, co_fn, {'remove_gibbs': rg})))

    # ---- random combinations of all the options
    lengths = [20, 31, 50, 64, 100, 127, 128, 129, 257, 500, 1000, 1024, 1025, 3000]
    kinds = ['float', 'int', 'zeros', 'list', 'intlist', 'float32', 'sine', 'trend']
    pres = [None, 'fa', 'smooth', 'velocity', 'stats']
    for trial in range(2500):
        n = int(rng.choice(lengths))
        kind = str(rng.choice(kinds))
        dt = float(rng.choice([0.01, 0.005, 0.002, 0.0125, 0.02]))
        vals = make_record(rng, n, kind, dt)
        cname, co_fn = valid[int(rng.integers(len(valid)))]
        kwargs = {}
        if rng.random() < 0.8:
            kwargs['filter_order'] = int(rng.integers(1, 5))
        if rng.random() < 0.8:
            kwargs['remove_gibbs'] = gibbs_opts[int(rng.integers(len(gibbs_opts)))]
        if rng.random() < 0.5:
            kwargs['gibbs_extra'] = int(rng.choice([-8, -1, 0, 1, 2, 3]))
        if rng.random() < 0.5:
            kwargs['gibbs_range'] = int(rng.choice([0, 1, 2, 5, 50, 200, 5000, -3]))
        cls = AccSignal if rng.random() < 0.5 else Signal
        pre = pres[int(rng.integers(len(pres)))]
        out.append(('random', trial, n, kind, dt, cname, repr(kwargs),
                    run_one(eqsig, cls, vals, dt, co_fn, kwargs, pre=pre)))

    # ---- multi-step histories on one object
    for trial in range(60):
        cls = AccSignal if trial % 2 else Signal
        n = int(rng.choice([90, 256, 700]))
        dt = float(rng.choice([0.01, 0.02]))
        sig = cls(make_record(rng, n, 'trend', dt), dt)
        hist = []
        for step in range(6):
            op = int(rng.integers(0, 6))
            if op in (0, 1, 2):
                cname, co_fn = valid[int(rng.integers(len(valid)))]
                kwargs = {'filter_order': int(rng.integers(1, 5)),
                          'remove_gibbs': gibbs_opts[int(rng.integers(len(gibbs_opts)))]}
                co = co_fn()
                r = attempt(lambda: sig.butter_pass(co, **kwargs))
            elif op == 3:
                r = attempt(lambda: sig.remove_poly(int(rng.integers(0, 4))))
            elif op == 4:
                r = attempt(lambda: arr_info(sig.fa_spectrum))
            else:
                r = attempt(lambda: sig.add_constant(float(rng.standard_normal())))
            hist.append((op, r, snap(sig)))
        out.append(('history', trial, hist))

    # ---- linearity / Cluster style use through eqsig.multiple (keyword `order` is ignored there too)
    return out


# ----------------------------------------------------------------------------------------------------------------
# driver
# ----------------------------------------------------------------------------------------------------------------

def worker(root, outfile):
    root = os.path.abspath(root)
    sys.path.insert(0, root)
    warnings.simplefilter('ignore')
    np.seterr(all='ignore')
    import eqsig
    assert os.path.abspath(eqsig.__file__).startswith(root + os.sep), (eqsig.__file__, root)
    results = run_cases(eqsig)
    with open(outfile, 'wb') as f:
        pickle.dump(results, f)


def first_difference(a, b, path='root'):
    if type(a) != type(b):
        return '%s: type %s != %s' % (path, type(a), type(b))
    if isinstance(a, (list, tuple)):
        if len(a) != len(b):
            return '%s: len %d != %d' % (path, len(a), len(b))
        for i, (x, y) in enumerate(zip(a, b)):
            d = first_difference(x, y, '%s[%d]' % (path, i))
            if d:
                return d
        return None
    if isinstance(a, dict):
        if sorted(a) != sorted(b):
            return '%s: keys differ' % path
        for k in a:
            d = first_difference(a[k], b[k], '%s[%r]' % (path, k))
            if d:
                return d
        return None
    if a != b:
        return '%s: %r != %r' % (path, a if not isinstance(a, bytes) else '<bytes>', b if not isinstance(b, bytes) else '<bytes>')
    return None


def count_raises(obj):
    if isinstance(obj, tuple) and len(obj) == 3 and obj[0] == 'exc':
        return 1
    if isinstance(obj, (list, tuple)):
        return sum(count_raises(x) for x in obj)
    return 0


def main():
    wt = os.getcwd()
    assert os.path.isdir(os.path.join(wt, 'eqsig')), 'run with cwd = the worktree'
    if subprocess.call(['git', 'diff', '--quiet', 'HEAD', '--', 'eqsig'], cwd=wt) == 0:
        print('WARNING: the worktree has no edit applied - comparing the original with itself')
    tmp = tempfile.mkdtemp(prefix='c17tw4_equiv2_', dir='/tmp')
    try:
        subprocess.check_call('git archive HEAD eqsig | tar -x -C "%s"' % tmp, shell=True, cwd=wt)
        outs = {}
        for tag, root in (('orig', tmp), ('edit', wt)):
            outfile = os.path.join(tmp, 'res_%s.pkl' % tag)
            env = dict(os.environ)
            env.pop('PYTHONPATH', None)
            # output is captured because LAPACK prints (harmless, identical) complaints for degenerate fits
            proc = subprocess.run([sys.executable, os.path.abspath(__file__), '--worker', root, outfile],
                                  cwd=root, env=env, stdout=subprocess.PIPE, stderr=subprocess.STDOUT)
            if proc.returncode != 0:
                sys.stderr.write(proc.stdout.decode(errors='replace')[-5000:])
                print('worker for %s failed' % tag)
                return 1
            with open(outfile, 'rb') as f:
                outs[tag] = pickle.load(f)
        d = first_difference(outs['orig'], outs['edit'])
        n = len(outs['orig'])
        n_exc = count_raises(outs['orig'])
        if d:
            print('MISMATCH:', d)
            return 1
        print('all %d cases identical (%d calls in them raise, identically)' % (n, n_exc))
        return 0
    finally:
        shutil.rmtree(tmp, ignore_errors=True)


if __name__ == '__main__':
    if len(sys.argv) > 1 and sys.argv[1] == '--worker':
        worker(sys.argv[2], sys.argv[3])
    else:
        sys.exit(main())

"""Equivalence check for twin1 (context manager around the in-place edits of
AccSignal.set_zero_residual_velocity / _displacement / _displacement_and_velocity).

Run with twin1 applied, cwd = the worktree.  The original package is extracted
from git HEAD into a temporary directory; the same deterministic scenario list is
executed in two subprocesses (original / edited) and the pickled observations are
compared bit-for-bit.  Exit status 0 iff everything matches.
"""
import os
import pickle
import subprocess
import sys
import tempfile

HERE = os.path.dirname(os.path.abspath(__file__))
WORKTREE = os.path.dirname(HERE)


# ----------------------------------------------------------------------------
# worker side
# ----------------------------------------------------------------------------
def _freeze(obj):
    """Turns an observation into a picklable, exactly comparable structure"""
    import numpy as np
    if isinstance(obj, np.ndarray):
        return ('nd', str(obj.dtype), obj.shape, obj.tobytes())
    if isinstance(obj, np.generic):
        return ('npscalar', str(obj.dtype), obj.tobytes())
    if isinstance(obj, dict):
        return ('dict', tuple(sorted((str(k), _freeze(v)) for k, v in obj.items())))
    if isinstance(obj, (list, tuple)):
        return (type(obj).__name__, tuple(_freeze(v) for v in obj))
    if isinstance(obj, float):
        return ('float', repr(obj))
    if isinstance(obj, (int, bool, str, type(None))):
        return (type(obj).__name__, obj)
    return ('repr', type(obj).__name__)


def _state(sig):
    """Complete observable state of a signal object"""
    out = {'__class__': type(sig).__name__}
    for k, v in sig.__dict__.items():
        out[k] = v
    out['@values'] = sig.values
    out['@npts'] = sig.npts
    out['@time'] = sig.time
    out['@dt'] = sig.dt
    out['@len_eq'] = len(sig.values) == sig.npts
    return _freeze(out)


def worker(pkg_root, out_path):
    sys.path.insert(0, pkg_root)
    import numpy as np
    import eqsig
    assert os.path.abspath(eqsig.__file__).startswith(os.path.abspath(pkg_root)), eqsig.__file__
    from eqsig import AccSignal

    obs = []

    def call(label, fn):
        try:
            res = fn()
            obs.append((label, 'ok', _freeze(res)))
        except BaseException as e:  # noqa
            obs.append((label, 'exc', type(e).__name__, str(e)))

    rng = np.random.RandomState(20240905)
    motion = np.loadtxt(os.path.join(WORKTREE, 'tests', 'unit_test_data', 'test_motion_dt0p01.txt'), skiprows=2)
    dt_m = 0.01

    records = []
    for n in (2, 3, 4, 5, 11, 64, 257, 1000):
        records.append(('rand%i' % n, rng.randn(n), 0.01))
        records.append(('randdt%i' % n, rng.randn(n) * 3.0, 0.05))
    records.append(('motion', motion[:3000], dt_m))
    records.append(('int', rng.randint(-50, 50, size=200), 0.02))
    records.append(('int_small', np.array([1, -2, 3, 4, -7]), 0.1))
    records.append(('list_f', list(rng.randn(40)), 0.01))
    records.append(('list_i', [3, 1, -4, 1, -5, 9, 2, -6], 0.1))
    records.append(('zeros', np.zeros(30), 0.01))
    records.append(('ones', np.ones(30), 0.01))
    records.append(('f32', rng.randn(50).astype(np.float32), 0.01))
    records.append(('sine', np.sin(np.linspace(0, 20, 500)) + 0.1, 0.01))
    records.append(('single', np.array([1.5]), 0.01))

    def timezones(n, dt):
        tmax = (n - 1) * dt
        return [None, (0.0, tmax / 2), (tmax / 4, tmax * 0.75), (tmax / 3, None), (0.0, None),
                (tmax / 2, tmax / 2), (tmax * 0.1, tmax * 2)]

    ops = []
    for tz_i in range(7):
        ops.append(('szrv', tz_i))
        ops.append(('szrdv', tz_i))
    ops.append(('szrd', 0))
    ops.append(('szrd', 2))

    def apply(sig, op, tz):
        if op == 'szrv':
            return sig.set_zero_residual_velocity(timezone=tz)
        if op == 'szrdv':
            return sig.set_zero_residual_displacement_and_velocity(timezone=tz)
        if op == 'szrd':
            return sig.set_zero_residual_displacement(timezone=tz)
        raise AssertionError(op)

    # ---- single operations on fresh objects, cold and warm caches -------------
    for name, rec, dt in records:
        n = len(rec)
        tzs = timezones(n, dt)
        for op, tz_i in ops:
            for warm in (False, True):
                label = '%s/%s/%i/%s' % (name, op, tz_i, warm)
                src = rec.copy() if isinstance(rec, np.ndarray) else list(rec)
                try:
                    sig = AccSignal(src, dt, response_times=(0.2, 0.5, 1.0))
                except BaseException as e:  # noqa
                    obs.append((label, 'ctor-exc', type(e).__name__, str(e)))
                    continue
                if warm:
                    call(label + '/warm', lambda: (sig.pga, sig.pgv, sig.pgd, sig.fa_spectrum, sig.velocity[-1]))
                held = sig.values
                call(label + '/ret', lambda: apply(sig, op, tzs[tz_i]))
                obs.append((label + '/state', _state(sig)))
                obs.append((label + '/held_is_values', held is sig.values))
                obs.append((label + '/held', _freeze(held)))
                obs.append((label + '/src', _freeze(src), type(src).__name__))
                obs.append((label + '/shares', bool(isinstance(src, np.ndarray) and np.shares_memory(src, sig.values))))
                # lazily recomputed quantities after the edit
                call(label + '/after', lambda: (sig.velocity, sig.displacement, sig.pga, sig.fa_spectrum))
                # the caller modifying its own array afterwards does not reach the object
                if isinstance(src, np.ndarray) and len(src):
                    src[0] = 99
                    obs.append((label + '/after_src_write', _freeze(sig.values)))

    # ---- histories: the three methods mixed with other mutators --------------
    def hist_steps(sig, n, dt, r):
        tmax = (n - 1) * dt
        choices = [
            lambda: sig.set_zero_residual_velocity(),
            lambda: sig.set_zero_residual_velocity(timezone=(tmax * 0.2, tmax * 0.6)),
            lambda: sig.set_zero_residual_velocity(timezone=(tmax * 0.5, None)),
            lambda: sig.set_zero_residual_displacement(),
            lambda: sig.set_zero_residual_displacement(timezone=(0, 1)),
            lambda: sig.set_zero_residual_displacement_and_velocity(),
            lambda: sig.set_zero_residual_displacement_and_velocity(timezone=(tmax * 0.1, tmax * 0.9)),
            lambda: sig.set_zero_residual_displacement_and_velocity(timezone=(tmax * 0.3, None)),
            lambda: sig.remove_average(),
            lambda: sig.add_constant(0.25),
            lambda: sig.rebase_displacement(),
            lambda: sig.running_average(3),
            lambda: sig.remove_poly(1),
            lambda: sig.reset_values(list(r.randn(n))),
            lambda: sig.reset_values(r.randint(-5, 5, size=n)),
            lambda: sig.butter_pass((0.5, 10)),
            lambda: (sig.pga, sig.pgv, sig.velocity[-1], sig.fa_spectrum[:3]),
            lambda: sig.generate_displacement_and_velocity_series(trap=False),
        ]
        return choices

    for h in range(60):
        r = np.random.RandomState(1000 + h)
        n = int(r.choice([5, 12, 40, 128, 300]))
        dt = float(r.choice([0.01, 0.02, 0.1]))
        kind = h % 4
        if kind == 0:
            src = r.randn(n)
        elif kind == 1:
            src = list(r.randn(n))
        elif kind == 2:
            src = r.randint(-20, 20, size=n)
        else:
            src = motion[100 * h: 100 * h + n].copy()
        src_before = _freeze(src)
        sig = AccSignal(src, dt)
        choices = hist_steps(sig, n, dt, r)
        for step in range(8):
            ci = int(r.randint(len(choices)))
            label = 'hist%i/step%i/op%i' % (h, step, ci)
            held = sig.values
            call(label, choices[ci])
            obs.append((label + '/state', _state(sig)))
            obs.append((label + '/held', held is sig.values, _freeze(held)))
        obs.append(('hist%i/src_unchanged' % h, src_before == _freeze(src)))

    with open(out_path, 'wb') as f:
        pickle.dump(obs, f)


# ----------------------------------------------------------------------------
# driver side
# ----------------------------------------------------------------------------
def main():
    tmp = tempfile.mkdtemp(prefix='c05_equiv1_', dir='/tmp')
    subprocess.check_call('git archive HEAD eqsig | tar -x -C %s' % tmp, shell=True, cwd=WORKTREE)
    # make sure the edit under test is really applied
    diff = subprocess.check_output(['git', 'diff', '--stat', '--', 'eqsig'], cwd=WORKTREE).decode()
    assert 'single.py' in diff, 'twin1 is not applied'
    outs = []
    for tag, root in (('orig', tmp), ('edit', WORKTREE)):
        out = os.path.join(tmp, tag + '.pkl')
        env = dict(os.environ, PYTHONWARNINGS='ignore', PYTHONDONTWRITEBYTECODE='1')
        subprocess.check_call([sys.executable, os.path.abspath(__file__), '--worker', root, out],
                              cwd=WORKTREE, env=env)
        with open(out, 'rb') as f:
            outs.append(pickle.load(f))
    a, b = outs
    assert len(a) == len(b), (len(a), len(b))
    bad = 0
    n_exc = 0
    for x, y in zip(a, b):
        if len(x) > 1 and x[1] in ('exc', 'ctor-exc'):
            n_exc += 1
        if x != y:
            bad += 1
            if bad <= 10:
                print('MISMATCH', x[0], str(x[1:])[:300], '!=', str(y[1:])[:300])
    print('observations: %i, of which exceptions (identical on both sides): %i, mismatches: %i' % (len(a), n_exc, bad))
    import shutil
    shutil.rmtree(tmp, ignore_errors=True)
    sys.exit(1 if bad else 0)


if __name__ == '__main__':
    if len(sys.argv) > 1 and sys.argv[1] == '--worker':
        import warnings
        warnings.simplefilter('ignore')
        worker(sys.argv[2], sys.argv[3])
    else:
        main()

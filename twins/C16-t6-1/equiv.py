"""Equivalence program for a behaviour-preserving edit of eqsig/loader.py (property C16).

Run with the edit applied and cwd = the worktree:

    cd <worktree> && PYTHONPATH=<worktree> /venv/bin/python out/equiv1.py

The ORIGINAL package is extracted from git (``git archive HEAD eqsig``) into a temporary
directory.  The same deterministic battery of cases is then executed twice, in two separate
subprocesses (one importing the original package, one importing the edited package found in
the current working directory); every subprocess works inside its own scratch directory using
RELATIVE file names so that messages of exceptions are comparable.  The two result lists are
compared entry by entry; exit status 0 iff everything matches.

What is observed for each case
  * save_values_and_dt / save_signal : exception (type, text) or None, the exact bytes of the
    file afterwards (or that it does not exist / was left untouched), the arguments afterwards
    (mutation check);
  * load_values_and_dt / load_signal / load_sig / load_asig : exception or the returned object
    (type, dtype, shape, exact bytes of values, dt type and repr, label, npts, time axis,
    smooth_fa_freqs, response_times), warnings issued;
  * histories: save -> load -> save -> load ... chains through Signal / AccSignal objects,
    with reset_values in between;
  * the public names of eqsig.loader and the signatures of its public functions.
"""
import hashlib
import io
import json
import os
import shutil
import subprocess
import sys
import tarfile
import tempfile

WORKER_FLAG = "--worker"


# --------------------------------------------------------------------------------------
# worker: runs the battery against whichever eqsig is first on sys.path
# --------------------------------------------------------------------------------------

def _digest(b):
    return hashlib.sha1(b).hexdigest()[:16]


def describe(obj, depth=0):
    import numpy as np
    if obj is None:
        return None
    if isinstance(obj, BaseException):
        return ["exc", type(obj).__name__, str(obj)]
    if isinstance(obj, np.ndarray):
        if obj.dtype == object:
            body = repr(obj.tolist())
        else:
            body = _digest(np.ascontiguousarray(obj).tobytes())
        head = repr(obj.ravel()[:4].tolist()) if obj.dtype != object else ""
        return ["nd", type(obj).__name__, obj.dtype.str, list(obj.shape), body, head]
    if isinstance(obj, (np.generic,)):
        return ["npscalar", type(obj).__name__, repr(obj.item()) if hasattr(obj, "item") else repr(obj)]
    if isinstance(obj, (bool, int, float, str, bytes)):
        return ["py", type(obj).__name__, repr(obj)]
    if isinstance(obj, (tuple, list)):
        return [type(obj).__name__] + [describe(o, depth + 1) for o in obj]
    # Signal-like object
    tname = type(obj).__name__
    mod = type(obj).__module__
    if mod.startswith("eqsig"):
        out = ["obj", mod, tname]
        for attr in ("values", "dt", "label", "npts", "time", "smooth_fa_freqs", "response_times",
                     "verbose", "ccbox"):
            try:
                val = getattr(obj, attr)
            except AttributeError:
                out.append([attr, "<no attr>"])
                continue
            except Exception as e:  # pragma: no cover
                out.append([attr, describe(e)])
                continue
            out.append([attr, describe(val, depth + 1)])
        return out
    return ["other", mod, tname, repr(obj)]


def call(fn, *args, **kwargs):
    """Call fn, return (description of outcome, returned object or None)."""
    import warnings
    with warnings.catch_warnings(record=True) as wlist:
        warnings.simplefilter("always")
        try:
            ret = fn(*args, **kwargs)
            outcome = ["ok", describe(ret)]
        except Exception as e:
            ret = None
            outcome = describe(e)
    warns = sorted(set((w.category.__name__, str(w.message)) for w in wlist
                       if not issubclass(w.category, ResourceWarning)))
    return [outcome, [list(w) for w in warns]], ret


def file_state(name):
    if not os.path.exists(name):
        return "<absent>"
    with open(name, "rb") as f:
        b = f.read()
    if len(b) <= 120:
        return ["bytes", len(b), b.decode("latin1")]
    return ["bytes", len(b), _digest(b), b[:60].decode("latin1")]


def snapshot_arg(v):
    import numpy as np
    import copy
    if isinstance(v, np.ndarray):
        return v.copy()
    return copy.deepcopy(v)


def all_loads(eqsig, name, rng, results, tag):
    """Every loader entry point on file `name`; results appended."""
    import numpy as np
    from pathlib import Path
    ld = eqsig.loader
    m_choices = [2.5, -1.0, 0.0, 9.81, 2, np.float32(0.5), np.float64(1e-3), 1e6, True]
    m1 = m_choices[int(rng.integers(len(m_choices)))]
    m2 = m_choices[int(rng.integers(len(m_choices)))]
    calls = [
        ("lvd", ld.load_values_and_dt, (name,), {}),
        ("lvd_path", eqsig.load_values_and_dt, (Path(name),), {}),
        ("lsignal", ld.load_signal, (name,), {}),
        ("lsignal_sig", eqsig.load_signal, (name, "sig"), {}),
        ("lsignal_signal", ld.load_signal, (name,), {"astype": "signal"}),
        ("lsignal_acc", ld.load_signal, (name,), {"astype": "acc_sig"}),
        ("lsignal_other", ld.load_signal, (name,), {"astype": "asig"}),
        ("lsignal_none", ld.load_signal, (name, None), {}),
        ("lsig", ld.load_sig, (name,), {}),
        ("lsig_m", eqsig.load_sig, (name,), {"m": m1}),
        ("lsig_mpos", ld.load_sig, (name, m2), {}),
        ("lasig", ld.load_asig, (name,), {}),
        ("lasig_label", eqsig.load_asig, (name,), {"load_label": True}),
        ("lasig_nolabel_m", ld.load_asig, (name,), {"load_label": False, "m": m1}),
        ("lasig_label_m", ld.load_asig, (name, True, m2), {}),
        ("lasig_label_truthy", ld.load_asig, (name, 1), {"m": m1}),
    ]
    loaded = {}
    for key, fn, args, kwargs in calls:
        out, ret = call(fn, *args, **kwargs)
        results.append([tag + ":" + key, repr(m1), repr(m2), out])
        loaded[key] = ret
    return loaded


def make_values(rng, kind, n):
    import numpy as np
    mag = 10.0 ** rng.uniform(-8, 8)
    style = int(rng.integers(0, 8))
    if style == 0:
        base = rng.standard_normal(n) * mag
    elif style == 1:
        base = np.abs(rng.standard_normal(n)) * mag
    elif style == 2:
        base = -np.abs(rng.standard_normal(n)) * mag
    elif style == 3:
        base = np.zeros(n)
    elif style == 4:
        base = np.round(rng.standard_normal(n) * 1000.0)  # whole numbers
    elif style == 5:
        base = rng.standard_normal(n) * 1e-7  # below the format's precision, signed zeros
    elif style == 6:
        base = rng.standard_normal(n) * mag
        if n:
            base[rng.integers(0, n, size=max(1, n // 5))] = 0.0
            base[int(rng.integers(n))] = -0.0
    else:
        # half-way cases of the 6th decimal and large values
        base = np.round(rng.standard_normal(n), 5) + 5e-7 * rng.integers(-1, 2, size=n)
        if n:
            base[int(rng.integers(n))] = 1.23456789e15
    if kind == "f64":
        return base.astype(np.float64)
    if kind == "f32":
        return base.astype(np.float32)
    if kind == "f16":
        with np.errstate(over="ignore"):
            return base.astype(np.float16)
    if kind == "i64":
        return np.clip(base, -1e15, 1e15).astype(np.int64)
    if kind == "i32":
        return np.clip(base, -2e9, 2e9).astype(np.int32)
    if kind == "u8":
        return np.clip(np.abs(base), 0, 255).astype(np.uint8)
    if kind == "bool":
        return base > 0
    if kind == "list_float":
        return [float(x) for x in base]
    if kind == "list_int":
        return [int(x) for x in np.clip(base, -1e15, 1e15)]
    if kind == "list_mixed":
        return [int(x) if i % 2 else float(x) for i, x in enumerate(np.clip(base, -1e15, 1e15))]
    if kind == "tuple":
        return tuple(float(x) for x in base)
    if kind == "col2d":
        return base.reshape(n, 1)
    if kind == "wide2d":
        return np.stack([base, base * 2], axis=1)
    if kind == "object":
        return np.array([float(x) for x in base], dtype=object)
    if kind == "nonfinite":
        b = base.astype(np.float64)
        if n:
            b[int(rng.integers(n))] = np.nan
            b[int(rng.integers(n))] = np.inf
            b[int(rng.integers(n))] = -np.inf
        return b
    if kind == "noncontig":
        return np.repeat(base, 2)[::2]
    if kind == "strs":
        return ["%r" % float(x) for x in base]
    if kind == "list_none":
        return [None] * n
    if kind == "range":
        return range(n)
    if kind == "scalar":
        return 3.5
    if kind == "zero_d":
        return np.array(2.5)
    raise AssertionError(kind)


VALUE_KINDS = (["f64"] * 14 + ["f32"] * 3 + ["i64"] * 3 + ["i32"] * 2 + ["list_float"] * 3 + ["list_int"] * 2 +
               ["list_mixed", "tuple", "tuple", "col2d", "object", "nonfinite", "noncontig", "noncontig", "bool", "u8",
                "f16", "range", "wide2d", "strs", "list_none", "scalar", "zero_d"])

LENGTHS = [1, 2, 2, 3, 4, 5, 7, 10, 16, 17, 31, 64, 100, 129, 500, 2, 3, 11, 50, 0]

LABELS_OK = ["m1", "a label with spaces", "  leading blanks", "trailing blanks  ", "", " ", "unicode \u00b5 \u00e9 \u4e2d",
             "tab\tinside", "comma, separated, label", "# hash first", "with # hash", "123 0.5", "3 0.0100",
             "quote ' \" ", "%s %d", "Record: Kobe 1995 NS (g)", "x" * 300, "1.5", "nan", "label,with,commas 0.02"]
LABELS_ODD = ["line\nbreak", "line\nbreak 0.5 x", "cr\rinside", "form\x0cfeed", "form\x0cfeed 0.25", "nel\x85inside",
              "ls\u2028inside 7.5", None, 5, b"bytes", 1.5, ["l"]]


def make_label(rng, ci, n):
    r = rng.random()
    if r < 0.45:
        return "m%d rec %d" % (ci, n)
    if r < 0.88:
        return LABELS_OK[int(rng.integers(len(LABELS_OK)))]
    return LABELS_ODD[int(rng.integers(len(LABELS_ODD)))]


def make_dt(rng):
    import numpy as np
    fixed = [1e-4, 0.0001, 0.005, 0.01, 0.02, 0.025, 0.1, 0.5, 1.0, 1.5, 2, 2.0, 3, 10, 10.0, 12.3456, 99.9999, 100,
             100.0, 0.00015, 0.99995, 0.99996, 1.00005, 0.12345, 0.00125, 7.00005, 50.5,
             np.float32(0.01), np.float64(0.02), np.int64(2), np.float16(0.5), True, np.array(0.01)]
    odd = [0.00004, 0.00005, 123456.789, 0.0, -0.01, -2.5, float("nan"), float("inf"), "0.01", None, [0.01],
           np.array([0.02]), 1e-300, 1e300, 1 + 0j]
    r = rng.random()
    if r < 0.45:
        return float(10.0 ** rng.uniform(-4, 2))
    if r < 0.6:
        return float(np.round(10.0 ** rng.uniform(-4, 2), 4))
    if r < 0.7:
        return float(rng.integers(1, 101))
    if r < 0.93:
        return fixed[int(rng.integers(len(fixed)))]
    return odd[int(rng.integers(len(odd)))]


def battery():
    import numpy as np
    import inspect
    from pathlib import Path
    import eqsig
    from eqsig import loader as ld

    results = []
    rng = np.random.default_rng(20160916)

    # ---------------------------------------------------------------- API surface
    public = sorted(n for n in dir(ld) if not n.startswith("_"))
    results.append(["api:names", public])
    for n in public:
        o = getattr(ld, n)
        if inspect.isfunction(o):
            results.append(["api:sig:" + n, str(inspect.signature(o)), o.__module__, o.__doc__])
    results.append(["api:top", [n for n in ("save_signal", "load_signal", "save_values_and_dt", "load_values_and_dt",
                                            "load_asig", "load_sig") if getattr(eqsig, n) is getattr(ld, n)]])

    name = "rec.txt"

    # ---------------------------------------------------------------- A: save_values_and_dt -> all loaders
    n_cases = 1300
    for ci in range(n_cases):
        kind = VALUE_KINDS[int(rng.integers(len(VALUE_KINDS)))]
        n = LENGTHS[int(rng.integers(len(LENGTHS)))]
        if ci % 97 == 0:
            n = 4000
        values = make_values(rng, kind, n)
        dt = make_dt(rng)
        label = make_label(rng, ci, n)
        prefill = int(rng.integers(0, 3))
        if os.path.exists(name):
            os.remove(name)
        if prefill == 1:
            with open(name, "w") as f:
                f.write("JUNK JUNK JUNK\n" * 400)
        elif prefill == 2:
            with open(name, "w") as f:
                f.write("J")
        before = snapshot_arg(values)
        form = int(rng.integers(0, 4))
        if form == 0:
            out, _ = call(ld.save_values_and_dt, name, values, dt, label)
        elif form == 1:
            out, _ = call(eqsig.save_values_and_dt, ffp=name, values=values, dt=dt, label=label)
        elif form == 2:
            out, _ = call(ld.save_values_and_dt, Path(name), values, dt, label=label)
        else:
            out, _ = call(ld.save_values_and_dt, name, values, label=label, dt=dt)
        tag = "A%04d[%s,n=%d,dt=%r,label=%r,pre=%d]" % (ci, kind, n, dt, label, prefill)
        results.append([tag + ":save", out, file_state(name)])
        results.append([tag + ":arg_after", describe(values), describe(before), type(values).__name__])
        all_loads(eqsig, name, rng, results, tag)  # also when the file is absent (keeps the two runs aligned)

    # ---------------------------------------------------------------- B: hand-written files
    texts = {
        "plain": "lab\n3 0.0100\n1.000000\n-2.000000\n3.500000",
        "trailing_nl": "lab\n3 0.0100\n1.000000\n-2.000000\n3.500000\n",
        "trailing_nls": "lab\n3 0.0100\n1.000000\n-2.000000\n3.500000\n\n\n",
        "blank_inside": "lab\n3 0.0100\n1.000000\n\n-2.000000\n3.500000\n",
        "crlf": "lab\r\n3 0.0100\r\n1.000000\r\n-2.000000\r\n3.500000\r\n",
        "cr_only": "lab\r3 0.0100\r1.000000\r-2.000000\r3.500000",
        "comment": "lab\n3 0.0100\n1.000000\n# note\n-2.000000 # tail\n3.500000\n",
        "two_cols": "lab\n3 0.0100\n1.0,9.0\n-2.0,8.0\n3.5,7.0\n",
        "two_cols_ragged": "lab\n3 0.0100\n1.0,9.0\n-2.0\n3.5,7.0\n",
        "space_cols": "lab\n3 0.0100\n1.0 9.0\n-2.0 8.0\n",
        "missing": "lab\n3 0.0100\n1.0\n,5\nabc\n3.5\n",
        "header_extra": "lab\n3 0.0100 extra tokens here\n1.0\n2.0\n3.0\n",
        "header_one_token": "lab\n0.0100\n1.0\n2.0\n3.0\n",
        "header_empty": "lab\n\n1.0\n2.0\n3.0\n",
        "header_bad_dt": "lab\n3 abc\n1.0\n2.0\n3.0\n",
        "header_dt_ge1": "lab\n3 1.5000\n1.0\n2.0\n3.0\n",
        "header_dt_10": "lab\n3 12.2500\n1.0\n2.0\n3.0\n",
        "header_dt_int": "lab\n3 2\n1.0\n2.0\n3.0\n",
        "header_dt_exp": "lab\n3 1e-2\n1.0\n2.0\n3.0\n",
        "header_dt_neg": "lab\n3 -0.0100\n1.0\n2.0\n3.0\n",
        "header_dt_nan": "lab\n3 nan\n1.0\n2.0\n3.0\n",
        "header_dt_under": "lab\n3 1_0.0\n1.0\n2.0\n3.0\n",
        "header_tabs": "lab\n3\t0.0200\n1.0\n2.0\n3.0\n",
        "header_lead_space": "lab\n   3    0.0200   \n1.0\n2.0\n3.0\n",
        "header_npts_wrong": "lab\n99 0.0200\n1.0\n2.0\n3.0\n",
        "header_npts_text": "lab\nnpts 0.0200\n1.0\n2.0\n3.0\n",
        "one_value": "lab\n1 0.0100\n4.250000",
        "one_value_nl": "lab\n1 0.0100\n4.250000\n",
        "no_values": "lab\n0 0.0100",
        "no_values_nl": "lab\n0 0.0100\n",
        "one_line": "lab",
        "one_line_nl": "lab\n",
        "empty": "",
        "only_nl": "\n",
        "two_nl": "\n\n",
        "empty_label": "\n3 0.0100\n1.0\n2.0\n3.0",
        "label_spaces": "  a label  with  spaces  \n3 0.0100\n1.0\n2.0\n3.0",
        "label_ff": "a\x0cb\n3 0.0100\n1.0\n2.0\n3.0",
        "label_ff_dt": "a\x0c7 0.5\n3 0.0100\n1.0\n2.0\n3.0",
        "label_vt": "a\x0bb 0.25\n3 0.0100\n1.0\n2.0\n3.0",
        "label_nel": "a\u0085b 0.125 z\n3 0.0100\n1.0\n2.0\n3.0",
        "label_ls": "a\u20284 0.75\n3 0.0100\n1.0\n2.0\n3.0",
        "label_fs": "a\x1c\x1d\x1e9 0.3\n3 0.0100\n1.0\n2.0\n3.0",
        "label_unicode": "\u00b5 \u00e9 \u4e2d\n3 0.0100\n1.0\n2.0\n3.0",
        "nonfinite": "lab\n4 0.0100\nnan\ninf\n-inf\n1.0\n",
        "exp_values": "lab\n3 0.0100\n1e3\n-2.5E-2\n+3.0\n",
        "int_values": "lab\n3 0.0100\n1\n-2\n3\n",
        "hex_values": "lab\n3 0.0100\n0x10\n2\n3\n",
        "values_spaces": "lab\n3 0.0100\n  1.0  \n\t-2.0\n3.0   \n",
        "bom": "\ufefflab\n3 0.0100\n1.0\n2.0\n3.0\n",
        "long": "long record\n3000 0.0050\n" + "\n".join("%.6f" % (((i * 7919) % 2001 - 1000) / 37.0) for i in range(3000)),
    }
    for key in sorted(texts):
        with io.open(name, "w", encoding="utf-8", newline="") as f:
            f.write(texts[key])
        all_loads(eqsig, name, rng, results, "B[" + key + "]")
    # binary oddities
    for key, raw in sorted({"latin1": b"caf\xe9\n3 0.0100\n1.0\n2.0\n3.0\n",
                            "nul": b"a\x00b\n3 0.0100\n1.0\n2.0\n3.0\n",
                            "mixed_eol": b"lab\r\n3 0.0100\n1.0\r2.0\r\n3.0"}.items()):
        with open(name, "wb") as f:
            f.write(raw)
        all_loads(eqsig, name, rng, results, "Bbin[" + key + "]")
    # the shipped record
    shipped = os.environ.get("EQUIV_SHIPPED")
    if shipped and os.path.exists(shipped):
        shutil.copy(shipped, "shipped.txt")
        loaded = all_loads(eqsig, "shipped.txt", rng, results, "B[shipped]")
        sig = loaded.get("lasig_label")
        if sig is not None:
            results.append(["B[shipped]:resave", call(ld.save_signal, "shipped2.txt", sig)[0],
                            file_state("shipped2.txt")])
            all_loads(eqsig, "shipped2.txt", rng, results, "B[shipped2]")
    # paths that cannot be used
    if os.path.exists("missing.txt"):
        os.remove("missing.txt")
    all_loads(eqsig, "missing.txt", rng, results, "B[missing file]")
    os.makedirs("adir", exist_ok=True)
    all_loads(eqsig, "adir", rng, results, "B[directory]")
    results.append(["B:save into missing dir", call(ld.save_values_and_dt, "nodir/rec.txt", [1.0], 0.01, "l")[0],
                    os.path.exists("nodir")])
    results.append(["B:save onto directory", call(ld.save_values_and_dt, "adir", [1.0], 0.01, "l")[0]])
    results.append(["B:save bad values, missing dir", call(ld.save_values_and_dt, "nodir/rec.txt", ["x"], 0.01, "l")[0]])
    results.append(["B:save_signal non signal", call(ld.save_signal, name, [1.0, 2.0])[0]])
    results.append(["B:save_signal none", call(ld.save_signal, name, None)[0]])
    results.append(["B:load none", call(ld.load_values_and_dt, None)[0]])
    results.append(["B:load int", call(ld.load_asig, 987654, True)[0]])
    # list of lines / open file handle given instead of a path (genfromtxt would accept them)
    results.append(["B:load list", call(ld.load_values_and_dt, ["lab", "2 0.01", "1.0", "2.0"])[0]])

    # ---------------------------------------------------------------- C: histories through objects
    for hi in range(260):
        n = [2, 3, 5, 8, 33, 120, 2, 4, 9, 1][int(rng.integers(10))]
        kind = ["f64", "f64", "f32", "i64", "list_float", "list_int", "nonfinite", "col2d"][int(rng.integers(8))]
        values = make_values(rng, kind, n)
        dt = make_dt(rng)
        label = make_label(rng, hi, n)
        use_acc = bool(rng.integers(2))
        tag = "C%03d[%s,n=%d,dt=%r,label=%r,acc=%s]" % (hi, kind, n, dt, label, use_acc)
        cls = eqsig.AccSignal if use_acc else eqsig.Signal
        out, obj = call(cls, values, dt, label=label)
        results.append([tag + ":construct", out])
        if obj is None:
            continue
        fnames = ["h0.txt", "h1.txt", "h2.txt"]
        for fn_ in fnames:
            if os.path.exists(fn_):
                os.remove(fn_)
        cur = obj
        for step, fn_ in enumerate(fnames):
            vals_before = cur.values.copy()
            out, _ = call(ld.save_signal if step % 2 else eqsig.save_signal, fn_, cur)
            results.append([tag + ":save%d" % step, out, file_state(fn_), describe(cur),
                            bool(np.array_equal(vals_before, cur.values, equal_nan=True))
                            if vals_before.dtype != object else None])
            if not os.path.exists(fn_):
                break
            loaded = all_loads(eqsig, fn_, rng, results, tag + ":step%d" % step)
            pick = ["lasig_label", "lsig_m", "lsignal_acc", "lsig", "lasig_label_m"][int(rng.integers(5))]
            nxt = loaded.get(pick)
            results.append([tag + ":pick%d" % step, pick, nxt is None])
            if nxt is None:
                break
            if rng.random() < 0.4:
                newv = make_values(rng, "f64", [3, 2, 6, 40, 1][int(rng.integers(5))])
                out, _ = call(nxt.reset_values, newv)
                results.append([tag + ":reset%d" % step, out, describe(nxt)])
            if rng.random() < 0.3:
                nxt.label = make_label(rng, hi, step)
            cur = nxt
        # the first file must not be affected by later operations
        results.append([tag + ":files", [file_state(f) for f in fnames]])

    return results


def worker_main(out_path):
    import warnings
    warnings.simplefilter("ignore")  # call() records warnings itself; this silences describe()
    scratch = tempfile.mkdtemp(prefix="c16w_")
    old = os.getcwd()
    os.chdir(scratch)
    try:
        res = battery()
    finally:
        os.chdir(old)
        shutil.rmtree(scratch, ignore_errors=True)
    import eqsig
    with open(out_path, "w") as f:
        json.dump({"eqsig_file": eqsig.__file__, "results": res}, f)


# --------------------------------------------------------------------------------------
# driver
# --------------------------------------------------------------------------------------

def main():
    cwd = os.getcwd()
    if not os.path.isdir(os.path.join(cwd, "eqsig")):
        print("run from the worktree root (eqsig/ not found in cwd)")
        return 2
    tmp = tempfile.mkdtemp(prefix="c16_equiv_")
    try:
        orig_root = os.path.join(tmp, "orig")
        os.makedirs(orig_root)
        blob = subprocess.run(["git", "archive", "HEAD", "eqsig"], cwd=cwd, stdout=subprocess.PIPE, check=True).stdout
        with tarfile.open(fileobj=io.BytesIO(blob)) as tf:
            tf.extractall(orig_root)
        shipped = os.path.join(cwd, "tests", "unit_test_data", "test_motion_dt0p01.txt")
        procs = []
        outs = {}
        for tag, root in (("orig", orig_root), ("edit", cwd)):
            env = dict(os.environ)
            env["PYTHONPATH"] = root
            env["PYTHONDONTWRITEBYTECODE"] = "1"
            env["PYTHONHASHSEED"] = "0"
            env["EQUIV_SHIPPED"] = shipped
            outs[tag] = os.path.join(tmp, tag + ".json")
            procs.append((tag, subprocess.Popen([sys.executable, os.path.abspath(__file__), WORKER_FLAG, outs[tag]],
                                                env=env, cwd=tmp)))
        for tag, p in procs:
            rc = p.wait()
            if rc != 0:
                print("worker %s failed with exit status %d" % (tag, rc))
                return 1
        with open(outs["orig"]) as f:
            a = json.load(f)
        with open(outs["edit"]) as f:
            b = json.load(f)
        if not os.path.realpath(a["eqsig_file"]).startswith(os.path.realpath(orig_root)):
            print("original worker imported the wrong package: %s" % a["eqsig_file"])
            return 1
        if not os.path.realpath(b["eqsig_file"]).startswith(os.path.realpath(cwd)):
            print("edited worker imported the wrong package: %s" % b["eqsig_file"])
            return 1
        ra, rb = a["results"], b["results"]
        bad = 0
        if len(ra) != len(rb):
            print("different number of observations: %d vs %d" % (len(ra), len(rb)))
            bad += 1
        for x, y in zip(ra, rb):
            if x != y:
                bad += 1
                if bad <= 15:
                    print("MISMATCH at %s\n   original: %s\n   edited:   %s" % (x[0], json.dumps(x)[:600],
                                                                              json.dumps(y)[:600]))
        n_ok_loads = sum(1 for x in ra if isinstance(x[-1], list) and x[-1] and isinstance(x[-1][0], list)
                         and x[-1][0] and x[-1][0][0] == "ok")
        print("observations compared: %d (successful loads among them: %d); mismatches: %d" % (len(ra), n_ok_loads, bad))
        return 0 if bad == 0 else 1
    finally:
        shutil.rmtree(tmp, ignore_errors=True)


if __name__ == "__main__":
    if len(sys.argv) >= 3 and sys.argv[1] == WORKER_FLAG:
        worker_main(sys.argv[2])
        sys.exit(0)
    sys.exit(main())

"""Equivalence check for twin3 (run with twin3 applied, cwd = worktree).

Compares eqsig.im.calc_peak and AccSignal.pga/.pgv/.pgd (values, types, cache contents and complete object
state over multi-step histories) of the ORIGINAL package (git HEAD) against the edited working copy, bit for bit.
"""
import contextlib
import io
import os
import struct
import subprocess
import sys
import tempfile
import warnings

import numpy as np

HERE = os.getcwd()


def load_pair():
    tmp = tempfile.mkdtemp(prefix="c08_equiv3_", dir="/tmp")
    subprocess.check_call("git archive HEAD eqsig | tar -x -C %s" % tmp, shell=True, cwd=HERE)

    def _import(root):
        for name in [m for m in sys.modules if m == "eqsig" or m.startswith("eqsig.")]:
            del sys.modules[name]
        sys.path.insert(0, root)
        try:
            import eqsig
            import eqsig.displacements
            import eqsig.single
            import eqsig.im
            assert eqsig.__file__.startswith(root + os.sep), (eqsig.__file__, root)
            return eqsig
        finally:
            sys.path.remove(root)

    orig = _import(tmp)
    new = _import(HERE)
    assert orig is not new and orig.im is not new.im and orig.single is not new.single
    return orig, new


n_checks = 0


def same(a, b, ctx):
    global n_checks
    n_checks += 1
    assert type(a) is type(b), (ctx, type(a), type(b), a, b)
    if isinstance(a, (tuple, list)):
        assert len(a) == len(b), (ctx, len(a), len(b))
        for k, (x, y) in enumerate(zip(a, b)):
            same(x, y, ctx + (k,))
        return
    if isinstance(a, dict):
        assert list(a) == list(b), (ctx, list(a), list(b))  # same keys, same insertion order
        for k in a:
            same(a[k], b[k], ctx + (k,))
        return
    if isinstance(a, np.ndarray):
        assert a.dtype == b.dtype, (ctx, a.dtype, b.dtype)
        assert a.shape == b.shape, (ctx, a.shape, b.shape)
        assert a.tobytes() == b.tobytes(), (ctx, a, b)
        return
    if isinstance(a, np.generic):
        assert a.dtype == b.dtype and a.tobytes() == b.tobytes(), (ctx, a, b)
        return
    if isinstance(a, float):
        assert struct.pack("d", a) == struct.pack("d", b), (ctx, a, b)  # signed zeros / NaN included
        return
    assert a == b or (a != a and b != b), (ctx, a, b)


def outcome(fn):
    try:
        with warnings.catch_warnings():
            warnings.simplefilter("ignore")
            return ("ok", fn())
    except Exception as e:  # noqa
        return ("err", type(e).__name__)


def snapshot(x):
    if isinstance(x, np.ndarray):
        return ("arr", x.dtype.str, x.shape, x.tobytes())
    return ("obj", repr(x))


def check_peak(orig, new, motion, ctx):
    before = snapshot(motion)
    r0 = outcome(lambda: orig.im.calc_peak(motion))
    r1 = outcome(lambda: new.im.calc_peak(motion))
    same(r0, r1, ctx)
    assert snapshot(motion) == before, ctx  # argument untouched
    return r1


def main():
    orig, new = load_pair()
    rng = np.random.default_rng(30808)
    nan = float("nan")

    # ---- calc_peak: edge cases -------------------------------------------------------------------
    edge = [
        [0.0, 0.0], [-0.0, 0.0], [0.0, -0.0], [-0.0, -0.0], [1.0, -1.0], [-1.0, 1.0], [-2.0, -1.0], [-1.0, -2.0],
        [1.0, 2.0], [2.0, 1.0], [3.0, 3.0, 3.0], [-3.0, -3.0, -3.0], [1, 2, 3], [-3, 1, 2], [3, -3], [-3, 3],
        [-3, 3.0], [3.0, -3], [-3.0, 3], [3, -3.0], [1, -2.5, 2], [True, False], [2, 2.0, -2], [-2.0, 2, 2.0],
        (0.5, 0.25, -0.75), (1, -1), [5.0], [-5.0], [-5], [],
        [nan, 1.0, -2.0], [1.0, nan, -2.0], [1.0, -2.0, nan], [nan, nan], [-2.0, nan, 1.0, nan, 3.0, -4.0],
        [float("inf"), -float("inf")], [-float("inf"), 1.0], [1e308, -1e308], [5e-324, -5e-324], [-5e-324, 0.0],
        np.array([0.0, 0.0]), np.array([-0.0, 0.0]), np.array([0.0, -0.0]), np.array([1.0, -1.0]), np.zeros(10),
        -np.zeros(3), np.arange(7.0), -np.arange(7.0), np.arange(7), -np.arange(7), np.arange(-4, 5, dtype=np.int32),
        np.array([3, -3], dtype=np.int8), np.array([-3, 3], dtype=np.int16), np.array([1, 2], dtype=np.uint8),
        np.ones(4, dtype=np.float32), np.array([-1.5, 1.25], dtype=np.float32), np.array([-1.5, 1.5], dtype=np.float16),
        np.array([nan, 1.0, -2.0]), np.array([1.0, nan, -2.0]), np.array([1.0, -2.0, nan]),
        np.array([np.inf, -np.inf, 0.0]), np.array([2.5]), np.array([-2.5]), np.array([]),
        np.linspace(-1, 1, 11)[::2], np.linspace(-1, 0.5, 11)[::-1], np.array([True, False, True]),
        np.arange(6.).reshape(2, 3), np.float64(2.0), 3.0, None, "ab",
        np.array([1.0, -1.0], dtype=np.longdouble), np.array([1 + 0j, 2 + 0j]),
        np.array([1, -5, 3], dtype=object), range(-3, 3), range(2, 5),
    ]
    for i, motion in enumerate(edge):
        check_peak(orig, new, motion, ("edge", i))
        if isinstance(motion, list) and motion:
            check_peak(orig, new, tuple(motion), ("edge tuple", i))
            check_peak(orig, new, motion[::-1], ("edge reversed", i))
            a = outcome(lambda: np.array(motion))
            if a[0] == "ok":
                check_peak(orig, new, a[1], ("edge as array", i))

    # ---- calc_peak: random series, incl. sign reversal and scaling of the same series ------------------------------
    for trial in range(1500):
        n = int(rng.choice([2, 3, 4, 5, 8, 17, 64, 257, 1000]))
        kind = trial % 8
        if kind == 0:
            m = rng.standard_normal(n) * 10.0 ** rng.integers(-8, 8)
        elif kind == 1:
            m = rng.integers(-5, 5, n)  # many ties
        elif kind == 2:
            m = rng.integers(-3, 3, n).astype(float)  # many ties incl. |min| == max
        elif kind == 3:
            m = rng.standard_normal(n).astype(np.float32)
        elif kind == 4:
            m = [float(x) for x in rng.standard_normal(n)]
        elif kind == 5:
            m = [int(x) for x in rng.integers(-4, 4, n)]
        elif kind == 6:
            m = rng.uniform(0.1, 1.0, n) * (1 if trial % 16 < 8 else -1)  # one-signed
        else:
            m = rng.standard_normal(n)
            m[rng.integers(0, n, max(1, n // 4))] = np.nan
            m[rng.integers(0, n)] = -0.0
        check_peak(orig, new, m, ("rand", trial))
        if isinstance(m, np.ndarray):
            check_peak(orig, new, -m, ("rand neg", trial))
            check_peak(orig, new, m * -2.5 if m.dtype.kind == "f" else m * -3, ("rand scaled", trial))
            check_peak(orig, new, m[::-1], ("rand rev", trial))
            check_peak(orig, new, m.tolist(), ("rand list", trial))
        else:
            check_peak(orig, new, [-x for x in m], ("rand neg", trial))
            check_peak(orig, new, tuple(m), ("rand tuple", trial))

    # the deprecated sibling is untouched but shares the module
    sink = io.StringIO()
    with contextlib.redirect_stdout(sink), contextlib.redirect_stderr(sink):
        for trial in range(50):
            m = rng.standard_normal(20)
            same(outcome(lambda: orig.im.calculate_peak(m)), outcome(lambda: new.im.calculate_peak(m)), ("dep", trial))

        # ---- object level -------------------------------------------------------------------------------------------
        def state(sig):
            return dict(sig.__dict__)

        records = [
            [0.0, 0.0], [1.0, -1.0], np.array([1.0, 1.0, 1.0]), np.full(6, -3.0), np.arange(7.0), np.arange(7),
            -np.arange(7), np.zeros(10), -np.zeros(4), np.ones(4, dtype=np.float32), (0.5, 0.25, -0.75), [1, 2, 3],
            np.array([0.1, np.nan, 0.3]), np.array([np.nan, 0.1, 0.3]),
        ]
        for trial in range(300):
            if trial < 4 * len(records):
                vals = records[trial % len(records)]
            else:
                n = int(rng.choice([2, 3, 5, 12, 40, 200, 1500]))
                vals = rng.standard_normal(n) * 10.0 ** rng.integers(-3, 3)
                if trial % 9 == 0:
                    vals = rng.integers(-20, 20, n)
                if trial % 13 == 0:
                    vals = list(vals)
            dt = [0.005, 0.01, 1, 0.1, 1.0, np.float64(0.02)][trial % 6]
            a0, a1 = orig.AccSignal(vals, dt), new.AccSignal(vals, dt)
            same(state(a0), state(a1), ("obj", trial, "fresh"))
            ops = ["pga", "pgv", "pgd", "pga", "pgv", "pgd", "velocity", "displacement", "reset", "rect", "trap",
                   "add_constant", "negate", "scale", "clear", "reset_stats", "seed_cache", "rebase", "zero_vel",
                   "poke_values", "drop_key"]
            for step in range(int(rng.integers(4, 25))):
                op = str(rng.choice(ops))
                ctx = ("obj", trial, step, op)
                if op in ("pga", "pgv", "pgd", "velocity", "displacement"):
                    r0, r1 = outcome(lambda: getattr(a0, op)), outcome(lambda: getattr(a1, op))
                    if op.startswith("pg") and r1[0] == "ok":
                        # stored object is the returned object, a second read returns that very object again
                        assert a0._cached_params[op] is r0[1] and a1._cached_params[op] is r1[1], ctx
                        assert getattr(a0, op) is r0[1] and getattr(a1, op) is r1[1], ctx
                        assert op in a0._cached_params and op in a1._cached_params, ctx
                elif op == "reset":
                    nv = rng.standard_normal(int(rng.choice([2, 3, a0.npts, a0.npts + 5])))
                    r0, r1 = outcome(lambda: a0.reset_values(nv)), outcome(lambda: a1.reset_values(nv))
                elif op in ("rect", "trap"):
                    flag = op == "trap"
                    r0 = outcome(lambda: a0.generate_displacement_and_velocity_series(trap=flag))
                    r1 = outcome(lambda: a1.generate_displacement_and_velocity_series(trap=flag))
                elif op == "add_constant":
                    c = float(rng.standard_normal())
                    r0, r1 = outcome(lambda: a0.add_constant(c)), outcome(lambda: a1.add_constant(c))
                elif op == "negate":
                    r0 = outcome(lambda: a0.reset_values(-a0.values))
                    r1 = outcome(lambda: a1.reset_values(-a1.values))
                elif op == "scale":
                    alpha = float(rng.choice([-2.0, 0.5, 3.0, -1e-3, 0.0]))
                    r0 = outcome(lambda: a0.reset_values(alpha * a0.values))
                    r1 = outcome(lambda: a1.reset_values(alpha * a1.values))
                elif op == "clear":
                    r0, r1 = outcome(lambda: a0.clear_cache()), outcome(lambda: a1.clear_cache())
                elif op == "reset_stats":
                    r0 = outcome(lambda: a0.reset_all_motion_stats())
                    r1 = outcome(lambda: a1.reset_all_motion_stats())
                elif op == "seed_cache":
                    # any stored value, also a falsy one or None, is a valid cache entry and must be handed back as is
                    key = str(rng.choice(["pga", "pgv", "pgd"]))
                    val = [0.0, None, 0, np.float64(0.0), -1.5, False, "x"][int(rng.integers(0, 7))]
                    a0._cached_params[key] = val
                    a1._cached_params[key] = val
                    r0, r1 = outcome(lambda: getattr(a0, key)), outcome(lambda: getattr(a1, key))
                    assert r0[1] is val and r1[1] is val, ctx
                elif op == "drop_key":
                    key = str(rng.choice(["pga", "pgv", "pgd"]))
                    r0 = outcome(lambda: a0._cached_params.pop(key, None))
                    r1 = outcome(lambda: a1._cached_params.pop(key, None))
                elif op == "rebase":
                    r0, r1 = outcome(lambda: a0.rebase_displacement()), outcome(lambda: a1.rebase_displacement())
                elif op == "zero_vel":  # uses self.pga internally
                    r0 = outcome(lambda: a0.set_zero_residual_velocity())
                    r1 = outcome(lambda: a1.set_zero_residual_velocity())
                elif op == "poke_values":  # in-place change without invalidation: stale cached peaks are kept
                    def poke(a):
                        a.values[-1] = a.values[-1] * 3 + 1
                    r0, r1 = outcome(lambda: poke(a0)), outcome(lambda: poke(a1))
                else:
                    raise AssertionError(op)
                same(r0, r1, ctx)
                same(state(a0), state(a1), ctx + ("state",))

        # peaks are max abs of the respective series (sanity of the harness itself, on the edited copy)
        for trial in range(50):
            vals = rng.standard_normal(int(rng.integers(2, 300)))
            a1 = new.AccSignal(vals, 0.01)
            assert a1.pga == np.max(np.abs(a1.values)) and a1.pgv == np.max(np.abs(a1.velocity))
            assert a1.pgd == np.max(np.abs(a1.displacement))

    print("equiv3: %d comparisons identical" % n_checks)


if __name__ == "__main__":
    main()

"""
Equivalence program for twin 3 (property C06: Fourier amplitude spectrum).

Run with the edit applied and cwd = the worktree:

    cd <worktree> && PYTHONPATH=<worktree> python out/equiv3.py

The ORIGINAL package is taken from git (`git archive HEAD eqsig`) into a temporary
directory.  The same deterministic battery of cases is run in two subprocesses, one
importing the original package and one importing the edited package (cwd), every
observation is normalised to bytes (dtype, shape, flags, raw buffer, exception type
and message, warnings), hashed (sha256), and the two logs are compared entry by entry,
i.e. bit for bit.

Exit status 0 iff everything matches.
"""
import os
import pickle
import shutil
import subprocess
import sys
import tempfile

TWIN = 3


# ----------------------------------------------------------------------------------------
# worker: runs inside a subprocess with PYTHONPATH pointing at ONE version of the package
# ----------------------------------------------------------------------------------------

def _worker(outfile):
    import hashlib
    import pickle
    import types
    import warnings
    import numpy as np
    import eqsig
    from eqsig import im
    from eqsig.single import Signal, AccSignal
    from eqsig.fns import frequency as fq

    log = []

    def norm(x, depth=0):
        """Normalise any observed value to a comparable, picklable structure."""
        if isinstance(x, np.ndarray):
            fl = x.flags
            if x.dtype == object or (x.dtype.kind in 'fc' and x.dtype.itemsize > (8 if x.dtype.kind == 'f' else 16)):
                payload = repr([repr(v) for v in x.ravel().tolist()])  # long double: padding bytes are undefined
            else:
                payload = np.ascontiguousarray(x).tobytes()
            return ('nd', x.dtype.str, x.shape, payload,
                    bool(fl.owndata), bool(fl.writeable), bool(fl.c_contiguous))
        if isinstance(x, np.generic):
            return ('npsc', type(x).__name__, x.tobytes())
        if isinstance(x, bool) or x is None or isinstance(x, (int, str)):
            return ('py', type(x).__name__, repr(x))
        if isinstance(x, float):
            return ('py', 'float', x.hex() if x == x else 'nan')
        if isinstance(x, complex):
            return ('py', 'complex', repr(x))
        if isinstance(x, (tuple, list)):
            return (type(x).__name__, [norm(v, depth + 1) for v in x])
        if isinstance(x, dict):
            return ('dict', [(repr(k), norm(v, depth + 1)) for k, v in sorted(x.items(), key=lambda kv: repr(kv[0]))])
        if isinstance(x, Signal):
            return ('sig', type(x).__name__, norm(x.values), norm(x.dt), norm(x.npts), norm(x.label))
        if isinstance(x, BaseException):
            return ('exc', type(x).__name__, str(x))
        return ('other', type(x).__name__, repr(x))

    def feed(h, x):
        """Deterministic serialisation of a normalised structure into a hash object."""
        if isinstance(x, (tuple, list)):
            h.update(b'(' if isinstance(x, tuple) else b'[')
            h.update(str(len(x)).encode())
            for v in x:
                feed(h, v)
            h.update(b')')
        elif isinstance(x, bytes):
            h.update(b'b%d:' % len(x))
            h.update(x)
        elif isinstance(x, str):
            e = x.encode('utf-8', 'backslashreplace')
            h.update(b's%d:' % len(e))
            h.update(e)
        else:
            e = repr(x).encode()
            h.update(b'r%d:' % len(e))
            h.update(e)

    def brief(x):
        """Short human readable description used only in mismatch reports."""
        if isinstance(x, tuple) and x and x[0] == 'exc':
            return 'raises %s: %s' % (x[1], x[2][:100])
        if isinstance(x, tuple) and x and x[0] == 'nd':
            return 'array %s %s' % (x[1], x[2])
        if isinstance(x, tuple) and x and x[0] in ('py', 'npsc'):
            return repr(x)[:80]
        if isinstance(x, tuple) and len(x) == 2 and x[0] in ('tuple', 'list'):
            return '%s[%s]' % (x[0], ', '.join(brief(v) for v in x[1][:6]))
        return repr(x)[:80]

    def record(label, res, ws):
        h = hashlib.sha256()
        feed(h, (res, ws))
        log.append((label, h.hexdigest(), brief(res)[:400], bool(isinstance(res, tuple) and res and res[0] == 'exc')))

    def run(label, fn):
        """Run fn, log (label, result-or-exception, warnings)."""
        with warnings.catch_warnings(record=True) as wlist:
            warnings.simplefilter('always')
            try:
                res = norm(fn())
            except Exception as e:  # compared by type and message
                res = norm(e)
        ws = [(w.category.__name__, str(w.message)) for w in wlist]
        record(label, res, ws)

    def observe(sig):
        """Everything observable about the FAS of a Signal through the public API."""
        a = sig.fa_spectrum
        b = sig.fa_spectrum
        f = sig.fa_freqs
        g = sig.fa_frequencies
        return (a, f, a is b, f is g, sig.fa_spectrum_abs, sig.values, sig.npts, sig.dt)

    def observe_after(sig, kw, lock=False):
        if lock:
            sig.values.flags.writeable = False
        out = []
        try:
            out.append(sig.gen_fa_spectrum(**kw))
        except Exception as e:
            out.append(e)
        try:
            out.append(observe(sig))
        except Exception as e:
            out.append(e)
        return out

    # ------------------------------------------------------------------ data makers
    def make_values(npts, kind, seed):
        rng = np.random.RandomState(seed)
        t = np.arange(npts)
        if kind == 'f64':
            return rng.standard_normal(npts)
        if kind == 'f32':
            return rng.standard_normal(npts).astype(np.float32)
        if kind == 'i64':
            return rng.randint(-50, 50, size=npts)
        if kind == 'i32':
            return rng.randint(-50, 50, size=npts).astype(np.int32)
        if kind == 'c128':
            return rng.standard_normal(npts) + 1j * rng.standard_normal(npts)
        if kind == 'list':
            return [float(v) for v in np.round(rng.standard_normal(npts), 3)]
        if kind == 'intlist':
            return [int(v) for v in rng.randint(-9, 9, size=npts)]
        if kind == 'tuple':
            return tuple(float(v) for v in rng.standard_normal(npts))
        if kind == 'sine':
            return np.sin(2 * np.pi * (0.05 + 0.4 * rng.rand()) * t + rng.rand()) + 0.3 * rng.rand()
        if kind == 'const':
            return np.ones(npts) * (1 + seed % 3)
        if kind == 'zeros':
            return np.zeros(npts)
        if kind == 'tailzeros':
            v = rng.standard_normal(npts)
            v[npts // 2:] = 0
            return v
        if kind == 'noncontig':
            return rng.standard_normal(2 * npts)[::2]
        if kind == 'bool':
            return rng.rand(npts) > 0.5
        raise ValueError(kind)

    small_lengths = list(range(2, 42))
    mid_lengths = [47, 63, 64, 65, 100, 127, 128, 129, 255, 256, 257, 500]
    big_lengths = [1000, 1023, 1024, 1025, 2048, 4096, 4684]
    kinds = ['f64', 'f32', 'i64', 'i32', 'c128', 'list', 'intlist', 'tuple', 'sine', 'const', 'zeros', 'tailzeros',
             'noncontig', 'bool']
    dts = [0.01, 0.005, 0.02, 1.0, 1. / 3, 2.5, np.float64(0.01), np.float32(0.01), 1, 2]

    def options(npts):
        opts = [{}, {'p2_plus': 0}, {'p2_plus': 1}, {'p2_plus': 2}, {'p2_plus': 3},
                {'n': npts}, {'n': npts + 1}, {'n': max(npts - 1, 1)}, {'n': 2 * npts + 1}, {'n': 4 * npts},
                {'n': np.int64(2 * npts)}, {'n': 64, 'p2_plus': 2}, {'n': 1}, {'n': 2}, {'n': 3},
                # inputs that fail (must fail identically)
                {'n': 0}, {'n': -4}, {'n': 8.0}, {'n': 2.5}, {'n': '8'}, {'n': True},
                {'p2_plus': -1}, {'p2_plus': -10}, {'p2_plus': 0.5}, {'p2_plus': None}, {'p2_plus': 'a'},
                {'p2_plus': np.int64(1)}, {'n': np.int64(0)}, {'n': np.float64(0.5)}, {'n': np.int32(-2)}]
        return opts

    # ------------------------------------------------------------------ A. object level
    case = 0
    for npts in small_lengths + mid_lengths + big_lengths:
        if npts in small_lengths:
            kk = kinds
        elif npts in mid_lengths:
            kk = ['f64', 'f32', 'i64', 'c128', 'list', 'sine', 'tailzeros']
        else:
            kk = ['f64', 'i32', 'sine']
        for ik, kind in enumerate(kk):
            dt = dts[(npts + ik) % len(dts)]
            cls = (Signal, AccSignal)[(npts + ik) % 2]
            vals = make_values(npts, kind, seed=npts * 31 + ik)
            keep = np.array(vals).copy()
            opts = options(npts)
            if npts in big_lengths:
                opts = opts[:8] + opts[15:17]
            for io, kw in enumerate(opts):
                case += 1
                lab = 'A/%s/%s/n%d/dt%r/%r' % (cls.__name__, kind, npts, dt, sorted(kw.items(), key=str))

                def fn(cls=cls, vals=vals, dt=dt, kw=kw):
                    sig = cls(vals, dt)
                    out = []
                    try:
                        out.append(sig.gen_fa_spectrum(**kw))
                    except Exception as e:
                        out.append(e)
                    # after a failed generation the lazy default path is still observable
                    out.append(observe(sig))
                    return out
                run(lab, fn)
            # argument must not be touched
            run('A/argkept/%s/%d' % (kind, npts), lambda: bool(np.array_equal(np.array(vals), keep)))
            # default lazy path only (no explicit generation) and the unpadded array-level functions
            run('A/lazy/%s/%d' % (kind, npts), lambda: observe(cls(vals, dt)))
            run('A/maxfa/%s/%d' % (kind, npts), lambda: im.max_fa_period(cls(vals, dt)))

    # degenerate lengths (outside the domain, must still behave identically)
    for npts in [0, 1]:
        for kw in [{}, {'p2_plus': 1}, {'n': 4}, {'n': 1}]:
            def fn(npts=npts, kw=kw):
                sig = Signal(np.arange(npts, dtype=float) + 1.0, 0.1)
                out = []
                try:
                    out.append(sig.gen_fa_spectrum(**kw))
                except Exception as e:
                    out.append(e)
                try:
                    out.append(observe(sig))
                except Exception as e:
                    out.append(e)
                return out
            run('A/degenerate/%d/%r' % (npts, kw), fn)

    # ------------------------------------------------------------------ B. array level
    class Duck(object):
        def __init__(self, values, dt, npts=None):
            self.values = values
            self.dt = dt
            self.npts = len(values) if npts is None else npts

    for npts in small_lengths + mid_lengths + [1024, 4684]:
        kk = kinds[(npts % 2)::2] if npts in small_lengths else ['f64', 'i64', 'list', 'c128', 'f32']
        for ik, kind in enumerate(kk):
            dt = dts[(npts * 3 + ik) % len(dts)]
            vals = make_values(npts, kind, seed=npts * 17 + ik + 5)
            makers = [('Signal', lambda: Signal(vals, dt)), ('AccSignal', lambda: AccSignal(vals, dt)),
                      ('Duck', lambda: Duck(vals, dt)), ('NS', lambda: types.SimpleNamespace(values=vals, dt=dt, npts=npts))]
            mk_name, mk = makers[(npts + ik) % len(makers)]
            for n_pad in [True, False, 1, 0, None, 'yes']:
                run('B/gen/%s/%s/%d/%r' % (mk_name, kind, npts, n_pad), lambda: fq.generate_fa_spectrum(mk(), n_pad=n_pad))
            run('B/gen/default/%s/%s/%d' % (mk_name, kind, npts), lambda: fq.generate_fa_spectrum(mk()))
            for kw in options(npts):
                run('B/calc/%s/%s/%d/%r' % (mk_name, kind, npts, sorted(kw.items(), key=str)),
                    lambda: fq.calc_fa_spectrum(mk(), **kw))
            # via the package namespaces as well
            run('B/ns/%s/%d' % (kind, npts), lambda: (eqsig.fns.calc_fa_spectrum(mk(), p2_plus=1),
                                                     eqsig.fns.generate_fa_spectrum(mk())))

            # object-level and array-level agree, and the argument/record is not modified
            def fn():
                s = mk()
                before = np.array(s.values).copy()
                r1 = fq.calc_fa_spectrum(s, p2_plus=0)
                r2 = fq.generate_fa_spectrum(s)
                same = bool(np.array_equal(np.array(s.values), before))
                return r1, r2, same
            run('B/kept/%s/%s/%d' % (mk_name, kind, npts), fn)
    # missing attributes / odd sig objects
    run('B/noattr1', lambda: fq.calc_fa_spectrum(types.SimpleNamespace(values=[1., 2., 3.], dt=0.1)))
    run('B/noattr2', lambda: fq.calc_fa_spectrum(types.SimpleNamespace(npts=3, dt=0.1), n=4))
    run('B/noattr3', lambda: fq.calc_fa_spectrum(types.SimpleNamespace(npts=3, values=[1., 2., 3.]), n=4))
    run('B/noattr4', lambda: fq.generate_fa_spectrum(types.SimpleNamespace(values=[1., 2., 3.], dt=0.1)))
    run('B/noattr5', lambda: fq.generate_fa_spectrum(types.SimpleNamespace(npts=3, values=[1., 2., 3.]), n_pad=False))
    run('B/dtnone', lambda: fq.calc_fa_spectrum(Duck([1., 2., 3., 4.], None)))
    run('B/dtzero', lambda: fq.calc_fa_spectrum(Duck([1., 2., 3., 4.], 0.0)))
    run('B/dtneg', lambda: fq.calc_fa_spectrum(Duck([1., 2., 3., 4.], -0.5), p2_plus=1))
    run('B/nptsshort', lambda: fq.calc_fa_spectrum(Duck([1., 2., 3., 4., 5., 6.], 0.5, npts=3)))
    run('B/nptsshort2', lambda: fq.generate_fa_spectrum(Duck([1., 2., 3., 4., 5., 6.], 0.5, npts=3)))
    for fake in [-3, -1, 0, 1, 5, 8, 9, 20, 2.5]:
        run('B/fakenpts/calc/%r' % fake, lambda: fq.calc_fa_spectrum(Duck([1., 2., 3., 4.], 0.5, npts=fake)))
        run('B/fakenpts/gen/%r' % fake, lambda: fq.generate_fa_spectrum(Duck([1., 2., 3., 4.], 0.5, npts=fake), n_pad=False))
        run('B/fakenpts/genpad/%r' % fake, lambda: fq.generate_fa_spectrum(Duck([1., 2., 3., 4.], 0.5, npts=fake)))
    run('B/nptsfloat', lambda: fq.calc_fa_spectrum(Duck([1., 2., 3., 4., 5., 6.], 0.5, npts=6.0), p2_plus=1))

    # ------------------------------------------------------------------ C. inverse helpers
    for m in list(range(0, 40)) + [64, 100, 128, 513, 2342]:
        for ik, kind in enumerate(['c128', 'f64', 'i64', 'c64', 'list', 'tuple', 'fromsig', 'noncontig']):
            rng = np.random.RandomState(1000 + m * 13 + ik)
            if kind == 'c128':
                fas = rng.standard_normal(m) + 1j * rng.standard_normal(m)
            elif kind == 'f64':
                fas = rng.standard_normal(m)
            elif kind == 'i64':
                fas = rng.randint(-5, 5, size=m)
            elif kind == 'c64':
                fas = (rng.standard_normal(m) + 1j * rng.standard_normal(m)).astype(np.complex64)
            elif kind == 'list':
                fas = [complex(a, b) for a, b in zip(np.round(rng.standard_normal(m), 2), np.round(rng.standard_normal(m), 2))]
            elif kind == 'tuple':
                fas = tuple(float(a) for a in rng.standard_normal(m))
            elif kind == 'noncontig':
                fas = (rng.standard_normal(2 * m) + 1j * rng.standard_normal(2 * m))[::2]
            else:
                if m < 1:
                    continue
                fas = Signal(rng.standard_normal(2 * m), 0.01).fa_spectrum
            for dt in [dts[(m + ik) % len(dts)], 0.01]:
                keep = np.array(fas).copy()
                run('C/values/%s/%d/%r' % (kind, m, dt), lambda: fq.fas2values(fas, dt))
                for stype in ['signal', 'acc', 'Signal', None]:
                    def fn(stype=stype):
                        s = fq.fas2signal(fas, dt, stype=stype)
                        return s, type(s).__name__, s.values, s.dt
                    run('C/signal/%s/%d/%r/%r' % (kind, m, dt, stype), fn)
                run('C/signal/default/%s/%d/%r' % (kind, m, dt), lambda: fq.fas2signal(fas, dt))
                run('C/kept/%s/%d' % (kind, m), lambda: bool(np.array_equal(np.array(fas), keep)))
        # round trip: spectrum -> signal -> spectrum
        if m >= 1:
            def fn(m=m):
                s0 = AccSignal(np.random.RandomState(m).standard_normal(2 * m), 0.02)
                s1 = fq.fas2signal(s0.fa_spectrum, s0.dt, stype='acc')
                return s1.values, s1.fa_spectrum, s1.fa_freqs, fq.fas2values(s1.fa_spectrum, s1.dt)
            run('C/roundtrip/%d' % m, fn)
    run('C/dt0', lambda: fq.fas2values(np.array([1 + 1j, 2., 3.]), 0.0))
    run('C/dtnone', lambda: fq.fas2values(np.array([1 + 1j, 2., 3.]), None))
    run('C/scalar', lambda: fq.fas2values(3.0, 0.1))
    run('C/scalar2', lambda: fq.fas2signal(3.0, 0.1))
    run('C/2d', lambda: fq.fas2values(np.ones((3, 2)), 0.1))

    # ------------------------------------------------------------------ D. moments (np.trapz based)
    for npts in [2, 3, 8, 100]:
        s = AccSignal(make_values(npts, 'f64', npts), 0.01)
        run('D/moment/%d' % npts, lambda: fq.calc_fourier_moment(s, 2))
        run('D/boore/%d' % npts, lambda: fq.get_bandwidth_boore_2003(s))
    for npts in [16, 40, 128]:
        s = AccSignal(make_values(npts, 'sine', npts), 0.01)
        run('D/smooth/%d' % npts, lambda: (s.smooth_fa_spectrum, s.smooth_fa_freqs))
        run('D/freqrange/%d' % npts, lambda: fq.get_sig_freq_range(s))
        run('D/custom/%d' % npts, lambda: fq.calc_smooth_fa_spectrum_w_custom_matrix(
            s, fq.calc_smoothing_matrix_konno_1998(s.fa_freqs, s.smooth_fa_freqs)))

    # ------------------------------------------------------------------ E. subclass hooks
    class Sub(Signal):
        calls = None

        def generate_fa_spectrum(self):
            self.calls = (self.calls or []) + ['generate']
            Signal.generate_fa_spectrum(self)

        def gen_fa_spectrum(self, p2_plus=0, n=None):
            self.calls = (self.calls or []) + ['gen', p2_plus, n]
            Signal.gen_fa_spectrum(self, p2_plus=p2_plus, n=n)

    def fn():
        s = Sub(np.arange(11.), 0.1)
        out = [s.fa_freqs, list(s.calls)]
        s.clear_cache()
        out += [s.fa_spectrum, list(s.calls)]
        s.clear_cache()
        out += [s.fa_spectrum_abs, list(s.calls)]
        s.clear_cache()
        out += [s.smooth_fa_spectrum, list(s.calls)]
        out += [im.max_fa_period(s), list(s.calls), fq.calc_fa_spectrum(s, p2_plus=1), list(s.calls)]
        return out
    run('E/sub', fn)

    # ------------------------------------------------------------------ G. coercion / validation corners
    ragged = [[1., 2.], [3.]]
    for kw in [{}, {'n': 0}, {'n': 4}, {'p2_plus': 1}, {'p2_plus': -9}]:
        run('G/ragged/%r' % kw, lambda: fq.calc_fa_spectrum(Duck(ragged, 0.1, npts=2), **kw))
        run('G/objarr/%r' % kw, lambda: fq.calc_fa_spectrum(Duck(np.array([1, 2.5, None, 3], dtype=object), 0.1), **kw))
        run('G/strarr/%r' % kw, lambda: fq.calc_fa_spectrum(Duck(['a', 'b', 'c'], 0.1), **kw))
        run('G/empty/%r' % kw, lambda: fq.calc_fa_spectrum(Duck([], 0.1, npts=4), **kw))
        run('G/2d/%r' % kw, lambda: fq.calc_fa_spectrum(Duck(np.arange(12.).reshape(3, 4), 0.1), **kw))
        run('G/sig2d/%r' % kw, lambda: observe_after(Signal(np.arange(12.).reshape(3, 4), 0.1), kw))
        run('G/sigobj/%r' % kw, lambda: observe_after(Signal(np.array([1, 2.5, 3, 4], dtype=object), 0.1), kw))
        run('G/f16/%r' % kw, lambda: observe_after(Signal(np.arange(6, dtype=np.float16), 0.1), kw))
        run('G/longdouble/%r' % kw, lambda: observe_after(Signal(np.arange(6, dtype=np.longdouble), 0.1), kw))
        run('G/readonly/%r' % kw, lambda: observe_after(Signal(np.arange(6.), 0.1), kw, lock=True))
        run('G/nan/%r' % kw, lambda: observe_after(Signal(np.array([1., np.nan, 3., np.inf, 2.]), 0.1), kw))
    for n_pad in [True, False]:
        run('G/gen/ragged/%r' % n_pad, lambda: fq.generate_fa_spectrum(Duck(ragged, 0.1, npts=2), n_pad=n_pad))
        run('G/gen/empty/%r' % n_pad, lambda: fq.generate_fa_spectrum(Duck([], 0.1, npts=4), n_pad=n_pad))
        run('G/gen/npts0/%r' % n_pad, lambda: fq.generate_fa_spectrum(Duck([1., 2.], 0.1, npts=0), n_pad=n_pad))
        run('G/gen/2d/%r' % n_pad, lambda: fq.generate_fa_spectrum(Duck(np.arange(12.).reshape(3, 4), 0.1), n_pad=n_pad))
    for fas in [[1, 2 + 1j, 3.5], [10 ** 20, 1, 2], (1, 2, 3), [True, False, True, True], ['a', 'b'], [None, 1.0],
                np.array([1, 2, 3], dtype=object), np.arange(4, dtype=np.float16), np.arange(5, dtype=np.clongdouble),
                [[1., 2.], [3.]], range(5), b'abc', 'abc', {1: 2, 3: 4}]:
        run('G/fas/%r' % (fas,), lambda: (fq.fas2values(fas, 0.5), fq.fas2signal(fas, 0.5)))
    for spec, freqs in [([1 + 1j, -3., 2j], [0., 1., 2.]), ((0., 0.), (0., 0.5)), ([5., 1.], [0., 2.]),
                        ([1., np.nan, 3.], [0., 1., 2.]), ([], []), ([1., 2., 3.], [0., 1.]),
                        (np.array([1., -4.]), np.array([0, 2])), ([[1., 5.], [2., 3.]], [0., 1., 2., 3.])]:
        run('G/maxfa/%r' % (spec,), lambda: im.max_fa_period(types.SimpleNamespace(fa_spectrum=spec, fa_frequencies=freqs)))
    run('G/maxfa/nofreq', lambda: im.max_fa_period(types.SimpleNamespace(fa_spectrum=[1., 2.])))
    run('G/maxfa/nospec', lambda: im.max_fa_period(types.SimpleNamespace(fa_frequencies=[1., 2.])))
    run('G/names', lambda: sorted(k for k in dir(eqsig.fns) if not k.startswith('_')))
    run('G/names2', lambda: sorted(k for k in dir(fq) if not k.startswith('_')))
    run('G/names3', lambda: sorted(k for k in dir(Signal) if not k.startswith('_')))

    # ------------------------------------------------------------------ H. cache state corners
    import copy

    def fn_state(cls, npts, how):
        rng = np.random.RandomState(npts)
        s = cls(rng.standard_normal(npts), 0.05)
        out = []

        def attempt(f):
            try:
                out.append(f())
            except Exception as e:
                out.append(e)
        if how == 'fail_uncached':
            attempt(lambda: s.gen_fa_spectrum(n=0))
            out.append(observe(s))
        elif how == 'fail_cached':
            s.gen_fa_spectrum(p2_plus=2)
            first = s.fa_spectrum
            attempt(lambda: s.gen_fa_spectrum(n=-1))
            attempt(lambda: s.gen_fa_spectrum(p2_plus='x'))
            out.append((observe(s), s.fa_spectrum is first))
        elif how == 'fail_after_clear':
            s.gen_fa_spectrum(p2_plus=2)
            s.clear_cache()
            attempt(lambda: s.gen_fa_spectrum(n=0))
            out.append(observe(s))
        elif how == 'deepcopy':
            s.gen_fa_spectrum(p2_plus=1)
            c = copy.deepcopy(s)
            c.fa_spectrum[0] = 99.
            out.append((observe(s), observe(c)))
            c.reset_values(np.ones(npts + 3))
            out.append((observe(s), observe(c)))
        elif how == 'copy':
            s.gen_fa_spectrum(n=npts + 5)
            c = copy.copy(s)
            out.append((c.fa_spectrum is s.fa_spectrum, c.fa_freqs is s.fa_freqs))
            c.clear_cache()
            out.append((observe(s), observe(c), c.fa_spectrum is s.fa_spectrum))
        elif how == 'pickle':
            s.gen_fa_spectrum(p2_plus=3)
            c = pickle.loads(pickle.dumps(s))
            out.append((observe(s), observe(c)))
            c2 = pickle.loads(pickle.dumps(cls(np.arange(npts), 0.1)))
            out.append(observe(c2))
        elif how == 'independent':
            s2 = cls(rng.standard_normal(npts + 1), 0.07)
            s.gen_fa_spectrum(p2_plus=2)
            out.append((observe(s2), observe(s)))
            s.clear_cache()
            out.append((observe(s2), observe(s)))
        elif how == 'only_freqs':
            f1 = s.fa_freqs
            sp = s.fa_spectrum
            out.append((f1, sp, s.fa_freqs is f1))
            s.add_constant(1.0)
            f2 = s.fa_freqs
            out.append((f2, f2 is f1, s.fa_spectrum, s.fa_spectrum is sp))
        elif how == 'regen_identity':
            a = s.fa_spectrum
            f = s.fa_freqs
            s.generate_fa_spectrum()
            out.append((s.fa_spectrum is a, s.fa_freqs is f, a, s.fa_spectrum))
            s.gen_fa_spectrum(n=1)
            out.append(observe(s))
            s.values[0] = 5.0
            out.append(observe(s))
            s.gen_fa_spectrum()
            out.append(observe(s))
        elif how == 'smooth':
            out.append(s.smooth_fa_spectrum)
            s.gen_fa_spectrum(p2_plus=2)
            out.append(s.smooth_fa_spectrum)  # smooth cache not invalidated by a regeneration
            s.gen_smooth_fa_spectrum()
            out.append(s.smooth_fa_spectrum)
            s.clear_cache()
            out.append((s.smooth_fa_spectrum, observe(s)))
        return out

    for cls in (Signal, AccSignal):
        for npts in [2, 3, 5, 8, 33, 100]:
            for how in ['fail_uncached', 'fail_cached', 'fail_after_clear', 'deepcopy', 'copy', 'pickle', 'independent',
                        'only_freqs', 'regen_identity', 'smooth']:
                run('H/%s/%d/%s' % (cls.__name__, npts, how), lambda: fn_state(cls, npts, how))

    # ------------------------------------------------------------------ F. histories of operations
    def history(seed):
        rng = np.random.RandomState(seed)
        npts = int(rng.choice([2, 3, 4, 5, 7, 8, 9, 15, 16, 17, 31, 33, 64, 100, 130]))
        dt = float(rng.choice([0.01, 0.02, 0.1, 0.5]))
        cls = (Signal, AccSignal)[seed % 2]
        kind = ['f64', 'i64', 'sine', 'f32', 'tailzeros', 'c128'][seed % 6] if cls is Signal else \
            ['f64', 'sine', 'tailzeros', 'f64'][seed % 4]
        sig = cls(make_values(npts, kind, seed), dt)
        held = {}
        trace = []
        ops = ['gen', 'gen', 'generate', 'read', 'read', 'readf', 'abs', 'reset', 'resetlen', 'addc', 'adds', 'addsig',
               'rmavg', 'rmpoly', 'runavg', 'inplace', 'mutspec', 'mutfreq', 'clear', 'butter', 'maxfa', 'calc',
               'genarr', 'roundtrip', 'held', 'smooth']
        if cls is AccSignal:
            ops += ['rebase', 'rolling', 'zrv', 'zrd', 'veldisp']
        for step in range(int(rng.randint(6, 16))):
            op = ops[int(rng.randint(len(ops)))]
            r1, r2, r3 = rng.rand(), rng.rand(), rng.rand()
            with warnings.catch_warnings(record=True) as wl:
                warnings.simplefilter('always')
                try:
                    if op == 'gen':
                        kw = [{}, {'p2_plus': 1}, {'p2_plus': 2}, {'p2_plus': 3}, {'n': int(1 + r2 * 3 * sig.npts)},
                              {'n': 0}, {'p2_plus': -8}, {'n': sig.npts}][int(r1 * 8)]
                        res = (repr(kw), sig.gen_fa_spectrum(**kw))
                    elif op == 'generate':
                        res = sig.generate_fa_spectrum()
                    elif op == 'read':
                        res = sig.fa_spectrum
                        held['spec'] = res
                    elif op == 'readf':
                        res = (sig.fa_freqs, sig.fa_frequencies)
                        held['freq'] = res[0]
                    elif op == 'abs':
                        res = sig.fa_spectrum_abs
                    elif op == 'reset':
                        res = sig.reset_values(np.random.RandomState(int(r1 * 1e6)).standard_normal(sig.npts))
                    elif op == 'resetlen':
                        res = sig.reset_values(list(np.random.RandomState(int(r1 * 1e6)).standard_normal(2 + int(r2 * 40))))
                    elif op == 'addc':
                        res = sig.add_constant(r1 - 0.5)
                    elif op == 'adds':
                        res = sig.add_series(np.linspace(0, r1, sig.npts + (1 if r2 < 0.1 else 0)))
                    elif op == 'addsig':
                        res = sig.add_signal(Signal(np.ones(sig.npts) * r1, sig.dt if r2 > 0.1 else sig.dt * 2))
                    elif op == 'rmavg':
                        res = sig.remove_average()
                    elif op == 'rmpoly':
                        res = sig.remove_poly(int(r1 * 3))
                    elif op == 'runavg':
                        res = sig.running_average(1 + int(r1 * 4))
                    elif op == 'inplace':
                        # in-place edit of the exposed array: the cache is deliberately NOT invalidated
                        sig.values[int(r1 * sig.npts)] = 3 * r2
                        res = None
                    elif op == 'mutspec':
                        sp = sig.fa_spectrum
                        sp[int(r1 * len(sp))] = 7.5
                        res = sig.fa_spectrum
                    elif op == 'mutfreq':
                        fr = sig.fa_freqs
                        fr[int(r1 * len(fr))] = 123.0
                        res = sig.fa_freqs
                    elif op == 'clear':
                        res = sig.clear_cache()
                    elif op == 'butter':
                        res = sig.butter_pass((0.5 + r1, None) if r2 < 0.5 else (None, 0.2 / sig.dt * (0.2 + r1)))
                    elif op == 'maxfa':
                        res = im.max_fa_period(sig)
                    elif op == 'calc':
                        kw = [{}, {'p2_plus': 0}, {'p2_plus': 2}, {'n': int(1 + r2 * 2 * sig.npts)}][int(r1 * 4)]
                        res = fq.calc_fa_spectrum(sig, **kw)
                    elif op == 'genarr':
                        res = fq.generate_fa_spectrum(sig, n_pad=r1 < 0.5)
                    elif op == 'roundtrip':
                        s2 = fq.fas2signal(sig.fa_spectrum, sig.dt, stype='signal' if r1 < 0.5 else 'acc')
                        res = (s2, s2.fa_spectrum, fq.fas2values(sig.fa_spectrum, sig.dt))
                    elif op == 'held':
                        res = (held.get('spec'), held.get('freq'),
                               held.get('spec') is sig.fa_spectrum, held.get('freq') is sig.fa_freqs)
                    elif op == 'smooth':
                        res = sig.smooth_fa_spectrum
                    elif op == 'rebase':
                        res = sig.rebase_displacement()
                    elif op == 'rolling':
                        res = sig.remove_rolling_average(mtype='velocity' if r1 < 0.5 else 'acc', freq_window=1 + int(4 * r2))
                    elif op == 'zrv':
                        res = sig.set_zero_residual_velocity()
                    elif op == 'zrd':
                        res = sig.set_zero_residual_displacement()
                    elif op == 'veldisp':
                        res = (sig.velocity, sig.displacement, sig.pga)
                    else:
                        raise RuntimeError(op)
                    res = norm(res)
                except Exception as e:
                    res = norm(e)
            ws = [(w.category.__name__, str(w.message)) for w in wl]
            # after each operation: what is visible
            with warnings.catch_warnings(record=True):
                warnings.simplefilter('always')
                try:
                    vis = norm((sig.values, sig.npts)) if step % 3 else norm(observe(sig))
                except Exception as e:
                    vis = norm(e)
            trace.append((op, res, ws, vis))
        with warnings.catch_warnings(record=True):
            warnings.simplefilter('always')
            try:
                final = norm(observe(sig))
            except Exception as e:
                final = norm(e)
        return trace, final

    for seed in range(1000):
        tr, fin = history(seed)
        record('F/history/%d [%s]' % (seed, ' '.join(t[0] for t in tr)), ('trace', tr, fin), [])

    with open(outfile, 'wb') as f:
        pickle.dump({'file': os.path.abspath(eqsig.__file__), 'log': log}, f, protocol=2)


# ----------------------------------------------------------------------------------------
# driver
# ----------------------------------------------------------------------------------------

def main():
    cwd = os.getcwd()
    me = os.path.abspath(__file__)
    if not os.path.isdir(os.path.join(cwd, 'eqsig')):
        print('run from the worktree root (cwd must contain eqsig/)')
        return 2
    tmp = tempfile.mkdtemp(prefix='c06_equiv%d_' % TWIN)
    try:
        orig_root = os.path.join(tmp, 'orig')
        os.makedirs(orig_root)
        tar_path = os.path.join(tmp, 'orig.tar')
        with open(tar_path, 'wb') as f:
            subprocess.check_call(['git', 'archive', 'HEAD', 'eqsig'], cwd=cwd, stdout=f)
        subprocess.check_call(['tar', '-xf', tar_path, '-C', orig_root])
        neutral = os.path.join(tmp, 'neutral')
        os.makedirs(neutral)
        outs = {}
        procs = {}
        for name, root in (('orig', orig_root), ('edit', cwd)):
            env = dict(os.environ)
            env['PYTHONPATH'] = root
            env['PYTHONHASHSEED'] = '0'
            env['PYTHONDONTWRITEBYTECODE'] = '1'
            outs[name] = os.path.join(tmp, name + '.pkl')
            procs[name] = subprocess.Popen([sys.executable, me, '--worker', outs[name]], cwd=neutral, env=env)
        for name in procs:
            rc = procs[name].wait()
            if rc != 0:
                print('worker %s failed with exit status %d' % (name, rc))
                return 3
        res = {}
        for name in outs:
            with open(outs[name], 'rb') as f:
                res[name] = pickle.load(f)
        if not res['orig']['file'].startswith(orig_root + os.sep):
            print('original worker imported the wrong package: %s' % res['orig']['file'])
            return 3
        if not res['edit']['file'].startswith(os.path.join(cwd, 'eqsig') + os.sep):
            print('edited worker imported the wrong package: %s' % res['edit']['file'])
            return 3
        lo, le = res['orig']['log'], res['edit']['log']
        bad = 0
        if len(lo) != len(le):
            print('different number of cases: %d vs %d' % (len(lo), len(le)))
            bad += 1
        n_exc = 0
        for (la, ha, ba, ea), (lb, hb, bb, eb) in zip(lo, le):
            if ea:
                n_exc += 1
            if la != lb or ha != hb:
                bad += 1
                if bad <= 15:
                    print('MISMATCH %s' % la)
                    print('     original: %s' % ba)
                    print('     edited  : %s' % bb)
        print('twin %d: %d cases compared (%d of them raise in the original), %d mismatches'
              % (TWIN, len(lo), n_exc, bad))
        return 0 if bad == 0 else 1
    finally:
        shutil.rmtree(tmp, ignore_errors=True)


if __name__ == '__main__':
    if len(sys.argv) >= 3 and sys.argv[1] == '--worker':
        _worker(sys.argv[2])
        sys.exit(0)
    sys.exit(main())

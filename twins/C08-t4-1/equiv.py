"""Equivalence check for twin1 (eqsig.im.calc_peak / calculate_peak tidy-up).

Run with twin1 applied, cwd = the worktree.  Loads the ORIGINAL package from
`git archive HEAD` into a temporary directory and compares it in-process with
the edited package found in the current working directory.
"""
import os
import shutil
import subprocess
import sys
import tempfile
import warnings

import numpy as np

HERE = os.getcwd()


def _purge():
    for name in [m for m in sys.modules if m == 'eqsig' or m.startswith('eqsig.')]:
        del sys.modules[name]


def load_both():
    tmp = tempfile.mkdtemp(prefix='c08_orig_', dir='/tmp')
    arch = subprocess.Popen(['git', 'archive', 'HEAD', 'eqsig'], cwd=HERE, stdout=subprocess.PIPE)
    subprocess.check_call(['tar', '-x', '-C', tmp], stdin=arch.stdout)
    arch.wait()
    assert arch.returncode == 0
    _purge()
    sys.path.insert(0, HERE)
    import eqsig as new
    import eqsig.im, eqsig.displacements, eqsig.single  # noqa
    new_mods = {k: v for k, v in sys.modules.items() if k == 'eqsig' or k.startswith('eqsig.')}
    assert os.path.realpath(new.__file__).startswith(os.path.realpath(HERE) + os.sep), new.__file__
    _purge()
    sys.path.remove(HERE)
    sys.path.insert(0, tmp)
    import eqsig as old
    import eqsig.im, eqsig.displacements, eqsig.single  # noqa
    old_mods = {k: v for k, v in sys.modules.items() if k == 'eqsig' or k.startswith('eqsig.')}
    assert os.path.realpath(old.__file__).startswith(os.path.realpath(tmp) + os.sep), old.__file__
    sys.path.remove(tmp)
    return tmp, old_mods, new_mods


N_CHECKS = [0]


def same(a, b, ctx=''):
    """bit-for-bit equality including type, dtype and shape"""
    N_CHECKS[0] += 1
    assert type(a) is type(b), (ctx, type(a), type(b))
    if isinstance(a, np.ndarray):
        assert a.dtype == b.dtype, (ctx, a.dtype, b.dtype)
        assert a.shape == b.shape, (ctx, a.shape, b.shape)
        if a.dtype == object:
            same(a.tolist(), b.tolist(), ctx)
        else:
            assert a.tobytes() == b.tobytes(), (ctx, a, b)
    elif isinstance(a, (tuple, list)):
        assert len(a) == len(b), ctx
        for x, y in zip(a, b):
            same(x, y, ctx)
    elif isinstance(a, np.generic):
        assert a.dtype == b.dtype, (ctx, a.dtype, b.dtype)
        assert a.tobytes() == b.tobytes(), (ctx, a, b)
    elif isinstance(a, float):
        assert repr(a) == repr(b), (ctx, a, b)
    elif isinstance(a, dict):
        assert list(a.keys()) == list(b.keys()), (ctx, a, b)
        for k in a:
            same(a[k], b[k], (ctx, k))
    else:
        assert a == b, (ctx, a, b)


def run(fn, *args, **kwargs):
    """returns ('ok', value, warnings) or ('exc', type, message, warnings)"""
    with warnings.catch_warnings(record=True) as w:
        warnings.simplefilter('always')
        try:
            out = ('ok', fn(*args, **kwargs))
        except Exception as e:  # noqa
            out = ('exc', type(e).__name__, str(e))
    return out + ([(x.category.__name__, str(x.message)) for x in w],)


def snapshot(x):
    if isinstance(x, np.ndarray):
        return x.copy()
    if isinstance(x, (list, tuple)):
        return type(x)(x)
    return x


def compare_call(f_old, f_new, make_arg, ctx):
    a_old = make_arg()
    a_new = make_arg()
    keep_old = snapshot(a_old)
    r_old = run(f_old, a_old)
    r_new = run(f_new, a_new)
    same(r_old, r_new, ctx)
    if isinstance(a_old, (np.ndarray, list, tuple)):
        same(a_old, a_new, (ctx, 'arg after call'))
        same(a_old, keep_old, (ctx, 'arg not mutated'))
    return r_old


def main():
    tmp, old_mods, new_mods = load_both()
    try:
        im_old, im_new = old_mods['eqsig.im'], new_mods['eqsig.im']
        assert im_old is not im_new
        rng = np.random.RandomState(8)

        makers = []
        # random float records of many lengths
        for n in [1, 2, 3, 4, 5, 7, 10, 33, 100, 1001]:
            for k in range(6):
                v = rng.randn(n) * 10 ** rng.uniform(-6, 6)
                makers.append(('rand%d_%d' % (n, k), lambda v=v: v.copy()))
                makers.append(('randlist%d_%d' % (n, k), lambda v=v: list(v)))
                makers.append(('randpylist%d_%d' % (n, k), lambda v=v: v.tolist()))
                makers.append(('randtuple%d_%d' % (n, k), lambda v=v: tuple(v.tolist())))
                makers.append(('neg%d_%d' % (n, k), lambda v=v: -np.abs(v)))
                makers.append(('pos%d_%d' % (n, k), lambda v=v: np.abs(v)))
                makers.append(('f32_%d_%d' % (n, k), lambda v=v: v.astype(np.float32)))
                makers.append(('strided%d_%d' % (n, k), lambda v=v: np.repeat(v, 2)[::2]))
        # integer records
        for n in [1, 2, 3, 10, 50]:
            for dt in [np.int64, np.int32, np.int16, np.int8, np.uint8, np.uint32]:
                info = np.iinfo(dt)
                v = rng.randint(max(info.min, -1000), min(info.max, 1000), size=n).astype(dt)
                makers.append(('int%s_%d' % (dt.__name__, n), lambda v=v: v.copy()))
                makers.append(('intlist%s_%d' % (dt.__name__, n), lambda v=v: v.tolist()))
        makers.append(('int8min', lambda: np.array([-128, 5, 100], dtype=np.int8)))
        makers.append(('int64min', lambda: np.array([np.iinfo(np.int64).min, 5], dtype=np.int64)))
        # edge values
        specials = [
            [0.0, 0.0], [0.0, -0.0], [-0.0, -0.0], [-0.0, 0.0], [0, 0, 0], [1.0, -1.0], [-1.0, 1.0], [2, -2], [-2, 2],
            [np.nan, 1.0, -2.0], [1.0, np.nan, -2.0], [1.0, -2.0, np.nan], [np.nan, np.nan],
            [np.inf, -np.inf], [-np.inf, np.inf], [-np.inf, 1.0], [np.inf, 1.0], [1e308, -1e308], [5e-324, -5e-324],
            [3.0], [-3.0], [0.0], [True, False], [1, 2.5, -3], [-3, 2.5, 1], [-2.5, 2.5], [2.5, -2.5],
        ]
        for i, s in enumerate(specials):
            makers.append(('special_list%d' % i, lambda s=s: list(s)))
            makers.append(('special_arr%d' % i, lambda s=s: np.array(s)))
            makers.append(('special_tuple%d' % i, lambda s=s: tuple(s)))
        # invalid inputs: must fail the same way
        makers.append(('empty_list', lambda: []))
        makers.append(('empty_arr', lambda: np.array([])))
        makers.append(('two_d', lambda: np.arange(6.).reshape(2, 3)))
        makers.append(('two_d_1col', lambda: np.arange(3.).reshape(3, 1)))
        makers.append(('scalar', lambda: 3.0))
        makers.append(('zero_d', lambda: np.array(3.0)))
        makers.append(('none', lambda: None))
        makers.append(('strings', lambda: ['a', 'b']))
        makers.append(('mixed', lambda: [1.0, 'b']))
        makers.append(('complex', lambda: np.array([1 + 2j, 3 - 1j])))
        makers.append(('generator', lambda: (x for x in [1.0, -4.0, 2.0])))
        makers.append(('iterator', lambda: iter([1.0, -4.0, 2.0])))
        makers.append(('dict', lambda: {1.0: 2, -3.0: 4}))
        makers.append(('set', lambda: {1.0, -3.0}))
        makers.append(('range', lambda: range(-7, 4)))
        makers.append(('bool_arr', lambda: np.array([True, False, True])))
        makers.append(('object_arr', lambda: np.array([1, -5, 2.5], dtype=object)))

        for name, mk in makers:
            compare_call(im_old.calc_peak, im_new.calc_peak, mk, ('calc_peak', name))
            r = compare_call(im_old.calculate_peak, im_new.calculate_peak, mk, ('calculate_peak', name))
            # the deprecated alias warns exactly once, whatever happens afterwards
            assert r[-1][0] == ('UserWarning', "Use calc_peak instead of calculate_peak"), r

        # warning location (stacklevel) of the deprecated alias is unchanged
        def where(mod):
            with warnings.catch_warnings(record=True) as w:
                warnings.simplefilter('always')
                mod.calculate_peak([1.0, -2.0])
            return [(os.path.basename(x.filename), x.lineno - where.__code__.co_firstlineno) for x in w]
        w_old, w_new = where(im_old), where(im_new)
        assert w_old == w_new and len(w_old) == 1, (w_old, w_new)

        # object-level access: peaks of AccSignal go through im.calc_peak
        Acc_old, Acc_new = old_mods['eqsig'].AccSignal, new_mods['eqsig'].AccSignal
        for n in [2, 3, 5, 10, 64, 500]:
            for k in range(5):
                v = rng.randn(n) * 10 ** rng.uniform(-3, 3)
                dt = float(10 ** rng.uniform(-3, 0))
                for values in (v, list(v), v.astype(np.float32), np.round(v * 10).astype(int), np.zeros(n), -np.abs(v)):
                    for alpha in (1.0, -1.0, -2.5):
                        so = Acc_old(np.asarray(values) * alpha, dt)
                        sn = Acc_new(np.asarray(values) * alpha, dt)
                        for attr in ('pga', 'pgv', 'pgd', 'pgd', 'pga'):
                            same(run(getattr, so, attr), run(getattr, sn, attr), ('obj', attr, n, k))
                            same(so._cached_params, sn._cached_params, 'cache')
                        # multi-step history
                        so.generate_displacement_and_velocity_series(trap=False)
                        sn.generate_displacement_and_velocity_series(trap=False)
                        same(so.pgv, sn.pgv, 'stale pgv')
                        so.reset_values(so.values * 2 + 0.1)
                        sn.reset_values(sn.values * 2 + 0.1)
                        same(so._cached_params, sn._cached_params, 'cache after reset')
                        for attr in ('pgd', 'pgv', 'pga'):
                            same(run(getattr, so, attr), run(getattr, sn, attr), ('obj2', attr, n, k))
                        same(so._cached_params, sn._cached_params, 'cache order')
                        same(so.values, sn.values, 'values')
                        same(so.velocity, sn.velocity, 'velocity')
                        same(so.displacement, sn.displacement, 'displacement')
        print('equiv1: %d comparisons identical' % N_CHECKS[0])
    finally:
        shutil.rmtree(tmp, ignore_errors=True)


if __name__ == '__main__':
    main()

"""Equivalence check for twin1 (helper extraction in eqsig/im.py: calc_sig_dur_vals, calc_sig_dur).

Run with twin1 applied, cwd = the worktree.  Exit 0 iff the original and the edited functions agree.
"""
import os
import subprocess
import sys
import types
import warnings

HERE = os.getcwd()
sys.path.insert(0, HERE)
warnings.simplefilter("ignore")

import numpy as np  # noqa: E402
import eqsig  # noqa: E402
import eqsig.im as new_im  # noqa: E402

assert eqsig.__file__.startswith(HERE), eqsig.__file__


def load_original(relpath, modname):
    src = subprocess.check_output(["git", "show", "HEAD:" + relpath], cwd=HERE).decode()
    mod = types.ModuleType(modname)
    mod.__package__ = "eqsig"
    mod.__file__ = os.path.join(HERE, relpath)
    exec(compile(src, relpath + "@HEAD", "exec"), mod.__dict__)
    return mod


old_im = load_original("eqsig/im.py", "eqsig._orig_im")
assert not hasattr(old_im, "_calc_crossing_times") and hasattr(new_im, "_calc_crossing_times")

N_CHECKS = 0


def outcome(fn, *args, **kwargs):
    try:
        return ("ok", fn(*args, **kwargs))
    except Exception as e:  # noqa
        return ("exc", type(e), str(e))


def same_scalar(a, b):
    if type(a) is not type(b):
        return False
    if a is None:
        return True
    a_arr, b_arr = np.asarray(a), np.asarray(b)
    return a_arr.dtype == b_arr.dtype and a_arr.shape == b_arr.shape and a_arr.tobytes() == b_arr.tobytes()


def same(o1, o2):
    if o1[0] != o2[0]:
        return False
    if o1[0] == "exc":
        return o1[1] is o2[1] and o1[2] == o2[2]
    v1, v2 = o1[1], o2[1]
    if isinstance(v1, tuple) or isinstance(v2, tuple):
        return (type(v1) is type(v2) and len(v1) == len(v2)
                and all(same_scalar(x, y) for x, y in zip(v1, v2)))
    return same_scalar(v1, v2)


def check(desc, o1, o2):
    global N_CHECKS
    N_CHECKS += 1
    if not same(o1, o2):
        print("MISMATCH", desc, o1, o2)
        sys.exit(1)


rng = np.random.default_rng(20240610)

FRACTIONS = [(0.05, 0.95), (0.05, 0.75), (0.2, 0.8), (0.01, 0.99), (0.45, 0.55), (0.499, 0.501),
             (1e-9, 1 - 1e-9), (0.3, 0.31)]
DTS = [0.01, 0.005, 0.02, 1.0, 0.1, 1. / 3, np.float64(0.01), np.float32(0.01), 1, 2]


def records():
    recs = []
    for n in (1, 2, 3, 4, 5, 8, 17, 100, 1000, 4096):
        for _ in range(6):
            recs.append(rng.standard_normal(n) * rng.choice([1e-6, 1e-2, 1.0, 9.8, 1e4]))
    # enveloped motions
    for n in (50, 300, 2500):
        t = np.arange(n) / n
        recs.append(np.sin(40 * t) * np.exp(-((t - 0.4) / 0.15) ** 2) * 3.0)
        recs.append(rng.standard_normal(n) * np.exp(-((t - 0.6) / 0.1) ** 2))
    # zeros prepended / appended, zeros only, constant, single spike, two spikes
    base = rng.standard_normal(40)
    for k in (1, 3, 10):
        recs.append(np.concatenate([np.zeros(k), base]))
        recs.append(np.concatenate([base, np.zeros(k)]))
    recs.append(np.zeros(10))
    recs.append(np.zeros(1))
    recs.append(np.ones(12))
    recs.append(-np.ones(12) * 0.3)
    spike = np.zeros(20)
    spike[7] = 2.0
    recs.append(spike)
    two = np.zeros(20)
    two[3] = 1.0
    two[15] = -1.0
    recs.append(two)
    three = np.zeros(30)
    three[[4, 12, 25]] = [1.0, -2.0, 1.5]
    recs.append(three)
    # integer dtypes, float32, non-contiguous, nan / inf
    recs.append(rng.integers(-5, 6, size=50))
    recs.append(rng.integers(-5, 6, size=50).astype(np.int32))
    recs.append(rng.integers(-100, 100, size=30).astype(np.int16))
    recs.append(np.array([0, 1, -2, 3, 0, 0, 1]))
    recs.append(rng.standard_normal(64).astype(np.float32))
    recs.append(rng.standard_normal(200)[::3])
    recs.append(rng.standard_normal(200)[::-1])
    with_nan = rng.standard_normal(20)
    with_nan[5] = np.nan
    recs.append(with_nan)
    with_inf = rng.standard_normal(20)
    with_inf[5] = np.inf
    recs.append(with_inf)
    recs.append(np.array([]))
    return recs


RECORDS = records()

# ---- calc_sig_dur_vals -------------------------------------------------------------------------
for i, rec in enumerate(RECORDS):
    for (s, e) in FRACTIONS:
        for dt in (DTS if i % 7 == 0 else DTS[:4]):
            for se in (False, True):
                a1, a2 = rec.copy(), rec.copy()
                o1 = outcome(old_im.calc_sig_dur_vals, a1, dt, start=s, end=e, se=se)
                o2 = outcome(new_im.calc_sig_dur_vals, a2, dt, start=s, end=e, se=se)
                check(("vals", i, s, e, dt, se), o1, o2)
                assert a1.tobytes() == rec.tobytes() and a2.tobytes() == rec.tobytes()
    # defaults, positional form
    check(("vals-default", i), outcome(old_im.calc_sig_dur_vals, rec, 0.01),
          outcome(new_im.calc_sig_dur_vals, rec, 0.01))
    check(("vals-pos", i), outcome(old_im.calc_sig_dur_vals, rec, 0.01, 0.1, 0.9, True),
          outcome(new_im.calc_sig_dur_vals, rec, 0.01, 0.1, 0.9, True))

# list / tuple inputs (both must fail in the same way), degenerate fraction pairs
for bad in ([0.0, 1.0, -2.0, 0.5], (0.0, 1.0, 2.0), 3.0, None):
    for se in (False, True):
        check(("vals-bad", bad, se), outcome(old_im.calc_sig_dur_vals, bad, 0.01, se=se),
              outcome(new_im.calc_sig_dur_vals, bad, 0.01, se=se))
for (s, e) in [(0.5, 0.5), (0.9, 0.1), (0.0, 1.0), (-0.1, 1.1)]:
    for rec in RECORDS[::5]:
        for se in (False, True):
            check(("vals-frac", s, e), outcome(old_im.calc_sig_dur_vals, rec, 0.01, start=s, end=e, se=se),
                  outcome(new_im.calc_sig_dur_vals, rec, 0.01, start=s, end=e, se=se))

# the deprecated wrapper goes through the same code
for rec in RECORDS[::4]:
    check(("deprecated",), outcome(old_im.calc_significant_duration, rec, 0.01),
          outcome(new_im.calc_significant_duration, rec, 0.01))


# ---- calc_sig_dur ------------------------------------------------------------------------------
def im_cumsum_sq(asig):
    return np.cumsum(asig.values ** 2)


def im_cum_abs_int(asig):
    return np.cumsum(np.abs(np.round(asig.values * 10)).astype(np.int64))


def im_float32(asig):
    return np.cumsum(np.abs(asig.values)).astype(np.float32)


def im_list(asig):
    return list(np.cumsum(np.abs(asig.values)))


def im_nonmonotonic(asig):
    return np.cumsum(asig.values)


calls = []


def im_counting(asig):
    calls.append(id(asig))
    return np.cumsum(np.abs(asig.values) ** 3)


def im_factory(mod, name):
    return lambda asig: getattr(mod, name)(asig)


def state_of(asig):
    out = {}
    for k, v in sorted(asig.__dict__.items()):
        if isinstance(v, np.ndarray):
            out[k] = (str(v.dtype), v.shape, v.tobytes())
        elif isinstance(v, dict):
            out[k] = sorted((kk, repr(vv)) for kk, vv in v.items())
        else:
            out[k] = repr(v)
    return out


for i, rec in enumerate(RECORDS):
    if rec.size == 0:
        continue
    for dt in (DTS[:3] if i % 5 else DTS):
        asig_old = eqsig.AccSignal(rec.copy(), dt)
        asig_new = eqsig.AccSignal(rec.copy(), dt)
        ims = [(None, None), (im_cumsum_sq, im_cumsum_sq), (im_cum_abs_int, im_cum_abs_int),
               (im_float32, im_float32), (im_list, im_list), (im_nonmonotonic, im_nonmonotonic),
               (im_factory(old_im, "calc_cav"), im_factory(new_im, "calc_cav")),
               (im_factory(old_im, "calc_arias_intensity"), im_factory(new_im, "calc_arias_intensity"))]
        for (s, e) in (FRACTIONS if i % 3 == 0 else FRACTIONS[:3]):
            for im_o, im_n in ims:
                for se in (False, True):
                    o1 = outcome(old_im.calc_sig_dur, asig_old, start=s, end=e, im=im_o, se=se)
                    o2 = outcome(new_im.calc_sig_dur, asig_new, start=s, end=e, im=im_n, se=se)
                    check(("sig_dur", i, dt, s, e, getattr(im_o, "__name__", None), se), o1, o2)
        # defaults and positional calls
        check(("sig_dur-default", i), outcome(old_im.calc_sig_dur, asig_old), outcome(new_im.calc_sig_dur, asig_new))
        check(("sig_dur-pos", i), outcome(old_im.calc_sig_dur, asig_old, 0.1, 0.9, None, True),
              outcome(new_im.calc_sig_dur, asig_new, 0.1, 0.9, None, True))
        # the user measure is called exactly once, on the object that was handed in
        del calls[:]
        o1 = outcome(old_im.calc_sig_dur, asig_old, im=im_counting, se=True)
        n_old = list(calls)
        del calls[:]
        o2 = outcome(new_im.calc_sig_dur, asig_new, im=im_counting, se=True)
        check(("sig_dur-counting", i), o1, o2)
        assert n_old == [id(asig_old)] and calls == [id(asig_new)]
        # objects and their records are left as they were, identically
        assert state_of(asig_old) == state_of(asig_new), ("state", i)
        assert asig_old.values.tobytes() == rec.tobytes() and asig_new.values.tobytes() == rec.tobytes()

# multi-step history on one object: scaling, prepending zeros, resetting values
rec = RECORDS[40]
a_old, a_new = eqsig.AccSignal(rec.copy(), 0.01), eqsig.AccSignal(rec.copy(), 0.01)
for step in range(6):
    for se in (False, True):
        check(("hist", step, se), outcome(old_im.calc_sig_dur, a_old, se=se), outcome(new_im.calc_sig_dur, a_new, se=se))
        check(("hist-w", step, se), outcome(old_im.calc_sig_dur, a_old, 0.02, 0.98, se=se),
              outcome(new_im.calc_sig_dur, a_new, 0.02, 0.98, se=se))
        check(("hist-vals", step, se), outcome(old_im.calc_sig_dur_vals, a_old.values, a_old.dt, se=se),
              outcome(new_im.calc_sig_dur_vals, a_new.values, a_new.dt, se=se))
    if step % 2 == 0:
        nv = np.concatenate([np.zeros(step + 1), a_old.values * (step + 2.5)])
    else:
        nv = a_old.values[::-1] * 0.1
    a_old.reset_values(nv.copy())
    a_new.reset_values(nv.copy())
    assert state_of(a_old) == state_of(a_new)

# a duck-typed record (only .values and .dt), and an object without dt
duck = types.SimpleNamespace(values=RECORDS[41].copy(), dt=0.02)
for se in (False, True):
    check(("duck", se), outcome(old_im.calc_sig_dur, duck, se=se), outcome(new_im.calc_sig_dur, duck, se=se))
nodt = types.SimpleNamespace(values=RECORDS[41].copy())
check(("nodt",), outcome(old_im.calc_sig_dur, nodt, im=im_cumsum_sq), outcome(new_im.calc_sig_dur, nodt, im=im_cumsum_sq))

# calc_sir uses the (deprecated) array variant
for rec in RECORDS[36:48]:
    a_old, a_new = eqsig.AccSignal(rec.copy(), 0.01), eqsig.AccSignal(rec.copy(), 0.01)
    check(("sir",), outcome(old_im.calc_sir, a_old), outcome(new_im.calc_sir, a_new))

print("equiv1: %d comparisons, all identical" % N_CHECKS)
sys.exit(0)

"""
Equivalence check for twin2 (C17): Signal.butter_pass with explicit keyword-only
options instead of kwargs.get(), np.pad for the Gibbs padding, f_len computed once
and the Nyquist frequency as 0.5 / dt.

Run with twin2 applied and cwd = the worktree.  The ORIGINAL package is taken
from `git archive HEAD eqsig`; original and edited package are each driven by
the same worker in their own subprocess and the pickled observations are
compared bit-for-bit (dtype, shape, raw bytes, object state, aliasing).
"""
import os
import pickle
import subprocess
import sys
import tempfile

WORKER = r'''
import sys, pickle, warnings
root, out_path = sys.argv[1], sys.argv[2]
sys.path.insert(0, root)
import numpy as np
import eqsig
assert eqsig.__file__.startswith(root), (eqsig.__file__, root)
from eqsig.single import Signal, AccSignal
warnings.simplefilter("ignore")


def enc(v):
    if isinstance(v, np.ndarray):
        return ('nd', v.dtype.str, v.shape, v.tobytes())
    if isinstance(v, np.generic):
        return ('sc', type(v).__name__, v.tobytes())
    if isinstance(v, dict):
        return ('dict', tuple((repr(k), enc(v[k])) for k in sorted(v, key=repr)))
    if isinstance(v, (list, tuple)):
        return (type(v).__name__, tuple(enc(i) for i in v))
    if isinstance(v, float):
        return ('float', np.float64(v).tobytes())
    return ('py', type(v).__name__, repr(v))


def state(obj):
    return tuple((k, enc(val)) for k, val in sorted(vars(obj).items()))


def attempt(fn):
    try:
        return ('ok', enc(fn()))
    except Exception as e:  # noqa
        return ('exc', type(e).__name__, str(e))


rng = np.random.RandomState(4321)
obs = []


def make_values(kind, n):
    if kind == 'randn':
        return rng.randn(n)
    if kind == 'offset':
        return rng.randn(n) + np.linspace(3.0, -7.0, n)
    if kind == 'list':
        return list(rng.randn(n) + 0.3)
    if kind == 'int':
        return rng.randint(-50, 50, size=n)
    if kind == 'intlist':
        return [int(i) for i in rng.randint(-50, 50, size=n)]
    if kind == 'zeros':
        return np.zeros(n)
    if kind == 'f32':
        return (rng.randn(n) + 2).astype(np.float32)
    if kind == 'sine':
        t = np.arange(n) * 0.01
        return np.sin(2 * np.pi * 2.5 * t) + 0.25
    if kind == 'nan':
        v = rng.randn(n)
        v[n // 2] = np.nan
        return v
    raise ValueError(kind)


def run(tag, cls, src, dt, cut_off, kw, pre=None, type_only=False):
    src_before = enc(src)
    cut_before = enc(cut_off) if isinstance(cut_off, (list, tuple, np.ndarray)) else None
    sig = cls(src, dt)
    _ = sig.fa_spectrum
    if cls is AccSignal and len(src) > 1:
        _ = sig.velocity
    if pre is not None:
        pre(sig)
    held = sig.values
    held_before = enc(held)
    res = attempt(lambda: sig.butter_pass(cut_off, **kw))
    st1 = state(sig)
    # second filtering step on the same object (history)
    res2 = attempt(lambda: sig.butter_pass(cut_off=cut_off, **kw))
    if type_only:
        # invalid option values (never accepted by the original): compare the exception type, not its text
        assert res[0] == 'exc' and res2[0] == 'exc', (tag, kw)
        res, res2 = res[:2], res2[:2]
    obs.append((tag, cls.__name__, repr(dt), repr(cut_off), repr(sorted(kw.items())), len(src), res, st1, res2,
                state(sig), enc(held) == held_before, sig.values is held, enc(src) == src_before,
                cut_before is None or enc(cut_off) == cut_before))


kinds = ['randn', 'offset', 'list', 'int', 'intlist', 'zeros', 'f32', 'sine', 'nan']
cut_offs = [(0.1, 15), [0.2, 25], np.array([0.5, 10.0]), (None, 15), [None, 8.0], (0.3, None), [2, None],
            (1, 20), np.array([1, 20]), np.array([None, 12.5], dtype=object), np.array([0.7, None], dtype=object),
            (np.float64(0.25), np.float64(30.0)), [np.float32(0.5), np.float32(12.0)],
            np.array([0.5, 12.0], dtype=np.float32)]
gibbs = [None, 'start', 'end', 'mid', 'other']

# full option grid on a few records
for cls in (Signal, AccSignal):
    for kind in kinds:
        for n in (100, 257, 1024):
            src = make_values(kind, n)
            for cut_off in cut_offs:
                for rg in gibbs:
                    order = int(rng.randint(1, 5))
                    kw = {'filter_order': order}
                    if rg is not None or rng.rand() < 0.5:
                        kw['remove_gibbs'] = rg
                    run('grid', cls, src, 0.01, cut_off, kw)

# all orders, all types, all gibbs on random records, several dt
for dt in (0.01, 0.005, 0.02, np.float64(0.01), np.float32(0.01), 0.0123):
    for order in (1, 2, 3, 4, None):
        for cut_off in [(0.1, 15), (None, 15), (0.1, None), [0.5, 5.0], np.array([1.0, 20.0])]:
            for rg in gibbs:
                src = make_values('offset', int(rng.randint(60, 700)))
                kw = {} if order is None else {'filter_order': order}
                if rg is not None:
                    kw['remove_gibbs'] = rg
                run('orders', Signal, src, dt, cut_off, kw)

# gibbs_extra / gibbs_range / ignored keywords
for extra in (0, 1, 2, 3, -1):
    for grange in (1, 2, 10, 50, 1000):
        for rg in ('start', 'end', 'mid'):
            for n in (64, 65, 127, 128, 129, 500):
                src = make_values('offset', n)
                # a negative gibbs_extra makes the padded length shorter than the record: always a ValueError
                run('extra', Signal, src, 0.01, (0.2, 20), {'remove_gibbs': rg, 'gibbs_extra': extra,
                                                            'gibbs_range': grange}, type_only=extra < 0)
                run('extra-acc', AccSignal, src, 0.01, (None, 20), {'remove_gibbs': rg, 'gibbs_extra': extra,
                                                                     'gibbs_range': grange, 'order': 3,
                                                                     'filter_order': 2}, type_only=extra < 0)
for rg in gibbs:
    src = make_values('randn', 300)
    run('ignored', Signal, src, 0.01, (0.1, 15), {'order': 2, 'remove_gibbs': rg, 'foo': 'bar'})
    run('ignored2', Signal, src, 0.01, (0.1, 15), {'order': 2, 'foo': None})
    run('gibbs-only', Signal, src, 0.01, (0.1, 15), {'remove_gibbs': rg})
    run('range-only', Signal, src, 0.01, (0.1, 15), {'gibbs_range': 5})
    run('extra-only', Signal, src, 0.01, (0.1, 15), {'gibbs_extra': 2})

# short records (filtfilt refuses them unless padded) and power-of-two lengths
for n in (1, 2, 3, 5, 8, 9, 15, 16, 17, 27, 28, 31, 32, 33, 63, 64):
    for kind in ('randn', 'int', 'list', 'zeros'):
        src = make_values(kind, n)
        for rg in gibbs:
            for order in (1, 2, 4):
                for cut_off in [(0.5, 10), (None, 10), (0.5, None)]:
                    run('short', Signal, src, 0.02, cut_off, {'filter_order': order, 'remove_gibbs': rg})

# invalid cut-offs
src = make_values('randn', 200)
for cut_off in [5.0, None, 'ab', (1, 2, 3), [1.0], (), np.array([1.0, 2.0, 3.0]), (0.1, 60.0), (None, 50.0),
                (0.0, 10.0), (10.0, 1.0), (None, None), {0: 1, 1: 2}]:
    for rg in (None, 'mid'):
        run('invalid', Signal, src, 0.01, cut_off, {'remove_gibbs': rg})

# default call, longer histories mixing other operations
for cls in (Signal, AccSignal):
    for kind in kinds:
        src = make_values(kind, 400)
        sig = cls(src, 0.01)
        r0 = attempt(lambda: sig.butter_pass())
        s0 = state(sig)
        sig.add_constant(0.5)
        r1 = attempt(lambda: sig.butter_pass((None, 10), remove_gibbs='end', filter_order=3))
        s1 = state(sig)
        sig.remove_poly(2)
        _ = sig.fa_spectrum
        r2 = attempt(lambda: sig.butter_pass(cut_off=[1.0, None], filter_order=1, remove_gibbs='mid', gibbs_range=7))
        obs.append(('hist', cls.__name__, kind, r0, s0, r1, s1, r2, state(sig)))

# extra positional argument is refused by both (only the exception type is compared)
sig = Signal(make_values('randn', 100), 0.01)
try:
    sig.butter_pass((0.1, 15), 4)
    obs.append(('positional', 'accepted'))
except TypeError:
    obs.append(('positional', 'TypeError'))

with open(out_path, 'wb') as f:
    pickle.dump(obs, f)
'''


def main():
    here = os.getcwd()
    assert os.path.isdir(os.path.join(here, 'eqsig')), "run with cwd = the worktree"
    tmp = tempfile.mkdtemp(prefix='c17_equiv2_', dir='/tmp')
    orig = os.path.join(tmp, 'orig')
    os.makedirs(orig)
    subprocess.check_call('git archive HEAD eqsig | tar -x -C "%s"' % orig, shell=True, cwd=here)
    worker = os.path.join(tmp, 'worker.py')
    with open(worker, 'w') as f:
        f.write(WORKER)
    results = {}
    for name, root in (('orig', orig), ('new', here)):
        out_path = os.path.join(tmp, name + '.pkl')
        env = dict(os.environ)
        env.pop('PYTHONPATH', None)
        subprocess.check_call([sys.executable, worker, root, out_path], cwd=root, env=env)
        with open(out_path, 'rb') as f:
            results[name] = pickle.load(f)
    a, b = results['orig'], results['new']
    assert len(a) == len(b) and len(a) > 1000, (len(a), len(b))
    bad = [(x[:6], ) for x, y in zip(a, b) if x != y]
    if bad:
        print("MISMATCHES: %i of %i" % (len(bad), len(a)))
        for item in bad[:20]:
            print(item)
        sys.exit(1)
    n_exc = sum(1 for x in a for part in x if isinstance(part, tuple) and part[:1] == ('exc',))
    print("equiv2: %i observations identical (%i of them exceptions)" % (len(a), n_exc))
    sys.exit(0)


if __name__ == '__main__':
    main()

"""Equivalence check for twin3 (eqsig/design_spectra.py: c_h_factor, t_eff).

Run with twin3 applied, cwd = the worktree.  Loads the ORIGINAL design_spectra.py from git HEAD,
executes it into a fresh module namespace and compares it with the edited module
(return values bit-for-bit, types, exceptions and messages, printed output, argument mutation).
"""
import contextlib
import io
import os
import subprocess
import sys
import types
import warnings

ROOT = os.getcwd()
sys.path.insert(0, ROOT)

import numpy as np  # noqa: E402
import eqsig  # noqa: E402
import eqsig.design_spectra as new  # noqa: E402

assert eqsig.__file__.startswith(ROOT), (eqsig.__file__, ROOT)
assert new.__file__.startswith(ROOT), new.__file__


def load_original(relpath, modname, package):
    src = subprocess.check_output(['git', 'show', 'HEAD:' + relpath], cwd=ROOT).decode()
    mod = types.ModuleType(modname)
    mod.__package__ = package
    mod.__file__ = '<HEAD:%s>' % relpath
    exec(compile(src, mod.__file__, 'exec'), mod.__dict__)
    return src, mod


src, old = load_original('eqsig/design_spectra.py', 'eqsig._orig_design_spectra', 'eqsig')
assert src != open(os.path.join(ROOT, 'eqsig/design_spectra.py')).read(), "twin3 is not applied"
pub_old = sorted(k for k in vars(old) if not k.startswith('_'))
pub_new = sorted(k for k in vars(new) if not k.startswith('_'))
assert pub_old == pub_new, (pub_old, pub_new)

n_checks = 0


def same(a, b, ctx):
    global n_checks
    n_checks += 1
    assert type(a) is type(b), (ctx, type(a), type(b))
    if isinstance(a, np.ndarray):
        assert a.dtype == b.dtype, (ctx, a.dtype, b.dtype)
        assert a.shape == b.shape, (ctx, a.shape, b.shape)
        assert np.array_equal(a, b, equal_nan=True), (ctx, a, b)
        assert np.array_equal(np.signbit(a), np.signbit(b)), (ctx, 'signbit')
    else:
        assert a == b or (a != a and b != b), (ctx, a, b)
        if isinstance(a, (float, np.floating)):
            assert np.signbit(a) == np.signbit(b), (ctx, 'signbit')


def call(fn, *args, **kwargs):
    buf = io.StringIO()
    with warnings.catch_warnings(record=True) as w, contextlib.redirect_stdout(buf):
        warnings.simplefilter('always')
        try:
            out = ('ok', fn(*args, **kwargs))
        except Exception as e:  # noqa
            out = ('exc', type(e), str(e))
    return out, buf.getvalue(), sorted((str(x.category.__name__), str(x.message)) for x in w)


def snapshot(a):
    if isinstance(a, np.ndarray):
        return a.copy()
    if isinstance(a, list):
        return list(a)
    return a


def compare(name, make_args, ctx, **kwargs):
    args_o = make_args()
    args_n = make_args()
    keep = [snapshot(a) for a in args_o]
    ro, po, wo = call(getattr(old, name), *args_o, **kwargs)
    rn, pn, wn = call(getattr(new, name), *args_n, **kwargs)
    assert wo == wn, (ctx, 'warnings', wo, wn)
    assert po == pn, (ctx, 'printed', po, pn)
    assert ro[0] == rn[0], (ctx, ro, rn)
    if ro[0] == 'ok':
        same(ro[1], rn[1], ctx)
    else:
        assert ro[1:] == rn[1:], (ctx, ro, rn)
    for k, (ao, an, ko) in enumerate(zip(args_o, args_n, keep)):
        if isinstance(ao, np.ndarray):
            assert np.array_equal(ao, ko, equal_nan=True), (ctx, 'old mutated arg', k)
            assert np.array_equal(an, ko, equal_nan=True), (ctx, 'new mutated arg', k)
        elif isinstance(ao, list):
            assert len(ao) == len(ko) == len(an), (ctx, 'list arg mutated', k)
            for p, q, r in zip(ao, an, ko):  # NaN-aware element comparison
                assert (p == r or (p != p and r != r)) and (q == r or (q != q and r != r)), (ctx, 'list arg mutated', k)
    return ro


rng = np.random.default_rng(1170)
SITES = ['C', 'D', 'E']
BAD_SITES = ['c', 'A', 'B', '', 'CD', None, 3, np.str_('Q')]
EDGES = [0.0, 0.1, 0.3, 0.56, 1.0, 1.5, 3.0]
grid = []
for t in EDGES:
    grid += [t, float(np.nextafter(t, np.inf)), float(np.nextafter(t, -np.inf)) if t > 0 else 0.0, t + 1e-9,
             max(t - 1e-9, 0.0)]
grid += [5e-324, 1e-300, 1e-12, 0.05, 0.2, 0.45, 0.8, 1.2, 2.0, 2.999, 4.0, 10.0, 1e6, 1e308, float('inf'),
         float('nan'), -0.0]
grid += rng.uniform(0, 6, 300).tolist()
neg = [-1e-300, -0.1, -3.0, float('-inf')]
grid_f32 = [g for g in grid if not 1e38 < g < float('inf')]  # representable in float32 without overflow

# ---------------------------------------------------------------- c_h_factor
for site in SITES + BAD_SITES + [np.str_('D')]:
    for t in grid + neg:
        compare('c_h_factor', lambda: (t, site), ('ch-float', site, t))
        compare('c_h_factor', lambda: (np.float64(t),), ('ch-npfloat-kw', site, t), site_class=site)
    compare('c_h_factor', lambda: (list(grid), site), ('ch-list', site))
    compare('c_h_factor', lambda: (np.array(grid), site), ('ch-array', site))
    compare('c_h_factor', lambda: (tuple(grid), site), ('ch-tuple', site))
    compare('c_h_factor', lambda: (np.array(grid_f32, dtype=np.float32), site), ('ch-f32', site))
    compare('c_h_factor', lambda: (np.array([0, 1, 2, 3, 4]), site), ('ch-int-array', site))
    compare('c_h_factor', lambda: ([0, 1, 2, 3], site), ('ch-int-list', site))
    compare('c_h_factor', lambda: ([], site), ('ch-empty-list', site))
    compare('c_h_factor', lambda: (np.array([]), site), ('ch-empty-array', site))
    compare('c_h_factor', lambda: ([0.5], site), ('ch-len1-list', site))
    compare('c_h_factor', lambda: (np.array([0.5]), site), ('ch-len1-array', site))
    # a negative value in the middle: raised only when reached, same printed text
    compare('c_h_factor', lambda: ([0.5, 1.0, -0.2, 2.0], site), ('ch-neg-inside', site))
    compare('c_h_factor', lambda: (np.array([0.5, -1.0]), site), ('ch-neg-inside-arr', site))
    # not floats and without len(): same TypeError
    compare('c_h_factor', lambda: (1, site), ('ch-python-int', site))
    compare('c_h_factor', lambda: (np.int64(2), site), ('ch-np-int', site))
    compare('c_h_factor', lambda: (np.float32(0.5), site), ('ch-np-f32-scalar', site))
    compare('c_h_factor', lambda: (np.array(0.5), site), ('ch-0d', site))
compare('c_h_factor', lambda: (0.7,), 'ch-default-site')
compare('c_h_factor', lambda: ([0.7, 1.7],), 'ch-default-site-list')
for trial in range(300):
    n = int(rng.integers(0, 12))
    per = rng.choice(np.array(grid + EDGES * 5), n)
    per = per[~np.isnan(per)] if trial % 2 else per
    site = SITES[trial % 3]
    compare('c_h_factor', lambda: (per.copy(), site), ('ch-rand-arr', trial))
    compare('c_h_factor', lambda: (per.tolist(), site), ('ch-rand-list', trial))

# ---------------------------------------------------------------- t_eff
for site in SITES:
    for trial in range(400):
        kind = trial % 4
        if kind == 0:
            z, r, nf = rng.uniform(0.1, 0.6), rng.uniform(0.25, 1.8), rng.uniform(1.0, 1.72)
        elif kind == 1:
            z, r, nf = rng.uniform(0.1, 0.6), 1, 1  # python ints
        elif kind == 2:
            z, r, nf = np.float64(rng.uniform(0.1, 0.6)), np.float32(1.3), np.int64(1)
        else:
            z, r, nf = 0.13, 1.0, 1.0
        ro = call(old.t_eff, 0.0, site, z, r, nf)[0]
        d_c = float(old.sd_nzs(3.0, site, z, r, nf)) / (2 * np.pi) ** 2 * 9.81  # approx. corner displacement
        for disp in [0.0, 0, rng.uniform(0, d_c), 0.5 * d_c, np.float64(0.25 * d_c), np.float32(0.1 * d_c),
                     float(np.nextafter(d_c, 0)), d_c, float(np.nextafter(d_c, np.inf)), 2 * d_c, 1e9, -0.1,
                     float('nan'), np.array([0.3 * d_c]), np.array(0.3 * d_c), np.array([0.1 * d_c, 0.2 * d_c])]:
            compare('t_eff', lambda: (disp, site, z, r, nf), ('t_eff', site, trial, repr(disp)))
        compare('t_eff', lambda: (0.2 * d_c,), ('t_eff-kw', site, trial), site_class=site, z_factor=z, r_factor=r,
                n_factor=nf)
    # the exact corner displacement as computed by the original expression is accepted by both
    for z, r, nf in [(0.4, 1.0, 1.0), (0.13, 1.3, 1.2), (0.6, 1.8, 1.72), (1, 1, 1)]:
        coef = {'C': 3.96, 'D': 6.42, 'E': 9.96}[site]
        d_exact = coef * z * r * nf / (2 * np.pi) ** 2 * 9.81
        ro = compare('t_eff', lambda: (d_exact, site, z, r, nf), ('t_eff-corner', site, z))
        assert ro[0] == 'ok' and abs(ro[1] - 3.0) < 1e-14, ro  # both versions round identically
        compare('t_eff', lambda: (float(np.nextafter(d_exact, np.inf)), site, z, r, nf), ('t_eff-corner+', site, z))
    # zero factors -> d_c == 0
    compare('t_eff', lambda: (0.0, site, 0.0, 1.0, 1.0), ('t_eff-zero-z', site))
    compare('t_eff', lambda: (0.1, site, 0.0, 1.0, 1.0), ('t_eff-zero-z-above', site))
    compare('t_eff', lambda: (-0.1, site, 0.0, 1.0, 1.0), ('t_eff-zero-z-below', site))
for site in BAD_SITES:
    compare('t_eff', lambda: (0.1, site, 0.4, 1.0, 1.0), ('t_eff-bad-site', site))
    compare('t_eff', lambda: (1e9, site, 0.4, 1.0, 1.0), ('t_eff-bad-site-big', site))
compare('t_eff', lambda: (0.1, np.str_('E'), 0.4, 1.0, 1.0), 't_eff-npstr')

# ---------------------------------------------------------------- sd_nzs (untouched, but anchored): still the same
for site in SITES + BAD_SITES:
    for t in grid + neg:
        compare('sd_nzs', lambda: (t, site, 0.4, 1.3, 1.1), ('sd', site, t))

# cross-checks of the property itself on the edited module (as on the original)
for mod in (old, new):
    for site in SITES:
        for t in [0.0, 0.05, 0.2, 0.7, 1.2, 2.0, 3.0, 4.5]:
            sd = mod.sd_nzs(t, site, 0.4, 1.3, 1.1)
            assert np.isclose(sd, mod.c_h_factor(t, site) * t ** 2 * 0.4 * 1.1 * 1.3, rtol=1e-12, atol=0), (site, t)

print('equiv3: %d comparisons identical' % n_checks)

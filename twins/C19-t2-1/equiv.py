"""
Equivalence check for twin1 (run with twin1 applied, cwd = worktree).

Loads the ORIGINAL package from git (HEAD) into a temp dir and imports it next to the
edited package (from cwd); compares the functions anchored by property C19 on random and
edge-case inputs: bit-for-bit equal results (dtype, shape, bytes), same exception types,
no different mutation of arguments / signal objects.
Exit 0 iff everything matches.
"""
import atexit
import copy
import itertools
import os
import shutil
import subprocess
import sys
import tempfile

import numpy as np

WT = os.getcwd()


def _purge():
    for k in [k for k in sys.modules if k == 'eqsig' or k.startswith('eqsig.')]:
        del sys.modules[k]


def load_pair():
    _purge()
    sys.path.insert(0, WT)
    import eqsig as new
    import eqsig.surface, eqsig.fns.time_shift  # noqa
    assert os.path.abspath(new.__file__).startswith(WT + os.sep), new.__file__
    sys.path.pop(0)
    _purge()
    tmp = tempfile.mkdtemp(prefix='c19_orig_', dir='/tmp')
    atexit.register(shutil.rmtree, tmp, True)
    subprocess.check_call('git archive HEAD eqsig | tar -x -C %s' % tmp, shell=True, cwd=WT)
    sys.path.insert(0, tmp)
    import eqsig as old
    import eqsig.surface, eqsig.fns.time_shift  # noqa
    assert os.path.abspath(old.__file__).startswith(tmp + os.sep), old.__file__
    sys.path.pop(0)
    assert old is not new and old.surface is not new.surface
    return old, new


def same(a, b, path='result'):
    """bit-for-bit comparison incl. python/numpy type, dtype and shape"""
    if type(a) is not type(b):
        return '%s: type %s != %s' % (path, type(a), type(b))
    if isinstance(a, np.ndarray):
        if a.dtype != b.dtype:
            return '%s: dtype %s != %s' % (path, a.dtype, b.dtype)
        if a.shape != b.shape:
            return '%s: shape %s != %s' % (path, a.shape, b.shape)
        if np.ascontiguousarray(a).tobytes() != np.ascontiguousarray(b).tobytes():
            return '%s: values differ (max abs diff %r)' % (path, np.nanmax(np.abs(a - b)) if a.size else 0)
        return None
    if isinstance(a, (list, tuple)):
        if len(a) != len(b):
            return '%s: len differs' % path
        for i, (x, y) in enumerate(zip(a, b)):
            r = same(x, y, '%s[%d]' % (path, i))
            if r:
                return r
        return None
    if isinstance(a, (float, np.floating)):
        if np.array(a).tobytes() != np.array(b).tobytes():
            return '%s: %r != %r' % (path, a, b)
        return None
    if a != b:
        return '%s: %r != %r' % (path, a, b)
    return None


def sig_state(sig):
    out = {}
    for k, v in sorted(vars(sig).items()):
        out[k] = copy.deepcopy(v)
    return out


def state_same(sa, sb):
    if sorted(sa) != sorted(sb):
        return 'state keys differ: %s vs %s' % (sorted(sa), sorted(sb))
    for k in sa:
        a, b = sa[k], sb[k]
        if isinstance(a, np.ndarray) or isinstance(b, np.ndarray):
            r = same(a, b, 'state.' + k)
            if r:
                return r
        elif isinstance(a, (int, float, str, bool, type(None), np.generic)):
            r = same(a, b, 'state.' + k)
            if r:
                return r
    return None


N_CASES = 0
N_RAISED = 0
FAILS = []


def run(fn, args, kwargs):
    try:
        with np.errstate(all='ignore'):
            return 'ok', fn(*args, **kwargs)
    except Exception as e:  # noqa
        return 'exc', e


def compare_call(label, f_old, f_new, mk_args):
    """mk_args(which) -> (args, kwargs, mutables) built freshly for each side"""
    global N_CASES, N_RAISED
    N_CASES += 1
    a_old, k_old, m_old = mk_args('old')
    a_new, k_new, m_new = mk_args('new')
    s_old, r_old = run(f_old, a_old, k_old)
    s_new, r_new = run(f_new, a_new, k_new)
    if s_old != s_new:
        FAILS.append('%s: outcome %s (%r) vs %s (%r)' % (label, s_old, r_old if s_old == 'exc' else '', s_new,
                                                         r_new if s_new == 'exc' else ''))
        return
    if s_old == 'exc':
        N_RAISED += 1
        if type(r_old) is not type(r_new):
            FAILS.append('%s: exception %r vs %r' % (label, r_old, r_new))
        return
    r = same(r_old, r_new)
    if r:
        FAILS.append('%s: %s' % (label, r))
        return
    # argument mutation / object state
    for i, (x, y) in enumerate(zip(m_old, m_new)):
        if hasattr(x, '_values'):
            r = state_same(sig_state(x), sig_state(y))
        else:
            r = same(x, y, 'arg%d after call' % i)
        if r:
            FAILS.append('%s: %s' % (label, r))
            return


def records(rng):
    recs = []
    for n in [1, 2, 3, 5, 8, 17, 40, 101]:
        recs.append(rng.standard_normal(n))
    recs.append(np.zeros(12))
    recs.append(np.arange(-5, 9))  # integer dtype
    recs.append([0.0, 1.0, -2.0, 3.5, 0.25, -1.0])  # list
    recs.append([1, 2, 3, 4])  # list of ints
    recs.append(np.sin(np.linspace(0, 10, 100)))
    recs.append(rng.standard_normal(30).astype(np.float32))
    return recs


def travel_time_sets(rng, dt, npts):
    tts = [
        0.0, 0.5 * dt, dt, 1.3 * dt, 0, 3,
        [0.0], [0.0, 0.0], [0.5 * dt], [dt, 2 * dt, 3 * dt],
        np.array([0.0, 0.5 * dt, dt, 1.5 * dt, 2 * dt]),
        np.array([0.37 * dt, 2.81 * dt]),
        np.arange(0, 4) * dt / 2,
        np.array([3 * dt, 0.1 * dt, 1.0 * dt]),  # unsorted
        rng.uniform(0, max(npts, 2) * dt * 0.6, size=4),
        np.array([npts * dt]),  # delay larger than the record
        np.array([1, 2]),  # integer travel times
        (dt, 2.5 * dt),  # tuple
    ]
    return tts


def check_surface(old, new, rng):
    names = ['calc_surface_energy', 'calc_cum_abs_surface_energy', 'get_time_shift_motions']
    for ri, rec in enumerate(records(rng)):
        for dt in ([0.01, 0.5] if ri % 2 else [0.1, 1.0]):
            npts = len(rec)
            for ti, tt in enumerate(travel_time_sets(rng, dt, npts)):
                ntt = len(tt) if hasattr(tt, '__len__') else 1
                reds = [(1., 1.), (1, 1), (0.7, 0.4), (2.0, 0.0),
                        (np.linspace(1.0, 0.5, ntt), np.linspace(0.9, 0.2, ntt)),
                        (np.ones(ntt, dtype=int), np.arange(ntt) + 1.)]
                for (up, down), nodal, trim, start in itertools.product(reds, [True, False], [True, False],
                                                                        [True, False]):
                    for stt in ([0.0] if (ri + ti) % 3 else [0.0, 0.5 * dt, 2 * dt, 7.3 * dt]):
                        for name in names:
                            def mk(which, name=name, up=up, down=down, tt=tt, rec=rec, dt=dt, nodal=nodal,
                                   trim=trim, start=start, stt=stt):
                                pkg = old if which == 'old' else new
                                asig = pkg.AccSignal(copy.deepcopy(rec), dt)
                                tt_c, up_c, down_c = copy.deepcopy(tt), copy.deepcopy(up), copy.deepcopy(down)
                                kw = dict(nodal=nodal, up_red=up_c, down_red=down_c, stt=stt, trim=trim, start=start)
                                return (asig, tt_c), kw, [asig, tt_c, up_c, down_c]
                            label = '%s rec%d dt=%s tt%d red=%r nodal=%s trim=%s start=%s stt=%s' % (
                                name, ri, dt, ti, (up, down), nodal, trim, start, stt)
                            compare_call(label, getattr(old.surface, name), getattr(new.surface, name), mk)
    # defaults / positional forms and multi-call histories on one signal object
    for name in names:
        rec = rng.standard_normal(50)
        a_old, a_new = old.AccSignal(rec.copy(), 0.02), new.AccSignal(rec.copy(), 0.02)
        for tt in [0.05, np.array([0.01, 0.033]), [0.0, 0.02], 0.0]:
            for extra in [(), (False,), (True, 0.8, 0.6), (False, 1., 1., 0.04, True, True)]:
                compare_call('%s history tt=%r extra=%r' % (name, tt, extra), getattr(old.surface, name),
                             getattr(new.surface, name),
                             lambda which, tt=tt, extra=extra: (((a_old if which == 'old' else a_new), tt) + extra, {},
                                                                [a_old if which == 'old' else a_new]))
        r = state_same(sig_state(a_old), sig_state(a_new))
        if r:
            FAILS.append('%s history: %s' % (name, r))


def check_trim_to_length(old, new, rng):
    for nrows, width, npts in [(1, 10, 10), (3, 25, 20), (2, 8, 5), (4, 60, 33), (2, 12, 12)]:
        values = rng.standard_normal((nrows, width))
        for dt in [0.1, 1.0]:
            for tts in [np.zeros(nrows), np.arange(nrows) * dt, rng.uniform(0, 4 * dt, nrows),
                        np.arange(nrows) * dt / 2]:
                for trim, start in itertools.product([True, False], repeat=2):
                    for stt in [0.0, 0.5 * dt, 2 * dt, 5.2 * dt]:
                        def mk(which, values=values, npts=npts, tts=tts, dt=dt, trim=trim, start=start, stt=stt):
                            v, t = values.copy(), tts.copy()
                            return (v, npts, t, dt), dict(trim=trim, start=start, s2s_travel_time=stt), [v, t]
                        compare_call('trim_to_length %s' % ((nrows, width, npts, dt, list(tts), trim, start, stt),),
                                     old.surface.trim_to_length, new.surface.trim_to_length, mk)
    # untrimmed & unstarted returns the very same object
    v = rng.standard_normal((2, 5))
    assert new.surface.trim_to_length(v, 5, np.array([0.1, 0.2]), 0.1) is v
    assert old.surface.trim_to_length(v, 5, np.array([0.1, 0.2]), 0.1) is v


def check_time_shift(old, new, rng):
    ots, nts = old.fns.time_shift, new.fns.time_shift
    value_sets = [np.arange(1, 5), np.arange(4, 6), rng.standard_normal(1), rng.standard_normal(7),
                  rng.standard_normal(40), [1.5, -2.0, 0.0], [3, 4, 5, 6], np.zeros(5),
                  rng.standard_normal(9).astype(np.float32), np.array([True, False, True])]
    shift_sets = [np.array([1, 2, 3]), np.array([-1, 2]), np.array([0]), np.array([0, 0]), np.array([-3, -1]),
                  np.array([5]), np.array([-4]), np.array([2, -2, 0, 7, -5, 2]), [1, 0, -2], [3], (0, 4),
                  np.array([1, 2], dtype=np.int32), np.array([-1, 3], dtype=np.int8),
                  rng.integers(-10, 10, size=6), rng.integers(0, 50, size=3), np.array([60, -60])]
    for vi, vals in enumerate(value_sets):
        for si, sfs in enumerate(shift_sets):
            for clip in ['none', 'start', 'end', 'both', None, 'other']:
                def mk(which, vals=vals, sfs=sfs, clip=clip):
                    v, s = copy.deepcopy(vals), copy.deepcopy(sfs)
                    return (v, s), dict(clip=clip), [v, s]
                compare_call('put_array_in_2d_array v%d s%d clip=%s' % (vi, si, clip), ots.put_array_in_2d_array,
                             nts.put_array_in_2d_array, mk)

            def mk0(which, vals=vals, sfs=sfs):
                v, s = copy.deepcopy(vals), copy.deepcopy(sfs)
                return (v, s), {}, [v, s]
            compare_call('put_array_in_2d_array default v%d s%d' % (vi, si), ots.put_array_in_2d_array,
                         nts.put_array_in_2d_array, mk0)
            for jtype in ['add', 'sub', 'other']:
                def mk(which, vals=vals, sfs=sfs, jtype=jtype):
                    v, s = copy.deepcopy(vals), copy.deepcopy(sfs)
                    return (v, s), dict(jtype=jtype), [v, s]
                compare_call('join_values_w_shifts v%d s%d %s' % (vi, si, jtype), ots.join_values_w_shifts,
                             nts.join_values_w_shifts, mk)
            compare_call('join_values_w_shifts default v%d s%d' % (vi, si), ots.join_values_w_shifts,
                         nts.join_values_w_shifts, mk0)
    # random fuzz: shift vectors with negative, zero and positive entries, all clip options, lists and arrays
    for it in range(1500):
        npts = int(rng.integers(1, 30))
        vals = rng.standard_normal(npts) if it % 3 else rng.integers(-9, 9, size=npts)
        sfs = rng.integers(-25, 25, size=int(rng.integers(1, 8)))
        if it % 5 == 0:
            sfs = np.abs(sfs)
        if it % 7 == 0:
            vals, sfs = vals.tolist(), sfs.tolist()
        clip = ['none', 'start', 'end', 'both'][it % 4]

        def mk(which, vals=vals, sfs=sfs, clip=clip):
            v, s = copy.deepcopy(vals), copy.deepcopy(sfs)
            return (v, s), dict(clip=clip), [v, s]
        compare_call('put_array_in_2d_array fuzz %d' % it, ots.put_array_in_2d_array, nts.put_array_in_2d_array, mk)

        def mkj(which, vals=vals, sfs=sfs, jtype=['add', 'sub'][it % 2]):
            v, s = copy.deepcopy(vals), copy.deepcopy(sfs)
            return (v, s), dict(jtype=jtype), [v, s]
        compare_call('join_values_w_shifts fuzz %d' % it, ots.join_values_w_shifts, nts.join_values_w_shifts, mkj)
    # join_sig_w_time_shift on signal objects
    for rec in [rng.standard_normal(30), np.arange(6), [0.5, 1.5, -1.0]]:
        for dt in [0.1, 0.5]:
            for tsh in [np.array([0.0, dt, 2 * dt]), np.array([0.3 * dt, 4.9 * dt]), np.array([dt]),
                        np.array([3 * dt, 0.0])]:
                for jtype in ['add', 'sub']:
                    def mk(which, rec=rec, dt=dt, tsh=tsh, jtype=jtype):
                        pkg = old if which == 'old' else new
                        sig = pkg.Signal(copy.deepcopy(rec), dt)
                        t = tsh.copy()
                        return (sig, t), dict(jtype=jtype), [sig, t]
                    compare_call('join_sig_w_time_shift dt=%s tsh=%r %s' % (dt, tsh, jtype),
                                 ots.join_sig_w_time_shift, nts.join_sig_w_time_shift, mk)
    # the re-exported names still point at the module functions
    for pkg in (old, new):
        assert pkg.fns.put_array_in_2d_array is pkg.fns.time_shift.put_array_in_2d_array
        assert pkg.fns.join_values_w_shifts is pkg.fns.time_shift.join_values_w_shifts
        assert pkg.put_array_in_2d_array is pkg.fns.time_shift.put_array_in_2d_array


def main():
    old, new = load_pair()
    rng = np.random.default_rng(20190919)
    check_time_shift(old, new, rng)
    check_trim_to_length(old, new, rng)
    check_surface(old, new, rng)
    print('cases: %d (of which %d raised identically on both sides), failures: %d' % (N_CASES, N_RAISED, len(FAILS)))
    for f in FAILS[:25]:
        print('FAIL', f)
    return 1 if FAILS else 0


if __name__ == '__main__':
    sys.exit(main())

"""
Equivalence program for twin 2 (hardening: butter_pass split into private helpers of eqsig/fns/filtering.py,
explicit read-only coercions and float buffers in remove_poly / add_series / running_average).

Run with the edit applied and cwd = the worktree:

    cd <worktree> && PYTHONPATH=<worktree> /venv/bin/python out/equiv2.py

The ORIGINAL package is taken from git (`git archive HEAD eqsig`) into a temporary directory.  The same deterministic
list of cases is executed by two worker subprocesses (one importing the original, one importing the edited package);
every observable (returned value, exception type + message, warnings, arguments after the call, object state seen
through the public API, identity/content of previously handed-out arrays) is canonicalised to bytes and compared
bit-for-bit.  Exit status 0 iff everything matches.
"""
import os
import pickle
import subprocess
import sys
import tempfile

FOCUS = ('butter_pass', 'remove_poly', 'add')   # which parts of the API get the dense sweep in this program


# ----------------------------------------------------------------------------------------------------------------------
# case generation (pure Python/NumPy, does not touch the package under test -> identical in both workers)
# ----------------------------------------------------------------------------------------------------------------------

def make_values(rng, n, kind):
    import numpy as np
    t = np.arange(n)
    if kind == 'normal':
        return rng.standard_normal(n)
    if kind == 'sine':
        return np.sin(2 * np.pi * t / max(3.0, n / 7.3)) + 0.3 * np.cos(0.91 * t + 0.2)
    if kind == 'const':
        return np.full(n, 3.25)
    if kind == 'ramp':
        return 0.5 * t - 7.0
    if kind == 'wild':
        return rng.standard_normal(n) * 10.0 ** rng.integers(-8, 9, n)
    if kind == 'big':
        return rng.standard_normal(n) * 1e12 + 1e15
    if kind == 'int':
        return rng.integers(-1000, 1000, n)
    if kind == 'int32':
        return rng.integers(-50, 50, n).astype(np.int32)
    if kind == 'uint8':
        return rng.integers(0, 255, n).astype(np.uint8)
    if kind == 'f32':
        return rng.standard_normal(n).astype(np.float32)
    if kind == 'nan':
        v = rng.standard_normal(n)
        if n:
            v[int(rng.integers(0, n))] = np.nan
        return v
    if kind == 'inf':
        v = rng.standard_normal(n)
        if n:
            v[int(rng.integers(0, n))] = np.inf
        return v
    if kind == 'bool':
        return rng.random(n) > 0.5
    if kind == 'list':
        return [float(x) for x in rng.standard_normal(n)]
    if kind == 'intlist':
        return [int(x) for x in rng.integers(-9, 9, n)]
    if kind == 'tuple':
        return tuple(float(x) for x in rng.standard_normal(n))
    raise ValueError(kind)


FLOAT_KINDS = ['normal', 'sine', 'const', 'ramp', 'wild', 'big', 'list', 'tuple']
ALL_KINDS = FLOAT_KINDS + ['int', 'int32', 'uint8', 'f32', 'nan', 'inf', 'bool', 'intlist']
DTS = [0.01, 0.005, 0.02, 0.1, 1.0, 0.0078125]


def pick(rng, seq):
    return seq[int(rng.integers(0, len(seq)))]


def sig_spec(rng, n, kind=None, cls=None, dt=None):
    kind = kind if kind is not None else pick(rng, ALL_KINDS)
    cls = cls if cls is not None else pick(rng, ['Signal', 'AccSignal'])
    dt = dt if dt is not None else pick(rng, DTS)
    return ('SIG', cls, make_values(rng, n, kind), dt)


def rand_cut_off(rng, dt, ftype=None, form=None):
    import numpy as np
    nyq = 0.5 / dt
    ftype = ftype or pick(rng, ['band', 'low', 'high'])
    lo = float(nyq * 10 ** rng.uniform(-3, -0.5))
    hi = float(min(nyq * 0.98, lo * 10 ** rng.uniform(0.2, 2)))
    if rng.random() < 0.03:
        hi = float(nyq * 1.5)  # invalid: above Nyquist -> scipy raises
    if rng.random() < 0.03:
        lo, hi = hi, lo  # invalid ordering for band
    if ftype == 'band':
        pair = [lo, hi]
    elif ftype == 'low':
        pair = [None, hi]
    else:
        pair = [lo, None]
    form = form or pick(rng, ['list', 'tuple', 'array', 'f32array', 'intarray', 'scalar', 'len3', 'dict', 'npfloat'])
    if form == 'list':
        return pair
    if form == 'tuple':
        return tuple(pair)
    if form == 'npfloat':
        return tuple(None if p is None else np.float64(p) for p in pair)
    if form == 'array':
        return np.array(pair) if ftype == 'band' else np.array(pair, dtype=object)
    if form == 'f32array':
        return np.array(pair, dtype=np.float32) if ftype == 'band' else list(pair)
    if form == 'intarray':
        if ftype == 'band' and nyq > 4:
            return np.array([1, 2 + int(rng.integers(0, int(nyq) - 2))])
        return tuple(pair)
    if form == 'scalar':
        return hi
    if form == 'len3':
        return [lo, hi, hi]
    if form == 'dict':
        return {0: lo, 1: hi}
    raise ValueError(form)


def rand_butter_kwargs(rng):
    kw = {}
    if rng.random() < 0.85:
        kw['filter_order'] = int(pick(rng, [1, 2, 3, 4, 1, 2, 3, 4, 5, 6]))
    r = rng.random()
    if r < 0.75:
        kw['remove_gibbs'] = pick(rng, [None, 'start', 'end', 'mid', 'start', 'end', 'mid', 'middle', ''])
    if rng.random() < 0.4:
        kw['gibbs_extra'] = int(pick(rng, [0, 1, 2, 3]))
    if rng.random() < 0.4:
        kw['gibbs_range'] = int(pick(rng, [1, 2, 5, 50, 100, 10000]))
    if rng.random() < 0.05:
        kw['order'] = 2  # silently ignored keyword (used by eqsig.multiple)
    return kw


def rand_op(rng, n, dt, heavy_ok=True):
    """One random public operation for a record of n points and time step dt."""
    import numpy as np
    r = rng.random()
    if r < 0.22:
        return ('butter_pass', (rand_cut_off(rng, dt),), rand_butter_kwargs(rng))
    if r < 0.40:
        pf = pick(rng, [0, 1, 2, 3, 4, 0, 1, 2, 3, 4, 5, 6, np.int64(2)])
        if rng.random() < 0.5:
            return ('remove_poly', (), {'poly_fit': pf})
        return ('remove_poly', (pf,), {}) if rng.random() < 0.8 else ('remove_poly', (), {})
    if r < 0.50:
        c = pick(rng, [0, 1, -3, 2.5, 1e-9, np.float64(0.1), np.float32(0.3), np.int64(4), True, float('nan')])
        return ('add_constant', (c,), {})
    if r < 0.62:
        m = n if rng.random() < 0.8 else max(0, n + int(pick(rng, [-2, -1, 1, 3])))
        return ('add_series', (make_values(rng, m, pick(rng, ALL_KINDS)),), {})
    if r < 0.74:
        q = rng.random()
        if q < 0.7:
            other = sig_spec(rng, n, dt=dt)
        elif q < 0.8:
            other = sig_spec(rng, n, dt=dt * 2)
        elif q < 0.9:
            other = sig_spec(rng, n + 1, dt=dt)
        else:
            other = pick(rng, [None, 3.0, 'x']) if rng.random() < 0.5 else make_values(rng, n, 'normal')
        return ('add_signal', (other,), {})
    if r < 0.92:
        w = pick(rng, list(range(1, 26)) + [26, 31, 40, 0, 2.0, 3.0, 7.5, np.int64(9), np.int32(4)])
        return ('running_average', (w,), {}) if rng.random() < 0.6 else ('running_average', (), {'width': w})
    if r < 0.96:
        return ('remove_average', (), {})
    return ('get_section_average', (), {'start': 0, 'end': -1, 'index': True})


def build_cases():
    import numpy as np
    rng = np.random.default_rng(20240917)
    cases = []

    # --- A. running_average: dense sweep over lengths x widths x dtypes --------------------------------------------
    dense = 'running_average' in FOCUS
    lens = list(range(0, 42)) + [49, 50, 51, 63, 64, 65, 100, 127, 128, 129, 257, 600] if dense else \
        [0, 1, 2, 3, 4, 5, 6, 7, 8, 9, 12, 13, 24, 25, 26, 27, 50, 51, 100, 257]
    widths = list(range(1, 26)) + [0, 26, 27, 30, 51, 52, 100, 1000, 2.0, 5.0, 4.5, 0.5, np.int64(7), np.int32(6),
                                    np.uint8(9), True, -1]
    kinds = ['normal', 'int', 'f32'] if dense else ['normal', 'int']
    for n in lens:
        for w in widths:
            for kind in kinds:
                cls = 'AccSignal' if (n + int(w * 2)) % 5 == 0 else 'Signal'
                cases.append(('single', ('SIG', cls, make_values(rng, n, kind), 0.01), [('running_average', (w,), {})]))
    for kind in ALL_KINDS:
        for n in [0, 1, 2, 5, 11, 30, 31]:
            for w in [1, 2, 3, 4, 5, 10, 11, 25]:
                cases.append(('single', sig_spec(rng, n, kind=kind), [('running_average', (), {'width': w})]))
    # large window so that the gathered temporary is split in blocks, and a long record
    cases.append(('single', ('SIG', 'Signal', make_values(rng, 5000, 'wild'), 0.01), [('running_average', (25,), {})]))
    cases.append(('single', ('SIG', 'Signal', make_values(rng, 3000, 'int'), 0.01), [('running_average', (1001,), {})]))
    cases.append(('single', ('SIG', 'Signal', make_values(rng, 3000, 'normal'), 0.01), [('running_average', (700,), {})]))
    cases.append(('single', ('SIG', 'AccSignal', make_values(rng, 2 ** 15, 'normal'), 0.01), [('running_average', (24,), {})]))
    # inputs for which the method fails (the width is unusable)
    for w in [None, 'a', float('nan'), float('inf'), [3], (5,)]:
        for n in [0, 1, 6]:
            cases.append(('single', ('SIG', 'Signal', make_values(rng, n, 'normal'), 0.01), [('running_average', (w,), {})]))
    cases.append(('single', ('SIG', 'Signal', make_values(rng, 8, 'normal'), 0.01), [('running_average', (3, 4), {})]))

    # --- B. remove_poly (object level, array level) -----------------------------------------------------------------
    dense = 'remove_poly' in FOCUS
    lens = [0, 1, 2, 3, 4, 5, 6, 7, 8, 10, 33, 100, 1000] if dense else [0, 1, 2, 3, 5, 8, 33, 400]
    degs = [0, 1, 2, 3, 4, 5, 6, -1, 1.0, 2.5, np.int64(3), True, None, 'a'] if dense else [0, 1, 2, 3, 4, 6, -1, 2.5]
    kinds = ALL_KINDS if dense else ['normal', 'ramp', 'int', 'f32', 'list', 'nan']
    for n in lens:
        for d in degs:
            for kind in kinds:
                vals = make_values(rng, n, kind)
                cases.append(('single', ('SIG', pick(rng, ['Signal', 'AccSignal']), vals, 0.01),
                              [('remove_poly', (d,), {})]))
                cases.append(('fn', 'remove_poly', (make_values(rng, n, kind), d), {}))
    cases.append(('fn', 'remove_poly', (make_values(rng, 50, 'normal'),), {}))
    cases.append(('fn', 'remove_poly', (), {'values': make_values(rng, 50, 'intlist'), 'poly_fit': 2}))
    cases.append(('fn', 'remove_poly', (np.zeros((4, 3)), 1), {}))
    cases.append(('fn', 'remove_poly', (5.0, 1), {}))
    cases.append(('fn', 'remove_poly', (None, 1), {}))

    # --- C. butter_pass ---------------------------------------------------------------------------------------------
    dense = 'butter_pass' in FOCUS
    lens = [0, 1, 2, 5, 9, 15, 16, 17, 26, 27, 28, 29, 30, 31, 32, 33, 50, 64, 100, 127, 128, 129, 500, 1024, 3000]
    n_rand = 5000 if dense else 1800
    for k in range(n_rand):
        n = pick(rng, lens)
        dt = pick(rng, DTS)
        kind = pick(rng, ['normal', 'sine', 'wild', 'int', 'f32', 'const', 'ramp', 'list', 'nan', 'int32'])
        cases.append(('single', ('SIG', pick(rng, ['Signal', 'AccSignal']), make_values(rng, n, kind), dt),
                      [('butter_pass', (rand_cut_off(rng, dt),), rand_butter_kwargs(rng))]))
    # systematic grid: type x order x gibbs x container form
    for ftype in ['band', 'low', 'high']:
        for order in [1, 2, 3, 4]:
            for gibbs in [None, 'start', 'end', 'mid']:
                for form in ['list', 'tuple', 'array']:
                    for n in [40, 100, 129, 256]:
                        dt = 0.01
                        kw = {'filter_order': order, 'remove_gibbs': gibbs}
                        cases.append(('single', ('SIG', 'AccSignal', make_values(rng, n, 'sine'), dt),
                                      [('butter_pass', (rand_cut_off(rng, dt, ftype, form),), kw)]))
    cases.append(('single', ('SIG', 'Signal', make_values(rng, 200, 'normal'), 0.01), [('butter_pass', (), {})]))
    cases.append(('single', ('SIG', 'Signal', make_values(rng, 200, 'normal'), 0.01),
                  [('butter_pass', (), {'cut_off': (None, None)})]))
    cases.append(('single', ('SIG', 'Signal', make_values(rng, 200, 'normal'), 0.01),
                  [('butter_pass', (None,), {})]))
    cases.append(('single', ('SIG', 'Signal', make_values(rng, 200, 'normal'), 0.01),
                  [('butter_pass', ([0.5, 5],), {'remove_gibbs': 'mid', 'gibbs_range': 0})]))
    cases.append(('single', ('SIG', 'Signal', make_values(rng, 200, 'normal'), 0.01),
                  [('butter_pass', ([0.5, 5],), {'remove_gibbs': 'end', 'gibbs_extra': -3})]))

    # --- D. add_constant / add_series / add_signal --------------------------------------------------------------------
    for k in range(900):
        n = pick(rng, [0, 1, 2, 3, 7, 20, 100])
        dt = pick(rng, DTS)
        spec = sig_spec(rng, n, dt=dt)
        while True:
            op = rand_op(rng, n, dt)
            if op[0].startswith('add_'):
                break
        cases.append(('single', spec, [op]))
    for bad in [5.0, None, 'abc', {'a': 1}]:
        cases.append(('single', sig_spec(rng, 3, kind='normal'), [('add_series', (bad,), {})]))
        cases.append(('single', sig_spec(rng, 3, kind='normal'), [('add_constant', (bad,), {})]))
    cases.append(('single', sig_spec(rng, 3, kind='normal'), [('add_series', (np.ones((3, 3)),), {})]))
    cases.append(('single', sig_spec(rng, 3, kind='normal'), [('add_series', (np.ones((3, 2)),), {})]))
    cases.append(('single', sig_spec(rng, 3, kind='int'), [('add_series', ([0.5, 1.5, 2.5],), {})]))
    cases.append(('single', sig_spec(rng, 3, kind='int'), [('add_constant', (np.ones(3),), {})]))
    n_add = 2500 if 'add' in FOCUS else 0
    for k in range(n_add):
        n = pick(rng, [0, 1, 2, 3, 4, 9, 50])
        dt = pick(rng, DTS)
        spec = sig_spec(rng, n, dt=dt)
        while True:
            op = rand_op(rng, n, dt)
            if op[0].startswith('add_'):
                break
        cases.append(('single', spec, [op]))
    if 'add' in FOCUS:
        for n in [0, 1, 3, 6]:
            for kind in ['normal', 'int', 'f32']:
                v = make_values(rng, n, 'normal')
                masked = np.ma.masked_array(v, mask=(np.arange(n) % 2 == 0))
                cases.append(('single', sig_spec(rng, n, kind=kind), [('add_series', (masked,), {})]))
                cases.append(('fn', 'remove_poly', (masked, 1), {}))
                cases.append(('single', sig_spec(rng, n, kind=kind), [('add_series', (v[::-1],), {})]))
                cases.append(('single', sig_spec(rng, n, kind=kind), [('add_series', (np.arange(2 * n)[::2],), {})]))
                cases.append(('single', sig_spec(rng, n, kind=kind), [('add_series', (range(n),), {})]))
                cases.append(('single', sig_spec(rng, n, kind=kind), [('add_series', (v.reshape(n, 1),), {})]))
                cases.append(('single', sig_spec(rng, n, kind=kind), [('add_series', (v.astype(complex),), {})]))
                cases.append(('single', sig_spec(rng, n, kind=kind), [('add_series', ('x' * n,), {})]))
                cases.append(('single', sig_spec(rng, n, kind=kind), [('add_series', ([None] * n,), {})]))
                cases.append(('single', sig_spec(rng, n, kind=kind), [('add_series', ([[1.0, 2.0]] * n,), {})]))
                cases.append(('single', sig_spec(rng, n, kind=kind), [('add_series', ([[1.0], [2.0, 3.0]][:n] + [1.0] * max(0, n - 2),), {})]))
                cases.append(('fn', 'remove_poly', (v.reshape(n, 1), 1), {}))
                cases.append(('fn', 'remove_poly', (np.asfortranarray(np.ones((n, n))), 1), {}))
                cases.append(('fn', 'remove_poly', (range(n), 1), {}))
                cases.append(('fn', 'remove_poly', ([None] * n, 1), {}))
                cases.append(('fn', 'remove_poly', ('x' * n, 0), {}))
                cases.append(('fn', 'remove_poly', (v.astype(complex), 2), {}))
    cases.append(('self_add', sig_spec(rng, 12, kind='normal')))
    cases.append(('self_add', sig_spec(rng, 12, kind='int')))

    # --- E. AccSignal.remove_rolling_average (sibling of running_average) -------------------------------------------
    for k in range(260):
        n = pick(rng, [1, 2, 3, 5, 10, 21, 50, 100, 300])
        dt = pick(rng, DTS)
        kind = pick(rng, ['normal', 'sine', 'int', 'f32', 'ramp', 'wild'])
        kw = {}
        if rng.random() < 0.8:
            kw['mtype'] = pick(rng, ['velocity', 'acceleration', 'values'])
        if rng.random() < 0.9:
            kw['freq_window'] = pick(rng, [1, 2, 5, 10, 0.5, 3.3, 50, 1000, 20])
        cases.append(('single', ('SIG', 'AccSignal', make_values(rng, n, kind), dt), [('remove_rolling_average', (), kw)]))

    # --- F. histories of public operations on one object -------------------------------------------------------------
    for k in range(700):
        n = pick(rng, [0, 1, 2, 3, 8, 30, 31, 64, 100, 130, 400])
        dt = pick(rng, DTS)
        spec = sig_spec(rng, n, kind=pick(rng, ['normal', 'sine', 'int', 'f32', 'list', 'ramp', 'wild', 'int32']), dt=dt)
        ops = [rand_op(rng, n, dt) for _ in range(int(rng.integers(2, 7)))]
        cases.append(('history', spec, ops))
    return cases


# ----------------------------------------------------------------------------------------------------------------------
# worker: executes the cases against the package found first on sys.path
# ----------------------------------------------------------------------------------------------------------------------

def canon(x, depth=0):
    import numpy as np
    if depth > 6:
        return ('deep', repr(type(x)))
    if isinstance(x, np.ma.MaskedArray):
        return ('masked', canon(np.ma.getdata(x), depth + 1), canon(np.ma.getmaskarray(x), depth + 1))
    if isinstance(x, range):
        return ('range', repr(x))
    if isinstance(x, np.ndarray):
        if x.dtype == object:
            return ('ndo', x.shape, tuple(canon(e, depth + 1) for e in x.ravel().tolist()))
        return ('nd', x.dtype.str, x.shape, np.ascontiguousarray(x).tobytes())
    if isinstance(x, np.generic):
        return ('sc', x.dtype.str, x.tobytes())
    if isinstance(x, float):
        return ('f', np.float64(x).tobytes())
    if isinstance(x, (bool, int, str, bytes, type(None), complex)):
        return (type(x).__name__, x if not isinstance(x, complex) else repr(x))
    if isinstance(x, (list, tuple)):
        return (type(x).__name__, tuple(canon(e, depth + 1) for e in x))
    if isinstance(x, dict):
        return ('dict', tuple((repr(k), canon(v, depth + 1)) for k, v in x.items()))
    if hasattr(x, 'values') and hasattr(x, 'dt') and hasattr(x, 'npts'):
        return ('signal', type(x).__name__, canon(x.values, depth + 1), canon(x.dt, depth + 1), canon(x.npts, depth + 1))
    return ('obj', repr(type(x)))


def guarded(fn):
    import warnings
    with warnings.catch_warnings(record=True) as wlist:
        warnings.simplefilter('always')
        try:
            out = ('ret', canon(fn()))
        except Exception as e:  # the kind and text of the failure are part of the behaviour
            out = ('exc', type(e).__name__, str(e))
    return out, tuple(sorted(set(w.category.__name__ for w in wlist)))


def snapshot(sig, deep):
    snap = [type(sig).__name__, canon(sig.values), canon(sig.npts), canon(sig.dt), canon(sig.label),
            sig._cached_fa, sig._cached_smooth_fa, guarded(lambda: sig.time)]
    if type(sig).__name__ == 'AccSignal':
        snap.append((sig._cached_response_spectra, sig._cached_disp_and_velo, tuple(sorted(sig._cached_params))))
    if deep:
        snap.append(guarded(lambda: sig.fa_spectrum))
        snap.append(guarded(lambda: sig.fa_freqs))
        if type(sig).__name__ == 'AccSignal':
            snap.append(guarded(lambda: sig.velocity))
            snap.append(guarded(lambda: sig.displacement))
            snap.append(guarded(lambda: sig.pga))
            snap.append(guarded(lambda: sig.pgv))
    return snap


def materialise(eqsig, x):
    if isinstance(x, tuple) and len(x) == 4 and isinstance(x[0], str) and x[0] == 'SIG':
        import copy
        return getattr(eqsig, x[1])(copy.deepcopy(x[2]), x[3])
    return x


def run_op(eqsig, sig, op, warm):
    import copy
    name, args, kwargs = op
    args = tuple(materialise(eqsig, copy.deepcopy(a)) for a in args)
    kwargs = dict((k, materialise(eqsig, copy.deepcopy(v))) for k, v in kwargs.items())
    rec = []
    if warm:  # fill the lazily evaluated caches, so that a missing invalidation would show afterwards
        rec.append(snapshot(sig, True))
    handed_out = sig.values
    rec.append(guarded(lambda: getattr(sig, name)(*args, **kwargs)))
    rec.append(sig.values is handed_out)
    rec.append(canon(handed_out))
    rec.append(canon(args))
    rec.append(canon(kwargs))
    rec.append(snapshot(sig, True))
    return rec


def worker(root, out_path):
    sys.path.insert(0, root)
    import numpy as np
    import inspect
    import eqsig
    import eqsig.fns.generic
    import eqsig.fns.average
    assert os.path.realpath(eqsig.__file__).startswith(os.path.realpath(root) + os.sep), (eqsig.__file__, root)
    results = []
    # public surface
    results.append(tuple(sorted(nm for nm in dir(eqsig) if not nm.startswith('_'))))
    results.append(tuple(sorted(nm for nm in dir(eqsig.Signal) if not nm.startswith('_'))))
    results.append(tuple(sorted(nm for nm in dir(eqsig.AccSignal) if not nm.startswith('_'))))
    for nm in ['butter_pass', 'remove_poly', 'add_constant', 'add_series', 'add_signal', 'running_average',
               'remove_average', 'reset_values']:
        results.append(str(inspect.signature(getattr(eqsig.Signal, nm))))
    results.append(str(inspect.signature(eqsig.AccSignal.remove_rolling_average)))
    results.append(str(inspect.signature(eqsig.fns.generic.remove_poly)))
    results.append(eqsig.remove_poly is eqsig.fns.generic.remove_poly)

    cases = build_cases()
    for ci, case in enumerate(cases):
        tag = case[0]
        if tag == 'fn':
            import copy
            fn = getattr(eqsig.fns.generic, case[1])
            args = copy.deepcopy(case[2])
            kwargs = copy.deepcopy(case[3])
            res = guarded(lambda: fn(*args, **kwargs))
            results.append((ci, res, canon(args), canon(kwargs)))
        elif tag == 'single':
            sig = materialise(eqsig, case[1])
            results.append((ci, [run_op(eqsig, sig, op, ci % 2 == 0) for op in case[2]]))
        elif tag == 'history':
            sig = materialise(eqsig, case[1])
            results.append((ci, [run_op(eqsig, sig, op, (ci + k) % 3 == 0) for k, op in enumerate(case[2])]))
        elif tag == 'self_add':
            sig = materialise(eqsig, case[1])
            r1 = guarded(lambda: sig.add_signal(sig))
            s1 = snapshot(sig, True)
            r2 = guarded(lambda: sig.add_series(sig.values))
            s2 = snapshot(sig, True)
            results.append((ci, r1, s1, r2, s2))
        else:
            raise ValueError(tag)
    with open(out_path, 'wb') as f:
        pickle.dump(results, f, protocol=4)


# ----------------------------------------------------------------------------------------------------------------------
# driver
# ----------------------------------------------------------------------------------------------------------------------

def describe(case):
    import numpy as np
    np.set_printoptions(threshold=8, edgeitems=3)
    return repr(case)[:600]


def main():
    cwd = os.getcwd()
    here = os.path.abspath(__file__)
    with tempfile.TemporaryDirectory() as tmp:
        orig_root = os.path.join(tmp, 'orig')
        os.makedirs(orig_root)
        tar_path = os.path.join(tmp, 'orig.tar')
        subprocess.check_call(['git', 'archive', '-o', tar_path, 'HEAD', 'eqsig'], cwd=cwd)
        subprocess.check_call(['tar', '-xf', tar_path, '-C', orig_root])
        assert os.path.isfile(os.path.join(orig_root, 'eqsig', 'single.py'))
        assert os.path.isfile(os.path.join(cwd, 'eqsig', 'single.py')), 'run from the worktree root'
        outs = {}
        procs = {}
        for name, root in [('orig', orig_root), ('edit', cwd)]:
            outs[name] = os.path.join(tmp, name + '.pkl')
            env = dict(os.environ)
            env.pop('PYTHONPATH', None)
            env['PYTHONHASHSEED'] = '0'
            env['PYTHONDONTWRITEBYTECODE'] = '1'
            procs[name] = subprocess.Popen([sys.executable, here, '--worker', root, outs[name]], cwd=tmp, env=env,
                                           stdout=subprocess.PIPE, stderr=subprocess.STDOUT)
        fail = False
        for name, p in procs.items():
            so, _ = p.communicate()
            if p.returncode != 0:
                print('worker %s failed:\n%s' % (name, so.decode(errors='replace')[-3000:]))
                fail = True
        if fail:
            return 1
        with open(outs['orig'], 'rb') as f:
            ro = pickle.load(f)
        with open(outs['edit'], 'rb') as f:
            re_ = pickle.load(f)
    if len(ro) != len(re_):
        print('different number of results', len(ro), len(re_))
        return 1
    cases = None
    n_bad = 0
    n_exc = 0
    for a, b in zip(ro, re_):
        if "'exc'" in repr(a)[:400]:
            n_exc += 1
        if a != b:
            n_bad += 1
            if n_bad <= 10:
                if cases is None:
                    cases = build_cases()
                ci = a[0] if isinstance(a, tuple) and a and isinstance(a[0], int) else None
                print('MISMATCH', ci, describe(cases[ci]) if ci is not None else (a, b))
    print('%s: %i results compared, %i mismatches' % (os.path.basename(here), len(ro), n_bad))
    return 1 if n_bad else 0


if __name__ == '__main__':
    if len(sys.argv) == 4 and sys.argv[1] == '--worker':
        worker(sys.argv[2], sys.argv[3])
        sys.exit(0)
    sys.exit(main())

"""
Equivalence program: compares the edited eqsig package (in os.getcwd()) with the original
(obtained with `git archive HEAD eqsig`) on many inputs / histories of the response operator
(eqsig.sdof), the time step helpers (eqsig.fns.time_step) and the AccSignal methods that use them.

Usage: cd <worktree> && PYTHONPATH=<worktree> /venv/bin/python out/equiv1.py
Exit status 0 iff every case gives identical results (bit-for-bit, same dtypes/shapes/layout, same exceptions,
same effect on arguments and on object state).
"""
import os
import sys
import pickle
import subprocess
import tempfile
import tarfile
import io
import warnings


# ----------------------------------------------------------------------------------------------------------------------
# worker: runs every case with the package found in sys.argv[2], dumps list of outcomes to sys.argv[3]
# ----------------------------------------------------------------------------------------------------------------------

def enc(obj):
    """Encode a result into a comparable, picklable structure (bit exact for arrays)."""
    import numpy as np
    if isinstance(obj, np.ndarray):
        return ('nd', str(obj.dtype), obj.shape, bool(obj.flags['C_CONTIGUOUS']), bool(obj.flags['F_CONTIGUOUS']),
                bool(obj.flags['WRITEABLE']), np.ascontiguousarray(obj).tobytes())
    if isinstance(obj, np.generic):
        return ('npscalar', str(obj.dtype), obj.tobytes())
    if isinstance(obj, (tuple, list)):
        return (type(obj).__name__, [enc(o) for o in obj])
    if isinstance(obj, dict):
        return ('dict', [(k, enc(obj[k])) for k in sorted(obj, key=str)])
    if isinstance(obj, float):
        return ('float', obj.hex())
    if isinstance(obj, (int, bool, str, type(None))):
        return (type(obj).__name__, obj)
    return ('repr', type(obj).__name__)


def asig_state(asig):
    """The state of an AccSignal that is relevant here, read without triggering any computation."""
    d = asig.__dict__
    keys = ['_values', '_dt', '_npts', '_response_times', '_cached_response_spectra', '_cached_xi', '_s_a', '_s_v', '_s_d',
            '_cached_disp_and_velo', '_cached_fa', '_cached_smooth_fa']
    return enc({k: d.get(k, '<missing>') for k in keys})


def worker(pkg_dir, out_file):
    sys.path.insert(0, pkg_dir)
    import numpy as np
    warnings.simplefilter('ignore')
    np.seterr(all='ignore')
    import eqsig
    from eqsig import sdof, im
    from eqsig.fns import time_step as ts
    assert os.path.realpath(eqsig.__file__).startswith(os.path.realpath(pkg_dir)), (eqsig.__file__, pkg_dir)

    results = []

    def call(label, fn, *args, **kwargs):
        """Calls fn, records result or exception, and the arguments after the call (mutation check)."""
        try:
            out = ('ok', enc(fn(*args, **kwargs)))
        except BaseException as e:  # noqa
            out = ('exc', type(e).__name__, str(e))
        results.append((label, out, enc(list(args)), enc(kwargs)))

    rng = np.random.RandomState(20240202)

    def rand_record(n, kind):
        t = np.arange(n)
        if kind == 0:
            v = rng.randn(n)
        elif kind == 1:
            v = np.sin(0.3 * t) * np.exp(-0.01 * t)
        elif kind == 2:  # starts with zeros (shift domain)
            v = rng.randn(n)
            v[:min(n, 4)] = 0.0
        elif kind == 3:  # integer typed
            v = rng.randint(-50, 50, size=n)
        elif kind == 4:  # hat / impulse
            v = np.zeros(n)
            if n > 2:
                v[n // 3] = 1.0
        elif kind == 5:
            v = (rng.randn(n) * 1e-8)
        elif kind == 6:
            v = (rng.randn(n) * 1e6).astype(np.float32)
        else:
            v = np.ones(n) * 0.7
        return v

    def rand_periods(m, kind):
        if kind == 0:
            p = np.sort(rng.uniform(0.02, 5.0, size=m))
        elif kind == 1:  # leading zero
            p = np.sort(rng.uniform(0.02, 5.0, size=m))
            p[0] = 0.0
        elif kind == 2:  # unordered
            p = rng.uniform(0.01, 8.0, size=m)
        elif kind == 3:  # unordered with a leading zero
            p = rng.uniform(0.01, 8.0, size=m)
            p[0] = 0
        elif kind == 4:  # integer typed, maybe a leading zero
            p = rng.randint(0, 4, size=m) + np.arange(m)
        elif kind == 5:  # very short periods (below 6 dt)
            p = rng.uniform(0.001, 0.1, size=m)
        elif kind == 6:  # a zero somewhere else than first
            p = rng.uniform(0.05, 3.0, size=m)
            p[-1] = 0.0
        else:  # negative zero first
            p = rng.uniform(0.05, 3.0, size=m)
            p[0] = -0.0
        return p

    fns4 = [('nj', sdof.nigam_and_jennings_response), ('series', sdof.response_series),
            ('pseudo', sdof.pseudo_response_spectra), ('true', sdof.true_response_spectra)]

    # -------- 1. the response operator on many random inputs -------------------------------------------------------
    lengths = [0, 1, 2, 3, 4, 5, 7, 10, 16, 23, 40, 64]
    dts = [0.005, 0.01, 0.02, 0.1, 1.0, 1, 0.0137]
    xis = [0.0, 0.05, 0.02, 0.2, 0.5, 0.7, 0.95, 0.999, 0, 1e-9]
    case = 0
    for n in lengths:
        for rk in range(8):
            for pk in range(8):
                m = [1, 2, 3, 5, 9][case % 5]
                rec = rand_record(n, rk)
                per = rand_periods(m, pk)
                dt = dts[case % len(dts)]
                xi = xis[(case // 3) % len(xis)]
                form = case % 4
                if form == 1:
                    per_arg = list(per)
                elif form == 2:
                    per_arg = tuple(per)
                else:
                    per_arg = per
                for name, fn in fns4:
                    call('resp/%s/%d' % (name, case), fn, rec, dt, per_arg, xi)
                if case % 6 == 0:  # list-form motion (spectra functions raise for lists)
                    for name, fn in fns4:
                        call('resp-list/%s/%d' % (name, case), fn, list(rec), dt, per_arg, xi)
                case += 1

    # -------- 2. related inputs of the property: scaling, sums, truncation, shifts, refinement, permuted periods --------
    for j in range(60):
        n = [12, 30, 51][j % 3]
        a = rand_record(n, 2)
        b = rand_record(n, 0)
        per = rand_periods(6, j % 4)
        dt = [0.01, 0.02, 0.05][j % 3]
        xi = [0.0, 0.05, 0.3, 0.9][j % 4]
        alpha, beta = rng.randn(2)
        k = int(rng.randint(1, 6))
        cut = int(rng.randint(1, n))
        r = int(rng.randint(2, 9))
        perm = rng.permutation(len(per))
        fine = np.interp(np.arange((n - 1) * r + 1) / r, np.arange(n), a)
        variants = [('a', a, dt, per), ('comb', alpha * a + beta * b, dt, per), ('neg', -a, dt, per),
                    ('cut', a[:cut], dt, per), ('shift', np.concatenate([np.zeros(k), a]), dt, per),
                    ('fine', fine, dt / r, per), ('perm', a, dt, per[perm]), ('part1', a, dt, per[:2]),
                    ('part2', a, dt, per[2:]), ('each', a, dt, per[3:4])]
        for vname, rec, dti, peri in variants:
            for name, fn in fns4:
                call('rel/%s/%s/%d' % (vname, name, j), fn, rec, dti, peri, xi)

    # -------- 3. corner / error inputs ---------------------------------------------------------------------------------
    rec = rand_record(9, 0)
    corner_periods = [[], np.array([]), 0.5, np.array(0.5), 0, [0], [0.0], [0, 0], [0.0, 0.0, 1.0], [1.0, 0.0], [np.nan, 1.0],
                      [np.inf, 1.0], [-1.0, 2.0], [[0.5, 1.0]], None, 'abc', [1e-300, 1.0], [1e300], (0, 1, 2), range(0, 3),
                      range(1, 4), [True, 2]]
    corner_motion = [rec, [], np.array([]), 0.3, None, [1.0], [1, 2, 3], np.array([1, 2, 3]), np.array([[1.0, 2.0], [3.0, 4.0]]),
                     np.array([np.nan, 1.0, 2.0]), np.array([np.inf, 1.0, 2.0]), np.array([True, False, True]),
                     rec[::2], rec[::-1], 'abc', np.array([1.0 + 1j, 2.0])]
    for i, per in enumerate(corner_periods):
        for name, fn in fns4:
            call('corner-per/%s/%d' % (name, i), fn, rec, 0.01, per, 0.05)
            call('corner-per-int/%s/%d' % (name, i), fn, rand_record(6, 3), 0.5, per, 0.05)
    for i, mot in enumerate(corner_motion):
        for name, fn in fns4:
            call('corner-mot/%s/%d' % (name, i), fn, mot, 0.01, [0.0, 0.03, 0.5, 1.0], 0.05)
            call('corner-mot-nz/%s/%d' % (name, i), fn, mot, 0.01, [0.3, 0.03], 0.05)
    for i, dt in enumerate([0, 0.0, -0.01, np.nan, np.inf, '0.01', None, np.float32(0.01), np.array(0.01), np.array([0.01]), [0.01],
                            10.0, 1e-12]):
        for name, fn in fns4:
            call('corner-dt/%s/%d' % (name, i), fn, rec, dt, [0.0, 0.03, 0.5, 1.0], 0.05)
            call('corner-dt-nz/%s/%d' % (name, i), fn, rec, dt, [0.5, 0.03, 1.0], 0.05)
    for i, xi in enumerate([1.0, 1, 1.5, -0.1, np.nan, '0.05', None, np.float32(0.05), np.array(0.05), np.array([0.05]), [0.05, 0.1]]):
        for name, fn in fns4:
            call('corner-xi/%s/%d' % (name, i), fn, rec, 0.01, [0.0, 0.03, 0.5, 1.0], xi)
            call('corner-xi-nz/%s/%d' % (name, i), fn, rec, 0.01, [0.5, 0.03, 1.0], xi)
    # keyword forms
    call('kw/pseudo', sdof.pseudo_response_spectra, motion=rec, dt=0.01, periods=[0.0, 0.5], xi=0.05)
    call('kw/true', sdof.true_response_spectra, motion=rec, dt=0.01, periods=[0.0, 0.5], xi=0.05)
    call('kw/series', sdof.response_series, motion=rec, dt=0.01, periods=[0.0, 0.5], xi=0.05)
    call('kw/nj', sdof.nigam_and_jennings_response, acc=rec, dt=0.01, periods=[0.0, 0.5], xi=0.05)
    call('kw/bad', sdof.pseudo_response_spectra, rec, 0.01, [0.5])
    # results do not alias the inputs / each other: writing into one output leaves the input alone
    def alias_probe(fn, s):
        mot = rand_record(8, 0) if False else np.linspace(-1, 1, 8)
        per = np.array([0.0, 0.4, 0.9])[s:]
        out = fn(mot, 0.01, per, 0.05)
        for o in out:
            o[...] = 123.0
        return mot, per, out
    for name, fn in fns4:
        for s in (0, 1):
            call('alias/%s/%d' % (name, s), alias_probe, fn, s)

    # -------- 4. other functions of eqsig.sdof -------------------------------------------------------------------------
    for j in range(12):
        n = [5, 20, 33][j % 3]
        rec = rand_record(n, j % 8).astype(float)
        per = rand_periods(4, [0, 2, 5][j % 3])
        call('single_elastic/%d' % j, sdof.single_elastic_response, rec, 0.01, per[0], 0.05)
        call('slow/%d' % j, sdof.slow_response_spectra, rec, 0.01, per, [0.05])
        call('ab/%d' % j, sdof.compute_a_and_b, [0.0, 0.05, 0.5][j % 3], 2 * np.pi / per, 0.01)
        call('absmax/%d' % j, sdof.absmax, rec.reshape(1, -1) * np.ones((3, 1)), 1)
        call('absmax0/%d' % j, sdof.absmax, rec)

    # -------- 5. time step helpers -------------------------------------------------------------------------------------
    case = 0
    for n in [0, 1, 2, 3, 5, 8, 13, 50]:
        for dt in [0.01, 0.02, 0.005, 0.1, 1, 0.03, 0.0125]:
            for target in [0.01, 0.02, 0.005, 0.0033, 0.1, 0.07, 1, 2, 0.03, 1e-3, 0.0125 / 3]:
                vals = rand_record(n, case % 8)
                for even in (True, False, 1, 0):
                    call('interp_arr/%d/%s' % (case, even), ts.interp_array_to_approx_dt, vals, dt, target, even)
                if case % 5 == 0:
                    call('interp_arr-list/%d' % case, ts.interp_array_to_approx_dt, list(vals), dt, target_dt=target)
                    call('interp_arr-default/%d' % case, ts.interp_array_to_approx_dt, vals, dt)
                case += 1
    for i, (dt, target) in enumerate([(0.01, 0), (0.01, 0.0), (0, 0.01), (0.0, 0.01), (np.float64(0.01), 0.0), (np.nan, 0.01),
                                      (0.01, np.nan), (-0.01, 0.01), (0.01, -0.01), (np.inf, 0.01), (0.01, np.inf), ('a', 0.01),
                                      (0.01, None), (np.float32(0.02), np.float32(0.01)), (1e-5, 1.0), (3, 2), (2, 3), (4, 2)]):
        for even in (True, False):
            call('interp_arr-corner/%d/%s' % (i, even), ts.interp_array_to_approx_dt, np.arange(6.0), dt, target, even)
    call('ts_from_motion', ts.time_series_from_motion, np.arange(7.0), 0.01)

    def asig_fn(fn, vals, dt, **kw):
        asig = eqsig.AccSignal(vals, dt)
        new = fn(asig, **kw)
        return new.values, new.dt, new.npts, asig.values, asig.dt

    case = 0
    for n in [2, 3, 6, 11, 40]:
        for dt in [0.01, 0.02, 0.005, 0.1, 0.03]:
            for target in [0.01, 0.02, 0.005, 0.0033, 0.07, 0.03, 1.0]:
                vals = rand_record(n, case % 8)
                for even in (True, False):
                    call('interp_sig/%d/%s' % (case, even), asig_fn, ts.interp_to_approx_dt, vals, dt, target_dt=target, even=even)
                    call('resample_sig/%d/%s' % (case, even), asig_fn, ts.resample_to_approx_dt, vals, dt, target_dt=target, even=even)
                    call('top-interp/%d/%s' % (case, even), asig_fn, eqsig.interp_to_approx_dt, vals, dt, target_dt=target, even=even)
                case += 1
    call('interp_sig/default', asig_fn, ts.interp_to_approx_dt, rand_record(9, 0), 0.025)
    call('resample_sig/default', asig_fn, ts.resample_to_approx_dt, rand_record(9, 0), 0.025)
    call('resample_sig/zero', asig_fn, ts.resample_to_approx_dt, rand_record(9, 0), 0.025, target_dt=0)
    call('interp_sig/zero', asig_fn, ts.interp_to_approx_dt, rand_record(9, 0), 0.025, target_dt=0.0)
    call('star-export', lambda: sorted(k for k in vars(eqsig.fns) if not k.startswith('__')))
    call('star-export-top', lambda: sorted(k for k in vars(eqsig) if not k.startswith('__')))

    # -------- 6. histories of public operations on AccSignal -----------------------------------------------------------
    def history(seed):
        r = np.random.RandomState(seed)
        n = int(r.choice([8, 21, 50]))
        vals = r.randn(n)
        if seed % 4 == 0:
            vals = r.randint(-9, 9, size=n)
        dt = float(r.choice([0.005, 0.01, 0.02, 0.05]))
        kw = {}
        if seed % 3 == 0:
            kw['response_times'] = np.sort(r.uniform(0.05, 3.0, size=4))
        elif seed % 3 == 1:
            kw['response_times'] = [0.0, 0.1, 0.5, 2.0]
        asig = eqsig.AccSignal(vals, dt, **kw)
        if 'response_times' not in kw:
            asig.response_times = np.linspace(0.1, 2.0, 5)
        log = [asig_state(asig)]
        for step in range(6):
            op = int(r.randint(0, 9))
            try:
                if op == 0:
                    out = asig.s_a
                elif op == 1:
                    out = (asig.s_d, asig.s_v)
                elif op == 2:
                    out = asig.gen_response_spectrum(response_times=np.sort(r.uniform(0.02, 2.0, size=3)), xi=float(r.choice([0.0, 0.02, 0.3])))
                elif op == 3:
                    out = asig.generate_response_spectrum(xi=-1, min_dt_ratio=float(r.choice([1, 2, 4, 8.5])))
                elif op == 4:
                    out = asig.response_series(response_times=[0.0, 0.2, 1.0][int(r.randint(0, 2)):], xi=float(r.choice([-1, 0.1])))
                elif op == 5:
                    asig.response_times = np.array([0.0, 0.07, 0.9])
                    out = asig.s_a
                elif op == 6:
                    out = (sdof.calc_resp_uke_spectrum(asig), sdof.calc_input_energy_spectrum(asig),
                           sdof.calc_input_energy_spectrum(asig, periods=[0.3, 0.6], xi=0.1, series=True),
                           sdof.calc_resp_uke_spectrum(asig, periods=[0.0, 0.6], xi=0.1))
                elif op == 7:
                    out = (im.calc_asi(asig, periods=np.arange(0.1, 0.5, 0.1)), im.calc_vsi(asig, xi=0.1, periods=np.arange(0.1, 0.5, 0.1)),
                           im.calc_vsi_temporal(asig, periods=np.arange(0.1, 0.5, 0.1)),
                           im.cumulative_response_spectra(asig, 'arias_intensity', periods=[0.0, 0.3]))
                else:
                    asig.clear_cache()
                    out = asig.gen_response_spectrum(response_times=[0.0, 0.01, 0.3], min_dt_ratio=int(r.randint(1, 7)))
                log.append((op, 'ok', enc(out), asig_state(asig)))
            except BaseException as e:  # noqa
                log.append((op, 'exc', type(e).__name__, str(e), asig_state(asig)))
        return log

    for seed in range(150):
        try:
            results.append(('history/%d' % seed, history(seed)))
        except BaseException as e:  # noqa
            results.append(('history/%d' % seed, ('exc', type(e).__name__, str(e))))

    with open(out_file, 'wb') as f:
        pickle.dump(results, f, protocol=2)


# ----------------------------------------------------------------------------------------------------------------------
# main: original from git vs edited working tree
# ----------------------------------------------------------------------------------------------------------------------

def main():
    root = os.getcwd()
    with tempfile.TemporaryDirectory() as tmp:
        orig_dir = os.path.join(tmp, 'orig')
        os.makedirs(orig_dir)
        data = subprocess.check_output(['git', 'archive', 'HEAD', 'eqsig'], cwd=root)
        with tarfile.open(fileobj=io.BytesIO(data)) as tf:
            tf.extractall(orig_dir)
        outs = []
        procs = []
        for name, pkg in (('orig', orig_dir), ('edit', root)):
            out_file = os.path.join(tmp, name + '.pkl')
            env = dict(os.environ)
            env['PYTHONPATH'] = pkg
            env['PYTHONHASHSEED'] = '0'
            env['PYTHONDONTWRITEBYTECODE'] = '1'
            procs.append((name, out_file, subprocess.Popen([sys.executable, os.path.abspath(__file__), '--worker', pkg, out_file],
                                                           cwd=tmp, env=env)))
        for name, out_file, p in procs:
            if p.wait() != 0:
                print('worker %s failed' % name)
                return 2
            with open(out_file, 'rb') as f:
                outs.append(pickle.load(f))
    orig, edit = outs
    if len(orig) != len(edit):
        print('different number of cases', len(orig), len(edit))
        return 1
    bad = 0
    n_exc = 0
    for o, e in zip(orig, edit):
        if len(o) > 1 and isinstance(o[1], tuple) and o[1] and o[1][0] == 'exc':
            n_exc += 1
        if o != e:
            bad += 1
            if bad <= 15:
                print('MISMATCH in case', o[0])
                if len(o) > 1 and isinstance(o[1], tuple) and o[1][0] == 'exc' or (len(e) > 1 and isinstance(e[1], tuple) and e[1][0] == 'exc'):
                    print('   orig:', o[1][:3] if o[1][0] == 'exc' else 'ok')
                    print('   edit:', e[1][:3] if e[1][0] == 'exc' else 'ok')
    print('%d cases compared (%d raise in the original), %d mismatches' % (len(orig), n_exc, bad))
    return 1 if bad else 0


if __name__ == '__main__':
    if len(sys.argv) > 1 and sys.argv[1] == '--worker':
        worker(sys.argv[2], sys.argv[3])
    else:
        sys.exit(main())

"""
Equivalence check for twin 2 of property C01 (SDOF response series).

Run with the twin applied and cwd = the worktree:

    cd /tmp/twin2/C01 && /venv/bin/python out/equiv2.py

The ORIGINAL package is extracted from git (`git archive HEAD eqsig`) into a temporary directory under /tmp.
The same deterministic list of calls is executed in two sub-processes (one importing the original package,
one importing the edited worktree package); every result (values bit-for-bit, dtype, shape, memory flags, python
types, exceptions, warnings, printed text, argument mutation, object state) is encoded and the two encodings
are compared for exact equality.  Exit code 0 iff everything matches.

Note on warnings (twin 2): the edit evaluates sub-expressions that the original evaluated several times only once.
For arguments OUTSIDE the property's domain (xi == 1 exactly, dt == 0) these sub-expressions emit numpy
RuntimeWarnings, so the original emits the same warning more often than the edit (the returned values are still
bit-identical).  Warnings are therefore compared as the set of distinct (category, message) pairs; inside the domain
no warning may be emitted at all by either version, which is checked separately.
"""
import contextlib
import io
import os
import pickle
import shutil
import subprocess
import sys
import tempfile
import warnings

TOUCHED = ['eqsig/sdof.py']
# 'sequence': the exact sequence of warnings emitted by each call must be identical
# 'set': the set of distinct (category, message) warnings must be identical
# In both modes the calls inside the property's domain (labels sweep-*, edge-*, asig-*) must emit NO warning at all.
WARN_MODE = 'set'


# ----------------------------------------------------------------------------------------------------------------
# encoding of results
# ----------------------------------------------------------------------------------------------------------------

def enc(obj):
    import numpy as np
    if isinstance(obj, np.ndarray):
        if obj.dtype == object:
            return ('ndobj', obj.shape, [enc(x) for x in obj.ravel().tolist()])
        return ('nd', obj.dtype.str, obj.shape, np.ascontiguousarray(obj).tobytes(),
                bool(obj.flags.c_contiguous), bool(obj.flags.f_contiguous), bool(obj.flags.owndata),
                bool(obj.flags.writeable))
    if isinstance(obj, np.generic):
        return ('npscalar', obj.dtype.str, obj.tobytes())
    if isinstance(obj, bool):
        return ('bool', obj)
    if isinstance(obj, int):
        return ('int', obj)
    if isinstance(obj, float):
        return ('float', obj.hex())
    if isinstance(obj, str):
        return ('str', obj)
    if obj is None:
        return ('none',)
    if isinstance(obj, (tuple, list)):
        return (type(obj).__name__, [enc(x) for x in obj])
    if isinstance(obj, dict):
        return ('dict', [(repr(k), enc(obj[k])) for k in sorted(obj, key=repr)])
    if isinstance(obj, BaseException):
        return ('exc', type(obj).__name__, str(obj))
    if hasattr(obj, '__dict__') and not callable(obj):
        return ('obj', type(obj).__name__, enc(dict(obj.__dict__)))
    return ('other', type(obj).__name__, repr(obj))


def snapshot(args):
    """deep-ish copy of call arguments so that mutation of the arguments can be detected"""
    import copy
    return enc(copy.deepcopy(args))


def call(fn, *args, **kwargs):
    """runs fn, returns encoded (result | exception, warnings, stdout, args before, args after)"""
    before = snapshot((args, kwargs))
    out = io.StringIO()
    with warnings.catch_warnings(record=True) as wlist:
        warnings.simplefilter('always')
        with contextlib.redirect_stdout(out):
            try:
                res = fn(*args, **kwargs)
            except Exception as e:  # noqa
                res = e
    after = snapshot((args, kwargs))
    wenc = [(w.category.__name__, str(w.message)) for w in wlist]
    if WARN_MODE == 'set':
        wenc = sorted(set(wenc))
    return {'res': enc(res), 'warn': wenc, 'stdout': out.getvalue(), 'args_before': before, 'args_after': after}


def obj_state(o):
    return enc(dict(o.__dict__))


# ----------------------------------------------------------------------------------------------------------------
# the list of calls (executed identically in both processes)
# ----------------------------------------------------------------------------------------------------------------

def make_record(rng, n, kind):
    import numpy as np
    if kind == 'normal':
        return rng.normal(size=n)
    if kind == 'scaled':
        return rng.normal(size=n) * 10.0 ** rng.uniform(-8, 4)
    if kind == 'zeros':
        return np.zeros(n)
    if kind == 'ones':
        return np.ones(n)
    if kind == 'int':
        return rng.randint(-50, 50, size=n)
    if kind == 'float32':
        return rng.normal(size=n).astype(np.float32)
    if kind == 'list':
        return list(rng.normal(size=n))
    if kind == 'tuple':
        return tuple(float(x) for x in rng.normal(size=n))
    if kind == 'intlist':
        return [int(x) for x in rng.randint(-9, 9, size=n)]
    if kind == 'strided':
        return rng.normal(size=2 * n)[::2]
    if kind == 'reversed':
        return rng.normal(size=n)[::-1]
    if kind == 'sine':
        return np.sin(0.1 * np.arange(n)) * 0.01
    if kind == 'pulse':
        a = np.zeros(n)
        a[n // 2] = 1.0
        return a
    if kind == 'readonly':
        a = rng.normal(size=n)
        a.setflags(write=False)
        return a
    raise ValueError(kind)


REC_KINDS = ['normal', 'scaled', 'zeros', 'ones', 'int', 'float32', 'list', 'tuple', 'intlist', 'strided',
             'reversed', 'sine', 'pulse', 'readonly']


def make_periods(rng, dt, n, zero, kind):
    import numpy as np
    ratio = 10.0 ** rng.uniform(np.log10(0.2), np.log10(2e4), size=n)
    if kind == 'sorted':
        ratio = np.sort(ratio)
    p = ratio * dt
    if kind == 'extremes':
        p = np.array([0.2 * dt, 2e4 * dt, dt, 20 * dt][:max(n, 1)])
    if zero:
        p = np.concatenate([[0.0], p])
    if kind == 'list':
        return list(p)
    if kind == 'tuple':
        return tuple(float(x) for x in p)
    if kind == 'strided':
        return np.repeat(p, 2)[::2]
    return p


def run_all(eqsig):
    import numpy as np
    from eqsig import sdof
    results = []
    fns = [('response_series', sdof.response_series), ('nigam', sdof.nigam_and_jennings_response)]

    rng = np.random.RandomState(20260926)
    xis = [0.0, 0.02, 0.05, 0.3, 0.7, 0.99, 0.999999]
    dts = [0.001, 0.005, 0.01, 0.02, 0.1, 1.0, 2.5]
    lengths = [2, 3, 4, 5, 17, 100, 257, 1000]

    # 1. random sweep over the property's domain
    for j in range(400):
        n = lengths[rng.randint(len(lengths))]
        kind = REC_KINDS[rng.randint(len(REC_KINDS))]
        dt = dts[rng.randint(len(dts))] if rng.rand() < 0.7 else float(10.0 ** rng.uniform(-4, 1))
        xi = xis[rng.randint(len(xis))] if rng.rand() < 0.6 else float(rng.uniform(0, 1))
        zero = bool(rng.rand() < 0.4)
        n_p = rng.randint(0 if zero else 1, 9)
        pkind = ['plain', 'sorted', 'list', 'tuple', 'strided', 'extremes'][rng.randint(6)]
        rec = make_record(rng, n, kind)
        periods = make_periods(rng, dt, n_p, zero, pkind)
        for name, fn in fns:
            results.append(('sweep-%i-%s-%s-%s' % (j, name, kind, pkind), call(fn, rec, dt, periods, xi)))

    # 2. systematic small edge cases: every record kind x short lengths x (zero / no zero) x few xi
    for kind in REC_KINDS:
        for n in [2, 3, 5]:
            for zero in [False, True]:
                for xi in [0.0, 0.05, 0.9]:
                    rec = make_record(rng, n, kind)
                    periods = make_periods(rng, 0.01, 3, zero, 'plain')
                    results.append(('edge-%s-%i-%s-%s' % (kind, n, zero, xi),
                                    call(sdof.response_series, rec, 0.01, periods, xi)))

    # 3. argument type variants for dt / xi / periods
    rec = make_record(rng, 50, 'normal')
    for dt in [1, np.float64(0.01), np.float32(0.01), np.int64(2), '0.01', np.array(0.01), np.array([0.01])]:
        results.append(('dt-type-%r' % (dt,), call(sdof.response_series, rec, dt, [0.0, 0.5, 1.0, 40.0], 0.05)))
    for xi in [0, np.float64(0.05), np.float32(0.05), '0.05', np.array(0.05), np.array([0.05]), True]:
        results.append(('xi-type-%r' % (xi,), call(sdof.response_series, rec, 0.01, [0.0, 0.5, 1.0], xi)))
    for periods in [[1, 2, 3], np.array([1, 2, 3]), [0, 1, 2], np.array([0, 1]), (0.5,), [0.0], np.array([0.0]),
                    np.array([0.3, 0.5], dtype=np.float32), [0.0, 0.0, 1.0], [1.0, 0.0], [-0.0, 1.0],
                    np.array([[0.5, 1.0], [2.0, 3.0]]), range(1, 4)]:
        results.append(('periods-type-%r' % (periods,), call(sdof.response_series, rec, 0.01, periods, 0.05)))
        results.append(('periods-type-nigam-%r' % (periods,),
                        call(sdof.nigam_and_jennings_response, rec, 0.01, periods, 0.05)))

    # 4. inputs on / outside the border of the domain: exceptions and warnings must be the same
    with np.errstate(all='warn'):
        for label, args in [
            ('empty-periods', (rec, 0.01, [], 0.05)),
            ('scalar-period', (rec, 0.01, 1.0, 0.05)),
            ('none-periods', (rec, 0.01, None, 0.05)),
            ('len1-record', ([1.0], 0.01, [0.0, 1.0], 0.05)),
            ('len0-record', ([], 0.01, [0.0, 1.0], 0.05)),
            ('2d-record', (np.ones((3, 4)), 0.01, [1.0], 0.05)),
            ('xi-one', (rec, 0.01, [0.5, 1.0], 1.0)),
            ('xi-above-one', (rec, 0.01, [0.5, 1.0], 1.5)),
            ('xi-negative', (rec, 0.01, [0.5, 1.0], -0.1)),
            ('inner-zero-period', (rec, 0.01, [0.5, 0.0, 1.0], 0.05)),
            ('nan-record', (np.array([0.0, np.nan, 1.0, 2.0]), 0.01, [0.0, 1.0], 0.05)),
            ('inf-record', (np.array([0.0, np.inf, 1.0, 2.0]), 0.01, [0.0, 1.0], 0.05)),
            ('nan-period', (rec, 0.01, [np.nan, 1.0], 0.05)),
            ('bad-record', ('abc', 0.01, [1.0], 0.05)),
            ('bad-dt', (rec, None, [1.0], 0.05)),
            ('bad-xi', (rec, 0.01, [1.0], None)),
            ('bad-record-and-periods', ('abc', 0.01, 'def', 0.05)),
            ('zero-dt', (rec, 0.0, [0.0, 1.0], 0.05)),
            ('huge-ratio', (rec, 1e-6, [0.0, 1.0, 100.0], 0.05)),
            ('tiny-ratio', (rec, 10.0, [0.0, 0.01, 0.1], 0.05)),
        ]:
            for name, fn in fns:
                results.append(('border-%s-%s' % (label, name), call(fn, *args)))

    # 5. keyword calls
    results.append(('kw-nigam', call(sdof.nigam_and_jennings_response, acc=rec, dt=0.01, periods=[0.0, 1.0], xi=0.1)))
    results.append(('kw-rs', call(sdof.response_series, motion=rec, dt=0.01, periods=[0.0, 1.0], xi=0.1)))
    results.append(('kw-mixed', call(sdof.response_series, rec, 0.01, xi=0.1, periods=np.array([0.3, 1.0]))))

    # 6. the propagator matrices directly (scalars, arrays, empty)
    for xi in [0.0, 0.05, 0.5, 0.99, np.float64(0.2)]:
        for dt in [0.001, 0.01, 1.0]:
            for w in [np.array([1.0, 10.0, 100.0]), np.array([]), np.float64(6.0), 6.0,
                      6.2831853 / (dt * 10.0 ** rng.uniform(np.log10(0.2), np.log10(2e4), size=7)),
                      np.array([[1.0, 2.0], [3.0, 4.0]]), np.array([3.0, 4.0], dtype=np.float32),
                      np.array([2, 3, 4])]:
                results.append(('ab-%r-%r-%s' % (xi, dt, np.shape(w)), call(sdof.compute_a_and_b, xi, w, dt)))
    results.append(('ab-kw', call(sdof.compute_a_and_b, xi=0.05, w=np.array([3.0, 9.0]), dt=0.01)))

    # 7. functions built on top of the response series
    for j in range(40):
        n = lengths[rng.randint(len(lengths))]
        dt = dts[rng.randint(len(dts))]
        rec = make_record(rng, n, ['normal', 'int', 'list', 'sine'][rng.randint(4)])
        zero = bool(rng.rand() < 0.5)
        periods = make_periods(rng, dt, rng.randint(1, 6), zero, ['plain', 'list', 'tuple'][rng.randint(3)])
        xi = float(rng.uniform(0, 1))
        results.append(('pseudo-%i' % j, call(sdof.pseudo_response_spectra, np.asarray(rec), dt, periods, xi)))
        results.append(('true-%i' % j, call(sdof.true_response_spectra, np.asarray(rec), dt, periods, xi)))
    for periods in [[], 1.0, None, [0.0], [0], np.array([0, 1]), [1.0, 0.0], np.array([[0.5, 1.0], [2.0, 3.0]])]:
        with np.errstate(all='warn'):
            results.append(('pseudo-border-%r' % (periods,),
                            call(sdof.pseudo_response_spectra, make_record(rng, 30, 'normal'), 0.01, periods, 0.05)))
            results.append(('true-border-%r' % (periods,),
                            call(sdof.true_response_spectra, make_record(rng, 30, 'normal'), 0.01, periods, 0.05)))

    # 8. AccSignal.response_series with multi-step histories; the full object state is compared after each step
    for j in range(40):
        n = [2, 3, 10, 200, 1000][rng.randint(5)]
        dt = dts[rng.randint(len(dts) - 2)]
        kind = ['normal', 'int', 'list', 'zeros', 'float32', 'sine', 'tuple'][rng.randint(7)]
        rec = make_record(rng, n, kind)
        kw = {}
        if rng.rand() < 0.5:
            kw['response_times'] = make_periods(rng, dt, rng.randint(1, 5), bool(rng.rand() < 0.5),
                                                ['plain', 'list', 'tuple'][rng.randint(3)])
        if rng.rand() < 0.3:
            kw['verbose'] = 1
        if rng.rand() < 0.3:
            kw['response_period_range'] = (0.2, 3.0)
        res = call(eqsig.AccSignal, rec, dt, **kw)
        results.append(('asig-%i-init' % j, {k: v for k, v in res.items() if k != 'res'}))
        asig = eqsig.AccSignal(rec, dt, **kw)
        results.append(('asig-%i-state0' % j, obj_state(asig)))
        for step in range(rng.randint(2, 6)):
            op = rng.randint(7)
            if op == 0:
                r = call(asig.response_series)
            elif op == 1:
                r = call(asig.response_series, make_periods(rng, dt, rng.randint(1, 5), bool(rng.rand() < 0.5),
                                                            ['plain', 'list', 'tuple'][rng.randint(3)]))
            elif op == 2:
                r = call(asig.response_series, xi=float(rng.uniform(0, 1)))
            elif op == 3:
                r = call(asig.response_series, response_times=make_periods(rng, dt, 3, True, 'plain'),
                         xi=[0.0, 0.05, -1][rng.randint(3)])
            elif op == 4:
                r = call(asig.gen_response_spectrum)
            elif op == 5:
                r = call(asig.gen_response_spectrum, response_times=make_periods(rng, dt * 30, 4, bool(rng.rand() < 0.5),
                                                                                  'sorted'), xi=0.1)
            else:
                r = call(lambda: (asig.s_a, asig.s_d, asig.s_v))
            results.append(('asig-%i-step%i-op%i' % (j, step, op), r))
            results.append(('asig-%i-step%i-state' % (j, step), obj_state(asig)))
    # default object, default arguments (100 periods of the default range)
    asig = eqsig.AccSignal(make_record(rng, 500, 'normal'), 0.01)
    results.append(('asig-default', call(asig.response_series)))
    results.append(('asig-default-state', obj_state(asig)))
    results.append(('asig-positional', call(asig.response_series, [0.0, 0.3], 0.2)))
    results.append(('asig-positional-state', obj_state(asig)))
    results.append(('asig-bad-times', call(asig.response_series, [])))
    results.append(('asig-bad-times-state', obj_state(asig)))
    results.append(('asig-energy', call(sdof.calc_input_energy_spectrum, asig, [0.3, 1.0], 0.05, True)))
    results.append(('asig-uke', call(sdof.calc_resp_uke_spectrum, asig, [0.3, 1.0])))

    # 9. (twin 2) dense sweep of the propagator matrices over the whole T/dt and xi range of the property
    for j in range(300):
        dt = float(10.0 ** rng.uniform(-4, 1))
        xi = float(rng.uniform(0, 1)) if j % 5 else [0.0, 1e-12, 0.5, 0.999999, 1 - 2 ** -53][(j // 5) % 5]
        w = 6.2831853 / (dt * 10.0 ** rng.uniform(np.log10(0.2), np.log10(2e4), size=rng.randint(0, 12)))
        results.append(('sweep-ab-%i' % j, call(sdof.compute_a_and_b, xi, w, dt)))
    return results


# ----------------------------------------------------------------------------------------------------------------
# driver
# ----------------------------------------------------------------------------------------------------------------

def worker(root, outfile):
    root = os.path.realpath(root)
    sys.path.insert(0, root)
    import eqsig
    assert os.path.realpath(eqsig.__file__).startswith(root + os.sep), (eqsig.__file__, root)
    import eqsig.sdof
    assert os.path.realpath(eqsig.sdof.__file__).startswith(root + os.sep), (eqsig.sdof.__file__, root)
    res = run_all(eqsig)
    with open(outfile, 'wb') as f:
        pickle.dump(res, f)


def describe(e, depth=0):
    s = repr(e)
    return s if len(s) < 300 else s[:300] + '...'


def main():
    work = os.path.realpath(os.getcwd())
    assert os.path.isdir(os.path.join(work, 'eqsig')), 'run with cwd = the worktree'
    tmp = tempfile.mkdtemp(prefix='equiv_C01_', dir='/tmp')
    try:
        archive = subprocess.run(['git', 'archive', 'HEAD', 'eqsig'], cwd=work, check=True, stdout=subprocess.PIPE)
        subprocess.run(['tar', '-x', '-C', tmp], input=archive.stdout, check=True)
        # the twin must really be applied (otherwise the comparison would be vacuous)
        differs = False
        for rel in TOUCHED:
            with open(os.path.join(work, rel), 'rb') as f:
                new = f.read()
            old_path = os.path.join(tmp, rel)
            old = open(old_path, 'rb').read() if os.path.exists(old_path) else None
            differs = differs or (old != new)
        if not differs:
            print('FAIL: the edited files equal the originals - is the twin applied?')
            return 2
        outs = {}
        for tag, root in [('orig', tmp), ('edit', work)]:
            outfile = os.path.join(tmp, tag + '.pkl')
            env = dict(os.environ)
            env.pop('PYTHONPATH', None)
            subprocess.run([sys.executable, os.path.abspath(__file__), '--worker', root, outfile], cwd=root, check=True,
                           env=env)
            with open(outfile, 'rb') as f:
                outs[tag] = f.read()
        orig = pickle.loads(outs['orig'])
        edit = pickle.loads(outs['edit'])
        bad = 0
        if len(orig) != len(edit):
            print('FAIL: different number of results', len(orig), len(edit))
            bad += 1
        n_exc = 0
        for (lo, ro), (le, re_) in zip(orig, edit):
            if lo != le:
                print('FAIL: label mismatch', lo, le)
                bad += 1
                continue
            if isinstance(ro, dict) and ro.get('res', ('',))[0] == 'exc':
                n_exc += 1
            if lo.startswith(('sweep-', 'edge-', 'asig-')) and isinstance(ro, dict) and (ro['warn'] or re_['warn']):
                print('FAIL: warning emitted inside the domain', lo, ro['warn'], re_['warn'])
                bad += 1
            if ro != re_:
                bad += 1
                if bad < 20:
                    print('MISMATCH in case', lo)
                    if isinstance(ro, dict):
                        for k in ro:
                            if ro[k] != re_[k]:
                                print('   field', k)
                                print('     orig:', describe(ro[k]))
                                print('     edit:', describe(re_[k]))
                    else:
                        print('     orig:', describe(ro))
                        print('     edit:', describe(re_))
        print('compared %i results (%i of them exceptions raised identically), %i mismatches' % (len(orig), n_exc, bad))
        return 0 if bad == 0 else 1
    finally:
        shutil.rmtree(tmp, ignore_errors=True)


if __name__ == '__main__':
    if len(sys.argv) >= 2 and sys.argv[1] == '--worker':
        worker(sys.argv[2], sys.argv[3])
        sys.exit(0)
    sys.exit(main())

"""
Equivalence check for twin2 (run with twin2 applied, cwd = the worktree).

Loads the EDITED package from the worktree and the ORIGINAL package from `git archive HEAD`,
then compares the functions of eqsig/loader.py (save_values_and_dt, save_signal, load_values_and_dt,
load_signal, load_sig, load_asig) on many inputs: file bytes written, values / dt / label / object type /
full object state loaded, exceptions raised and (non-)mutation of the arguments.
Exit status 0 iff everything matches.
"""
import os
import subprocess
import sys
import tempfile
import shutil
import importlib

import numpy as np

FOCUS = "load (values, dt, label)"

WORKTREE = os.path.abspath(os.getcwd())
TMP = tempfile.mkdtemp(prefix="c16_equiv_", dir="/tmp")
ORIG_ROOT = os.path.join(TMP, "orig")
os.makedirs(ORIG_ROOT)


def _purge():
    for name in list(sys.modules):
        if name == "eqsig" or name.startswith("eqsig."):
            del sys.modules[name]


def _import_from(root):
    _purge()
    sys.path.insert(0, root)
    try:
        pkg = importlib.import_module("eqsig")
        assert os.path.abspath(pkg.__file__).startswith(root + os.sep), (pkg.__file__, root)
        importlib.import_module("eqsig.loader")
        return pkg
    finally:
        sys.path.remove(root)


subprocess.run("git archive HEAD eqsig | tar -x -C %s" % ORIG_ROOT, shell=True, check=True, cwd=WORKTREE)
new = _import_from(WORKTREE)
old = _import_from(ORIG_ROOT)
assert new is not old and new.loader is not old.loader
assert new.loader.__file__ != old.loader.__file__

n_checks = 0


def same(a, b, path="value"):
    """Strict structural equality: types, dtypes, shapes and bits."""
    global n_checks
    n_checks += 1
    ta, tb = type(a), type(b)
    # classes of the two package copies are different objects: compare by qualified name
    assert (ta.__module__, ta.__qualname__) == (tb.__module__, tb.__qualname__), (path, ta, tb)
    if isinstance(a, np.ndarray):
        assert a.dtype == b.dtype, (path, a.dtype, b.dtype)
        assert a.shape == b.shape, (path, a.shape, b.shape)
        assert np.array_equal(a, b, equal_nan=(a.dtype.kind in "fc")), (path, a, b)
        if a.dtype.kind == "f":
            assert a.tobytes() == b.tobytes(), (path, "bits differ")
    elif isinstance(a, np.generic):
        assert a.dtype == b.dtype and a.tobytes() == b.tobytes(), (path, a, b)
    elif isinstance(a, float):
        assert a == b or (a != a and b != b), (path, a, b)
        assert np.float64(a).tobytes() == np.float64(b).tobytes(), (path, a, b)
    elif isinstance(a, (list, tuple)):
        assert len(a) == len(b), (path, len(a), len(b))
        for i, (x, y) in enumerate(zip(a, b)):
            same(x, y, "%s[%d]" % (path, i))
    elif isinstance(a, dict):
        assert list(a.keys()) == list(b.keys()), (path, list(a), list(b))
        for k in a:
            same(a[k], b[k], "%s[%r]" % (path, k))
    elif ta.__module__.startswith("eqsig"):
        same(vars(a), vars(b), path + ".__dict__")
    else:
        assert a == b, (path, a, b)


def outcome(fn, *args, **kwargs):
    try:
        return ("ok", fn(*args, **kwargs))
    except Exception as e:  # compare exceptions too
        return ("exc", type(e).__name__, str(e))


def read_bytes(ffp):
    if not os.path.isfile(ffp):
        return None
    with open(ffp, "rb") as f:
        return f.read()


def snapshot(obj):
    if isinstance(obj, np.ndarray):
        return obj.copy()
    if isinstance(obj, list):
        return list(obj)
    return obj


def compare_save(values, dt, label, tag):
    """Save with both copies; the written bytes, the outcome and the arguments must agree."""
    fa = os.path.join(TMP, "new_%s.txt" % tag)
    fb = os.path.join(TMP, "old_%s.txt" % tag)
    for f in (fa, fb):
        if os.path.exists(f):
            os.remove(f)
    before = snapshot(values)
    ra = outcome(new.loader.save_values_and_dt, fa, values, dt, label)
    same(before, values, "values argument after new save")
    rb = outcome(old.loader.save_values_and_dt, fb, values, dt, label)
    same(before, values, "values argument after old save")
    same(ra, rb, "save outcome " + tag)
    same(read_bytes(fa), read_bytes(fb), "file bytes " + tag)
    return fa, fb, ra[0] == "ok"


LOAD_CALLS = [
    ("load_values_and_dt", (), {}),
    ("load_signal", (), {}),
    ("load_signal", ("sig",), {}),
    ("load_signal", (), {"astype": "signal"}),
    ("load_signal", (), {"astype": "acc_sig"}),
    ("load_signal", (), {"astype": "asig"}),
    ("load_signal", (), {"astype": None}),
    ("load_sig", (), {}),
    ("load_sig", (), {"m": 1.0}),
    ("load_sig", (2,), {}),
    ("load_sig", (), {"m": 9.81}),
    ("load_sig", (), {"m": -0.5}),
    ("load_sig", (), {"m": np.float32(2.5)}),
    ("load_sig", (), {"m": 0.0}),
    ("load_asig", (), {}),
    ("load_asig", (True,), {}),
    ("load_asig", (), {"load_label": True, "m": 9.81}),
    ("load_asig", (), {"load_label": False, "m": 3}),
    ("load_asig", (False, -2.0), {}),
    ("load_asig", (), {"load_label": 1}),
    ("load_asig", (), {"load_label": 0}),
    ("load_asig", (), {"load_label": "yes", "m": 1e-3}),
]


def compare_loads(ffp, tag):
    """Every loader entry point of both copies on the same file."""
    raw = read_bytes(ffp)
    for name, args, kwargs in LOAD_CALLS:
        for pkg_level in (False, True):
            fn_new = getattr(new if pkg_level else new.loader, name)
            fn_old = getattr(old if pkg_level else old.loader, name)
            ra = outcome(fn_new, ffp, *args, **kwargs)
            rb = outcome(fn_old, ffp, *args, **kwargs)
            same(ra, rb, "%s %s%r%r" % (tag, name, args, kwargs))
            if ra[0] == "ok" and name != "load_values_and_dt" and ra[1] is not None:
                same(type(ra[1]).__name__, type(rb[1]).__name__)
                same(ra[1].npts, rb[1].npts)
                same(ra[1].label, rb[1].label)
                same(ra[1].dt, rb[1].dt)
                same(ra[1].values, rb[1].values)
    same(raw, read_bytes(ffp), "file untouched by loading " + tag)


def full_cycle(values, dt, label, tag):
    fa, fb, ok = compare_save(values, dt, label, tag)
    if not ok:
        return
    compare_loads(fa, tag)
    # multi-step history: load -> save_signal -> load, with both copies, twice
    for cycle in range(2):
        sa = outcome(new.loader.load_asig, fa, load_label=True)
        sb = outcome(old.loader.load_asig, fb, load_label=True)
        same(sa, sb, "reload " + tag)
        if sa[0] != "ok":
            return
        fa2 = os.path.join(TMP, "new_%s_c%d.txt" % (tag, cycle))
        fb2 = os.path.join(TMP, "old_%s_c%d.txt" % (tag, cycle))
        state_before = {k: snapshot(v) for k, v in vars(sa[1]).items()}
        same(outcome(new.save_signal, fa2, sa[1]), outcome(old.save_signal, fb2, sb[1]), "save_signal " + tag)
        same(state_before, dict(vars(sa[1])), "signal state after save_signal")
        same(read_bytes(fa2), read_bytes(fb2), "bytes after save_signal " + tag)
        # cross check: the new copy saves the OLD copy's object and vice versa
        fa3, fb3 = fa2 + ".x", fb2 + ".x"
        same(outcome(new.save_signal, fa3, sb[1]), outcome(old.save_signal, fb3, sa[1]), "cross save " + tag)
        same(read_bytes(fa3), read_bytes(fb3), "bytes after cross save " + tag)
        same(read_bytes(fa2), read_bytes(fa3), "bytes own vs cross " + tag)
        compare_loads(fa2, tag + "_c%d" % cycle)
        fa, fb = fa2, fb2
    # Signal (not AccSignal) objects through save_signal, incl. a changed label and reset values
    sa = outcome(new.loader.load_sig, fa, m=2.0)
    sb = outcome(old.loader.load_sig, fb, m=2.0)
    same(sa, sb)
    if sa[0] == "ok":
        for s in (sa[1], sb[1]):
            s.label = "re labelled  signal"
            s.reset_values(s.values[::-1] * 0.5)
        fa4, fb4 = fa + ".sig", fb + ".sig"
        same(outcome(new.save_signal, fa4, sa[1]), outcome(old.save_signal, fb4, sb[1]))
        same(read_bytes(fa4), read_bytes(fb4))
        compare_loads(fa4, tag + "_sig")


def write_raw(text, tag, newline=None):
    ffp = os.path.join(TMP, "raw_%s.txt" % tag)
    with open(ffp, "w", newline=newline) as f:
        f.write(text)
    return ffp


def main():
    rng = np.random.RandomState(16)
    case = 0
    dts = [1e-4, 0.0001, 0.00015, 0.00025, 0.001, 0.005, 0.01, 0.02, 0.025, 0.1, 0.5, 0.99995, 1.0, 1, 1.5, 2,
           10.0, 12.3456, 99.99995, 100, 100.0, np.float64(0.01), np.float32(0.02), 1.23456789]
    labels = ["m1", "a label with spaces", "  leading and trailing  ", "", "x", "# hash label", "1 2 3",
              "comma, separated, label", "tab\tlabel", "unicode éè label", "0.01", "label with ls",
              "form\x0cfeed"]
    lengths = [1, 2, 3, 4, 5, 7, 10, 33, 100, 1000]

    # random records
    for rep in range(120):
        n = lengths[rep % len(lengths)] if rep < 60 else int(rng.randint(1, 400))
        scale = 10.0 ** rng.randint(-8, 13)
        vals = rng.standard_normal(n) * scale
        kind = rep % 8
        if kind == 1:
            vals = list(vals)
        elif kind == 2:
            vals = tuple(float(v) for v in vals)
        elif kind == 3:
            vals = rng.randint(-1000, 1000, n)
        elif kind == 4:
            vals = vals.astype(np.float32)
        elif kind == 5:
            vals = [int(v) for v in rng.randint(-5, 5, n)]
        elif kind == 6:
            vals = np.abs(vals)
        elif kind == 7:
            vals = -np.abs(vals)
        dt = dts[rep % len(dts)] if rep % 3 else float(np.round(10 ** rng.uniform(-4, 2), int(rng.randint(1, 8))))
        label = labels[rep % len(labels)]
        full_cycle(vals, dt, label, "r%d" % case)
        case += 1

    # edge cases
    edge_values = [
        np.zeros(1), np.zeros(2), np.zeros(25), [0.0], [0], [-0.0, 0.0], np.array([-0.0]), np.array([1e-7, -1e-7, 4e-7, 5e-7, 6e-7]),
        np.array([0.5e-6, 1.5e-6, 2.5e-6, -0.5e-6]), np.array([1e15, -1e15, 123456789.123456789]),
        np.array([1e300, -1e300]), np.array([1, 2, 3]), np.array([1, 2, 3], dtype=np.int32), np.array([True, False, True]),
        [1.5], (2.5,), [1, 2.5, -3], np.arange(5.0), np.arange(5.0)[::-1], np.arange(10.0)[::2], np.linspace(-1, 1, 11),
        np.array([np.nan, 1.0, np.inf, -np.inf]), np.ones((3, 1)), np.ones((2, 2)), np.float64(3.0), [], np.array([]),
        np.array([0.1, 0.2, 0.3], dtype=np.float16), [np.float64(1.25), 2, 3.5], ["1.0", "2.0"], [None], [1 + 2j],
        range(4), np.ma.masked_array([1.0, 2.0, 3.0], mask=[0, 1, 0]),
    ]
    for vals in edge_values:
        for dt in (0.01, 1.0, 2.5, 100):
            full_cycle(vals, dt, "edge case label", "e%d" % case)
            case += 1
    # odd dt / label arguments
    for dt, label in [(0, "l"), (-0.01, "l"), ("0.01", "l"), (None, "l"), (0.01, None), (0.01, 5), (0.01, b"bytes"),
                      (np.array([0.01]), "l"), (np.array(0.02), "l"), (1e-5, "tiny dt"), (4.9e-5, "l"), (5.1e-5, "l"),
                      (1e6, "huge dt"), (float("nan"), "l"), (float("inf"), "l"), (True, "l"), (0.01, "two\nlines"),
                      (0.01, "cr\rlabel"), (0.01, "ends with newline\n")]:
        full_cycle(np.array([1.0, -2.0, 3.0, 0.0]), dt, label, "o%d" % case)
        case += 1

    # the files of the test-suite
    data_dir = os.path.join(WORKTREE, "tests", "unit_test_data")
    for fname in ("test_motion_dt0p01.txt", "short_motion_dt0p01.txt", "noise_test_1.txt"):
        ffp = os.path.join(data_dir, fname)
        if os.path.exists(ffp):
            compare_loads(ffp, fname)
            res = outcome(old.loader.load_values_and_dt, ffp)
            if res[0] == "ok":
                full_cycle(res[1][0], res[1][1], "resaved " + fname, "t%d" % case)
                case += 1

    # hand written files (other writers, line endings, extra columns, malformed content)
    raws = [
        ("lab\n3 0.0100\n1.0\n2.0\n3.0", None), ("lab\n3 0.0100\n1.0\n2.0\n3.0\n", None),
        ("lab\r\n3 0.0100\r\n1.0\r\n2.0\r\n3.0\r\n", ""), ("lab\r3 0.0100\r1.0\r2.0\r3.0", ""),
        ("lab x\n3 2.5000 extra tokens\n1.0,9.0\n2.0,8.0\n3.0,7.0\n", None), ("lab\n3   0.0200  \n1e-3\n-2E+2\n 3 \n", None),
        ("lab\n2 1.0000\n1.0\n\n2.0\n\n", None), ("lab\n2 0.01\n1.0\n# comment\n2.0\n", None),
        ("lab\n1 0.0100\n5.0", None), ("lab\n0 0.0100", None), ("lab\n0 0.0100\n", None), ("lab", None), ("", None),
        ("lab\n3\n1.0\n2.0", None), ("lab\nthree dt\n1.0\n2.0", None), ("lab\n2 0.01\nabc\n2.0", None),
        ("\n3 0.0100\n1.0\n2.0\n3.0", None), ("\n\n1.0\n2.0", None), ("lab\n3 1e-2\n1\n2\n3", None),
        ("lab\x0cmore\n3 0.0100\n1.0\n2.0\n3.0", None), ("lab\n3 0.0100\x0b7 0.5\n1.0\n2.0\n3.0", None),
        ("lab\n3 0.0100\n1.0 2.0\n3.0 4.0", None), ("lab\n3 0.0100\n1.0;2.0\n3.0", None), ("lab\n2 0.01\n1.0,\n,2.0\n", None),
    ]
    for i, (text, newline) in enumerate(raws):
        compare_loads(write_raw(text, "h%d" % i, newline), "raw%d" % i)
    # missing file and a directory
    compare_loads(os.path.join(TMP, "does_not_exist.txt"), "missing")
    compare_loads(TMP, "directory")
    # path-like objects
    import pathlib
    fa, fb, ok = compare_save(np.array([1.0, 2.0, -3.5]), 0.05, "path like", "pl")
    compare_loads(pathlib.Path(fa), "pathlib")
    pa, pb = pathlib.Path(TMP) / "pl_new.txt", pathlib.Path(TMP) / "pl_old.txt"
    same(outcome(new.loader.save_values_and_dt, pa, [1.0, 2.0], 0.5, "p"), outcome(old.loader.save_values_and_dt, pb, [1.0, 2.0], 0.5, "p"))
    same(read_bytes(str(pa)), read_bytes(str(pb)))
    # unwritable target: same exception, nothing created
    bad_a = os.path.join(TMP, "no_such_dir_a", "f.txt")
    ra = outcome(new.loader.save_values_and_dt, bad_a, [1.0], 0.01, "l")
    rb = outcome(old.loader.save_values_and_dt, bad_a, [1.0], 0.01, "l")
    same(ra[:2], rb[:2])
    # an existing file must be left alone when formatting fails, and overwritten otherwise
    keep = os.path.join(TMP, "keep.txt")
    for mod in (new, old):
        with open(keep, "w") as f:
            f.write("previous content")
        outcome(mod.loader.save_values_and_dt, keep, ["not a number"], 0.01, "l")
        kept_after_failure = read_bytes(keep)
        outcome(mod.loader.save_values_and_dt, keep, [1.0, 2.0], 0.01, None)
        kept_after_failure2 = read_bytes(keep)
        outcome(mod.loader.save_values_and_dt, keep, [1.0, 2.0], 0.01, "l")
        if mod is new:
            ref = (kept_after_failure, kept_after_failure2, read_bytes(keep))
        else:
            same(ref, (kept_after_failure, kept_after_failure2, read_bytes(keep)), "overwrite behaviour")

    # public names of the module are unchanged
    pub = lambda m: sorted(k for k in vars(m) if not k.startswith("_"))
    for name in ("save_values_and_dt", "save_signal", "load_values_and_dt", "load_signal", "load_sig", "load_asig"):
        import inspect
        same(str(inspect.signature(getattr(new.loader, name))), str(inspect.signature(getattr(old.loader, name))), name)
        assert getattr(new, name) is getattr(new.loader, name)

    print("equiv (%s side): %d comparisons over %d cases - all identical" % (FOCUS, n_checks, case))


if __name__ == "__main__":
    try:
        import warnings
        warnings.simplefilter("ignore")
        main()
    finally:
        shutil.rmtree(TMP, ignore_errors=True)
    sys.exit(0)

"""
Equivalence program: compares the ORIGINAL eqsig package (git HEAD) against the
edited working tree on many operation histories of Signal / AccSignal objects.

Run:  cd <worktree> && PYTHONPATH=<worktree> python out/equiv2.py
Exit status 0 iff every observation matches exactly.
"""
import os
import sys
import io
import pickle
import subprocess
import tarfile
import tempfile

WORKER_FLAG = "--worker"


# --------------------------------------------------------------------------------------
# worker: runs inside a subprocess with PYTHONPATH pointing at one version of the package
# --------------------------------------------------------------------------------------

def enc(x, depth=0):
    """Turn an observation into a plain, exactly comparable structure"""
    import numpy as np
    if depth > 6:
        return ("deep", repr(type(x)))
    if isinstance(x, np.ndarray):
        if x.dtype == object:
            return ("objarr", x.shape, [enc(v, depth + 1) for v in x.ravel().tolist()])
        return ("arr", str(x.dtype), x.shape, np.ascontiguousarray(x).tobytes())
    if isinstance(x, np.generic):
        return ("npscalar", str(x.dtype), np.asarray(x).tobytes())
    if isinstance(x, (bool, int, str, type(None))):
        return ("py", type(x).__name__, x)
    if isinstance(x, float):
        return ("float", repr(x))
    if isinstance(x, complex):
        return ("complex", repr(x))
    if isinstance(x, (tuple, list)):
        return (type(x).__name__, [enc(v, depth + 1) for v in x])
    if isinstance(x, dict):
        return ("dict", sorted((repr(k), enc(v, depth + 1)) for k, v in x.items()))
    if isinstance(x, BaseException):
        return ("exc", type(x).__name__, str(x))
    if hasattr(x, "values") and hasattr(x, "dt"):
        return ("signal", type(x).__name__, enc(x.values, depth + 1), enc(x.dt, depth + 1))
    return ("other", type(x).__name__)


SIG_READS = ["values", "npts", "dt", "time", "fa_spectrum", "fa_spectrum_abs", "fa_frequencies", "fa_freqs",
             "smooth_fa_freqs", "smooth_fa_frequencies", "smooth_fa_spectrum", "label", "verbose", "ccbox"]
ACC_READS = ["response_times", "velocity", "displacement", "pga", "pgv", "pgd", "s_a", "s_v", "s_d"]
DEPR_READS = ["smooth_freq_range", "smooth_freq_points"]
LEGACY = ["t_b01", "t_b05", "t_b10", "a_rms01", "a_rms05", "a_rms10", "t_595", "sd_start", "sd_end",
          "arias_intensity", "arias_intensity_series", "cav", "cav_series"]


def worker(out_path):
    import warnings
    import numpy as np
    import eqsig
    from eqsig import Signal, AccSignal

    records = []

    def call(tag, fn, *args):
        """Runs fn, records result / exception / warnings / state of the arguments afterwards"""
        with warnings.catch_warnings(record=True) as wlist:
            warnings.simplefilter("always")
            try:
                res = ("ok", enc(fn()))
            except BaseException as e:  # noqa
                if isinstance(e, (KeyboardInterrupt, SystemExit)):
                    raise
                res = ("raised", type(e).__name__, str(e))
        ws = [(w.category.__name__, str(w.message)) for w in wlist]
        records.append((tag, res, ws, [enc(a) for a in args]))

    def read(obj, tag, name):
        call(tag + ":get:" + name, lambda: getattr(obj, name))

    def snapshot(obj, tag, rng=None, deprecated=False):
        names = list(SIG_READS)
        if isinstance(obj, AccSignal):
            names += ACC_READS
        if deprecated:
            names += DEPR_READS
        if rng is not None:
            names = [names[i] for i in rng.permutation(len(names))]
        for name in names:
            read(obj, tag + ":snap", name)
        for name in LEGACY:
            call(tag + ":legacy:" + name, lambda: getattr(obj, name, "<absent>"))
        call(tag + ":pubvars", lambda: sorted(k for k in vars(obj) if not k.startswith("_")))
        # reads must be idempotent: read again a few
        for name in names[:6]:
            read(obj, tag + ":snap2", name)

    def make_values(rng, n, kind):
        t = np.arange(n)
        if kind == 0:
            v = rng.standard_normal(n)
        elif kind == 1:
            v = np.sin(0.3 * t) * np.exp(-0.01 * t) * 2.0 + 0.05 * rng.standard_normal(n)
        elif kind == 2:
            v = rng.randint(-9, 10, size=n)  # integer typed
        elif kind == 3:
            v = list(rng.standard_normal(n))  # python list
        elif kind == 4:
            v = np.zeros(n)
            v[n // 3] = 1.0
        elif kind == 5:
            v = tuple(float(x) for x in rng.randint(-3, 4, size=n))
        elif kind == 6:
            v = (rng.standard_normal(n) * 3).astype(np.float32)
        else:
            v = np.cumsum(rng.standard_normal(n)) * 0.2
        return v

    def build(rng, acc=True, n=None, kind=None, dt=None):
        n = int(rng.choice([1, 2, 3, 5, 8, 16, 17, 31, 64, 100, 129])) if n is None else n
        kind = int(rng.randint(0, 8)) if kind is None else kind
        dt = float(rng.choice([0.005, 0.01, 0.02, 0.1, 0.5])) if dt is None else dt
        v = make_values(rng, n, kind)
        kw = {}
        r = rng.randint(0, 4)
        if r == 0:
            kw["smooth_fa_freqs"] = np.array([0.5, 1.0, 2.0, 4.0])
        elif r == 1:
            kw["smooth_freq_range"] = (0.2, 10.0)
        if acc:
            r = rng.randint(0, 4)
            if r == 0:
                kw["response_times"] = [0.0, 0.2, 1.0]
            elif r == 1:
                kw["response_times"] = np.array([0.3, 0.8])
            elif r == 2:
                kw["response_period_range"] = (0.2, 2.0)
            else:
                kw["response_times"] = (0.5, 1.5, 2.5)
            return AccSignal(v, dt, **kw), v
        return Signal(v, dt, **kw), v

    # ---- catalogue of operations ------------------------------------------------------
    def op_catalogue(rng, obj):
        """returns list of (name, thunk, args) possible for obj"""
        n = obj.npts if obj.npts else 1
        is_acc = isinstance(obj, AccSignal)
        ops = []

        def add(name, fn, *args):
            ops.append((name, fn, args))

        # mutators
        newv = make_values(rng, int(rng.choice([n, n, max(1, n - 1), n + 2])), int(rng.randint(0, 8)))
        add("reset_values", lambda: obj.reset_values(newv), newv)
        add("reset_values_scalar", lambda: obj.reset_values(3.5))
        c = [1, -2.5, 0, np.float64(0.125), 3][rng.randint(0, 5)]
        add("add_constant", lambda: obj.add_constant(c), c)
        ser = make_values(rng, int(rng.choice([n, n, n, n + 1])), int(rng.randint(0, 8)))
        add("add_series", lambda: obj.add_series(ser), ser)
        other_dt = obj.dt if rng.rand() < 0.8 else obj.dt * 2
        other = (AccSignal if rng.rand() < 0.5 else Signal)(make_values(rng, int(rng.choice([n, n, n + 1])), 0), other_dt)
        add("add_signal", lambda: obj.add_signal(other), other)
        add("add_signal_bad", lambda: obj.add_signal([1.0, 2.0]))
        nyq = 0.5 / obj.dt
        cut_choices = [(0.1 * nyq, 0.6 * nyq), (None, 0.5 * nyq), (0.2 * nyq, None), [0.1 * nyq, 0.4 * nyq],
                       np.array([0.15 * nyq, 0.7 * nyq]), (0.1, 0.2, 0.3), 5.0, (None, None), (0.2 * nyq, 2 * nyq)]
        cut = cut_choices[rng.randint(0, len(cut_choices))]
        bkw = [{}, {"filter_order": 2}, {"remove_gibbs": "start"}, {"remove_gibbs": "end", "gibbs_extra": 2},
               {"remove_gibbs": "mid", "gibbs_range": 3}, {"remove_gibbs": "other", "filter_order": 3}][rng.randint(0, 6)]
        add("butter_pass", lambda: obj.butter_pass(cut, **bkw), cut)
        sec = [-1, 3, 1, n, -2][rng.randint(0, 5)]
        add("remove_average", lambda: obj.remove_average(section=sec))
        pf = int(rng.randint(0, 3))
        add("remove_poly", lambda: obj.remove_poly(pf))
        w = [1, 2, 3, 4, 5, 0, -1, -3, 2.5, 7, n, n + 3, 2 * n + 1, True][rng.randint(0, 14)]
        add("running_average", lambda: obj.running_average(w), w)
        add("running_average_default", lambda: obj.running_average())
        add("clear_cache", lambda: obj.clear_cache())
        add("values_setter", lambda: setattr(obj, "values", [1, 2, 3]))
        # settings
        fr = [np.array([0.3, 1.0, 3.0]), [1, 2, 4, 8], (0.5, 5.0), np.logspace(-1, 1, 7), [2]][rng.randint(0, 5)]
        add("set_smooth_fa_freqs", lambda: setattr(obj, "smooth_fa_freqs", fr), fr)
        fr2 = [np.array([0.4, 1.1, 3.3]), [1, 3, 9], (0.25, 2.5)][rng.randint(0, 3)]
        add("set_smooth_fa_frequencies", lambda: setattr(obj, "smooth_fa_frequencies", fr2), fr2)
        lim = [(0.2, 8.0), [0.5, 20], np.array([0.1, 3.0]), (1, 10, 100)][rng.randint(0, 4)]
        add("set_smooth_freq_range", lambda: setattr(obj, "smooth_freq_range", lim), lim)
        npt = [3, 10, 4.7, 1][rng.randint(0, 4)]
        add("set_smooth_freq_points", lambda: setattr(obj, "smooth_freq_points", npt))
        add("set_by_range", lambda: obj.set_smooth_fa_frequecies_by_range(lim, int(rng.randint(2, 9))), lim)
        sff = [None, np.array([0.7, 1.4, 2.8]), [1.0, 2.0]][rng.randint(0, 3)]
        band = [40, 20, 5][rng.randint(0, 3)]
        add("gen_smooth_fa_spectrum", lambda: obj.gen_smooth_fa_spectrum(smooth_fa_freqs=sff, band=band), sff)
        add("generate_smooth_fa_spectrum", lambda: obj.generate_smooth_fa_spectrum(band=band))
        p2 = int(rng.randint(0, 3))
        nn = [None, None, 16, 2 * n + 1][rng.randint(0, 4)]
        add("gen_fa_spectrum", lambda: obj.gen_fa_spectrum(p2_plus=p2, n=nn))
        add("generate_fa_spectrum", lambda: obj.generate_fa_spectrum())
        st, en, ix = [(0, -1, False), (0, 3, True), (0.0, 0.05, False), (1, n, True)][rng.randint(0, 4)]
        add("get_section_average", lambda: obj.get_section_average(start=st, end=en, index=ix))
        if is_acc:
            mt = ["velocity", "velocity", "acceleration", "accel", "disp", None][rng.randint(0, 6)]
            fw = [5, 1, 2, 10, 0.5, 0.1, 1e6, 3.3, 25][rng.randint(0, 9)]
            add("remove_rolling_average", lambda: obj.remove_rolling_average(mtype=mt, freq_window=fw))
            add("remove_rolling_average_default", lambda: obj.remove_rolling_average())
            add("rebase_displacement", lambda: obj.rebase_displacement())
            add("correct_me", lambda: obj.correct_me())
            dur = n * obj.dt
            tz = [None, None, (0.2 * dur, 0.7 * dur), (0.3 * dur, None), (0.0, dur)][rng.randint(0, 5)]
            add("set_zero_residual_velocity", lambda: obj.set_zero_residual_velocity(timezone=tz))
            add("set_zero_residual_displacement", lambda: obj.set_zero_residual_displacement(timezone=tz))
            add("set_zero_residual_displacement_and_velocity",
                lambda: obj.set_zero_residual_displacement_and_velocity(timezone=tz))
            trap = bool(rng.randint(0, 2))
            add("generate_displacement_and_velocity_series",
                lambda: obj.generate_displacement_and_velocity_series(trap=trap))
            add("reset_all_motion_stats", lambda: obj.reset_all_motion_stats())
            add("generate_peak_values", lambda: obj.generate_peak_values())
            add("generate_duration_stats", lambda: obj.generate_duration_stats())
            add("generate_cumulative_stats", lambda: obj.generate_cumulative_stats())
            add("generate_all_motion_stats", lambda: obj.generate_all_motion_stats())
            rt = [np.array([0.2, 0.6]), [0.0, 0.4, 1.2], (1.0,), np.array([0.0, 0.5]), [], [0.0],
                  np.linspace(0.1, 2, 6)][rng.randint(0, 7)]
            add("set_response_times", lambda: setattr(obj, "response_times", rt), rt)
            rt2 = [None, None, np.array([0.25, 0.75]), [0.0, 1.0]][rng.randint(0, 4)]
            xi = [-1, -1, 0.02, 0.1][rng.randint(0, 4)]
            mdr = [4, 1, 10][rng.randint(0, 3)]
            add("gen_response_spectrum",
                lambda: obj.gen_response_spectrum(response_times=rt2, xi=xi, min_dt_ratio=mdr), rt2)
            add("generate_response_spectrum",
                lambda: obj.generate_response_spectrum(response_times=rt2, xi=xi, min_dt_ratio=mdr), rt2)
            add("response_series", lambda: obj.response_series(response_times=rt2, xi=xi), rt2)
        return ops

    # ---- part A: random long histories -------------------------------------------------
    rng = np.random.RandomState(20240404)
    n_hist = int(os.environ.get("EQUIV_N_HIST", "500"))
    for h in range(n_hist):
        acc = (h % 4) != 0
        obj, v0 = build(rng, acc=acc)
        tag = "A%d" % h
        records.append((tag + ":ctor", enc(v0), type(obj).__name__))
        if rng.rand() < 0.5:
            snapshot(obj, tag + ":init", rng)
        n_ops = int(rng.randint(3, 14))
        for k in range(n_ops):
            ops = op_catalogue(rng, obj)
            name, fn, args = ops[rng.randint(0, len(ops))]
            if name == "reset_values_scalar" and rng.rand() < 0.8:  # keeps most histories on 1-D values
                name, fn, args = ops[rng.randint(0, len(ops))]
            call("%s:%d:%s" % (tag, k, name), fn, *args)
            # partial reads (a random subset of the derived quantities)
            names = SIG_READS + (ACC_READS if acc else [])
            for j in rng.permutation(len(names))[:int(rng.randint(0, 5))]:
                read(obj, "%s:%d" % (tag, k), names[j])
            if rng.rand() < 0.15:
                snapshot(obj, "%s:%d" % (tag, k), rng, deprecated=rng.rand() < 0.3)
        snapshot(obj, tag + ":final", rng, deprecated=True)

    # ---- part B: exhaustive read -> mutate -> read for every (read, mutator) pair ---------
    rng = np.random.RandomState(777)
    for acc in (True, False):
        for kind in (1, 2):
            probe, _ = build(np.random.RandomState(5), acc=acc, n=24, kind=kind, dt=0.02)
            op_names = [o[0] for o in op_catalogue(np.random.RandomState(5), probe)]
            reads = SIG_READS[:11] + (ACC_READS if acc else [])
            for oi, oname in enumerate(op_names):
                for ri, rname in enumerate(reads):
                    if (oi + ri) % 3 != 0 and rname not in ("values", "smooth_fa_spectrum", "velocity", "pgv", "s_a"):
                        continue
                    seed = 1000 + oi
                    obj, _ = build(np.random.RandomState(seed), acc=acc, n=24, kind=kind, dt=0.02)
                    tag = "B:%s:%d:%s:%s" % (acc, kind, oname, rname)
                    read(obj, tag + ":pre", rname)
                    ops = op_catalogue(np.random.RandomState(seed + 1), obj)
                    name, fn, args = ops[oi]
                    call(tag + ":op", fn, *args)
                    read(obj, tag + ":post", rname)
                    snapshot(obj, tag + ":end")

    # ---- part C: rolling averages, dense sweep (the edited loops) -------------------------
    rng = np.random.RandomState(31337)
    widths = [-4, -1, 0, 1, 2, 3, 4, 5, 6, 9, 2.5, 3.999, True, None, "3", float("nan"), float("inf")]
    for n in (1, 2, 3, 4, 7, 12, 33):
        for kind in (0, 2, 3, 6):
            for w in widths:
                for cls in (Signal, AccSignal):
                    v = make_values(rng, n, kind)
                    obj = cls(v, 0.05)
                    tag = "C:run:%d:%d:%r:%s" % (n, kind, w, cls.__name__)
                    if cls is AccSignal and n % 2:
                        read(obj, tag, "pga")
                        read(obj, tag, "velocity")
                    read(obj, tag, "fa_spectrum")
                    call(tag, lambda: obj.running_average(w), v)
                    snapshot(obj, tag)
    for n in (1, 2, 3, 5, 9, 20, 41):
        for kind in (0, 1, 2, 6, 7):
            for dt in (0.01, 0.05, 0.25):
                for mt in ("velocity", "acc", ""):
                    for fw in (0.3, 1, 2, 5, 7.5, 100, 0, -2):
                        v = make_values(rng, n, kind)
                        obj = AccSignal(v, dt, response_times=[0.2, 1.0])
                        tag = "C:roll:%d:%d:%g:%s:%g" % (n, kind, dt, mt, fw)
                        if n % 2:
                            read(obj, tag, "pgd")
                            read(obj, tag, "smooth_fa_spectrum")
                        call(tag, lambda: obj.remove_rolling_average(mtype=mt, freq_window=fw), v)
                        for name in ("values", "velocity", "displacement", "pga", "pgv", "pgd", "fa_spectrum",
                                     "smooth_fa_spectrum"):
                            read(obj, tag, name)
    # unusual time step types (NumPy scalar, integer) with single / double precision and integer values
    for dt in (np.float64(0.05), np.float32(0.25), 1, np.int64(2)):
        for kind in (0, 2, 6):
            for n in (5, 18):
                for mt, fw in (("velocity", 2), ("velocity", 0.1), ("acc", 0.2), ("velocity", 0.01)):
                    v = make_values(rng, n, kind)
                    obj = AccSignal(v, dt, response_times=[0.5, 2.0])
                    tag = "C:dt:%r:%d:%d:%s:%g" % (dt, kind, n, mt, fw)
                    read(obj, tag, "pgv")
                    call(tag + ":roll", lambda: obj.remove_rolling_average(mtype=mt, freq_window=fw), v)
                    snapshot(obj, tag + ":a")
                    call(tag + ":rebase", lambda: obj.rebase_displacement())
                    call(tag + ":run", lambda: obj.running_average(3))
                    snapshot(obj, tag + ":b")
    # two dimensional and complex values, empty values
    for v in (np.arange(12.).reshape(6, 2), np.array([1 + 2j, 3 - 1j, 0.5j, 2.0]), np.array([]), [[1, 2], [3, 4], [5, 6]]):
        for cls in (Signal, AccSignal):
            for w in (1, 3):
                tag = "C:odd:%s:%s:%d" % (enc(np.array(v))[2], cls.__name__, w)
                try:
                    obj = cls(v, 0.1)
                except Exception as e:  # noqa
                    records.append((tag, "ctor raised", type(e).__name__, str(e)))
                    continue
                call(tag + ":run", lambda: obj.running_average(w))
                read(obj, tag, "values")
                if cls is AccSignal:
                    call(tag + ":roll", lambda: obj.remove_rolling_average(mtype="a", freq_window=4))
                    read(obj, tag, "values")
                    call(tag + ":rollv", lambda: obj.remove_rolling_average(freq_window=4))
                    read(obj, tag, "values")
                    call(tag + ":rebase", lambda: obj.rebase_displacement())
                    read(obj, tag, "values")
                    for name in ("pga", "pgv", "pgd"):
                        read(obj, tag, name)

    # ---- part D: smoothing-frequency settings and peak memo, dense --------------------------
    rng = np.random.RandomState(99)
    for i in range(150):
        obj, _ = build(rng, acc=True, n=int(rng.choice([6, 20, 50])), kind=int(rng.randint(0, 8)))
        tag = "D%d" % i
        for k in range(6):
            choice = rng.randint(0, 9)
            lims = [(0.2, 5), [0.1, 30], np.array([1.0, 2.0]), (3, 0.3)][rng.randint(0, 4)]
            if choice == 0:
                call(tag + ":range", lambda: setattr(obj, "smooth_freq_range", lims), lims)
            elif choice == 1:
                call(tag + ":points", lambda: setattr(obj, "smooth_freq_points", int(rng.randint(1, 12))))
            elif choice == 2:
                call(tag + ":byrange", lambda: obj.set_smooth_fa_frequecies_by_range(lims, int(rng.randint(1, 12))), lims)
            elif choice == 3:
                f = rng.rand(int(rng.randint(1, 6))) * 10 + 0.05
                call(tag + ":freqs", lambda: setattr(obj, "smooth_fa_freqs", f), f)
            elif choice == 4:
                f = list(rng.randint(1, 20, size=3))
                call(tag + ":frequencies", lambda: setattr(obj, "smooth_fa_frequencies", f), f)
            elif choice == 5:
                call(tag + ":rebase", lambda: obj.rebase_displacement())
            elif choice == 6:
                call(tag + ":const", lambda: obj.add_constant(0.5))
            elif choice == 7:
                call(tag + ":stats", lambda: obj.reset_all_motion_stats())
            else:
                call(tag + ":clear", lambda: obj.clear_cache())
            for name in ("smooth_fa_freqs", "smooth_fa_frequencies", "smooth_fa_spectrum", "smooth_freq_range",
                         "smooth_freq_points", "pga", "pgv", "pgd", "pgv", "pga"):
                read(obj, tag + ":%d" % k, name)
        snapshot(obj, tag + ":final")

    # public surface of the module / classes
    records.append(("surface", sorted(k for k in dir(Signal) if not k.startswith("_")),
                    sorted(k for k in dir(AccSignal) if not k.startswith("_")),
                    sorted(k for k in dir(eqsig.single) if not k.startswith("_"))))

    with open(out_path, "wb") as f:
        pickle.dump(records, f, protocol=2)


# --------------------------------------------------------------------------------------
# driver
# --------------------------------------------------------------------------------------

def main():
    here = os.getcwd()
    this = os.path.abspath(__file__)
    tmp = tempfile.mkdtemp(prefix="equiv_c04_")
    orig_root = os.path.join(tmp, "orig")
    os.makedirs(orig_root)
    data = subprocess.check_output(["git", "archive", "HEAD", "eqsig"], cwd=here)
    with tarfile.open(fileobj=io.BytesIO(data)) as tf:
        tf.extractall(orig_root)
    outs = {}
    procs = {}
    for name, root in (("orig", orig_root), ("edit", here)):
        env = dict(os.environ)
        env["PYTHONPATH"] = root
        env["PYTHONHASHSEED"] = "0"
        env["PYTHONDONTWRITEBYTECODE"] = "1"
        outs[name] = os.path.join(tmp, name + ".pkl")
        # run from the temporary directory so that only PYTHONPATH decides which package is imported
        procs[name] = subprocess.Popen([sys.executable, this, WORKER_FLAG, outs[name], root], env=env, cwd=tmp)
    for name, p in procs.items():
        if p.wait() != 0:
            print("worker %s failed" % name)
            sys.exit(2)
    with open(outs["orig"], "rb") as f:
        a = pickle.load(f)
    with open(outs["edit"], "rb") as f:
        b = pickle.load(f)
    bad = 0
    if len(a) != len(b):
        print("different number of records: %d vs %d" % (len(a), len(b)))
        bad += 1
    for ra, rb in zip(a, b):
        if ra != rb:
            bad += 1
            if bad <= 10:
                print("MISMATCH at %r\n  orig: %.300r\n  edit: %.300r" % (ra[0], ra[1:], rb[1:]))
    n_raised = sum(1 for r in a if len(r) > 1 and isinstance(r[1], tuple) and r[1] and r[1][0] == "raised")
    print("records compared: %d (of which %d are exceptions), mismatches: %d" % (len(a), n_raised, bad))
    import shutil
    shutil.rmtree(tmp, ignore_errors=True)
    sys.exit(1 if bad else 0)


if __name__ == "__main__":
    if len(sys.argv) >= 4 and sys.argv[1] == WORKER_FLAG:
        import eqsig as _e
        assert os.path.abspath(os.path.dirname(os.path.dirname(_e.__file__))) == os.path.abspath(sys.argv[3]), \
            (_e.__file__, sys.argv[3])
        worker(sys.argv[2])
    else:
        main()

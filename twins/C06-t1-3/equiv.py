"""
Equivalence check for twin3 (run with twin3.diff applied, cwd = the worktree).

Edited: eqsig/fns/frequency.py  fas2values, fas2signal

The original package is exported from git (HEAD) into a temp dir under /tmp and imported as a second,
independent set of module objects; original and edited are then compared on many inputs.
Exit status 0 iff everything matches.
"""
import importlib
import io
import os
import shutil
import subprocess
import sys
import tarfile
import tempfile
import warnings

import numpy as np

HERE = os.getcwd()
assert os.path.isdir(os.path.join(HERE, 'eqsig')), 'run with cwd = the worktree'


def _purge():
    for k in [k for k in sys.modules if k == 'eqsig' or k.startswith('eqsig.')]:
        del sys.modules[k]


def load_pkg(root):
    """Imports the eqsig package found under `root` as a fresh set of modules; returns {name: module}"""
    _purge()
    sys.path.insert(0, root)
    try:
        importlib.invalidate_caches()
        import eqsig
        import eqsig.single
        import eqsig.im
        import eqsig.fns.frequency
        assert os.path.realpath(eqsig.__file__).startswith(os.path.realpath(root) + os.sep), eqsig.__file__
        mods = {k: v for k, v in sys.modules.items() if k == 'eqsig' or k.startswith('eqsig.')}
    finally:
        sys.path.remove(root)
    _purge()
    return mods


class using(object):
    """Installs one set of package modules in sys.modules (for the lazy imports done inside functions)"""

    def __init__(self, mods):
        self.mods = mods

    def __enter__(self):
        _purge()
        sys.modules.update(self.mods)

    def __exit__(self, *args):
        _purge()


tmp = tempfile.mkdtemp(prefix='eqsig_orig_', dir='/tmp')
try:
    tar_bytes = subprocess.check_output(['git', 'archive', 'HEAD', 'eqsig'], cwd=HERE)
    tarfile.open(fileobj=io.BytesIO(tar_bytes)).extractall(tmp)
    ORIG = load_pkg(tmp)
    NEW = load_pkg(HERE)
finally:
    pass

# the module under test really differs, the other really is the git version
src_new = open(os.path.join(HERE, 'eqsig', 'fns', 'frequency.py')).read()
src_orig = subprocess.check_output(['git', 'show', 'HEAD:eqsig/fns/frequency.py'], cwd=HERE).decode()
assert src_new != src_orig, 'twin3 is not applied'
assert open(os.path.join(tmp, 'eqsig', 'fns', 'frequency.py')).read() == src_orig
FO = ORIG['eqsig.fns.frequency']
FN = NEW['eqsig.fns.frequency']
assert FO is not FN
import inspect
assert inspect.getsource(FO.fas2signal) != inspect.getsource(FN.fas2signal)
assert inspect.getsource(FO.fas2values) != inspect.getsource(FN.fas2values)
for fname in ('fas2values', 'fas2signal'):
    assert str(inspect.signature(getattr(FO, fname))) == str(inspect.signature(getattr(FN, fname)))
    assert getattr(FO, fname).__doc__ == getattr(FN, fname).__doc__
for name in ('eqsig.fns.frequency', 'eqsig.fns', 'eqsig'):
    assert sorted(vars(ORIG[name])) == sorted(vars(NEW[name])), name

n_checks = 0


def same(a, b, what):
    """bit-for-bit equality incl. type, dtype and shape"""
    global n_checks
    n_checks += 1
    if isinstance(a, np.ndarray):
        assert type(a) is type(b), (what, type(a), type(b))
        assert a.dtype == b.dtype, (what, a.dtype, b.dtype)
        assert a.shape == b.shape, (what, a.shape, b.shape)
        assert np.array_equal(a, b, equal_nan=True), (what, a, b)
        assert a.tobytes() == b.tobytes(), what
        assert a.flags.owndata == b.flags.owndata and a.flags.writeable == b.flags.writeable, what
        assert a.flags.c_contiguous == b.flags.c_contiguous, what
        assert (a.base is None) == (b.base is None), what
        if a.base is not None:
            assert a.base.shape == b.base.shape and a.base.tobytes() == b.base.tobytes(), what
    elif isinstance(a, (tuple, list)):
        assert type(a) is type(b) and len(a) == len(b), what
        for i, (x, y) in enumerate(zip(a, b)):
            same(x, y, (what, i))
    elif isinstance(a, dict):
        assert sorted(a) == sorted(b), (what, sorted(a), sorted(b))
        for k in a:
            same(a[k], b[k], (what, k))
    elif isinstance(a, (float, np.floating)):
        assert type(a) is type(b), (what, type(a), type(b))
        assert (a == b) or (np.isnan(a) and np.isnan(b)), (what, a, b)
    else:
        assert type(a).__name__ == type(b).__name__, (what, type(a), type(b))
        assert a == b, (what, a, b)


def same_signal(so, sn, what):
    """Same class (by name and defining module name; the two packages are separate module objects) and same full state"""
    assert type(so).__name__ == type(sn).__name__ and type(so).__module__ == type(sn).__module__ == 'eqsig.single', what
    assert type(so) is getattr(ORIG['eqsig.single'], type(so).__name__), what
    assert type(sn) is getattr(NEW['eqsig.single'], type(sn).__name__), what
    same(so.__dict__, sn.__dict__, what)


def outcome(f, *args, **kwargs):
    try:
        return 'ok', f(*args, **kwargs)
    except Exception as e:  # noqa
        return 'exc', (type(e).__name__, str(e))


def compare(fas, dt, what, must_be_ok=True):
    """fas2values and fas2signal (all stype spellings), original v edited, on one input"""
    fas_o = fas.copy() if isinstance(fas, np.ndarray) else list(fas) if isinstance(fas, list) else fas
    fas_n = fas.copy() if isinstance(fas, np.ndarray) else list(fas) if isinstance(fas, list) else fas
    ro = outcome(FO.fas2values, fas_o, dt)
    rn = outcome(FN.fas2values, fas_n, dt)
    assert ro[0] == rn[0], (what, ro, rn)
    if must_be_ok:
        assert ro[0] == 'ok', (what, ro)
    if ro[0] == 'ok':
        same(ro[1], rn[1], (what, 'fas2values'))
        if isinstance(fas, np.ndarray):
            assert not np.shares_memory(rn[1], fas_n) and not np.shares_memory(ro[1], fas_o)
    else:
        assert ro[1] == rn[1], (what, ro, rn)
    calls = [((), {}), (('signal',), {}), ((), {'stype': 'signal'}), (('acc',), {}), ((), {'stype': 'accsignal'}),
             (('Signal',), {}), ((None,), {}), (('',), {})]
    for args, kwargs in calls:
        with using(ORIG):
            so = outcome(FO.fas2signal, fas_o, dt, *args, **kwargs)
        with using(NEW):
            sn = outcome(FN.fas2signal, fas_n, dt, *args, **kwargs)
        assert so[0] == sn[0], (what, args, kwargs, so, sn)
        assert so[0] == ro[0], (what, args, kwargs, so, ro)
        if so[0] == 'ok':
            same_signal(so[1], sn[1], (what, 'fas2signal', args, kwargs))
            expect = 'Signal' if (args == ('signal',) or kwargs.get('stype') == 'signal' or (not args and not kwargs)) else 'AccSignal'
            assert type(sn[1]).__name__ == expect, (what, args, kwargs)
            # the Signal holds its own copy of the values equal to what fas2values gives
            assert np.array_equal(sn[1].values, rn[1], equal_nan=True) and sn[1].values.flags.owndata
            assert sn[1].npts == len(rn[1]) and sn[1]._cached_fa is False
        else:
            assert so[1] == sn[1], (what, so, sn)
    # the argument is not modified
    if isinstance(fas, np.ndarray):
        assert fas_o.tobytes() == fas.tobytes() and fas_n.tobytes() == fas.tobytes(), what
    elif isinstance(fas, list):
        assert len(fas_o) == len(fas_n) == len(fas) and all(x is y for x, y in zip(fas_n, fas)), what
    return ro, rn


rng = np.random.RandomState(60603)
warnings.simplefilter('ignore')

dts = [0.01, 0.005, 0.02, 0.1, 1.0, 0.0078125, 1. / 3, 2, 1, np.float64(0.004), np.float32(0.01), np.int64(3)]

# 1. spectra of real records, every length, default / p2_plus / explicit n, Signal and AccSignal, padded and unpadded
lengths = list(range(2, 70)) + [100, 127, 128, 129, 255, 256, 257, 500, 1000, 1023, 1024, 1025, 4096, 5000]
for npts in lengths:
    dt = dts[npts % len(dts)]
    for flavour in ('normal', 'int', 'zeros', 'list'):
        if flavour == 'normal':
            values = rng.randn(npts)
        elif flavour == 'int':
            values = rng.randint(-50, 50, size=npts)
        elif flavour == 'zeros':
            values = np.zeros(npts)
        else:
            values = list(rng.randn(npts))
        spectra = []
        for mods in (NEW,):
            sig = mods['eqsig.single'].AccSignal(values, dt)
            spectra.append(('default', sig.fa_spectrum))
            for p in (1, 2, 3):
                if npts * 2 ** p > 20000:
                    continue
                sig.gen_fa_spectrum(p2_plus=p)
                spectra.append(('p2_plus=%i' % p, sig.fa_spectrum))
            for n in (npts, npts + 1, npts + 5, 2 * npts + 1, max(npts - 1, 2), 2, 3):
                sig.gen_fa_spectrum(n=n)
                spectra.append(('n=%i' % n, sig.fa_spectrum))
            sig2 = mods['eqsig.single'].Signal(values, dt)
            spectra.append(('array padded', FN.generate_fa_spectrum(sig2)[0]))
            spectra.append(('array unpadded', FN.generate_fa_spectrum(sig2, n_pad=False)[0]))
            spectra.append(('calc p2_plus=1', FN.calc_fa_spectrum(sig2, p2_plus=1)[0]))
        for label, fas in spectra:
            ro, rn = compare(fas, dt, (npts, flavour, label))
            assert rn[1].dtype == complex
        # reconstruction of the padded record except for mean and Nyquist components (property), new code
        if flavour == 'normal':
            fas = spectra[0][1]
            n_fft = 2 * len(fas)
            back = FN.fas2values(fas, dt)
            padded = np.zeros(n_fft)
            padded[:npts] = values
            full = np.fft.fft(padded)
            full[0] = 0
            full[n_fft // 2] = 0
            expect = np.fft.ifft(full)
            assert np.allclose(back, expect[:len(back)], rtol=1e-9, atol=1e-9 * max(1.0, np.abs(values).max()))

# 2. arbitrary positive-part arrays of every length 1..70 and more: complex, real, integer, lower precision, lists, tuples
for m in list(range(1, 71)) + [127, 128, 129, 255, 256, 257, 512, 1000, 2048, 2049]:
    for trial in range(3):
        dt = dts[(m + trial) % len(dts)]
        z = rng.randn(m) + 1j * rng.randn(m)
        compare(z, dt, (m, trial, 'complex'))
        compare(rng.randn(m), dt, (m, trial, 'real'))
        compare(rng.randint(-9, 9, size=m), dt, (m, trial, 'int'))
        compare(z.astype(np.complex64), dt, (m, trial, 'complex64'))
        compare(z * 0, dt, (m, trial, 'zeros'))
        if m <= 300:
            compare(list(z), dt, (m, trial, 'list of complex'))
            compare([float(v) for v in z.real], dt, (m, trial, 'list of float'))
            compare([int(v) for v in rng.randint(-9, 9, size=m)], dt, (m, trial, 'list of int'))
            compare(tuple(z), dt, (m, trial, 'tuple'))
        compare(z[::-1], dt, (m, trial, 'negative stride view'))
        compare(np.concatenate([z, z])[::2], dt, (m, trial, 'strided view'))
        ro_arr = z.copy()
        ro_arr.flags.writeable = False
        compare(ro_arr, dt, (m, trial, 'read-only'))

# 3. special values and step sizes
z = rng.randn(16) + 1j * rng.randn(16)
for dt in (0.0, 0, -0.01, np.inf, np.nan, 1e-300, 1e300, np.float32(0.02), True):
    compare(z, dt, ('dt', dt))
zz = z.copy()
zz[3] = np.nan
zz[5] = np.inf
compare(zz, 0.01, 'nan/inf in spectrum')

# 4. invalid inputs: same exception type and message
for fas, dt in [(np.array([], dtype=complex), 0.01), ([], 0.01), (np.ones((4, 3)), 0.01), (np.ones((1, 3)), 0.01), (z, None), (z, 'a'),
                (z, np.array([0.01, 0.02])), (z, 1j), (None, 0.01), (5.0, 0.01), (np.array(5.0), 0.01), ('abcd', 0.01),
                (np.array(['a', 'b']), 0.01)]:
    compare(fas, dt, ('invalid', repr(fas)[:30], dt), must_be_ok=False)

# 5. round trips through objects: spectrum -> signal -> spectrum -> signal, both versions step by step
for trial in range(60):
    npts = int(rng.randint(2, 300))
    dt = dts[trial % len(dts)]
    values = rng.randn(npts)
    with using(ORIG):
        so = ORIG['eqsig.single'].AccSignal(values, dt)
        a1 = FO.fas2signal(so.fa_spectrum, dt, stype='acc' if trial % 2 else 'signal')
        a2 = FO.fas2signal(a1.fa_spectrum, a1.dt)
        a3 = FO.fas2values(a2.fa_spectrum, a2.dt)
    with using(NEW):
        sn = NEW['eqsig.single'].AccSignal(values, dt)
        b1 = FN.fas2signal(sn.fa_spectrum, dt, stype='acc' if trial % 2 else 'signal')
        b2 = FN.fas2signal(b1.fa_spectrum, b1.dt)
        b3 = FN.fas2values(b2.fa_spectrum, b2.dt)
    same_signal(a1, b1, (trial, 'rt1'))
    same_signal(a2, b2, (trial, 'rt2'))
    same(a3, b3, (trial, 'rt3'))
    same_signal(so, sn, (trial, 'source'))

shutil.rmtree(tmp, ignore_errors=True)
print('equiv3: %i comparisons, all identical' % n_checks)
sys.exit(0)

"""
Equivalence program for the C07 twins (Konno-Ohmachi smoothing and bandwidth limits).

Run with the edit applied and cwd = the worktree:
    cd <worktree> && PYTHONPATH=<worktree> /venv/bin/python out/equivK.py

The original package is taken from git (`git archive HEAD eqsig`) into a temporary directory.
The original and the edited package are each exercised in their own subprocess (this same file,
run with `--worker`), on the same deterministic list of cases; every result (values bit-for-bit,
dtypes, shapes, exception types and messages, warnings, argument mutation, object state after
each public operation) is serialised and the two transcripts are compared.
Exit status 0 iff everything matches.
"""
import io
import os
import pickle
import subprocess
import sys
import tarfile
import tempfile
import warnings

N_FUNC_CASES = 5000
N_MATRIX_CASES = 1200
N_INDEX_CASES = 1500
N_HISTORIES = 260
REL_TOL = 1e-12


# --------------------------------------------------------------------------------------------
# worker side
# --------------------------------------------------------------------------------------------

def canon(v):
    """Canonical, picklable, exactly comparable form of a result."""
    import numpy as np
    if isinstance(v, np.ndarray):
        if v.dtype == object:
            return ('ndobj', v.shape, tuple(canon(x) for x in v.ravel().tolist()))
        return ('nd', v.dtype.str, v.shape, np.ascontiguousarray(v).tobytes())
    if isinstance(v, np.generic):
        return ('ns', v.dtype.str, v.tobytes())
    if isinstance(v, (tuple, list)):
        return (type(v).__name__,) + tuple(canon(x) for x in v)
    if isinstance(v, float):
        return ('f', v.hex())
    if isinstance(v, (bool, int, str, type(None))):
        return (type(v).__name__, v)
    if isinstance(v, complex):
        return ('c', v.real.hex(), v.imag.hex())
    if isinstance(v, dict):
        return ('dict',) + tuple((k, canon(v[k])) for k in sorted(v))
    return ('repr', type(v).__name__)


def guarded(fn):
    """Run fn, return (outcome, warnings)."""
    with warnings.catch_warnings(record=True) as wlist:
        warnings.simplefilter('always')
        try:
            out = ('ok', canon(fn()))
        except Exception as e:  # noqa
            out = ('exc', type(e).__name__, str(e))
    ws = tuple((w.category.__name__, str(w.message)) for w in wlist)
    return out, ws


def draw_fa_freqs(rs, np):
    kind = rs.randint(0, 9)
    n = int(rs.choice([1, 2, 3, 4, 5, 8, 16, 17, 33, 64, 100, 129]))
    if kind == 0:      # uniform Fourier grid with zero bin
        df = float(rs.choice([0.01, 0.05, 0.1, 0.25, 1.0, 1. / 3]))
        f = np.arange(n) * df
    elif kind == 1:    # uniform grid, zero bin removed
        df = float(rs.choice([0.01, 0.05, 0.1, 0.25, 1.0]))
        f = np.arange(1, n + 1) * df
    elif kind == 2:    # irregular increasing positive
        f = np.cumsum(rs.uniform(0.001, 2.0, n))
    elif kind == 3:    # irregular with zero at the start
        f = np.concatenate([[0.0], np.cumsum(rs.uniform(0.001, 2.0, n))])
    elif kind == 4:    # integer typed grid (zero first)
        f = np.arange(n, dtype=int)
    elif kind == 5:    # integer typed grid, no zero
        f = np.arange(1, n + 1, dtype=np.int32)
    elif kind == 6:    # float32 grid
        f = (np.arange(n) * 0.125).astype(np.float32)
    elif kind == 7:    # unsorted / repeated values
        f = rs.choice([0.5, 1.0, 2.0, 4.0, 8.0, 10.0], n)
    else:              # log spaced
        f = np.logspace(-2, 2, n)
    return f


def draw_spectrum(rs, np, n):
    kind = rs.randint(0, 8)
    if kind == 0:
        return rs.normal(size=n) + 1j * rs.normal(size=n)
    if kind == 1:
        return rs.normal(size=n)
    if kind == 2:
        return np.abs(rs.normal(size=n)) * 10 ** rs.uniform(-6, 6)
    if kind == 3:
        return rs.randint(-50, 50, n)
    if kind == 4:
        return np.full(n, float(rs.choice([0.0, 1.0, 3.5, -2.0])))
    if kind == 5:
        return rs.normal(size=n).astype(np.float32)
    if kind == 6:
        return (rs.normal(size=n) + 1j * rs.normal(size=n)).astype(np.complex64)
    a = np.zeros(n)
    a[rs.randint(0, n)] = 1.0
    return a


def draw_targets(rs, np, f):
    kind = rs.randint(0, 30)
    if kind >= 12:     # the well-formed kinds are drawn more often than the error forms
        kind = [0, 1, 2, 3, 4, 9][kind % 6]
    fpos = f[f > 0] if np.any(f > 0) else np.array([1.0])
    m = int(rs.choice([1, 2, 3, 5, 10, 30, 61]))
    if kind == 0:
        return None
    if kind == 1:      # exactly on the grid
        return rs.choice(fpos, m).astype(float)
    if kind == 2:      # inside
        return np.sort(rs.uniform(float(fpos.min()), float(fpos.max()) + 1e-9, m))
    if kind == 3:      # far outside
        return np.concatenate([fpos.min() * 10 ** -rs.uniform(0, 3, m), fpos.max() * 10 ** rs.uniform(0, 3, m)])
    if kind == 4:      # log spaced as Signal does
        return np.logspace(-1, np.log10(30), m)
    if kind == 5:      # contains zero / negative
        t = rs.uniform(0.1, 10, m)
        t[rs.randint(0, m)] = float(rs.choice([0.0, -1.0]))
        return t
    if kind == 6:      # list -> TypeError in the original
        return list(rs.uniform(0.1, 10, m))
    if kind == 7:      # tuple
        return tuple(rs.uniform(0.1, 10, m))
    if kind == 8:      # integer typed
        return rs.randint(1, 20, m)
    if kind == 9:      # mix on-grid and off-grid
        t = rs.uniform(float(fpos.min()), float(fpos.max()) + 1e-9, m)
        t[::2] = rs.choice(fpos, len(t[::2]))
        return t
    if kind == 10:     # float32
        return rs.uniform(0.1, 10, m).astype(np.float32)
    return np.array([])    # empty


def draw_band(rs, np):
    kind = rs.randint(0, 8)
    if kind == 0:
        return 40
    if kind == 1:
        return int(rs.randint(5, 101))
    if kind == 2:
        return float(rs.uniform(5, 100))
    if kind == 3:
        return np.float64(rs.uniform(5, 100))
    if kind == 4:
        return int(rs.choice([5, 100, 188]))
    if kind == 5:
        return 0
    if kind == 6:
        return np.int64(rs.randint(5, 101))
    return 'default'


def function_cases(np, eq_freq, out):
    for i in range(N_FUNC_CASES):
        rs = np.random.RandomState(1000 + i)
        f = draw_fa_freqs(rs, np)
        s = draw_spectrum(rs, np, len(f))
        t = draw_targets(rs, np, f)
        band = draw_band(rs, np)
        form = rs.randint(0, 30)
        if form == 0:
            f = list(f)
        elif form == 1:
            s = list(s)
        elif form == 2:
            s = s[:max(len(s) - 1, 0)]      # length mismatch
        elif form == 3:
            f = f[:0]                       # empty
        f0 = canon(f)
        s0 = canon(s)
        t0 = canon(t)
        which = rs.randint(0, 4)
        kw = {} if isinstance(band, str) else {'band': band}
        if which == 0:
            call = lambda: eq_freq.calc_smooth_fa_spectrum(f, s, t, **kw)
        elif which == 1:
            call = lambda: eq_freq.calc_smooth_fa_spectrum(f, s, smooth_fa_frequencies=t, **kw)
        elif which == 2:
            if t is None:
                call = lambda: eq_freq.calc_smooth_fa_spectrum(f, s, **kw)
            else:
                call = lambda: eq_freq.generate_smooth_fa_spectrum(t, f, s, **kw)
        else:
            if isinstance(band, str):
                call = lambda: eq_freq.calc_smooth_fa_spectrum(f, s, t)
            else:
                call = lambda: eq_freq.calc_smooth_fa_spectrum(f, s, t, band)
        res = guarded(call)
        mutated = (canon(f) == f0, canon(s) == s0, canon(t) == t0)
        out.append(('func', i, int(which), res, mutated))

    for i in range(N_MATRIX_CASES):
        rs = np.random.RandomState(50000 + i)
        f = draw_fa_freqs(rs, np)
        t = draw_targets(rs, np, f)
        band = draw_band(rs, np)
        if rs.randint(0, 12) == 0:
            f = list(f)
        kw = {} if isinstance(band, str) else {'band': band}
        f0, t0 = canon(f), canon(t)
        if t is None and rs.randint(0, 2):
            res = guarded(lambda: eq_freq.calc_smoothing_matrix_konno_1998(f, **kw))
        else:
            res = guarded(lambda: eq_freq.calc_smoothing_matrix_konno_1998(f, t, **kw))
        # the returned matrix must be a fresh, writable array in both versions
        fresh = guarded(lambda: _is_fresh(np, eq_freq, f, t, kw))
        out.append(('matrix', i, res, fresh, canon(f) == f0, canon(t) == t0))


def _is_fresh(np, eq_freq, f, t, kw):
    m = eq_freq.calc_smoothing_matrix_konno_1998(f, t, **kw)
    return (bool(m.flags.writeable), bool(m.flags.owndata), bool(m.flags.c_contiguous), m.base is None)


class FakeSig(object):
    """Duck-typed stand-in with the attributes the module-level functions read (records the read order)."""

    def __init__(self, spec, freqs, fa_spectrum=None):
        self._spec = spec
        self._freqs = freqs
        self._fa = fa_spectrum
        self.log = []

    @property
    def smooth_fa_spectrum(self):
        self.log.append('smooth_fa_spectrum')
        return self._spec

    @property
    def smooth_fa_frequencies(self):
        self.log.append('smooth_fa_frequencies')
        return self._freqs

    @property
    def smooth_fa_freqs(self):
        self.log.append('smooth_fa_freqs')
        return self._freqs

    @property
    def fa_spectrum(self):
        self.log.append('fa_spectrum')
        return self._fa


def index_cases(np, eq_freq, eq_im, out):
    for i in range(N_INDEX_CASES):
        rs = np.random.RandomState(90000 + i)
        n = int(rs.choice([1, 2, 3, 5, 10, 50, 61]))
        kind = rs.randint(0, 8)
        if kind == 0:
            spec = np.abs(rs.normal(size=n))
        elif kind == 1:
            spec = np.full(n, float(rs.choice([0.0, 1.0, 2.5])))
        elif kind == 2:
            spec = rs.randint(0, 6, n)
        elif kind == 3:
            spec = rs.normal(size=n)       # negative values included
        elif kind == 4:
            spec = np.abs(rs.normal(size=n))
            spec[rs.randint(0, n)] = np.nan
        elif kind == 5:
            spec = list(np.abs(rs.normal(size=n)))
        elif kind == 6:
            spec = np.abs(rs.normal(size=n)).astype(np.float32)
        else:
            spec = np.array([])
        freqs = np.logspace(-1, 1.5, n) if rs.randint(0, 4) else list(np.logspace(-1, 1.5, n))
        ratio_kind = rs.randint(0, 7)
        ratio = [0.707, 0.5, 1.0, 1.5, 0.0, -1.0, float(rs.uniform(0.01, 0.99))][ratio_kind]
        big = [15, 1, 2.5, 0.5, 100, -3, float(rs.uniform(1.01, 50))][ratio_kind]
        rec = []
        for name in ('calc_bandwidth_freqs', 'calc_bandwidth_f_min', 'calc_bandwidth_f_max'):
            fs = FakeSig(spec, freqs)
            fn = getattr(eq_im, name)
            rec.append((name, guarded(lambda: fn(fs, ratio=ratio)), tuple(fs.log)))
            fs = FakeSig(spec, freqs)
            rec.append((name + '/pos', guarded(lambda: fn(fs, ratio)), tuple(fs.log)))
            fs = FakeSig(spec, freqs)
            rec.append((name + '/default', guarded(lambda: fn(fs)), tuple(fs.log)))
        fs = FakeSig(spec, freqs)
        rec.append(('get_sig_freq_range', guarded(lambda: eq_freq.get_sig_freq_range(fs, ratio=big)), tuple(fs.log)))
        fs = FakeSig(spec, freqs)
        rec.append(('get_sig_freq_range/default', guarded(lambda: eq_freq.get_sig_freq_range(fs)), tuple(fs.log)))
        rec.append(('get_sig_array_indexes_range', guarded(lambda: eq_freq.get_sig_array_indexes_range(spec, ratio=big))))
        rec.append(('get_sig_array_indexes_range/pos', guarded(lambda: eq_freq.get_sig_array_indexes_range(spec, big))))
        # custom matrix product with a duck-typed signal
        m = int(rs.choice([1, 3, 7]))
        fa = rs.normal(size=n + 1) + 1j * rs.normal(size=n + 1)
        mat = np.abs(rs.normal(size=(n, m)))
        fs = FakeSig(spec, freqs, fa_spectrum=fa)
        rec.append(('custom_matrix', guarded(lambda: eq_freq.calc_smooth_fa_spectrum_w_custom_matrix(fs, mat)),
                    tuple(fs.log)))
        out.append(('index', i, tuple(rec)))


def sig_state(sig):
    d = sig.__dict__
    keys = ('_smooth_fa_freqs', '_smooth_fa_spectrum', '_cached_smooth_fa', '_cached_fa', '_smooth_freq_range',
            '_fa_spectrum', '_fa_freqs', '_npts', '_values')
    return tuple((k, canon(d.get(k, '<class default>'))) for k in keys)


def history_cases(np, eqsig, eq_freq, eq_im, out):
    for i in range(N_HISTORIES):
        rs = np.random.RandomState(200000 + i)
        npts = int(rs.choice([8, 16, 31, 64, 100, 257, 500]))
        dt = float(rs.choice([0.005, 0.01, 0.02, 0.1]))
        vk = rs.randint(0, 5)
        if vk == 0:
            values = rs.normal(size=npts)
        elif vk == 1:
            values = rs.randint(-100, 100, npts)
        elif vk == 2:
            values = list(rs.normal(size=npts))
        elif vk == 3:
            t = np.arange(npts) * dt
            values = np.sin(2 * np.pi * float(rs.uniform(0.5, 10)) * t) * np.exp(-t)
        else:
            values = np.zeros(npts)
            values[rs.randint(0, npts)] = 1.0
        cls = eqsig.AccSignal if rs.randint(0, 2) else eqsig.Signal
        ck = rs.randint(0, 4)
        held = []        # arrays passed in and kept so that we can mutate them afterwards
        if ck == 0:
            mk = lambda: cls(values, dt)
        elif ck == 1:
            lim = (float(rs.uniform(0.01, 1)), float(rs.uniform(2, 60)))
            mk = lambda: cls(values, dt, smooth_freq_range=lim)
        elif ck == 2:
            fr = np.sort(rs.uniform(0.05, 40, int(rs.randint(1, 40))))
            held.append(fr)
            mk = lambda: cls(values, dt, smooth_fa_freqs=fr)
        else:
            fr = list(np.arange(1, int(rs.randint(2, 20))))
            mk = lambda: cls(values, dt, smooth_fa_freqs=fr)
        trace = []
        res = guarded(mk)
        trace.append(('init', res[0][0], res[1]))
        if res[0][0] != 'ok':
            out.append(('hist', i, tuple(trace)))
            continue
        with warnings.catch_warnings():
            warnings.simplefilter('ignore')
            sig = mk()
        trace.append(('state0', sig_state(sig)))
        n_ops = int(rs.randint(4, 16))
        for j in range(n_ops):
            op = int(rs.randint(0, 24))
            r2 = np.random.RandomState(int(rs.randint(0, 2 ** 31 - 1)))
            if op == 0:
                fn = lambda: sig.smooth_fa_spectrum
            elif op == 1:
                fr = np.sort(r2.uniform(0.05, 40, int(r2.randint(1, 30))))
                def fn(fr=fr):
                    sig.smooth_fa_freqs = fr
                held.append(fr)
            elif op == 2:
                fr = [float(x) for x in r2.uniform(0.05, 40, int(r2.randint(1, 30)))]
                if r2.randint(0, 2):
                    fr = tuple(fr)
                def fn(fr=fr):
                    sig.smooth_fa_frequencies = fr
            elif op == 3:
                lim = (float(r2.uniform(0.01, 1)), float(r2.uniform(2, 60)))
                form = r2.randint(0, 3)
                lim = [lim, list(lim), np.array(lim)][form]
                npnt = int(r2.choice([1, 2, 10, 50, 61]))
                fn = lambda lim=lim, npnt=npnt: sig.set_smooth_fa_frequecies_by_range(lim, npnt)
            elif op == 4:
                fn = lambda: sig.smooth_freq_range
            elif op == 5:
                lim = (float(r2.uniform(0.01, 1)), float(r2.uniform(2, 60)))
                def fn(lim=lim):
                    sig.smooth_freq_range = lim
            elif op == 6:
                fn = lambda: sig.smooth_freq_points
            elif op == 7:
                v = [5, 20, 61, 30.7, 1][int(r2.randint(0, 5))]
                def fn(v=v):
                    sig.smooth_freq_points = v
            elif op == 8:
                # frequencies given to gen_smooth_fa_spectrum are kept by reference
                fk = r2.randint(0, 4)
                if fk == 0:
                    fr = np.sort(r2.uniform(0.05, 40, int(r2.randint(1, 30))))
                elif fk == 1:
                    fr = sig.fa_freqs[1:][::max(1, len(sig.fa_freqs) // 20)].copy()   # exactly on the grid
                elif fk == 2:
                    fr = list(r2.uniform(0.05, 40, 5))        # list -> TypeError inside
                else:
                    fr = np.arange(1, 12)                     # integer typed
                held.append(fr)
                band = [40, 5, 100, 17.5][int(r2.randint(0, 4))]
                fn = lambda fr=fr, band=band: sig.gen_smooth_fa_spectrum(smooth_fa_freqs=fr, band=band)
            elif op == 9:
                band = [40, 5, 100, 63][int(r2.randint(0, 4))]
                fn = lambda band=band: sig.gen_smooth_fa_spectrum(band=band)
            elif op == 10:
                band = [40, 5, 100, 88.25][int(r2.randint(0, 4))]
                if r2.randint(0, 2):
                    fn = lambda band=band: sig.generate_smooth_fa_spectrum(band)
                else:
                    fn = lambda: sig.generate_smooth_fa_spectrum()
            elif op == 11:
                nv = r2.normal(size=int(r2.choice([8, 33, 128, 300])))
                fn = lambda nv=nv: sig.reset_values(nv)
            elif op == 12:
                fn = lambda: sig.clear_cache()
            elif op == 13:
                p2 = int(r2.randint(0, 3))
                fn = lambda p2=p2: sig.gen_fa_spectrum(p2_plus=p2)
            elif op == 14:
                n = int(r2.choice([16, 50, 128, 1000]))
                fn = lambda n=n: sig.gen_fa_spectrum(n=n)
            elif op == 15:
                ratio = [0.707, 0.5, 0.9, 1.0, 1.2, 0.0][int(r2.randint(0, 6))]
                fn = lambda ratio=ratio: eq_im.calc_bandwidth_freqs(sig, ratio=ratio)
            elif op == 16:
                ratio = [0.707, 0.5, 0.9, 1.0, 1.2, 0.0][int(r2.randint(0, 6))]
                fn = lambda ratio=ratio: (eq_im.calc_bandwidth_f_min(sig, ratio=ratio),)
            elif op == 17:
                ratio = [0.707, 0.5, 0.9, 1.0, 1.2, 0.0][int(r2.randint(0, 6))]
                fn = lambda ratio=ratio: (eq_im.calc_bandwidth_f_max(sig, ratio),)
            elif op == 18:
                ratio = [15, 2, 1, 0.5, 1000][int(r2.randint(0, 5))]
                fn = lambda ratio=ratio: eq_freq.get_sig_freq_range(sig, ratio=ratio)
            elif op == 19:
                band = [40, 10, 99][int(r2.randint(0, 3))]
                use_t = bool(r2.randint(0, 2))
                def fn(band=band, use_t=use_t):
                    t = sig.smooth_fa_freqs if use_t else None
                    m = eq_freq.calc_smoothing_matrix_konno_1998(sig.fa_freqs, t, band=band)
                    direct = eq_freq.calc_smooth_fa_spectrum(sig.fa_freqs, sig.fa_spectrum, t, band=band)
                    return m.shape, eq_freq.calc_smooth_fa_spectrum_w_custom_matrix(sig, m), direct
            elif op == 20:
                # mutate an array previously handed to the object (aliasing must be the same)
                if held:
                    arr = held[int(r2.randint(0, len(held)))]
                    def fn(arr=arr):
                        if isinstance(arr, np.ndarray) and len(arr):
                            arr[0] = arr[0] * 2 + 1
                        return None
                else:
                    fn = lambda: None
            elif op == 21:
                fn = lambda: (sig.smooth_fa_freqs, sig.smooth_fa_frequencies,
                              sig.smooth_fa_freqs is sig.smooth_fa_frequencies)
            elif op == 22:
                # write into what the getters return: views/copies must behave the same
                def fn():
                    a = sig.smooth_fa_spectrum
                    a[0] = -1.0
                    b = sig.smooth_fa_freqs
                    b[-1] = b[-1] * 1.5
                    return sig.smooth_fa_spectrum
            else:
                bad = [np.array([]), 'abc', None, np.array([[1.0, 2.0], [3.0, 4.0]]), 5.0][int(r2.randint(0, 5))]
                def fn(bad=bad):
                    sig.smooth_fa_freqs = bad
                    return sig.smooth_fa_spectrum
            trace.append((j, op, guarded(fn), sig_state(sig)))
        # final observation
        trace.append(('final', guarded(lambda: sig.smooth_fa_spectrum), guarded(lambda: eq_im.calc_bandwidth_freqs(sig)),
                      sig_state(sig)))
        out.append(('hist', i, tuple(trace)))


def odd_cases(np, eqsig, eq_freq, eq_im, out):
    """Hand-picked unusual forms: 2-D inputs, array-valued band, odd limits for the range setter."""
    f = np.arange(0, 20) * 0.25
    s = np.arange(20) - 7.5
    t = np.array([0.25, 0.3, 1.0, 4.75, 9.0])
    forms = [
        (f.reshape(4, 5), s, t, 40), (f[1:], s[1:].reshape(19, 1), t, 40), (f, s, t.reshape(5, 1), 40),
        (f, s, t, np.array([40])), (f, s, t, np.array([10, 20, 30, 40, 50])), (f, s, t, None), (f, s, t, '40'),
        (f, s, t, 1e-300), (f, s, t, 1e300), (f, s, t, np.inf), (f, s, t, np.nan), (f, s, t, -40), (f, s, t, True),
        (f, s, np.array([np.nan, 1.0]), 40), (f, s, np.array([np.inf, 1.0]), 40), (f * np.nan, s, t, 40),
        (np.array([0.0]), np.array([1.0]), t, 40), (np.array([0.0]), np.array([1.0]), None, 40),
        (np.array([0.0, 0.0, 1.0]), np.array([1.0, 2.0, 3.0]), None, 40), (f[::-1], s, t, 40),
        (f, s + 0j, f, 40), (f, s, f[1:], 40), (f.astype(object), s, t, 40), (5.0, s, t, 40), (f, 5.0, t, 40),
        (f, s, 5.0, 40), (f[1:], np.float64(2.0), t, 40), (f.astype(np.float16), s.astype(np.float16), t.astype(np.float16), 40),
    ]
    for k, (a, b, c, band) in enumerate(forms):
        out.append(('odd-direct', k, guarded(lambda: eq_freq.calc_smooth_fa_spectrum(a, b, c, band=band))))
        out.append(('odd-deprecated', k, guarded(lambda: eq_freq.generate_smooth_fa_spectrum(c, a, b, band))))
        out.append(('odd-matrix', k, guarded(lambda: eq_freq.calc_smoothing_matrix_konno_1998(a, c, band))))
    vals = np.sin(np.arange(200) * 0.3) * np.exp(-np.arange(200) * 0.01)
    lims = [(0.1, 30), (0.1, 30, 50), (30, 0.1), (0.0, 10), (-1, 10), 5.0, [1.0], 'ab', None, np.array([[0.1, 1.0], [2.0, 30.0]]),
            (np.float32(0.1), 30)]
    pts = [50, 0, 1, -3, 10.0, 7.5, None, '5', np.int64(12), True]
    for k, lim in enumerate(lims):
        for m, npnt in enumerate(pts):
            sig = eqsig.AccSignal(vals, 0.01)
            r = guarded(lambda: sig.set_smooth_fa_frequecies_by_range(lim, npnt))
            st = sig_state(sig)
            r2 = guarded(lambda: (sig.smooth_fa_spectrum, eq_im.calc_bandwidth_freqs(sig), eq_freq.get_sig_freq_range(sig)))
            out.append(('odd-range', k, m, r, st, r2, sig_state(sig)))
        out.append(('odd-init', k, guarded(lambda: sig_state(eqsig.Signal(vals, 0.01, smooth_freq_range=lim)))))
        def dep(lim=lim):
            sig = eqsig.Signal(vals, 0.01)
            sig.smooth_freq_range = lim
            return sig_state(sig), sig.smooth_fa_spectrum
        out.append(('odd-deprange', k, guarded(dep)))
    for k, fr in enumerate([t, list(t), tuple(t), t.astype(int), t.astype(np.float32), 3.0, [], [[1.0, 2.0]], 'x', None,
                            [1, 'a'], np.array([1 + 2j]), range(1, 6)]):
        for attr in ('smooth_fa_freqs', 'smooth_fa_frequencies'):
            def setit(fr=fr, attr=attr):
                sig = eqsig.Signal(vals, 0.01)
                _ = sig.smooth_fa_spectrum
                setattr(sig, attr, fr)
                st = sig_state(sig)
                own = getattr(sig, attr) is fr
                return st, own, sig.smooth_fa_spectrum, sig_state(sig)
            out.append(('odd-setter', k, attr, guarded(setit)))
        out.append(('odd-init-freqs', k, guarded(lambda: sig_state(eqsig.AccSignal(vals, 0.01, smooth_fa_freqs=fr)))))


def worker(outfile):
    import numpy as np
    import eqsig
    import eqsig.fns.frequency as eq_freq
    import eqsig.im as eq_im
    out = [('pkgfile', os.path.dirname(os.path.abspath(eqsig.__file__)))]
    function_cases(np, eq_freq, out)
    index_cases(np, eq_freq, eq_im, out)
    history_cases(np, eqsig, eq_freq, eq_im, out)
    odd_cases(np, eqsig, eq_freq, eq_im, out)
    with open(outfile, 'wb') as fh:
        pickle.dump(out, fh, protocol=4)


# --------------------------------------------------------------------------------------------
# comparison side
# --------------------------------------------------------------------------------------------

def close(a, b):
    """Structural comparison; arrays/floats may differ by REL_TOL relative (NaN pattern must agree)."""
    import numpy as np
    if a == b:
        return True
    if type(a) != type(b):
        return False
    if isinstance(a, tuple):
        if len(a) != len(b):
            return False
        if a and a[0] == 'nd' and b[0] == 'nd':
            if a[1] != b[1] or a[2] != b[2]:
                return False
            x = np.frombuffer(a[3], dtype=np.dtype(a[1]))
            y = np.frombuffer(b[3], dtype=np.dtype(b[1]))
            if x.dtype.kind not in 'fc':
                return False
            nx, ny = np.isnan(x), np.isnan(y)
            if not np.array_equal(nx, ny):
                return False
            x, y = x[~nx], y[~ny]
            fin = np.isfinite(x)
            if not np.array_equal(fin, np.isfinite(y)) or not np.array_equal(x[~fin], y[~fin]):
                return False
            x, y = x[fin], y[fin]
            return bool(np.all(np.abs(x - y) <= REL_TOL * np.maximum(np.abs(x), np.abs(y))))
        if a and a[0] == 'f' and b[0] == 'f':
            x, y = float.fromhex(a[1]), float.fromhex(b[1])
            return abs(x - y) <= REL_TOL * max(abs(x), abs(y))
        if a and a[0] == 'ns' and b[0] == 'ns' and a[1] == b[1]:
            x = np.frombuffer(a[2], dtype=np.dtype(a[1]))[0]
            y = np.frombuffer(b[2], dtype=np.dtype(b[1]))[0]
            if np.dtype(a[1]).kind not in 'fc':
                return False
            return bool(abs(x - y) <= REL_TOL * max(abs(x), abs(y)))
        return all(close(p, q) for p, q in zip(a, b))
    return False


def main():
    cwd = os.getcwd()
    me = os.path.abspath(__file__)
    with tempfile.TemporaryDirectory() as tmp:
        orig_root = os.path.join(tmp, 'orig')
        os.makedirs(orig_root)
        data = subprocess.check_output(['git', 'archive', 'HEAD', 'eqsig'], cwd=cwd)
        with tarfile.open(fileobj=io.BytesIO(data)) as tf:
            tf.extractall(orig_root)
        results = {}
        procs = []
        for tag, root in (('orig', orig_root), ('edit', cwd)):
            env = dict(os.environ)
            env['PYTHONPATH'] = root
            env['PYTHONDONTWRITEBYTECODE'] = '1'
            env['PYTHONHASHSEED'] = '0'
            outfile = os.path.join(tmp, tag + '.pkl')
            # run from the temporary directory so that only PYTHONPATH decides which eqsig is imported
            procs.append((tag, root, outfile,
                          subprocess.Popen([sys.executable, me, '--worker', outfile], cwd=tmp, env=env)))
        for tag, root, outfile, p in procs:
            if p.wait() != 0:
                print('worker %s failed' % tag)
                return 2
            with open(outfile, 'rb') as fh:
                results[tag] = pickle.load(fh)
            loaded = os.path.realpath(results[tag][0][1])
            expect = os.path.realpath(os.path.join(root, 'eqsig'))
            if loaded != expect:
                print('worker %s imported eqsig from %s, expected %s' % (tag, loaded, expect))
                return 2
        a, b = results['orig'][1:], results['edit'][1:]
        if len(a) != len(b):
            print('different number of records', len(a), len(b))
            return 1
        n_bad = 0
        n_inexact = 0
        n_exc = 0
        for ra, rb in zip(a, b):
            if ra == rb:
                if "'exc'" in repr(ra)[:400]:
                    n_exc += 1
                continue
            if close(ra, rb):
                n_inexact += 1
                continue
            n_bad += 1
            if n_bad <= 5:
                print('MISMATCH in', ra[0], ra[1])
                sa, sb = repr(ra), repr(rb)
                k = next((k for k in range(min(len(sa), len(sb))) if sa[k] != sb[k]), 0)
                print('  orig: ...', sa[max(0, k - 200):k + 200])
                print('  edit: ...', sb[max(0, k - 200):k + 200])
        print('records compared: %d, bit-identical: %d, within %g: %d, mismatching: %d'
              % (len(a), len(a) - n_bad - n_inexact, REL_TOL, n_inexact, n_bad))
        return 1 if n_bad else 0


if __name__ == '__main__':
    if len(sys.argv) == 3 and sys.argv[1] == '--worker':
        worker(sys.argv[2])
        sys.exit(0)
    sys.exit(main())

"""Equivalence program for a behaviour-preserving edit of eqsig (property C17).

Run with the edit applied and cwd = the worktree:
    PYTHONPATH=$PWD python out/equiv1.py
The original package is taken from `git archive HEAD eqsig` into a temporary directory; original and
edited package are each driven by a worker subprocess (this same file with --worker) over the same
deterministic list of cases, and the pickled outcomes are compared exactly (dtype, shape and bytes of
every array, type and text of every exception, every warning).
"""
import io
import os
import pickle
import subprocess
import sys
import tarfile
import tempfile
import warnings


# ----------------------------------------------------------------------------------------------- worker
def enc(obj):
    import numpy as np
    if isinstance(obj, np.ndarray):
        if obj.dtype == object:
            return ('objarr', obj.shape, tuple(enc(o) for o in obj.ravel().tolist()))
        return ('arr', obj.dtype.str, obj.shape, np.ascontiguousarray(obj).tobytes())
    if isinstance(obj, np.generic):
        return ('npscalar', obj.dtype.str, obj.tobytes())
    if isinstance(obj, (list, tuple)):
        return (type(obj).__name__,) + tuple(enc(o) for o in obj)
    if isinstance(obj, dict):
        return ('dict',) + tuple((k, enc(v)) for k, v in sorted(obj.items()))
    if isinstance(obj, float):
        return ('float', repr(obj))
    if obj is None or isinstance(obj, (int, str, bool, complex)):
        return (type(obj).__name__, obj)
    return ('repr', type(obj).__name__)


def snapshot(sig):
    """State of a Signal / AccSignal as seen through the public API."""
    import eqsig
    out = [type(sig).__name__, enc(sig.values), enc(sig.npts), enc(sig.dt), enc(sig.label)]
    try:
        out.append(enc(sig.time))
    except Exception as e:
        out.append(('exc', type(e).__name__, str(e)))
    try:
        out.append(enc(sig.fa_spectrum))
        out.append(enc(sig.fa_freqs))
    except Exception as e:
        out.append(('exc', type(e).__name__, str(e)))
    if isinstance(sig, eqsig.AccSignal):
        try:
            out.append(enc(sig.velocity))
            out.append(enc(sig.displacement))
            out.append(enc(sig.pga))
        except Exception as e:
            out.append(('exc', type(e).__name__, str(e)))
    return tuple(out)


def run_case(fn):
    with warnings.catch_warnings(record=True) as wlist:
        warnings.simplefilter('always')
        try:
            res = ('ok', fn())
        except Exception as e:  # noqa
            res = ('exc', type(e).__name__, str(e))
    ws = tuple((w.category.__name__, str(w.message)) for w in wlist)
    return res, ws


def make_records(np):
    rng = np.random.RandomState(1717)
    recs = []
    lengths = [1, 2, 3, 4, 5, 8, 13, 16, 17, 28, 31, 32, 33, 40, 64, 100, 127, 128, 129, 257, 500, 1000, 1024, 1025]
    for k, n in enumerate(lengths):
        t = np.arange(n)
        kind = k % 6
        if kind == 0:
            v = rng.randn(n)
        elif kind == 1:
            v = np.sin(0.07 * t) + 0.3 * rng.randn(n) + 2.0
        elif kind == 2:
            v = rng.randint(-50, 50, size=n)  # integer-typed
        elif kind == 3:
            v = (rng.randn(n) * 3).astype(np.float32)
        elif kind == 4:
            v = list(rng.randn(n) + 0.01 * t)  # list form
        else:
            v = 1e-3 * t ** 2 - 0.5 * t + rng.randn(n)
        recs.append(v)
    recs.append(np.zeros(50))
    recs.append(np.ones(75, dtype=int))
    recs.append(rng.randn(300) + 1j * rng.randn(300))  # complex, corner
    recs.append(rng.randn(40, 3))  # 2D, corner
    recs.append(np.array([]))
    recs.append(rng.randn(2000))
    return recs


def build_cases():
    import numpy as np
    import eqsig
    from eqsig.fns import generic
    from eqsig import exceptions  # noqa

    cases = []  # (id, callable)
    recs = make_records(np)
    dts = [0.01, 0.005, 0.02, 0.1, 1, 0.0125]
    rng = np.random.RandomState(99)

    def new_sig(ri, di, cls):
        v = recs[ri]
        v = v.copy() if isinstance(v, np.ndarray) else list(v)
        klass = eqsig.AccSignal if cls else eqsig.Signal
        return klass(v, dts[di % len(dts)], label='r%d' % ri)

    def add(cid, fn):
        cases.append((cid, fn))

    # ------------------------------------------------------------------ butter_pass
    cut_offs = [
        (0.1, 15), [0.2, 25], np.array([0.5, 10.0]), (None, 15), (0.1, None), [None, 8], [1.5, None],
        np.array([None, 5.0], dtype=object), np.array([2.0, None], dtype=object), (None, None),
        (1, 10), np.array([1, 10]), (0.1, 15, 3), [4.0], 5.0, 'ab', {'a': 1, 'b': 2}, None,
        (10, 0.1), (0.1, 1e4), (0.0, 5), (-1.0, 5.0), (None, 1e5), ([0.1, 0.2], 3.0),
        np.array([[0.1, 0.2], [3.0, 4.0]]), np.array([0.5, 10.0], dtype=np.float32), (0.3, 0.3),
    ]
    kw_sets = [
        {}, {'filter_order': 1}, {'filter_order': 2}, {'filter_order': 3}, {'filter_order': 4},
        {'remove_gibbs': 'start'}, {'remove_gibbs': 'end'}, {'remove_gibbs': 'mid'}, {'remove_gibbs': 'other'},
        {'remove_gibbs': 'start', 'filter_order': 2, 'gibbs_extra': 2},
        {'remove_gibbs': 'end', 'filter_order': 3, 'gibbs_extra': 0},
        {'remove_gibbs': 'mid', 'gibbs_extra': 0, 'gibbs_range': 5},
        {'remove_gibbs': 'mid', 'gibbs_extra': 3, 'gibbs_range': 1},
        {'remove_gibbs': 'end', 'gibbs_range': 0},
        {'remove_gibbs': 'start', 'gibbs_range': 100000},
        {'remove_gibbs': 'mid', 'gibbs_extra': -1},
        {'remove_gibbs': 'mid', 'gibbs_extra': -3},
        {'remove_gibbs': 'end', 'gibbs_extra': -40},
        {'remove_gibbs': 'end', 'gibbs_extra': 1.0},
        {'remove_gibbs': 'start', 'gibbs_extra': 'x'},
        {'remove_gibbs': 'mid', 'gibbs_range': 'x'},
        {'remove_gibbs': 0}, {'remove_gibbs': False}, {'remove_gibbs': ''}, {'remove_gibbs': ['mid']},
        {'filter_order': 0}, {'filter_order': 6}, {'filter_order': 2.0}, {'filter_order': 'a'},
        {'order': 2, 'remove_gibbs': None}, {'unknown_kw': 7, 'filter_order': 2},
        {'filter_order': None}, {'remove_gibbs': 'mid', 'gibbs_extra': None}, {'remove_gibbs': 'end', 'gibbs_range': None},
        {'remove_gibbs': np.array(['end'])}, {'remove_gibbs': np.array(['end', 'mid'])}, {'remove_gibbs': b'start'},
        {'remove_gibbs': 'start', 'gibbs_extra': np.int64(1)}, {'remove_gibbs': 'mid', 'gibbs_extra': np.int64(-20)},
        {'remove_gibbs': 'mid', 'gibbs_range': -5}, {'remove_gibbs': 'end', 'gibbs_range': 2.0},
        {'remove_gibbs': 'END'}, {'remove_gibbs': np.str_('end')}, {'gibbs_extra': 5, 'gibbs_range': 3},
    ]

    def mk_butter(ri, di, cls, co, kw):
        def fn():
            sig = new_sig(ri, di, cls)
            _ = sig.fa_spectrum if sig.npts > 0 else None  # populate the cache first
            co_in = co.copy() if isinstance(co, np.ndarray) else co
            try:
                r = sig.butter_pass(co_in, **dict(kw))
                res = ('ret', enc(r))
            except Exception as e:
                res = ('exc', type(e).__name__, str(e))
            return res, snapshot(sig), enc(co_in) if not isinstance(co_in, dict) else 'dict', enc(kw)
        return fn

    n_recs = len(recs)
    c = 0
    for ci, co in enumerate(cut_offs):
        for ki, kw in enumerate(kw_sets):
            # every pair on two records; a rotating selection covers all records and dts
            for ri in {(ci * 7 + ki * 3) % n_recs, (ci + ki * 5 + 11) % n_recs}:
                add('butter/%d/%d/%d' % (ci, ki, ri), mk_butter(ri, c, c % 2, co, kw))
                c += 1
    # default cut_off, positional / keyword, all records
    for ri in range(n_recs):
        def fn(ri=ri):
            sig = new_sig(ri, ri, ri % 2)
            try:
                sig.butter_pass()
                res = 'ok'
            except Exception as e:
                res = ('exc', type(e).__name__, str(e))
            s1 = snapshot(sig)
            try:
                sig.butter_pass(cut_off=(None, 7.5), filter_order=3, remove_gibbs='mid')
                res2 = 'ok'
            except Exception as e:
                res2 = ('exc', type(e).__name__, str(e))
            return res, s1, res2, snapshot(sig)
        add('butter-default/%d' % ri, fn)
    # zero / odd time steps
    for dt in [0, 0.0, np.float64(0.0), -0.01, np.nan, np.float32(0.01), '0.01']:
        def fn(dt=dt):
            sig = eqsig.Signal(recs[16].copy(), 0.01)
            sig._dt = dt  # no public setter; mimic construction with that dt
            sig2 = eqsig.Signal(recs[16].copy(), dt)
            out = []
            for s in (sig2,):
                for kw in ({}, {'remove_gibbs': 'end'}):
                    try:
                        s.butter_pass((0.5, 10), **kw)
                        out.append('ok')
                    except Exception as e:
                        out.append(('exc', type(e).__name__, str(e)))
                    out.append(enc(s.values))
            return tuple(out)
        add('butter-dt/%r' % (dt,), fn)

    # ------------------------------------------------------------------ remove_poly (object and array level)
    for ri in range(n_recs):
        for deg in [0, 1, 2, 3, 4, 5, 7, -1, 1.0, 2.5, 'a', None, np.int64(2), True]:
            def fn(ri=ri, deg=deg):
                sig = new_sig(ri, ri + 1, ri % 2)
                _ = sig.fa_spectrum if sig.npts > 0 else None
                try:
                    r = sig.remove_poly(deg)
                    res = ('ret', enc(r))
                except Exception as e:
                    res = ('exc', type(e).__name__, str(e))
                snap = snapshot(sig)
                v = recs[ri]
                v_in = v.copy() if isinstance(v, np.ndarray) else list(v)
                try:
                    r2 = ('ret', enc(generic.remove_poly(v_in, deg)))
                except Exception as e:
                    r2 = ('exc', type(e).__name__, str(e))
                try:
                    r3 = ('ret', enc(eqsig.remove_poly(tuple(v_in) if np.ndim(v_in) == 1 else v_in, poly_fit=deg)))
                except Exception as e:
                    r3 = ('exc', type(e).__name__, str(e))
                return res, snap, r2, enc(v_in), r3
            add('poly/%d/%r' % (ri, deg), fn)
    for ri in range(n_recs):
        def fn(ri=ri):
            sig = new_sig(ri, 0, 1)
            out = []
            try:
                sig.remove_poly()
                out.append(snapshot(sig))
                sig.remove_poly(poly_fit=2)
                out.append(snapshot(sig))
                sig.remove_poly(poly_fit=2)
                out.append(snapshot(sig))
                out.append(enc(generic.remove_poly(sig.values)))
            except Exception as e:
                out.append(('exc', type(e).__name__, str(e)))
            return tuple(out)
        add('poly-default/%d' % ri, fn)

    # ------------------------------------------------------------------ add_constant / add_series / add_signal
    consts = [0, 1, -2.5, 1e300, np.float32(0.1), np.nan, 3 + 1j, True, 'a', None, [1.0], np.arange(3), np.float64(2.0)]
    for ri in range(n_recs):
        for qi, q in enumerate(consts):
            def fn(ri=ri, q=q):
                sig = new_sig(ri, ri, ri % 2)
                _ = sig.fa_spectrum if sig.npts > 0 else None
                try:
                    r = ('ret', enc(sig.add_constant(q)))
                except Exception as e:
                    r = ('exc', type(e).__name__, str(e))
                return r, snapshot(sig), enc(q)
            add('addc/%d/%d' % (ri, qi), fn)
    for ri in range(n_recs):
        n = len(recs[ri])
        series_set = [np.ones(n), list(range(n)), tuple(np.linspace(0, 1, n)), np.arange(n, dtype=np.int32),
                      np.ones(n + 1), np.ones(max(n - 1, 0)), [], 3.0, None, 'x' * n, np.ones((n, 2)),
                      np.ones((n, 3)), np.full(n, np.nan), rng.randn(n) * 1j]
        for si, ser in enumerate(series_set):
            def fn(ri=ri, ser=ser):
                sig = new_sig(ri, ri + 2, (ri + 1) % 2)
                ser_in = ser.copy() if isinstance(ser, np.ndarray) else ser
                try:
                    r = ('ret', enc(sig.add_series(ser_in)))
                except Exception as e:
                    r = ('exc', type(e).__name__, str(e))
                return r, snapshot(sig), enc(ser_in)
            add('adds/%d/%d' % (ri, si), fn)
    for ri in range(n_recs):
        n = len(recs[ri])
        for oi in range(9):
            def fn(ri=ri, oi=oi, n=n):
                sig = new_sig(ri, 0, ri % 2)
                others = [
                    lambda: eqsig.Signal(np.arange(n) * 0.5, 0.01),
                    lambda: eqsig.AccSignal(np.ones(n), 0.01),
                    lambda: eqsig.Signal(np.ones(n), 0.02),
                    lambda: eqsig.Signal(np.ones(n + 2), 0.01),
                    lambda: eqsig.Signal(np.ones(n), 1),
                    lambda: np.ones(n),
                    lambda: None,
                    lambda: eqsig.Signal(np.arange(n), np.float32(0.01)),
                    lambda: sig,
                ]
                try:
                    other = others[oi]()
                except Exception as e:
                    return ('mk-exc', type(e).__name__, str(e))
                try:
                    r = ('ret', enc(sig.add_signal(other)))
                except Exception as e:
                    r = ('exc', type(e).__name__, str(e))
                o_snap = snapshot(other) if isinstance(other, eqsig.Signal) else enc(other)
                return r, snapshot(sig), o_snap
            add('addsig/%d/%d' % (ri, oi), fn)

    # ------------------------------------------------------------------ running_average
    widths = list(range(0, 27)) + [-1, -3, 2.5, 7.0, 1e3, 5000, np.int64(5), np.float64(4.0), True, 'a', None,
                                   float('nan'), float('inf'), [3]]
    for ri in range(n_recs):
        if len(recs[ri]) > 600:
            ws = [1, 2, 3, 8, 25, 26, 2.5, 5000]
        else:
            ws = widths
        for wi, w in enumerate(ws):
            def fn(ri=ri, w=w):
                sig = new_sig(ri, ri, ri % 2)
                _ = sig.fa_spectrum if sig.npts > 0 else None
                before = sig.values
                try:
                    r = ('ret', enc(sig.running_average(w)))
                except Exception as e:
                    r = ('exc', type(e).__name__, str(e))
                return r, snapshot(sig), before is sig.values, enc(before)
            add('runav/%d/%d' % (ri, wi), fn)
    for ri in range(n_recs):
        def fn(ri=ri):
            sig = new_sig(ri, 1, 0)
            try:
                sig.running_average()
                s1 = snapshot(sig)
                sig.running_average(width=4)
                return s1, snapshot(sig)
            except Exception as e:
                return ('exc', type(e).__name__, str(e)), snapshot(sig)
        add('runav-default/%d' % ri, fn)

    # ------------------------------------------------------------------ remove_rolling_average (AccSignal)
    for ri in range(n_recs):
        if len(recs[ri]) > 1100:
            continue
        for mi, mtype in enumerate(['velocity', 'acceleration', 'other', None]):
            for fi, fw in enumerate([5, 1, 0.5, 20, 1000, 2.5, 0.05, -1, 0]):
                def fn(ri=ri, mtype=mtype, fw=fw):
                    try:
                        sig = new_sig(ri, ri + fi, 1)
                    except Exception as e:
                        return ('mk-exc', type(e).__name__, str(e))
                    try:
                        _ = sig.fa_spectrum if sig.npts > 0 else None
                        _ = sig.velocity
                    except Exception:
                        pass
                    try:
                        r = ('ret', enc(sig.remove_rolling_average(mtype=mtype, freq_window=fw)))
                    except Exception as e:
                        r = ('exc', type(e).__name__, str(e))
                    return r, snapshot(sig)
                add('rollav/%d/%d/%d' % (ri, mi, fi), fn)
    for ri in range(0, n_recs, 3):
        def fn(ri=ri):
            try:
                sig = new_sig(ri, 0, 1)
                sig.remove_rolling_average()
                return snapshot(sig)
            except Exception as e:
                return ('exc', type(e).__name__, str(e))
        add('rollav-default/%d' % ri, fn)

    # ------------------------------------------------------------------ histories of public operations
    hrng = np.random.RandomState(4242)
    op_names = ['butter', 'poly', 'addc', 'adds', 'addsig', 'runav', 'rollav', 'reset', 'gpoly', 'remav']
    for hi in range(500):
        ri = int(hrng.randint(0, n_recs))
        cls = int(hrng.randint(0, 2))
        di = int(hrng.randint(0, len(dts)))
        steps = []
        for _ in range(int(hrng.randint(2, 7))):
            op = op_names[int(hrng.randint(0, len(op_names)))]
            steps.append((op, hrng.randint(0, 10 ** 6, size=4).tolist()))

        def fn(ri=ri, cls=cls, di=di, steps=steps):
            sig = new_sig(ri, di, cls)
            trail = []
            for op, p in steps:
                try:
                    if op == 'butter':
                        co = [(0.1, 15), [0.3, 20.0], np.array([0.5, 10.0]), (None, 12), (0.2, None),
                              np.array([1.0, None], dtype=object)][p[0] % 6]
                        kw = {'filter_order': 1 + p[1] % 4}
                        g = [None, 'start', 'end', 'mid'][p[2] % 4]
                        if g is not None or p[3] % 2:
                            kw['remove_gibbs'] = g
                        if p[3] % 3 == 0:
                            kw['gibbs_extra'] = p[3] % 3 + (p[2] % 2)
                        if p[3] % 5 == 0:
                            kw['gibbs_range'] = 1 + p[1] % 70
                        r = sig.butter_pass(co, **kw)
                    elif op == 'poly':
                        r = sig.remove_poly(p[0] % 5)
                    elif op == 'addc':
                        r = sig.add_constant([1, -0.25, 3.5, 0][p[0] % 4])
                    elif op == 'adds':
                        n = sig.npts + (1 if p[1] % 7 == 0 else 0)
                        r = sig.add_series([np.linspace(-1, 1, n), list(range(n)), np.ones(n, dtype=int)][p[0] % 3])
                    elif op == 'addsig':
                        odt = sig.dt if p[1] % 5 else sig.dt * 2
                        ocls = eqsig.AccSignal if p[0] % 2 else eqsig.Signal
                        r = sig.add_signal(ocls(np.cos(np.arange(sig.npts) * 0.1), odt))
                    elif op == 'runav':
                        r = sig.running_average(1 + p[0] % 25)
                    elif op == 'rollav':
                        if isinstance(sig, eqsig.AccSignal) and sig.npts < 1100:
                            r = sig.remove_rolling_average(mtype=['velocity', 'acc'][p[0] % 2],
                                                           freq_window=[5, 2, 10, 0.7][p[1] % 4])
                        else:
                            r = sig.running_average(width=p[0] % 9)
                    elif op == 'reset':
                        r = sig.reset_values(np.array(sig.values)[: max(1, sig.npts - p[0] % 3)])
                    elif op == 'gpoly':
                        r = enc(generic.remove_poly(sig.values, p[0] % 5))
                    else:
                        r = sig.remove_average()
                    trail.append(('ret', enc(r) if not isinstance(r, tuple) else r))
                except Exception as e:
                    trail.append(('exc', type(e).__name__, str(e)))
                trail.append(snapshot(sig))
            return tuple(trail)
        add('hist/%d' % hi, fn)

    # ------------------------------------------------------------------ gain / linearity spot checks (values only)
    for fi, f in enumerate([0.05, 0.1, 0.2, 0.5, 1.0, 3.0, 8.0, 15.0, 20.0, 30.0, 45.0]):
        for order in (1, 2, 3, 4):
            for co in [(0.1, 15), (None, 15), (0.1, None), np.array([0.1, 15])]:
                for g in (None, 'start', 'end', 'mid'):
                    def fn(f=f, order=order, co=co, g=g):
                        t = np.arange(4000) * 0.01
                        sig = eqsig.Signal(np.sin(2 * np.pi * f * t), 0.01)
                        sig.butter_pass(co, filter_order=order, remove_gibbs=g)
                        return enc(sig.values)
                    add('gain/%d/%d/%s/%s' % (fi, order, enc(co)[0] + str(co[0]), g), fn)
    return cases


def worker(out_path):
    cases = build_cases()
    results = []
    for cid, fn in cases:
        results.append((cid, run_case(fn)))
    with open(out_path, 'wb') as fh:
        pickle.dump(results, fh, protocol=4)


# ----------------------------------------------------------------------------------------------- driver
def main():
    cwd = os.getcwd()
    me = os.path.abspath(__file__)
    with tempfile.TemporaryDirectory() as tmp:
        orig_root = os.path.join(tmp, 'orig')
        os.makedirs(orig_root)
        data = subprocess.check_output(['git', 'archive', 'HEAD', 'eqsig'], cwd=cwd)
        with tarfile.open(fileobj=io.BytesIO(data)) as tf:
            tf.extractall(orig_root)
        outs = {}
        procs = {}
        for name, root in (('orig', orig_root), ('edit', cwd)):
            env = dict(os.environ)
            env['PYTHONPATH'] = root
            env['PYTHONHASHSEED'] = '0'
            env['PYTHONDONTWRITEBYTECODE'] = '1'
            outs[name] = os.path.join(tmp, name + '.pkl')
            # run from the temporary directory so that only PYTHONPATH decides which eqsig is imported
            # LAPACK prints a line to the console for every NaN record given to polyfit: keep it in a log file
            log = open(os.path.join(tmp, name + '.log'), 'wb')
            procs[name] = (subprocess.Popen([sys.executable, me, '--worker', outs[name], root], env=env, cwd=tmp,
                                            stdout=log, stderr=subprocess.STDOUT), log)
        for name, (p, log) in procs.items():
            rc = p.wait()
            log.close()
            if rc != 0:
                print('worker %s failed' % name)
                with open(os.path.join(tmp, name + '.log'), 'rb') as fh:
                    print(fh.read().decode('utf8', 'replace')[-3000:])
                return 2
        res = {}
        for name in outs:
            with open(outs[name], 'rb') as fh:
                res[name] = pickle.load(fh)
    a, b = res['orig'], res['edit']
    bad = 0
    if len(a) != len(b):
        print('different number of cases', len(a), len(b))
        bad += 1
    n_exc = 0
    for (ida, ra), (idb, rb) in zip(a, b):
        if ra[0][0] == 'exc' or 'exc' in repr(ra[0])[:2000]:
            n_exc += 1
        if ida != idb or ra != rb:
            bad += 1
            if bad <= 20:
                print('MISMATCH', ida, idb)
                print('   orig:', repr(ra)[:300])
                print('   edit:', repr(rb)[:300])
    print('%d cases compared (%d involve an exception), %d mismatches' % (len(a), n_exc, bad))
    return 0 if bad == 0 else 1


if __name__ == '__main__':
    if len(sys.argv) >= 4 and sys.argv[1] == '--worker':
        root = sys.argv[3]
        sys.path.insert(0, root)
        import eqsig as _e
        assert os.path.realpath(os.path.dirname(os.path.dirname(_e.__file__))) == os.path.realpath(root), _e.__file__
        worker(sys.argv[2])
        sys.exit(0)
    sys.exit(main())

"""
Equivalence check for twin TWIN_ID of property C18.

Run WITH the twin applied, cwd = the worktree:   /venv/bin/python out/equivN.py

The ORIGINAL package is extracted from git (`git archive HEAD eqsig`) into a temporary directory under /tmp.
The same deterministic scenario suite is run in two sub-processes (one importing the original package, one
importing the edited working tree); every observation (returned values, types, dtypes, shapes, raw bytes,
exceptions, printed output, argument mutation, full object state) is serialised and compared for exact identity.
Exit code 0 iff everything matches.
"""
import contextlib
import io
import os
import pickle
import subprocess
import sys
import tempfile

TWIN_ID = 2


# ----------------------------------------------------------------------------------------------------------------
# canonical serialisation (bit exact)
# ----------------------------------------------------------------------------------------------------------------
def canon(obj, depth=0):
    import numpy as np
    if depth > 6:
        return ('deep', type(obj).__name__)
    if isinstance(obj, np.ndarray):
        if obj.dtype == object:
            return ('nd-obj', obj.shape, [canon(x, depth + 1) for x in obj.ravel().tolist()])
        return ('nd', obj.dtype.str, obj.shape, np.ascontiguousarray(obj).tobytes())
    if isinstance(obj, np.generic):
        return ('ns', type(obj).__name__, obj.dtype.str, obj.tobytes())
    if isinstance(obj, (bool, int, float, complex, str, bytes, type(None))):
        return ('py', type(obj).__name__, repr(obj))
    if isinstance(obj, (list, tuple)):
        return (type(obj).__name__, [canon(x, depth + 1) for x in obj])
    if isinstance(obj, dict):
        return ('dict', type(obj).__name__, [(canon(k, depth + 1), canon(v, depth + 1)) for k, v in obj.items()])
    if isinstance(obj, BaseException):
        return ('exc', type(obj).__name__, str(obj))
    if hasattr(obj, '__dict__') and type(obj).__module__.startswith('eqsig'):
        return ('obj', type(obj).__name__, canon(dict(sorted(vars(obj).items())), depth + 1))
    return ('other', type(obj).__name__, repr(obj))


class Recorder(object):
    def __init__(self):
        self.items = []

    def rec(self, label, value):
        self.items.append((label, canon(value)))

    def call(self, label, fn, *args, **kwargs):
        """Records the result (or the exception) and whatever is printed"""
        buf = io.StringIO()
        try:
            with contextlib.redirect_stdout(buf):
                out = fn(*args, **kwargs)
            self.rec(label + ':ret', out)
        except Exception as e:  # noqa
            out = None
            self.rec(label + ':exc', e)
        self.rec(label + ':stdout', buf.getvalue())
        return out


# ----------------------------------------------------------------------------------------------------------------
# scenario suite (runs inside the workers)
# ----------------------------------------------------------------------------------------------------------------
def make_series(rng, kind, n):
    import numpy as np
    t = np.arange(n) * 0.01
    if kind == 'rand':
        return rng.standard_normal(n)
    if kind == 'walk':
        return np.cumsum(rng.standard_normal(n))
    if kind == 'sine':
        return np.sin(7.3 * t) + 0.3 * np.cos(31. * t)
    if kind == 'periodic':  # exact period of 4 samples -> ties between lags
        return np.tile(np.array([0., 1., 0., -1.]), n // 4 + 1)[:n]
    if kind == 'zeros':
        return np.zeros(n)
    if kind == 'const':
        return np.full(n, 2.5)
    if kind == 'int':
        return rng.integers(-50, 50, n)
    if kind == 'negzero':
        v = rng.standard_normal(n)
        v[::3] = -0.0
        v[1::3] = 0.0
        return v
    raise ValueError(kind)


def lagged(base, lag):
    """A copy of base that is lagged by `lag` samples (edge padded), same length"""
    import numpy as np
    base = np.asarray(base)
    if lag > 0:
        return np.concatenate([np.full(lag, base[0]), base[:-lag]])
    if lag < 0:
        return np.concatenate([base[-lag:], np.full(-lag, base[-1])])
    return base.copy()


def cluster_state(r, label, cl):
    r.rec(label + ':state', cl)
    for i in range(cl.n_signals):
        r.rec(label + ':vals%i' % i, cl.values_by_index(i))
        r.rec(label + ':npts%i' % i, cl.signal_by_index(i).npts)
        r.rec(label + ':name%i' % i, cl.name_by_index(i))


def run_suite(eqsig):
    import numpy as np
    r = Recorder()
    rng = np.random.default_rng(20240918)

    # ---------------- time_indices / get_section_average -------------------------------------------------------
    from eqsig.fns.time_shift import time_indices
    from eqsig.fns.average import get_section_average
    for npts in [1, 2, 5, 100]:
        for dt in [0.01, 0.005, 1, 0.3]:
            for start in [0, 0.0, 0.02, 1, 3, 0.25]:
                for end in [-1, 0, 1, 0.5, 0.049, 2, 99, 1.0e6]:
                    for index in [False, True, 0, 1]:
                        r.call('ti/%s/%s/%s/%s/%s' % (npts, dt, start, end, index), time_indices, npts, dt, start,
                               end, index)
    for kind in ['rand', 'int', 'zeros', 'negzero']:
        for n in [1, 2, 3, 11, 250]:
            for dt in [0.01, 0.1]:
                vals = make_series(rng, kind, n)
                for cls in [eqsig.Signal, eqsig.AccSignal]:
                    sig = cls(vals, dt)
                    for kw in [{}, {'start': 0, 'end': 1}, {'start': 0.02, 'end': 0.05}, {'start': 1, 'end': 4, 'index': True},
                               {'start': 0, 'end': -1}, {'start': 2, 'end': 2, 'index': True}, {'end': 1000.},
                               {'start': 0, 'end': n, 'index': True}, {'start': -3, 'end': -1, 'index': True}]:
                        lab = 'gsa/%s/%i/%s/%s/%s' % (kind, n, dt, cls.__name__, sorted(kw.items()))
                        with np.errstate(all='ignore'):
                            import warnings
                            with warnings.catch_warnings():
                                warnings.simplefilter('ignore')
                                r.call(lab + ':m', sig.get_section_average, **kw)
                                r.call(lab + ':f', get_section_average, sig, **kw)
                    r.rec('gsa-state/%s/%i/%s' % (kind, n, dt), sig)

    # ---------------- combine_at_angle ---------------------------------------------------------------------------
    angles = [0, 0.0, 90, 90.0, 180, 270, 360, 45, -45, 33.3, 213.3, 1.0e-9, 719.5, np.float64(12.5), np.int64(30),
              np.float32(60.)]
    for kind in ['rand', 'int', 'zeros', 'sine', 'negzero']:
        for n in [1, 2, 3, 10, 157]:
            ns_v = make_series(rng, kind, n)
            we_v = make_series(rng, kind if kind != 'zeros' else 'rand', n)
            for as_list in [False, True]:
                a = ns_v.tolist() if as_list else ns_v
                b = we_v.tolist() if as_list else we_v
                ns = eqsig.AccSignal(a, 0.01, label='ns')
                we = eqsig.AccSignal(b, 0.01, label='we')
                ns_before = ns.values.copy()
                we_before = we.values.copy()
                for ang in angles:
                    out = r.call('caa/%s/%i/%s/%r' % (kind, n, as_list, ang), eqsig.combine_at_angle, ns, we, ang)
                    if out is not None:
                        r.rec('caa-vals', out.values)
                        r.rec('caa-dt', out.dt)
                r.rec('caa-ns-state', ns)
                r.rec('caa-we-state', we)
                assert np.array_equal(ns.values, ns_before) and np.array_equal(we.values, we_before)
    # array of angles, signals of other types, different lengths
    ns = eqsig.AccSignal(make_series(rng, 'rand', 8), 0.02)
    we = eqsig.AccSignal(make_series(rng, 'rand', 8), 0.02)
    we_short = eqsig.AccSignal(make_series(rng, 'rand', 5), 0.02)
    plain = eqsig.Signal(make_series(rng, 'rand', 8), 0.02)
    r.call('caa/short', eqsig.combine_at_angle, ns, we_short, 30.)
    out = r.call('caa/plain', eqsig.combine_at_angle, plain, we, 30.)
    r.rec('caa/plain-state', out)
    r.call('caa/none', eqsig.combine_at_angle, ns, we, None)
    r.call('caa/str', eqsig.combine_at_angle, ns, we, '30')

    # ---------------- compute_rotated ----------------------------------------------------------------------------
    calls = []

    def f_float(sig):
        calls.append(('f_float', sig.npts))
        return float(np.max(np.abs(sig.values)))

    def f_npfloat(sig):
        return np.max(np.abs(sig.values))

    def f_int(sig):
        return int(sig.npts)

    def f_array(sig):
        return np.cumsum(np.abs(sig.values))

    def f_list(sig):
        return [1.0, float(sig.values[0]), float(np.sum(sig.values))]

    def f_tuple(sig):
        return (2, float(sig.values[-1]))

    def f_arias(sig):
        return eqsig.im.calc_arias_intensity(sig)

    def f_str(sig):
        return 'ab'

    def f_none(sig):
        return None

    def f_raise(sig):
        raise KeyError('boom')

    def f_0d(sig):
        return np.array(sig.values[0])

    def f_dict(sig):
        return {-1: 4.5, 0: 1.0}

    def f_emptylist(sig):
        return []

    def f_range(sig):
        return range(sig.npts)

    def f_2d(sig):
        return np.vstack([sig.values, 2 * sig.values])

    def f_npint(sig):
        return np.int32(sig.npts)

    def f_bool(sig):
        return bool(sig.values[0] > 0)

    def f_complex(sig):
        return sig.fa_spectrum

    class Lengthy(object):
        def __len__(self):
            return 2

        def __getitem__(self, item):
            return 7.5 + item

    def f_sized_obj(sig):
        return Lengthy()

    funcs = [f_float, f_npfloat, f_int, f_array, f_list, f_tuple, f_arias, f_str, f_none, f_raise, f_0d, f_dict,
             f_emptylist, f_range, f_2d, f_npint, f_bool, f_complex, f_sized_obj]
    params = ['arias_intensity', 'pga', 'pgv', 'pgd', 'npts', 'dt', 'label', 'values', 'velocity', 'not_an_attribute', '']
    for kind in ['rand', 'int', 'zeros', 'sine']:
        for n in [2, 3, 12, 90]:
            ns_v = make_series(rng, kind, n)
            we_v = make_series(rng, 'rand' if kind == 'zeros' else kind, n)
            for as_list in [False, True]:
                a = ns_v.tolist() if as_list else ns_v
                b = we_v.tolist() if as_list else we_v
                ns = eqsig.AccSignal(a, 0.01, label='ns')
                we = eqsig.AccSignal(b, 0.01, label='we')
                for off in [0.0, 0, 30., -30., 90, 180., 200.5, 360., 400, -725.25]:
                    for points in [1, 2, 7]:
                        for p in params:
                            r.call('cr/p/%s/%i/%s/%r/%i/%s' % (kind, n, as_list, off, points, p),
                                   eqsig.compute_rotated, ns, we, angle_off_ns=off, parameter=p, points=points)
                        for f in funcs:
                            r.call('cr/f/%s/%i/%s/%r/%i/%s' % (kind, n, as_list, off, points, f.__name__),
                                   eqsig.compute_rotated, ns, we, off, None, f, points)
                r.rec('cr-ns-state', ns)
                r.rec('cr-we-state', we)
    r.rec('cr-calls', calls)
    ns = eqsig.AccSignal(make_series(rng, 'sine', 60), 0.01)
    we = eqsig.AccSignal(make_series(rng, 'walk', 60), 0.01)
    # defaults, positional forms, option combinations and invalid combinations
    r.call('cr/default-arias', eqsig.compute_rotated, ns, we, 0.0, 'arias_intensity')
    r.call('cr/default-pga', eqsig.compute_rotated, ns, we, parameter='pga')
    r.call('cr/default-func', eqsig.compute_rotated, ns, we, func=f_npfloat)
    r.call('cr/none-none', eqsig.compute_rotated, ns, we)
    r.call('cr/none-none-0pts', eqsig.compute_rotated, ns, we, points=0)
    r.call('cr/pga-0pts', eqsig.compute_rotated, ns, we, parameter='pga', points=0)
    r.call('cr/both', eqsig.compute_rotated, ns, we, parameter='pga', func=f_float)
    r.call('cr/both-0pts', eqsig.compute_rotated, ns, we, parameter='pga', func=f_float, points=0)
    r.call('cr/arias+func', eqsig.compute_rotated, ns, we, parameter='arias_intensity', func=f_float, points=5)
    r.call('cr/not-asig-1', eqsig.compute_rotated, eqsig.Signal(ns.values, ns.dt), we, parameter='pga')
    r.call('cr/not-asig-2', eqsig.compute_rotated, ns, we.values, parameter='pga')
    r.call('cr/dt-mismatch', eqsig.compute_rotated, ns, eqsig.AccSignal(we.values, 0.02), parameter='pga')
    r.call('cr/npts-mismatch', eqsig.compute_rotated, ns, eqsig.AccSignal(we.values[:-1], 0.01), parameter='pga')
    r.call('cr/points-neg', eqsig.compute_rotated, ns, we, parameter='pga', points=-1)
    r.call('cr/points-float', eqsig.compute_rotated, ns, we, parameter='pga', points=3.0)
    r.call('cr/off-array', eqsig.compute_rotated, ns, we, angle_off_ns=np.float64(12.5), parameter='pga', points=4)
    r.call('cr/func-lambda', eqsig.compute_rotated, ns, we, func=lambda s: s.pgv, points=9)
    r.rec('cr-ns-state2', ns)
    r.rec('cr-we-state2', we)

    # ---------------- Cluster.same_start -------------------------------------------------------------------------
    for kind in ['rand', 'walk', 'int', 'zeros', 'const', 'negzero', 'sine']:
        for n in [1, 2, 5, 101, 400]:
            for n_sig in [2, 3, 4]:
                rows = [make_series(rng, kind, n) + (0 if kind == 'int' else 0.37 * j) for j in range(n_sig)]
                if kind == 'int':
                    rows = [rows[j] + 3 * j for j in range(n_sig)]
                for master_index in range(n_sig):
                    for variant in range(6):
                        stypes = ['custom', 'acc', ['acc', 'custom', 'acc', 'custom'][:n_sig]][variant % 3]
                        vals = [row.tolist() for row in rows] if variant in (1, 4) else [row.copy() for row in rows]
                        if variant == 2:
                            vals = np.array(vals)
                        keep = pickle.dumps(vals)
                        names = [None, ['a', 'b'], ['w', 'x', 'y', 'z'][:n_sig]][variant % 3]
                        dt = [0.01, 0.25][variant % 2]
                        lab = 'ss/%s/%i/%i/%i/%i' % (kind, n, n_sig, master_index, variant)
                        cl = r.call(lab + ':init', eqsig.Cluster, vals, dt, names=names, master_index=master_index,
                                    stypes=stypes)
                        if cl is None:
                            continue
                        kw = [{}, {'start': 0, 'end': 0.03}, {'start': 0.02, 'end': 0.5, 'verbose': 1},
                              {'end': -1}, {'base': 1, 'verbose': 0}, {'start': 0.01, 'end': 1000.}][variant]
                        if variant == 3:  # fill caches first, they must be cleared for non-masters only
                            for i in range(cl.n_signals):
                                s_i = cl.signal_by_index(i)
                                _ = s_i.fa_spectrum
                                if hasattr(s_i, 'pga'):
                                    _ = s_i.pga, s_i.velocity
                        with np.errstate(all='ignore'):
                            import warnings
                            with warnings.catch_warnings():
                                warnings.simplefilter('ignore')
                                master_before = cl.values_by_index(master_index)
                                r.call(lab + ':same_start', cl.same_start, **kw)
                                r.rec(lab + ':master-same-object', cl.values_by_index(master_index) is master_before)
                                cluster_state(r, lab + ':after1', cl)
                                if variant in (0, 5):  # multi-step history
                                    r.call(lab + ':same_start2', cl.same_start, start=0.0, end=0.02)
                                    cl.master_index = (master_index + 1) % n_sig
                                    r.call(lab + ':same_start3', cl.same_start, **kw)
                                    cluster_state(r, lab + ':after3', cl)
                        r.rec(lab + ':args-untouched', pickle.dumps(vals) == keep)

    # ---------------- Cluster.time_match -------------------------------------------------------------------------
    for kind in ['rand', 'walk', 'sine', 'periodic', 'int', 'zeros', 'const']:
        for n, steps_opts in [(3, [1, 2, 10]), (8, [1, 3, 7, 8, 10]), (40, [2, 5, 10, None]), (230, [10, None, 25])]:
            for n_sig in [2, 3, 4]:
                base = make_series(rng, kind, n)
                for steps in steps_opts:
                    s_eff = 10 if steps is None else steps
                    for master_index in range(n_sig):
                        for trial in range(3):
                            lags = [int(x) for x in rng.integers(-(s_eff - 1), s_eff, n_sig)] if s_eff > 1 else [0] * n_sig
                            if trial == 2:
                                lags = [(-(s_eff - 1), s_eff - 1, 0, 1)[j % 4] for j in range(n_sig)]
                            lags[master_index] = 0
                            rows = [lagged(base, lg) if abs(lg) < n else base.copy() for lg in lags]
                            if trial == 1 and kind not in ('int',):
                                rows = [row + 1.0e-3 * make_series(rng, 'rand', n) for row in rows]  # noisy
                            vals = [row.tolist() for row in rows] if trial == 1 else [row.copy() for row in rows]
                            keep = pickle.dumps(vals)
                            stypes = ['custom', 'acc', 'custom'][trial]
                            lab = 'tm/%s/%i/%i/%s/%i/%i/%s' % (kind, n, n_sig, steps, master_index, trial, lags)
                            cl = eqsig.Cluster(vals, 0.01, master_index=master_index, stypes=stypes)
                            if trial == 2 and stypes == 'custom':
                                for i in range(cl.n_signals):
                                    _ = cl.signal_by_index(i).fa_spectrum  # fill a cache
                            kw = {} if steps is None else {'steps': steps}
                            if trial == 0 and n <= 40:
                                kw['verbose'] = 1
                            master_before = cl.values_by_index(master_index)
                            r.call(lab + ':time_match', cl.time_match, **kw)
                            r.rec(lab + ':master-same-object', cl.values_by_index(master_index) is master_before)
                            cluster_state(r, lab + ':after1', cl)
                            if trial == 0:  # multi-step history
                                r.call(lab + ':time_match2', cl.time_match, **kw)
                                r.call(lab + ':same_start', cl.same_start, start=0, end=0.05)
                                r.call(lab + ':time_match3', cl.time_match, trim=False, **kw)
                                cluster_state(r, lab + ':after3', cl)
                            r.rec(lab + ':args-untouched', pickle.dumps(vals) == keep)
    # odd options and unequal lengths
    base = make_series(rng, 'walk', 60)
    cl = eqsig.Cluster([base, lagged(base, 3), lagged(base, -2)], 0.01)
    r.call('tm/set_step', cl.time_match, set_step=True)
    r.call('tm/set_step0', cl.time_match, set_step=0)
    r.call('tm/steps0', cl.time_match, steps=0)
    r.call('tm/steps-big', cl.time_match, steps=100)
    cluster_state(r, 'tm/odd', cl)
    cl = eqsig.Cluster([base[:-6], base[6:], base[3:]], 0.01)
    r.call('tm/unequal', cl.time_match)
    cluster_state(r, 'tm/unequal', cl)
    cl = eqsig.Cluster([base[:-6], base[6:-2]], 0.01, master_index=1)
    r.call('tm/unequal2', cl.time_match, verbose=1)
    cluster_state(r, 'tm/unequal2', cl)
    cl = eqsig.Cluster([base], 0.01)
    r.call('tm/single', cl.time_match)
    r.call('ss/single', cl.same_start)
    cluster_state(r, 'single', cl)
    # accessors
    cl = eqsig.Cluster([base, base + 1, base + 2], 0.01, names=['p', 'q'])
    for idx in [0, 1, 2, -1, -3, 3, -4]:
        r.call('acc/values_by_index/%i' % idx, cl.values_by_index, idx)
        r.call('acc/name_by_index/%i' % idx, cl.name_by_index, idx)
        sig = r.call('acc/signal_by_index/%i' % idx, cl.signal_by_index, idx)
        if sig is not None:
            r.rec('acc/identity/%i' % idx, sig is list(cl.signals.values())[idx])
    r.rec('acc/time', cl.time)
    r.rec('acc/n', cl.n_signals)
    r.call('acc/values', cl.values, 'q')
    r.call('acc/values-missing', cl.values, 'nope')
    return r.items


# ----------------------------------------------------------------------------------------------------------------
# driver
# ----------------------------------------------------------------------------------------------------------------
def worker(root, out_path):
    sys.path.insert(0, root)
    os.chdir(root)
    import eqsig
    assert os.path.realpath(eqsig.__file__).startswith(os.path.realpath(root) + os.sep), (eqsig.__file__, root)
    items = run_suite(eqsig)
    with open(out_path, 'wb') as f:
        pickle.dump(items, f)


def main():
    worktree = os.getcwd()
    assert os.path.isdir(os.path.join(worktree, 'eqsig')), 'run with cwd = the worktree'
    tmp = tempfile.mkdtemp(prefix='c18_equiv%i_' % TWIN_ID, dir='/tmp')
    orig_root = os.path.join(tmp, 'orig')
    os.makedirs(orig_root)
    subprocess.check_call('git archive HEAD eqsig | tar -x -C "%s"' % orig_root, shell=True, cwd=worktree)
    diff = subprocess.run(['diff', '-rq', '-x', '__pycache__', os.path.join(orig_root, 'eqsig'), os.path.join(worktree, 'eqsig')],
                          stdout=subprocess.PIPE, universal_newlines=True).stdout
    print('files differing between original and working tree:\n' + (diff or '  (none - is the twin applied?)\n'))
    outs = {}
    for tag, root in [('orig', orig_root), ('edit', worktree)]:
        outs[tag] = os.path.join(tmp, tag + '.pkl')
        env = dict(os.environ)
        env.pop('PYTHONPATH', None)
        subprocess.check_call([sys.executable, os.path.abspath(__file__), '--worker', root, outs[tag]], cwd=root, env=env)
    with open(outs['orig'], 'rb') as f:
        a = pickle.load(f)
    with open(outs['edit'], 'rb') as f:
        b = pickle.load(f)
    n_bad = 0
    if len(a) != len(b):
        print('DIFFERENT number of observations: %i vs %i' % (len(a), len(b)))
        n_bad += 1
    for (la, va), (lb, vb) in zip(a, b):
        if la != lb or va != vb:
            n_bad += 1
            if n_bad < 25:
                print('MISMATCH at %s / %s\n   orig: %s\n   edit: %s' % (la, lb, repr(va)[:300], repr(vb)[:300]))
    n_exc = sum(1 for la, _ in a if la.endswith(':exc'))
    print('%i observations compared (%i of them exceptions), %i mismatches' % (len(a), n_exc, n_bad))
    return 1 if n_bad else 0


if __name__ == '__main__':
    if len(sys.argv) > 1 and sys.argv[1] == '--worker':
        worker(sys.argv[2], sys.argv[3])
    else:
        sys.exit(main())

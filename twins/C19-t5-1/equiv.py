"""
Equivalence program (property C19: surface energy / time-shift utilities).

Run with the edit applied and cwd = the worktree:
    cd <worktree> && PYTHONPATH=<worktree> python out/equivK.py

It extracts the ORIGINAL package with `git archive HEAD eqsig` into a temporary directory, runs the same
deterministic battery of cases once against the original and once against the edited package (two separate
subprocesses of this very file, each with its own PYTHONPATH) and compares every recorded observation:
  * returned value (type, dtype, shape and the raw bytes -> bit-for-bit),
  * exception type,
  * warning categories emitted,
  * the arguments after the call (mutation of inputs) and the state (__dict__) of the signal object,
  * aliasing of the result with the arguments, and its ownership / writeable / contiguity flags.
Exit code 0 iff everything matches.
"""
import os
import pickle
import subprocess
import sys
import tempfile

TAG = "equiv1"


# ----------------------------------------------------------------------------------------------------------
# worker
# ----------------------------------------------------------------------------------------------------------

def enc(x):
    import numpy as np
    if x is None:
        return ('none',)
    if isinstance(x, np.ndarray):
        if x.dtype == object:
            return ('ndobj', x.shape, repr(x.tolist()))
        return ('nd', x.dtype.str, x.shape, np.ascontiguousarray(x).tobytes())
    if isinstance(x, np.generic):
        return ('npsc', x.dtype.str, x.tobytes())
    if isinstance(x, (bool, int, float, complex, str)):
        return (type(x).__name__, repr(x))
    if isinstance(x, (list, tuple)):
        return (type(x).__name__, tuple(enc(v) for v in x))
    if isinstance(x, dict):
        return ('dict', tuple((repr(k), enc(x[k])) for k in sorted(x, key=repr)))
    if hasattr(x, '__dict__'):
        return ('obj', type(x).__name__, enc(vars(x)))
    return ('repr', repr(x))


def dig(x):
    import hashlib
    return hashlib.sha1(pickle.dumps(enc(x), protocol=4)).hexdigest()


def brief(x):
    import numpy as np
    if isinstance(x, np.ndarray):
        flat = x.ravel()
        if flat.size <= 6:
            return '%s%s %r' % (x.dtype, x.shape, flat.tolist())
        return '%s%s %r ... %r' % (x.dtype, x.shape, flat[:4].tolist(), flat[-2:].tolist())
    r = repr(x)
    return r if len(r) < 200 else r[:197] + '...'


def describe(x):
    import numpy as np
    if isinstance(x, np.ndarray):
        if x.size <= 8:
            return 'arr(%s,%s)' % (x.dtype, x.tolist())
        return 'arr(%s,shape=%s)' % (x.dtype, x.shape)
    if hasattr(x, 'npts') and hasattr(x, 'dt'):
        return 'sig(npts=%s,dt=%r)' % (x.npts, x.dt)
    r = repr(x)
    return r if len(r) < 80 else r[:77] + '...'


class Recorder(object):
    def __init__(self):
        self.results = []

    def call(self, label, fn, args, kwargs):
        import warnings
        import numpy as np
        watched = list(args) + [kwargs[k] for k in sorted(kwargs)]
        with warnings.catch_warnings(record=True) as wlist:
            warnings.simplefilter('always')
            try:
                r = fn(*args, **kwargs)
                alias = []
                for w in watched:
                    wv = w
                    if hasattr(w, 'npts') and hasattr(w, 'values'):
                        wv = w.values
                    if isinstance(r, np.ndarray) and isinstance(wv, np.ndarray):
                        alias.append((r is wv, bool(np.shares_memory(r, wv))))
                    else:
                        alias.append((r is wv, False))
                if isinstance(r, np.ndarray):  # memory layout / ownership of the returned array
                    alias.append((bool(r.flags.owndata), bool(r.flags.writeable), bool(r.flags.c_contiguous),
                                  bool(r.flags.f_contiguous)))
                out = ('ok', dig(r), tuple(alias), brief(r))
            except Exception as e:  # noqa
                out = ('exc', type(e).__name__)
        wcats = tuple(sorted(set(w.category.__name__ for w in wlist)))
        post = tuple(dig(w) for w in watched)
        desc = '%s(%s%s)' % (label, ', '.join(describe(a) for a in args),
                             ''.join(', %s=%s' % (k, describe(kwargs[k])) for k in sorted(kwargs)))
        self.results.append((desc, out, wcats, post))
        return out


def make_record(rs, kind, n):
    import numpy as np
    if kind == 'normal':
        return rs.normal(size=n)
    if kind == 'sine':
        return np.sin(np.linspace(0, 10, n)) * 2.3
    if kind == 'int64':
        return rs.randint(-50, 50, size=n)
    if kind == 'intlist':
        return [int(v) for v in rs.randint(-9, 9, size=n)]
    if kind == 'floatlist':
        return [float(v) for v in rs.normal(size=n)]
    if kind == 'zeros':
        return np.zeros(n)
    if kind == 'float32':
        return rs.normal(size=n).astype(np.float32)
    if kind == 'spike':
        v = np.zeros(n)
        v[rs.randint(0, n)] = 3.5
        return v
    if kind == 'big':
        return rs.normal(size=n) * 1e6
    if kind == 'nan':
        v = rs.normal(size=n)
        v[rs.randint(0, n)] = np.nan
        return v
    if kind == 'inf':
        v = rs.normal(size=n)
        v[rs.randint(0, n)] = np.inf
        return v
    raise ValueError(kind)


REC_KINDS = ['normal', 'normal', 'normal', 'sine', 'int64', 'intlist', 'floatlist', 'zeros', 'float32', 'spike',
             'big', 'nan', 'inf']
LENGTHS = [1, 2, 3, 4, 5, 8, 13, 32, 100, 257]
DTS = [0.01, 0.005, 0.02, 0.1, 0.25, 1.0, 1, 0.0078125, 0.003]


def make_travel_times(rs, dt, npts):
    """returns travel_times in one of many forms + number of entries (None for scalar)"""
    import numpy as np
    form = rs.choice(['array', 'array', 'array', 'list', 'tuple', 'scalar', 'npscalar', 'intscalar', 'len1',
                      'intarray', 'empty', 'negative', 'unsorted_big', 'zerod'])
    n = int(rs.choice([1, 2, 2, 3, 3, 4, 5, 7]))

    def one():
        k = rs.choice(['zero', 'half', 'half', 'int', 'frac', 'frac', 'tiny', 'big'])
        if k == 'zero':
            return 0.0
        if k == 'half':  # integer multiples of dt / 2
            return int(rs.randint(0, 2 * npts + 5)) * dt / 2
        if k == 'int':
            return int(rs.randint(0, npts + 3)) * dt
        if k == 'frac':
            return float(rs.uniform(0, min(npts, 40) + 2)) * dt
        if k == 'tiny':
            return float(rs.uniform(0, 1)) * dt * 1e-3
        return float(rs.uniform(1.0, 2.5)) * npts * dt  # longer than the record

    vals = [float(one()) for _ in range(n)]
    if form == 'array':
        return np.array(vals), n
    if form == 'list':
        return vals, n
    if form == 'tuple':
        return tuple(vals), n
    if form == 'scalar':
        return vals[0], None
    if form == 'npscalar':
        return np.float64(vals[0]), None
    if form == 'intscalar':
        return int(rs.randint(0, 4)), None
    if form == 'len1':
        return np.array(vals[:1]), 1
    if form == 'intarray':
        return rs.randint(0, 5, size=n), n
    if form == 'empty':
        return np.array([]), 0
    if form == 'negative':
        v = np.array(vals)
        v[rs.randint(0, n)] *= -1
        if rs.rand() < 0.3:
            v = -np.abs(v) - dt
        return v, n
    if form == 'unsorted_big':
        v = np.array(vals)
        v[rs.randint(0, n)] = npts * dt * 1.2
        return v, n
    if form == 'zerod':
        return np.array(vals[0]), None
    raise ValueError(form)


def make_reductions(rs, n):
    import numpy as np
    mode = rs.choice(['default', 'scalars', 'scalars', 'ints', 'arrays', 'arrays', 'arrays', 'intarrays', 'len1',
                      'mixed_a', 'mixed_b', 'lists', 'npscalars', 'wronglen', 'zerod'])
    m = n if n else 1
    if mode == 'default':
        return {}
    if mode == 'scalars':
        return dict(up_red=float(rs.choice([1., 0.5, 0.8, 2., 0., -1., 1.3])),
                    down_red=float(rs.choice([1., 0.5, 0.9, 2., 0., -1., 0.7])))
    if mode == 'ints':
        return dict(up_red=int(rs.randint(0, 3)), down_red=int(rs.randint(0, 3)))
    if mode == 'arrays':
        return dict(up_red=rs.uniform(0.2, 1.5, size=m), down_red=rs.uniform(0.2, 1.5, size=m))
    if mode == 'intarrays':
        return dict(up_red=rs.randint(0, 3, size=m), down_red=rs.randint(0, 3, size=m))
    if mode == 'len1':
        return dict(up_red=rs.uniform(0.2, 1.5, size=1), down_red=rs.uniform(0.2, 1.5, size=1))
    if mode == 'mixed_a':
        return dict(up_red=rs.uniform(0.2, 1.5, size=m), down_red=0.7)
    if mode == 'mixed_b':
        return dict(up_red=0.7, down_red=rs.uniform(0.2, 1.5, size=m))
    if mode == 'lists':
        return dict(up_red=[0.5] * m, down_red=[0.8] * m)
    if mode == 'npscalars':
        return dict(up_red=np.float64(0.6), down_red=np.float32(0.5))
    if mode == 'wronglen':
        return dict(up_red=rs.uniform(0.2, 1.5, size=m + 1), down_red=rs.uniform(0.2, 1.5, size=m + 1))
    if mode == 'zerod':
        return dict(up_red=np.array(0.5), down_red=np.array(0.5))
    raise ValueError(mode)


def make_stt(rs, dt, npts):
    k = rs.choice(['zero', 'zero', 'mult', 'mult', 'frac', 'big', 'intzero', 'huge'])
    if k == 'zero':
        return 0.0
    if k == 'mult':
        return int(rs.randint(0, npts + 3)) * dt
    if k == 'frac':
        return float(rs.uniform(0, min(npts, 30) + 2)) * dt
    if k == 'big':
        return float(rs.uniform(1.0, 1.6)) * npts * dt
    if k == 'intzero':
        return int(rs.randint(0, 3))
    return float(rs.uniform(2.0, 6.0)) * npts * dt + 3 * dt


def surface_cases(rec):
    import numpy as np
    import eqsig
    from eqsig import surface
    fns = [('calc_surface_energy', surface.calc_surface_energy),
           ('calc_cum_abs_surface_energy', surface.calc_cum_abs_surface_energy),
           ('get_time_shift_motions', surface.get_time_shift_motions)]
    flags = [(a, b, c) for a in (True, False) for b in (True, False) for c in (True, False)]

    # ---- systematic grid: small records, all option combinations
    rs = np.random.RandomState(101)
    grid_records = [(rs.normal(size=1), 0.1), (rs.normal(size=2), 0.05),
                    (rs.normal(size=20), 0.01), (rs.randint(-5, 5, size=16), 0.5)]
    for values, dt in grid_records:
        npts = len(values)
        asig = eqsig.AccSignal(values, dt)
        tt_sets = [0.0, 0, dt / 2, np.array([0.0]), np.array([dt / 2]), np.array([dt]), np.array([0.37 * dt]),
                   np.array([0.0, dt / 2, dt, 1.5 * dt, 2 * dt]), np.array([0.1 * dt, 1.77 * dt, 3.5 * dt]),
                   np.array([3 * dt, dt, 0.0]), [dt, 2 * dt], np.array([npts * dt, 0.5 * npts * dt]),
                   np.array([2.0 * npts * dt, 0.25 * dt])]
        for tts in tt_sets:
            n = len(tts) if hasattr(tts, '__len__') else 1
            reds = [{}, dict(up_red=0.8, down_red=0.6),
                    dict(up_red=np.linspace(0.5, 1.0, n), down_red=np.linspace(1.0, 0.3, n))]
            for red in reds:
                for stt in (0.0, dt, 2.6 * dt, (npts + 2) * dt):
                    for nodal, trim, start in flags:
                        for name, fn in fns:
                            kw = dict(nodal=nodal, trim=trim, start=start, stt=stt)
                            kw.update(red)
                            rec.call(name, fn, (asig, tts), kw)

    # ---- random cases, some of them on long-lived objects with interleaved public operations
    rs = np.random.RandomState(20240519)
    pool = []
    for j in range(10):
        n = int(rs.choice(LENGTHS))
        dt = DTS[int(rs.randint(0, len(DTS)))]
        pool.append(eqsig.AccSignal(make_record(rs, 'normal', n), dt, label='pool%d' % j))
    for it in range(2600):
        if rs.rand() < 0.5:
            asig = pool[int(rs.randint(0, len(pool)))]
            # history of public operations on the long-lived object
            u = rs.rand()
            if u < 0.10:
                kind = REC_KINDS[int(rs.randint(0, len(REC_KINDS)))]
                rec.call('reset_values', asig.reset_values, (make_record(rs, kind, int(rs.choice(LENGTHS))),), {})
            elif u < 0.15:
                rec.call('velocity', lambda s: s.velocity, (asig,), {})
            elif u < 0.20:
                rec.call('add_constant', asig.add_constant, (float(rs.normal()),), {})
            elif u < 0.23:
                rec.call('fa_spectrum', lambda s: s.fa_spectrum, (asig,), {})
            elif u < 0.26:
                rec.call('displacement', lambda s: s.displacement, (asig,), {})
        else:
            kind = REC_KINDS[int(rs.randint(0, len(REC_KINDS)))]
            n = int(rs.choice(LENGTHS))
            dt = DTS[int(rs.randint(0, len(DTS)))]
            cls = eqsig.AccSignal if rs.rand() < 0.8 else eqsig.Signal
            asig = cls(make_record(rs, kind, n), dt)
        dt = asig.dt
        npts = asig.npts
        tts, n = make_travel_times(rs, dt, npts)
        red = make_reductions(rs, n)
        stt = make_stt(rs, dt, npts)
        nodal, trim, start = flags[int(rs.randint(0, 8))]
        kw = dict(nodal=nodal, trim=trim, start=start, stt=stt)
        if rs.rand() < 0.1:
            kw = dict((k, kw[k]) for k in kw if rs.rand() < 0.5)  # rely on defaults
        kw.update(red)
        for name, fn in fns:
            rec.call(name, fn, (asig, tts), dict(kw))
        # state of the object after the three calls
        rec.results.append(('state after #%d' % it, dig(vars(asig)), (), ()))

    # ---- defining relations (row-wise consistency etc.) evaluated in each version and compared as data
    rs = np.random.RandomState(77)
    for it in range(60):
        n = int(rs.choice([5, 8, 32, 100]))
        dt = float(rs.choice([0.01, 0.1, 0.25]))
        asig = eqsig.AccSignal(rs.normal(size=n), dt)
        tts = rs.uniform(0, 10, size=4) * dt
        for nodal, trim, start in flags:
            try:
                full = surface.calc_surface_energy(asig, tts, nodal=nodal, trim=trim, start=start, stt=0.0)
                rows = [surface.calc_surface_energy(asig, tts[i:i + 1], nodal=nodal, trim=trim, start=start,
                                                    stt=0.0) for i in range(4)]
                rec.results.append(('rows #%d %s' % (it, (nodal, trim, start)), dig(full), dig(rows), ()))
            except Exception as e:  # noqa
                rec.results.append(('rows #%d %s' % (it, (nodal, trim, start)), ('exc', type(e).__name__), (), ()))


def trim_cases(rec):
    import numpy as np
    from eqsig import surface
    rs = np.random.RandomState(314159)
    for it in range(2500):
        nrows = int(rs.choice([1, 1, 2, 3, 5]))
        npts = int(rs.choice([1, 2, 3, 5, 10, 33]))
        dt = float(rs.choice([0.01, 0.1, 0.25, 1.0]))
        mode = rs.choice(['normal', 'normal', 'normal', 'normal', 'narrow', 'fewrows', 'manyrows', 'intvals',
                          'listtt', 'width1', 'fortran', 'view', 'neg_tt', 'list_values'])
        tts = rs.choice([0.0, 0.5, 1.0, 1.5, 2.0, 3.3, 7.0, float(npts), 2.0 * npts], size=nrows) * dt
        max_shift = int(np.max(2 * tts / dt))
        width = npts + max_shift
        vr = nrows
        if mode == 'narrow':
            width = max(npts - int(rs.randint(1, 3)), 0)
        elif mode == 'width1':
            width = 1
        elif mode == 'fewrows':
            vr = max(nrows - 1, 0)
        elif mode == 'manyrows':
            vr = nrows + 2
        values = rs.normal(size=(vr, width))
        if mode == 'intvals':
            values = rs.randint(-9, 9, size=(vr, width))
        elif mode == 'fortran':
            values = np.asfortranarray(values)
        elif mode == 'view':
            values = rs.normal(size=(vr, 2 * width + 1))[:, ::2][:, :width]
        elif mode == 'neg_tt':
            tts = -tts
        elif mode == 'list_values':
            values = values.tolist()
        if mode == 'listtt':
            tts = list(tts)
        stt = float(rs.choice([0.0, 0.0, 1.0, 2.5, 4.0, float(npts), npts + 3.0, 3.0 * npts + 7])) * dt
        trim = bool(rs.randint(0, 2))
        start = bool(rs.randint(0, 2))
        kw = dict(trim=trim, start=start, s2s_travel_time=stt)
        if rs.rand() < 0.1:
            kw.pop('s2s_travel_time')
        rec.call('trim_to_length[%s]' % mode, surface.trim_to_length, (values, npts, tts, dt), kw)


def time_shift_cases(rec):
    import numpy as np
    import eqsig
    from eqsig.fns import time_shift
    import eqsig.fns as fns_pkg
    assert fns_pkg.put_array_in_2d_array is time_shift.put_array_in_2d_array
    clips = ['none', 'start', 'end', 'both', None, 'foo', 'END']
    rs = np.random.RandomState(2718)

    def make_values(n):
        k = rs.choice(['int', 'float', 'list', 'intlist', 'float32', 'tuple', 'nan'])
        if k == 'int':
            return rs.randint(-20, 20, size=n)
        if k == 'float':
            return rs.normal(size=n)
        if k == 'list':
            return [float(v) for v in rs.normal(size=n)]
        if k == 'intlist':
            return [int(v) for v in rs.randint(-20, 20, size=n)]
        if k == 'float32':
            return rs.normal(size=n).astype(np.float32)
        if k == 'tuple':
            return tuple(float(v) for v in rs.normal(size=n))
        v = rs.normal(size=n)
        if n:
            v[rs.randint(0, n)] = np.nan
        return v

    def make_shifts(n):
        m = int(rs.choice([1, 1, 2, 3, 4, 6]))
        k = rs.choice(['mixed', 'mixed', 'mixed', 'pos', 'neg', 'zero', 'list', 'tuple', 'int32', 'bool', 'float',
                       'empty', 'object', 'big', 'wholefloat', 'uint8', '2d'])
        lim = n + 3
        if k == 'mixed':
            return rs.randint(-lim, lim + 1, size=m)
        if k == 'pos':
            return rs.randint(0, lim + 1, size=m)
        if k == 'neg':
            return -rs.randint(0, lim + 1, size=m)
        if k == 'zero':
            return np.zeros(m, dtype=int)
        if k == 'list':
            return [int(v) for v in rs.randint(-lim, lim + 1, size=m)]
        if k == 'tuple':
            return tuple(int(v) for v in rs.randint(-lim, lim + 1, size=m))
        if k == 'int32':
            return rs.randint(-lim, lim + 1, size=m).astype(np.int32)
        if k == 'bool':
            return rs.randint(0, 2, size=m).astype(bool)
        if k == 'float':
            return rs.uniform(-lim, lim, size=m)
        if k == 'empty':
            return np.array([], dtype=int)
        if k == 'object':
            return np.array([int(v) for v in rs.randint(-lim, lim + 1, size=m)], dtype=object)
        if k == 'big':
            return rs.randint(-3 * lim, 3 * lim + 1, size=m)
        if k == 'wholefloat':
            return rs.randint(-lim, lim + 1, size=m).astype(float)
        if k == 'uint8':
            return rs.randint(0, lim + 1, size=m).astype(np.uint8)
        return rs.randint(-lim, lim + 1, size=(m, 2))

    # exhaustive small grid
    for n in range(0, 5):
        vals = np.arange(1, n + 1)
        for s0 in range(-3, 4):
            for s1 in range(-3, 4):
                for shifts in (np.array([s0]), np.array([s0, s1])):
                    for clip in clips[:4]:
                        rec.call('put_array_in_2d_array', time_shift.put_array_in_2d_array, (vals, shifts),
                                 dict(clip=clip))
                    for jtype in ('add', 'sub'):
                        rec.call('join_values_w_shifts', time_shift.join_values_w_shifts, (vals * 1.5, shifts),
                                 dict(jtype=jtype))

    for it in range(4000):
        n = int(rs.choice([0, 1, 2, 3, 4, 7, 12, 30]))
        values = make_values(n)
        shifts = make_shifts(n)
        clip = clips[int(rs.randint(0, len(clips)))]
        if rs.rand() < 0.15:
            rec.call('put_array_in_2d_array', time_shift.put_array_in_2d_array, (values, shifts), {})
        else:
            rec.call('put_array_in_2d_array', time_shift.put_array_in_2d_array, (values, shifts), dict(clip=clip))
        jtype = ['add', 'sub', 'add', 'sub', 'mul', None][int(rs.randint(0, 6))]
        if rs.rand() < 0.15:
            rec.call('join_values_w_shifts', time_shift.join_values_w_shifts, (values, shifts), {})
        else:
            rec.call('join_values_w_shifts', time_shift.join_values_w_shifts, (values, shifts), dict(jtype=jtype))

    # join_sig_w_time_shift on Signal objects (long-lived, with resets in between)
    sigs = [eqsig.Signal(rs.normal(size=12), 0.1), eqsig.AccSignal(rs.randint(-5, 5, size=7), 0.5),
            eqsig.AccSignal(rs.normal(size=40), 0.01), eqsig.Signal(rs.normal(size=1), 1.0)]
    for it in range(1200):
        sig = sigs[int(rs.randint(0, len(sigs)))]
        if rs.rand() < 0.1:
            rec.call('reset_values', sig.reset_values, (rs.normal(size=int(rs.choice([1, 3, 9, 25]))),), {})
        m = int(rs.choice([1, 2, 3, 5]))
        k = rs.choice(['pos', 'pos', 'mixed', 'frac', 'list', 'scalar', 'neg'])
        if k == 'pos':
            ts = rs.randint(0, sig.npts + 3, size=m) * sig.dt
        elif k == 'mixed':
            ts = rs.randint(-3, sig.npts + 3, size=m) * sig.dt
        elif k == 'frac':
            ts = rs.uniform(0, sig.npts + 3, size=m) * sig.dt
        elif k == 'list':
            ts = [float(v) for v in rs.uniform(0, 3, size=m)]
        elif k == 'scalar':
            ts = float(rs.uniform(0, 3)) * sig.dt
        else:
            ts = -rs.uniform(0, 3, size=m) * sig.dt
        jtype = ['add', 'sub', 'add', 'sub', 'xor'][int(rs.randint(0, 5))]
        rec.call('join_sig_w_time_shift', time_shift.join_sig_w_time_shift, (sig, ts), dict(jtype=jtype))
        if rs.rand() < 0.1:
            rec.call('join_sig_w_time_shift', time_shift.join_sig_w_time_shift, (sig, ts), {})


def worker(out_path):
    import numpy as np  # noqa
    import eqsig
    root = os.environ['EQUIV_EXPECT_ROOT']
    got = os.path.dirname(os.path.dirname(os.path.abspath(eqsig.__file__)))
    assert os.path.realpath(got) == os.path.realpath(root), (got, root)
    rec = Recorder()
    surface_cases(rec)
    trim_cases(rec)
    time_shift_cases(rec)
    with open(out_path, 'wb') as f:
        pickle.dump(rec.results, f, protocol=pickle.HIGHEST_PROTOCOL)


# ----------------------------------------------------------------------------------------------------------
# driver
# ----------------------------------------------------------------------------------------------------------

def start_worker(root, out_path):
    env = dict(os.environ)
    env['PYTHONPATH'] = root
    env['EQUIV_EXPECT_ROOT'] = root
    env['PYTHONHASHSEED'] = '0'
    env['PYTHONDONTWRITEBYTECODE'] = '1'
    for k in ('OMP_NUM_THREADS', 'OPENBLAS_NUM_THREADS', 'MKL_NUM_THREADS'):
        env[k] = '1'
    return subprocess.Popen([sys.executable, os.path.abspath(__file__), '--worker', out_path], env=env, cwd=root,
                            stdout=subprocess.PIPE, stderr=subprocess.STDOUT)


def finish_worker(p, root, out_path):
    out = p.communicate()[0]
    if p.returncode != 0:
        sys.stdout.write(out.decode(errors='replace'))
        raise SystemExit('%s: worker failed for %s' % (TAG, root))
    with open(out_path, 'rb') as f:
        return pickle.load(f)


def main():
    cwd = os.getcwd()
    if not os.path.isdir(os.path.join(cwd, 'eqsig')):
        raise SystemExit('run from the worktree root')
    with tempfile.TemporaryDirectory() as tmp:
        orig_root = os.path.join(tmp, 'orig')
        os.makedirs(orig_root)
        tar_path = os.path.join(tmp, 'orig.tar')
        subprocess.check_call(['git', 'archive', '-o', tar_path, 'HEAD', 'eqsig'], cwd=cwd)
        import tarfile
        with tarfile.open(tar_path) as tf:
            tf.extractall(orig_root)
        # the edited tree is copied too so that both runs have the same environment (no stray files on the path)
        import shutil
        new_root = os.path.join(tmp, 'new')
        os.makedirs(new_root)
        shutil.copytree(os.path.join(cwd, 'eqsig'), os.path.join(new_root, 'eqsig'),
                        ignore=shutil.ignore_patterns('__pycache__'))
        p_o = start_worker(orig_root, os.path.join(tmp, 'o.pkl'))  # the two runs proceed concurrently
        p_n = start_worker(new_root, os.path.join(tmp, 'n.pkl'))
        res_o = finish_worker(p_o, orig_root, os.path.join(tmp, 'o.pkl'))
        res_n = finish_worker(p_n, new_root, os.path.join(tmp, 'n.pkl'))

    bad = 0
    if len(res_o) != len(res_n):
        print('%s: different number of observations: %d vs %d' % (TAG, len(res_o), len(res_n)))
        bad += 1
    n_ok = n_exc = 0
    for a, b in zip(res_o, res_n):
        if a[1][0] == 'ok':
            n_ok += 1
        elif a[1][0] == 'exc':
            n_exc += 1
        if a != b:
            bad += 1
            if bad <= 15:
                what = []
                if a[0] != b[0]:
                    what.append('case description')
                if a[1] != b[1]:
                    what.append('outcome %s vs %s' % (summarise(a[1]), summarise(b[1])))
                if a[2] != b[2]:
                    what.append('warnings/rows %s vs %s' % (summarise(a[2]), summarise(b[2])))
                if a[3] != b[3]:
                    what.append('arguments/state after the call')
                print('MISMATCH %s: %s' % (a[0], '; '.join(what)))
    print('%s: %d observations (%d calls returned, %d raised), %d mismatches' % (TAG, len(res_o), n_ok, n_exc, bad))
    return 1 if bad else 0


def summarise(x):
    if isinstance(x, tuple) and len(x) >= 2 and x[0] == 'exc':
        return 'raises %s' % x[1]
    if isinstance(x, tuple) and len(x) >= 4 and x[0] == 'ok':
        return 'returns %s alias=%s' % (x[3], x[2])
    return repr(x)[:160]


if __name__ == '__main__':
    if len(sys.argv) >= 3 and sys.argv[1] == '--worker':
        worker(sys.argv[2])
        sys.exit(0)
    sys.exit(main())

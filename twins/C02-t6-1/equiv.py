"""
Equivalence program for twin 1 (property C02: response operator of eqsig.sdof).

Run with the edit applied and cwd = the worktree:

    cd <worktree> && PYTHONPATH=<worktree> /venv/bin/python out/equiv1.py

The ORIGINAL package is taken from git (`git archive HEAD eqsig`) into a temporary
directory.  The same deterministic battery of cases is then executed in two separate
subprocesses (one importing the original package, one importing the edited package of
the working tree).  Every case records: the returned value(s) (dtype, shape, raw bytes,
contiguity, python type), the exception (type and message) if one was raised, the
warning categories emitted, the state of the arguments after the call (mutation), whether
the outputs alias the inputs, and for object histories the public state after every step.
The two transcripts must be IDENTICAL (bit for bit).  Exit status 0 iff everything matches.
"""
import os
import pickle
import subprocess
import sys
import tempfile

TWIN = 1


# --------------------------------------------------------------------------------------
# worker: executed in a subprocess with PYTHONPATH pointing at exactly one package copy
# --------------------------------------------------------------------------------------
def worker(root, out_path):
    import warnings
    import numpy as np

    import eqsig
    from eqsig import sdof, im
    from eqsig.fns import time_step

    pkg_file = os.path.realpath(eqsig.__file__)
    assert pkg_file.startswith(os.path.realpath(root) + os.sep), (pkg_file, root)

    rng = np.random.default_rng(20240602)
    transcript = []

    # ---------- canonical encoding of arbitrary results ----------
    def enc(x):
        if isinstance(x, np.ndarray):
            return ('nd', str(x.dtype), x.shape, np.ascontiguousarray(x).tobytes(),
                    bool(x.flags['C_CONTIGUOUS']), bool(x.flags['WRITEABLE']))
        if isinstance(x, np.generic):
            return ('ns', str(x.dtype), x.tobytes())
        if isinstance(x, (tuple, list)):
            return (type(x).__name__, tuple(enc(v) for v in x))
        if isinstance(x, dict):
            return ('dict', tuple((k, enc(x[k])) for k in sorted(x)))
        if isinstance(x, float):
            return ('float', np.float64(x).tobytes())
        if isinstance(x, (int, bool, str, type(None))):
            return (type(x).__name__, x)
        if isinstance(x, eqsig.AccSignal):
            return ('AccSignal', enc(x.values), enc(x.dt), enc(x.npts))
        if isinstance(x, bytes):
            return ('bytes', x)
        if callable(x):
            return ('callable', getattr(x, '__name__', type(x).__name__))
        return ('repr', type(x).__name__, repr(x))

    def snapshot(x):
        """deep copy of an argument (to detect mutation)"""
        if isinstance(x, np.ndarray):
            return x.copy()
        if isinstance(x, list):
            return [snapshot(v) for v in x]
        if isinstance(x, tuple):
            return tuple(snapshot(v) for v in x)
        return x

    def aliases(res, args):
        arrs = [a for a in args if isinstance(a, np.ndarray)]
        outs = []

        def walk(r):
            if isinstance(r, np.ndarray):
                outs.append(r)
            elif isinstance(r, (tuple, list)):
                for v in r:
                    walk(v)
        walk(res)
        flags = []
        for o in outs:
            flags.append(tuple(bool(np.shares_memory(o, a)) for a in arrs))
        # aliasing among the outputs themselves
        inter = tuple(bool(np.shares_memory(outs[i], outs[j]))
                      for i in range(len(outs)) for j in range(i + 1, len(outs)))
        return tuple(flags), inter

    def call(label, fn, *args, **kwargs):
        args = tuple(args)
        with warnings.catch_warnings(record=True) as wlist:
            warnings.simplefilter('always')
            try:
                res = fn(*args, **kwargs)
                rec = ('ok', enc(res), aliases(res, list(args) + list(kwargs.values())))
            except Exception as e:  # noqa
                rec = ('exc', type(e).__name__, str(e))
        wcats = tuple(sorted(set(w.category.__name__ for w in wlist)))
        after = tuple(enc(a) for a in args) + tuple((k, enc(kwargs[k])) for k in sorted(kwargs))
        transcript.append((label, rec, wcats, after))
        return rec

    # ---------- generators ----------
    def rec_float(n):
        return rng.standard_normal(n) * rng.choice([1e-3, 1.0, 9.81, 1e3])

    def hat(n, j):
        a = np.zeros(n)
        if 0 <= j < n:
            a[j] = 1.0
        return a

    def refine(a, r):
        """insert linearly interpolated samples (r-fold refinement)"""
        n = len(a)
        t_new = np.arange((n - 1) * r + 1) / r
        return np.interp(t_new, np.arange(n), a)

    def periods_sorted(k, with_zero):
        p = np.sort(np.exp(rng.uniform(np.log(0.02), np.log(6.0), k)))
        if with_zero:
            p = np.concatenate([[0.0], p])
        return p

    SDOF_FUNS = [('response_series', sdof.response_series),
                 ('nigam', sdof.nigam_and_jennings_response),
                 ('pseudo', sdof.pseudo_response_spectra),
                 ('true', sdof.true_response_spectra)]

    def all_sdof(tag, motion, dt, periods, xi, funs=SDOF_FUNS):
        for name, fn in funs:
            call('%s/%s' % (tag, name), fn, snapshot(motion), dt, snapshot(periods), xi)

    # ---------- A1: random well-formed inputs (the property's domain) ----------
    lengths = [0, 1, 2, 3, 4, 5, 7, 8, 16, 17, 31, 64, 100, 150]
    xis = [0.0, 0.0, 0.01, 0.05, 0.05, 0.1, 0.2, 0.5, 0.9, 0.999, 0.999999]
    dts = [0.001, 0.005, 0.01, 0.02, 0.05, 0.1, 0.5, 1.0, 1, 2]
    for c in range(420):
        n = int(rng.choice(lengths))
        motion = rec_float(n)
        form = c % 7
        if form == 1:
            motion = rng.integers(-50, 50, n)  # integer-typed record
        elif form == 2:
            motion = motion.astype(np.float32)
        elif form == 3 and n > 2:
            motion[0] = 0.0
            motion[-1] = 0.0
        dt = dts[int(rng.integers(len(dts)))]
        xi = xis[int(rng.integers(len(xis)))]
        k = int(rng.integers(1, 7))
        periods = periods_sorted(k, with_zero=(c % 3 == 0))
        pform = c % 5
        if pform == 1:
            periods = list(periods)
        elif pform == 2:
            periods = tuple(periods)
        elif pform == 3:
            periods = rng.permutation(periods)  # unordered list (zero may be anywhere)
        elif pform == 4:
            periods = np.array([1, 2, 3, 5][:k] if c % 2 else [0, 1, 2, 4][:max(k, 2)])  # ints
        all_sdof('A1.%d' % c, motion, dt, periods, xi)

    # ---------- A2: list / tuple / scalar forms of the record, option value forms ----------
    base = rec_float(24)
    pbase = np.array([0.0, 0.1, 0.35, 1.0, 2.5])
    for mi, motion in enumerate([list(base), tuple(base), base, base[::2], base[::-1],
                                 np.asfortranarray(base), [1, 2, -3, 4, 0, 0, 2],
                                 np.array([1, 2, -3, 4, 0, 0, 2], dtype=np.int32),
                                 np.array([True, False, True, True]), np.float64(0.3), 0.3,
                                 np.zeros(12), np.ones(9), base.reshape(4, 6), base.reshape(24, 1),
                                 base.reshape(1, 24), [[1.0, 2.0], [3.0, 4.0]], [], np.array([]),
                                 None, 'abc', [1.0, None], np.array([1.0, np.nan, 2.0, -1.0]),
                                 np.array([1.0, np.inf, 2.0, -1.0]), base.astype(complex),
                                 np.arange(10, dtype=np.uint8), np.arange(10, dtype=np.int64) - 4]):
        for pi, periods in enumerate([pbase, pbase[1:], [0.5], [0.0], np.array([0.3, 0.0, 1.0])]):
            if mi > 8 and pi > 2:
                continue
            all_sdof('A2.%d.%d' % (mi, pi), motion, 0.01, periods, 0.05)
    for di, dt in enumerate([0.01, 1, np.float64(0.02), np.float32(0.02), np.array(0.02), np.array([0.02]),
                             '0.01', 0, 0.0, -0.01, None, [0.01], np.nan, np.inf, 1e-9, 1e9, True,
                             1 + 0j, np.array([0.01, 0.02])]):
        for pi, periods in enumerate([pbase, pbase[1:], [0.04, 0.07, 3.0]]):
            all_sdof('A2dt.%d.%d' % (di, pi), base, dt, periods, 0.05)
    for xi_i, xi in enumerate([0, 0.0, 1, 1.0, 1.5, -0.05, -1.0, 2, np.float64(0.05), np.float32(0.05),
                               np.array(0.05), np.array([0.05]), '0.05', None, [0.05], np.nan, True,
                               0.7071067811865476, 1 - 1e-16, np.array([0.05, 0.1])]):
        for pi, periods in enumerate([pbase, pbase[1:], [0.04, 0.07, 3.0]]):
            all_sdof('A2xi.%d.%d' % (xi_i, pi), base, 0.01, periods, xi)
    for pi, periods in enumerate([[], np.array([]), 1.0, np.float64(1.0), 0.0, None, 'ab', [None],
                                  [0.0, 0.0, 1.0], [1.0, 1.0, 1.0], [0, 1], [0], [1], (0, 2.0),
                                  [np.nan, 1.0], [1.0, np.nan], [np.inf, 1.0], [-1.0, 1.0], [-0.0, 1.0],
                                  [1e-8, 1.0], [1e8], [[1.0, 2.0]], [[0.0], [1.0]], [[0.0]], [[1.0]],
                                  np.array([[0.5, 1.0], [2.0, 3.0]]), np.array([1, 2], dtype=np.int8),
                                  np.array([0.059, 0.06, 0.061]), np.array([0.06]), [0.0599999, 0.0600001],
                                  np.linspace(0.01, 5, 40), np.linspace(0, 5, 41), [5.0, 0.0, 0.01],
                                  np.array([1.0, 2.0], dtype=np.float32), [True, False],
                                  [1 + 0j, 2.0]]):
        all_sdof('A2p.%d' % pi, base, 0.01, periods, 0.05)
        all_sdof('A2pi.%d' % pi, np.arange(-3, 6), 1, periods, 0)

    # ---------- A3: the relations of the property as families of related inputs ----------
    for c in range(40):
        n = int(rng.choice([6, 11, 20, 33]))
        a = rec_float(n)
        b = rec_float(n)
        alpha, beta = rng.uniform(-3, 3, 2)
        dt = float(rng.choice([0.005, 0.01, 0.04]))
        xi = float(rng.choice([0.0, 0.02, 0.05, 0.3, 0.95]))
        periods = periods_sorted(4, with_zero=(c % 2 == 0))
        tag = 'A3.%d' % c
        # linearity
        for nm, m in [('a', a), ('b', b), ('lin', alpha * a + beta * b), ('neg', -a), ('sc', alpha * a)]:
            all_sdof(tag + '.' + nm, m, dt, periods, xi)
        # causality: prefixes / changed tails
        i = int(rng.integers(1, n))
        a2 = a.copy()
        a2[i:] = rng.standard_normal(n - i)
        all_sdof(tag + '.prefix', a[:i], dt, periods, xi)
        all_sdof(tag + '.tail', a2, dt, periods, xi)
        # shift
        a0 = a.copy()
        a0[0] = 0.0
        kz = int(rng.integers(1, 6))
        all_sdof(tag + '.s0', a0, dt, periods, xi)
        all_sdof(tag + '.sk', np.concatenate([np.zeros(kz), a0]), dt, periods, xi)
        # refinement 2..8
        r = 2 + c % 7
        all_sdof(tag + '.ref', refine(a, r), dt / r, periods, xi)
        # permutations / partitions of the period list
        perm = rng.permutation(len(periods))
        all_sdof(tag + '.perm', a, dt, periods[perm], xi)
        cut = int(rng.integers(1, len(periods)))
        all_sdof(tag + '.part1', a, dt, periods[:cut], xi)
        all_sdof(tag + '.part2', a, dt, periods[cut:], xi)
        for p in periods:
            all_sdof(tag + '.single', a, dt, [p], xi, funs=SDOF_FUNS[:1])
        # hat basis record
        j = int(rng.integers(0, n))
        all_sdof(tag + '.hat', hat(n, j), dt, periods, xi)

    # ---------- A4: other functions of sdof (neighbours that share the code) ----------
    for c in range(12):
        n = int(rng.choice([5, 12, 30]))
        m = rec_float(n)
        call('A4.compute_a_and_b.%d' % c, sdof.compute_a_and_b, float(rng.uniform(0, 1)),
             2 * np.pi / periods_sorted(3, False), float(rng.choice([0.01, 0.1])))
        call('A4.absmax.%d' % c, sdof.absmax, rng.standard_normal((3, n)), 1)
        call('A4.absmax0.%d' % c, sdof.absmax, m)
        call('A4.single_elastic.%d' % c, sdof.single_elastic_response, m, 0.01, float(rng.uniform(0.1, 2)), 0.05)
        call('A4.slow.%d' % c, sdof.slow_response_spectra, m, 0.01, np.array([0.2, 0.5, 1.0]), [0.05])
    call('A4.absmax.int', sdof.absmax, np.arange(-7, 4))
    call('A4.absmax.list', sdof.absmax, [1.0, 2.0])
    call('A4.absmax.empty', sdof.absmax, np.array([]))
    call('A4.absmax.nan', sdof.absmax, np.array([1.0, np.nan]))

    # ---------- B: time step refinement helpers ----------
    tcount = 0
    for n in [0, 1, 2, 3, 4, 5, 9, 10, 33, 100]:
        for dt, tdt in [(0.01, 0.01), (0.01, 0.005), (0.01, 0.003), (0.01, 0.0025), (0.02, 0.01),
                        (0.01, 0.02), (0.01, 0.03), (0.01, 0.025), (0.01, 0.015), (0.005, 0.0125),
                        (1, 1), (1, 2), (2, 1), (1, 3), (3, 1), (0.1, 0.1 / 3), (0.1, 0.3), (0.07, 0.01),
                        (0.01, 0.0099), (0.01, 0.0101), (0.01, 1e-4), (0.01, 0), (0.0, 0.01), (0.01, -0.01),
                        (-0.01, 0.01), (0.01, np.nan), (np.inf, 0.01), (0.01, np.inf), (1e-3, 7e-4)]:
            for even in [True, False, 1, 0, None]:
                tcount += 1
                if n > 10 and even not in (True, False):
                    continue
                vals = rec_float(n)
                if tcount % 4 == 1:
                    vals = rng.integers(-9, 9, n)
                elif tcount % 4 == 2:
                    vals = list(vals)
                tag = 'B.%d.%r.%r.%r' % (n, dt, tdt, even)
                call(tag + '/arr', time_step.interp_array_to_approx_dt, snapshot(vals), dt, tdt, even)
                call(tag + '/arrkw', time_step.interp_array_to_approx_dt, snapshot(vals), dt, target_dt=tdt, even=even)
                if n >= 1 and tcount % 3 == 0:
                    def mk_and(fn, vals=vals, dt=dt, tdt=tdt, even=even):
                        asig = eqsig.AccSignal(snapshot(vals), dt)
                        before = enc(asig)
                        res = fn(asig, tdt, even)
                        return res, before, enc(asig)
                    call(tag + '/interp_to', mk_and, time_step.interp_to_approx_dt)
                    call(tag + '/resample_to', mk_and, time_step.resample_to_approx_dt)
    call('B.default', time_step.interp_array_to_approx_dt, rec_float(10), 0.02)
    call('B.default2', lambda: time_step.interp_to_approx_dt(eqsig.AccSignal(np.arange(7.0), 0.04)))
    call('B.default3', lambda: time_step.resample_to_approx_dt(eqsig.AccSignal(np.arange(7.0), 0.04)))
    call('B.default4', lambda: time_step.resample_to_approx_dt(eqsig.AccSignal(np.arange(7.0), 0.04), even=False))
    call('B.2d', time_step.interp_array_to_approx_dt, np.ones((4, 3)), 0.02, 0.01)
    call('B.scalar', time_step.interp_array_to_approx_dt, 1.0, 0.02, 0.01)
    call('B.none', time_step.interp_array_to_approx_dt, None, 0.02, 0.01)
    call('B.tsfm', time_step.time_series_from_motion, rec_float(10), 0.02)
    call('B.names', lambda: sorted(k for k in vars(eqsig) if not k.startswith('_')))
    call('B.names2', lambda: sorted(k for k in vars(eqsig.fns) if not k.startswith('_')))
    call('B.names3', lambda: sorted(k for k in vars(sdof) if not k.startswith('_')))
    call('B.names4', lambda: sorted(k for k in vars(time_step) if not k.startswith('_')))

    # ---------- C: histories of public operations on AccSignal objects ----------
    def state(asig, touch):
        st = [enc(asig.values), enc(asig.dt), enc(asig.npts), enc(asig.response_times)]
        if touch:
            st += [enc(asig.s_a), enc(asig.s_v), enc(asig.s_d)]
        return tuple(st)

    def history(seed):
        r = np.random.default_rng(seed)
        n = int(r.choice([8, 21, 50, 120]))
        vals = r.standard_normal(n)
        if seed % 5 == 0:
            vals = r.integers(-20, 20, n)
        elif seed % 5 == 1:
            vals = list(vals)
        dt = float(r.choice([0.005, 0.01, 0.02, 0.05, 0.1]))
        kwargs = {}
        if seed % 3 == 0:
            rt = np.sort(np.exp(r.uniform(np.log(0.03), np.log(4), int(r.integers(1, 6)))))
            if seed % 2:
                rt = np.concatenate([[0.0], rt])
            if seed % 4 == 0:
                rt = list(rt)
            kwargs['response_times'] = rt
        elif seed % 3 == 1:
            kwargs['response_period_range'] = (0.1, 3)
        asig = eqsig.AccSignal(snapshot(vals), dt, **kwargs)
        log = [state(asig, False)]
        for step in range(int(r.integers(2, 8))):
            op = int(r.integers(0, 12))
            try:
                if op == 0:
                    asig.gen_response_spectrum()
                    what = 'gen()'
                elif op == 1:
                    rt = np.sort(np.exp(r.uniform(np.log(0.02), np.log(5), int(r.integers(1, 6)))))
                    if r.integers(2):
                        rt = np.concatenate([[0.0], rt])
                    if r.integers(3) == 0:
                        rt = list(rt)
                    xi = float(r.choice([0.0, 0.02, 0.05, 0.2, 0.8]))
                    mdr = r.choice([1, 2, 4, 4.0, 7.5, 20, 0.5])
                    asig.gen_response_spectrum(response_times=rt, xi=xi, min_dt_ratio=mdr)
                    what = 'gen(rt,xi,mdr)'
                elif op == 2:
                    asig.generate_response_spectrum(xi=float(r.choice([0.0, 0.05, 0.3])))
                    what = 'generate(xi)'
                elif op == 3:
                    rt = np.sort(r.uniform(0.05, 3, int(r.integers(1, 5))))
                    asig.response_times = rt
                    what = 'set rt'
                elif op == 4:
                    asig.clear_cache()
                    what = 'clear'
                elif op == 5:
                    what = ('s_a', enc(asig.s_a))
                elif op == 6:
                    what = ('s_v s_d', enc(asig.s_v), enc(asig.s_d))
                elif op == 7:
                    asig.reset_values(r.standard_normal(int(r.choice([6, 15, 40]))))
                    what = 'reset_values'
                elif op == 8:
                    asig.gen_response_spectrum(response_times=[0.0], xi=0.05)
                    what = 'gen([0])'
                elif op == 9:
                    asig.gen_response_spectrum(response_times=np.array([0.001, 0.5]), min_dt_ratio=int(r.choice([1, 4, 30])))
                    what = 'gen(tiny period)'
                elif op == 10:
                    asig.gen_response_spectrum(response_times=[], xi=0.05)
                    what = 'gen([])'
                else:
                    asig.gen_response_spectrum(response_times=np.array([0, 1, 2]), xi=-1, min_dt_ratio=4)
                    what = 'gen(int periods)'
            except Exception as e:  # noqa
                what = ('exc', type(e).__name__, str(e))
            touch = bool(r.integers(2))
            try:
                st = state(asig, touch)
            except Exception as e:  # noqa
                st = ('exc', type(e).__name__, str(e))
            log.append((op, what, st))
        return tuple(log)

    for seed in range(260):
        call('C.%d' % seed, history, seed)

    # users of the response code elsewhere in the package
    for c in range(10):
        n = int(rng.choice([10, 40, 90]))
        vals = rec_float(n)
        dt = float(rng.choice([0.01, 0.02]))
        pr = periods_sorted(4, with_zero=False)

        def mk():
            return eqsig.AccSignal(vals.copy(), dt)
        call('D.uke.%d' % c, lambda: sdof.calc_resp_uke_spectrum(mk(), pr, 0.05))
        call('D.uke_def.%d' % c, lambda: sdof.calc_resp_uke_spectrum(mk()))
        call('D.ie.%d' % c, lambda: sdof.calc_input_energy_spectrum(mk(), pr, 0.05))
        call('D.ie_series.%d' % c, lambda: sdof.calc_input_energy_spectrum(mk(), pr, None, series=True))
        call('D.cum.%d' % c, lambda: im.cumulative_response_spectra(mk(), 'arias_intensity', pr, 0.05))
        call('D.asi.%d' % c, lambda: im.calc_asi(mk()))
        call('D.vsi.%d' % c, lambda: im.calc_vsi(mk(), xi=0.1, periods=pr))
        call('D.vsit.%d' % c, lambda: im.calc_vsi_temporal(mk(), periods=pr))
        call('D.mvp.%d' % c, lambda: im.calc_max_velocity_period(mk()))
        call('D.map.%d' % c, lambda: im.max_acceleration_period(mk()))

    with open(out_path, 'wb') as f:
        pickle.dump(transcript, f, protocol=4)


# --------------------------------------------------------------------------------------
# driver
# --------------------------------------------------------------------------------------
def main():
    here = os.getcwd()
    if not os.path.isdir(os.path.join(here, 'eqsig')):
        print('run from the worktree root (cwd must contain eqsig/)')
        return 2
    script = os.path.abspath(__file__)
    with tempfile.TemporaryDirectory() as tmp:
        orig_root = os.path.join(tmp, 'orig')
        os.mkdir(orig_root)
        tar_path = os.path.join(tmp, 'orig.tar')
        subprocess.run(['git', 'archive', '-o', tar_path, 'HEAD', 'eqsig'], cwd=here, check=True)
        subprocess.run(['tar', '-xf', tar_path, '-C', orig_root], check=True)

        procs = []
        outs = {}
        for name, root in [('orig', orig_root), ('edit', here)]:
            out_path = os.path.join(tmp, name + '.pkl')
            outs[name] = out_path
            env = dict(os.environ)
            env['PYTHONPATH'] = root
            env['PYTHONDONTWRITEBYTECODE'] = '1'
            env['PYTHONHASHSEED'] = '0'
            # run from a neutral directory so that only PYTHONPATH decides which copy is imported
            procs.append((name, subprocess.Popen([sys.executable, script, '--worker', root, out_path],
                                                 env=env, cwd=tmp)))
        bad = False
        for name, p in procs:
            rc = p.wait()
            if rc != 0:
                print('worker %s failed with exit code %d' % (name, rc))
                bad = True
        if bad:
            return 3
        with open(outs['orig'], 'rb') as f:
            t_orig = pickle.load(f)
        with open(outs['edit'], 'rb') as f:
            t_edit = pickle.load(f)

    n_diff = 0
    if len(t_orig) != len(t_edit):
        print('different number of cases: %d vs %d' % (len(t_orig), len(t_edit)))
        n_diff += 1
    n_exc = 0
    for ro, re_ in zip(t_orig, t_edit):
        if ro[1][0] == 'exc':
            n_exc += 1
        if ro != re_:
            n_diff += 1
            if n_diff <= 15:
                parts = ['label', 'result', 'warnings', 'args-after']
                which = [parts[i] for i in range(4) if ro[i] != re_[i]]
                print('MISMATCH in case %s: %s' % (ro[0], ', '.join(which)))
                if ro[1][0] == 'exc' or re_[1][0] == 'exc':
                    print('   orig: %r' % (ro[1][:3] if ro[1][0] == 'exc' else ro[1][0],))
                    print('   edit: %r' % (re_[1][:3] if re_[1][0] == 'exc' else re_[1][0],))
                if ro[2] != re_[2]:
                    print('   warnings orig %r edit %r' % (ro[2], re_[2]))
    print('twin %d: %d cases compared (%d of them raise in the original), %d mismatches'
          % (TWIN, len(t_orig), n_exc, n_diff))
    return 0 if n_diff == 0 else 1


if __name__ == '__main__':
    if len(sys.argv) >= 2 and sys.argv[1] == '--worker':
        worker(sys.argv[2], sys.argv[3])
        sys.exit(0)
    sys.exit(main())

"""
Equivalence check for twin2 (eqsig/fns/peaks_and_crossings.py: np.array -> np.asarray where the
array is only read, in-place rebasing/sign flip replaced by out-of-place arithmetic, ptype branches merged).

Run with twin2 applied and cwd = the worktree.  The ORIGINAL package is taken from
`git archive HEAD eqsig` into a temp dir and imported alongside the edited one.
Exit code 0 iff original and edited behave identically on every case.
"""
import importlib
import io
import os
import subprocess
import sys
import tarfile
import tempfile

HERE = os.getcwd()
sys.path.insert(0, HERE)
import numpy as np  # noqa: E402


def _purge():
    saved = {}
    for k in list(sys.modules):
        if k == 'eqsig' or k.startswith('eqsig.'):
            saved[k] = sys.modules.pop(k)
    return saved


def _load_pair():
    _purge()
    new_pkg = importlib.import_module('eqsig')
    importlib.import_module('eqsig.multiple')
    importlib.import_module('eqsig.stockwell')
    importlib.import_module('eqsig.surface')
    assert new_pkg.__file__.startswith(HERE), new_pkg.__file__
    new_mods = _purge()
    tmp = tempfile.mkdtemp(prefix='eqsig_orig_', dir='/tmp')
    blob = subprocess.check_output(['git', 'archive', 'HEAD', 'eqsig'], cwd=HERE)
    tarfile.open(fileobj=io.BytesIO(blob)).extractall(tmp)
    sys.path.insert(0, tmp)
    old_pkg = importlib.import_module('eqsig')
    importlib.import_module('eqsig.multiple')
    importlib.import_module('eqsig.stockwell')
    importlib.import_module('eqsig.surface')
    assert old_pkg.__file__.startswith(tmp), old_pkg.__file__
    old_mods = _purge()
    sys.path.remove(tmp)
    return old_mods, new_mods


OLD, NEW = _load_pair()


def use(mods):
    _purge()
    sys.modules.update(mods)


N_CHECKS = 0


def same(a, b, where):
    """bit-for-bit equality including type/dtype/shape"""
    global N_CHECKS
    N_CHECKS += 1
    if isinstance(a, np.ndarray) or isinstance(b, np.ndarray):
        assert type(a) is type(b), (where, type(a), type(b))
        assert a.dtype == b.dtype, (where, a.dtype, b.dtype)
        assert a.shape == b.shape, (where, a.shape, b.shape)
        assert np.array_equal(a, b, equal_nan=(a.dtype.kind in 'fc')), (where, a, b)
    elif isinstance(a, (tuple, list)):
        assert type(a) is type(b) and len(a) == len(b), (where, a, b)
        for k, (x, y) in enumerate(zip(a, b)):
            same(x, y, '%s[%i]' % (where, k))
    elif isinstance(a, dict):
        assert isinstance(b, dict) and sorted(a) == sorted(b), (where, a, b)
        for k in a:
            same(a[k], b[k], '%s[%r]' % (where, k))
    elif isinstance(a, float) or isinstance(a, np.generic):
        assert type(a) is type(b), (where, type(a), type(b))
        assert a == b or (a != a and b != b), (where, a, b)
    else:
        assert type(a) is type(b) and a == b, (where, a, b)


def call(fn, *a, **k):
    try:
        return ('ok', fn(*a, **k))
    except Exception as e:  # noqa
        return ('exc', type(e).__name__)


def clone(x):
    if isinstance(x, np.ndarray):
        return x.copy()
    if isinstance(x, list):
        return list(x)
    if isinstance(x, tuple):
        return tuple(x)
    return x


def no_alias(res, args, where):
    """results must not share memory with any argument array (in either version)"""
    outs = res if isinstance(res, (tuple, list)) else [res]
    for o in outs:
        if isinstance(o, np.ndarray):
            for a in args:
                if isinstance(a, np.ndarray):
                    assert not np.shares_memory(o, a), where + ': result aliases an argument'


def compare(path, fname, args, kwargs, where):
    """path: module path below the package, e.g. 'eqsig.fns.peaks_and_crossings'"""
    ref_args = [clone(a) for a in args]
    a_old = [clone(a) for a in args]
    a_new = [clone(a) for a in args]
    use(OLD)
    r_old = call(getattr(OLD[path], fname), *a_old, **kwargs)
    r_old2 = call(getattr(OLD[path], fname), *a_old, **kwargs)
    use(NEW)
    r_new = call(getattr(NEW[path], fname), *a_new, **kwargs)
    r_new2 = call(getattr(NEW[path], fname), *a_new, **kwargs)
    same(r_old, r_new, where)
    same(r_new, r_new2, where + ':repeat')
    same(r_old, r_old2, where + ':repeat(old)')
    for k in range(len(args)):
        same(a_old[k], ref_args[k], where + ':arg%i unchanged (old)' % k)
        same(a_new[k], ref_args[k], where + ':arg%i unchanged (new)' % k)
    if r_new[0] == 'ok':
        no_alias(r_old[1], a_old, where + '(old)')
        no_alias(r_new[1], a_new, where + '(new)')
        outs_o = r_old[1] if isinstance(r_old[1], (tuple, list)) else [r_old[1]]
        outs_n = r_new[1] if isinstance(r_new[1], (tuple, list)) else [r_new[1]]
        for o, n in zip(outs_o, outs_n):
            if isinstance(o, np.ndarray):
                assert o.flags['C_CONTIGUOUS'] == n.flags['C_CONTIGUOUS'], where
                assert o.flags['WRITEABLE'] == n.flags['WRITEABLE'], where
        # a caller is free to scribble over the result without touching the input
        for n in outs_n:
            if isinstance(n, np.ndarray) and n.size and n.flags['WRITEABLE']:
                n[...] = 0
        for k in range(len(args)):
            same(a_new[k], ref_args[k], where + ':arg%i unchanged after writing to result' % k)
    return r_new


def records(rng):
    t = np.linspace(0, 6, 301)
    doc1 = np.array([0, 2, 1, 2, -1, 1, 1, 0.3, -1, 0.2, 1, 0.2])
    doc2 = np.array([0, 2, 1, 2, -1, 1, 0, 0, 1, 0.3, 0, -1, 0.2, 1, 0.2])
    doc3 = np.array([0, 2, 1, 2, 0, 1, 0, -1, 0, 1, 0])
    out = [
        ('doc1', doc1), ('doc2', doc2), ('doc3', doc3), ('doc3f', doc3.astype(float)),
        ('doc1neg', -doc1), ('doc2neg', -doc2), ('doc3neg', -doc3),
        ('sine', np.sin(3 * t) * np.exp(-0.2 * t) + 0.05),
        ('cos', np.cos(5 * t)),
        ('rand200', rng.standard_normal(200)),
        ('rand64off', rng.standard_normal(64) * 3 + 1.0),
        ('rand33f32', rng.standard_normal(33).astype(np.float32)),
        ('int40', rng.integers(-5, 5, 40)),
        ('int400', rng.integers(-50, 50, 400)),
        ('int8_25', rng.integers(-100, 100, 25).astype(np.int8)),
        ('uint8_25', rng.integers(0, 200, 25).astype(np.uint8)),
        ('int32', rng.integers(-3, 3, 60).astype(np.int32)),
        ('steps', np.repeat(rng.integers(-3, 4, 30), 3).astype(float)),
        ('list_f', [float(x) for x in rng.standard_normal(30)]),
        ('list_i', [int(x) for x in rng.integers(-4, 4, 31)]),
        ('list_mixed', [0, 1.5, -2, 3, -0.5, 0, 0, 2]),
        ('tuple_f', tuple(float(x) for x in rng.standard_normal(12))),
        ('zeros', np.zeros(20)),
        ('izeros', np.zeros(7, dtype=int)),
        ('const', np.full(9, 2.5)),
        ('startzero', np.array([0.0, 0.0, 0.0, 1.0, -1.0, 2.0, 0.0, 0.0])),
        ('mono_up', np.arange(10.0)),
        ('mono_down', -np.arange(10)),
        ('short4', np.array([1.0, -2.0, 0.5, 0.5])),
        ('short3', np.array([1.0, -2.0, 0.5])),
        ('short2', np.array([1.0, -2.0])),
        ('short2eq', np.array([1.0, 1.0])),
        ('short1', np.array([4.0])),
        ('empty', np.array([])),
        ('bool', np.array([True, False, True, True, False])),
        ('strided', rng.standard_normal(80)[::2]),
        ('reversed', rng.standard_normal(41)[::-1]),
        ('negzero', np.array([-0.0, 1.0, -0.0, -1.0, 0.0, 2.0])),
        ('big', rng.standard_normal(5000).cumsum()),
    ]
    for k in range(30):
        n = int(rng.integers(2, 60))
        if k % 3 == 0:
            out.append(('rnd_i%i' % k, rng.integers(-3, 4, n)))
        elif k % 3 == 1:
            out.append(('rnd_f%i' % k, np.round(rng.standard_normal(n), 1)))
        else:
            out.append(('rnd_l%i' % k, list(np.round(rng.standard_normal(n), 1))))
    return out


class FakeSig(object):
    def __init__(self, values):
        self.values = values


def main():
    rng = np.random.default_rng(7)
    P = 'eqsig.fns.peaks_and_crossings'
    recs = records(rng)
    n_ok = 0
    for label, rec in recs:
        for ptype in ('all', 'min', 'max', 'other'):
            r = compare(P, 'get_peak_array_indices', [rec], {'ptype': ptype}, 'gpai/%s/%s' % (label, ptype))
            n_ok += r[0] == 'ok'
        compare(P, 'get_peak_array_indices', [rec, 'max'], {}, 'gpai-pos/%s' % label)
        for kaz in (False, True):
            for tol in (0.0, 0.1, 0.5, 1.0, 5.0, -1.0):
                compare(P, 'get_zero_crossings_array_indices', [rec], {'keep_adj_zeros': kaz, 'tol': tol},
                        'gzc/%s/%s/%s' % (label, kaz, tol))
        compare(P, 'get_zero_crossings_array_indices', [rec], {}, 'gzc-def/%s' % label)
        r = compare(P, 'determine_peaks_only_delta_series', [rec], {}, 'dpods/%s' % label)
        n_ok += r[0] == 'ok'
        r = compare(P, 'determine_pseudo_cyclic_peak_only_series', [rec], {}, 'dpcpos/%s' % label)
        n_ok += r[0] == 'ok'
        # functions that sit on top of the edited ones
        for tol in (0.0, 0.2, 1.0):
            compare(P, 'get_switched_peak_array_indices', [rec], {'tol': tol}, 'gspai/%s/%s' % (label, tol))
        for ms in (0, 1, 3):
            compare(P, 'get_zero_and_peak_array_indices', [rec], {'min_step': ms}, 'gzpai/%s/%i' % (label, ms))
        for opt in ('all', 'switched', 'bad'):
            for start in ('origin', 'peak', 'bad'):
                compare(P, 'get_n_cyc_array', [rec], {'opt': opt, 'start': start},
                        'gnca/%s/%s/%s' % (label, opt, start))
        compare(P, 'clean_out_non_changing', [rec], {}, 'conc/%s' % label)
        compare(P, 'determine_indices_of_peaks_for_cleaned', [rec], {}, 'diopfc/%s' % label)
        # through signal-like wrappers: the object's array must stay untouched as well
        for fname in ('get_peak_indices', 'get_zero_crossings_indices', 'get_switched_peak_indices'):
            fo, fn_ = FakeSig(clone(rec)), FakeSig(clone(rec))
            use(OLD)
            ro = call(getattr(OLD[P], fname), fo)
            use(NEW)
            rn = call(getattr(NEW[P], fname), fn_)
            same(ro, rn, '%s/%s' % (fname, label))
            same(fo.values, rec, '%s/%s:values(old)' % (fname, label))
            same(fn_.values, rec, '%s/%s:values(new)' % (fname, label))
            if rn[0] == 'ok' and isinstance(fn_.values, np.ndarray):
                assert not np.shares_memory(rn[1], fn_.values)
        # with real signal objects, and callers in eqsig.im that go through these functions
        if len(rec) > 2 and np.asarray(rec).dtype != bool:
            use(OLD)
            so = OLD['eqsig'].AccSignal(clone(rec), 0.1)
            use(NEW)
            sn = NEW['eqsig'].AccSignal(clone(rec), 0.1)
            for fname in ('get_peak_indices', 'get_zero_crossings_indices', 'get_switched_peak_indices'):
                use(OLD)
                ro = call(getattr(OLD[P], fname), so)
                use(NEW)
                rn = call(getattr(NEW[P], fname), sn)
                same(ro, rn, 'sig:%s/%s' % (fname, label))
                same(so.values, sn.values, 'sig:%s/%s:values' % (fname, label))
                same(sn.values, np.array(rec), 'sig:%s/%s:values-unchanged' % (fname, label))
            for b in (0.3, np.array([0.2, 0.34])):
                compare('eqsig.im', 'calc_n_cyc_array_w_power_law', [rec, 1.0, b], {}, 'im.ncyc/%s' % label)
                compare('eqsig.im', 'calc_cyc_amp_array_w_power_law', [rec, 15, b], {}, 'im.cycamp/%s' % label)
            compare('eqsig.im', 'calc_cyc_amp_combined_arrays_w_power_law', [rec, clone(rec)[::-1], 15, 0.3], {},
                    'im.comb/%s' % label)
    assert n_ok > 100, n_ok
    print('equiv2: all %i comparisons identical (%i successful direct calls)' % (N_CHECKS, n_ok))


if __name__ == '__main__':
    main()

"""
Equivalence check for twin 2 of property C18.

Run from the worktree root WITH the twin applied:

    cd /tmp/twin1/C18 && /venv/bin/python out/equiv2.py

The ORIGINAL package is taken from git (`git archive HEAD eqsig`) and unpacked into a temporary
directory under /tmp.  The same deterministic scenario script is then executed twice, each time in
a fresh interpreter: once with the temporary directory first on sys.path (original code) and once
with the worktree first on sys.path (edited code).  Every scenario records returned values (bit
exact: dtype, shape and raw bytes of arrays, exact repr of scalars), the types, raised exceptions,
everything printed, and the full object state (vars()) of every signal involved.  The two
recordings must be identical.  Exit status 0 iff everything matches.
"""
import io
import os
import pickle
import shutil
import subprocess
import sys
import tempfile

TWIN = "2"
TOUCHED = ['eqsig/multiple.py']
WORKTREE = os.path.dirname(os.path.dirname(os.path.abspath(__file__)))


# ----------------------------------------------------------------------------------------------
# worker part: runs inside a fresh interpreter with the wanted package root first on sys.path
# ----------------------------------------------------------------------------------------------

def norm(obj, depth=0):
    """Turns a result into a picklable structure that compares bit-for-bit."""
    import numpy as np
    if depth > 6:
        return ('deep', type(obj).__name__)
    if obj is None or isinstance(obj, (bool, str, bytes)):
        return (type(obj).__name__, obj)
    if isinstance(obj, np.ndarray):
        if obj.dtype == object:
            return ('ndarray-object', obj.shape, [norm(o, depth + 1) for o in obj.ravel().tolist()])
        return ('ndarray', str(obj.dtype), obj.shape, np.ascontiguousarray(obj).tobytes())
    if isinstance(obj, np.generic):
        return ('npscalar', type(obj).__name__, str(obj.dtype), obj.tobytes())
    if isinstance(obj, int):
        return ('int', obj)
    if isinstance(obj, float):
        return ('float', obj.hex() if obj == obj and abs(obj) != float('inf') else repr(obj))
    if isinstance(obj, complex):
        return ('complex', repr(obj))
    if isinstance(obj, (list, tuple)):
        return (type(obj).__name__, [norm(o, depth + 1) for o in obj])
    if isinstance(obj, dict):
        return (type(obj).__name__, [(norm(k, depth + 1), norm(v, depth + 1)) for k, v in obj.items()])
    if hasattr(obj, '_values') and hasattr(obj, '_dt'):  # a Signal / AccSignal
        return ('signal', type(obj).__name__, sig_state(obj, depth + 1))
    return ('other', type(obj).__name__)


def sig_state(sig, depth=0):
    return [(k, norm(v, depth + 1)) for k, v in sorted(vars(sig).items())]


def cluster_state(cl):
    return {
        'names': list(cl.names), 'master': cl.master, 'master_index': cl.master_index, 'dt': norm(cl.dt),
        'keys': list(cl.signals.keys()), 'n': cl.n_signals,
        'sigs': [(type(s).__name__, sig_state(s)) for s in cl.signals.values()],
        'attrs': sorted(vars(cl).keys()),
    }


def worker(root, out_path):
    sys.path.insert(0, root)
    os.chdir(root)
    import contextlib
    import warnings
    import numpy as np
    import eqsig
    import eqsig.multiple
    import eqsig.fns.average
    import eqsig.fns.time_shift
    assert os.path.abspath(eqsig.__file__).startswith(os.path.abspath(root) + os.sep), (eqsig.__file__, root)
    for m in (eqsig.multiple, eqsig.fns.average, eqsig.fns.time_shift, eqsig.single, eqsig.im):
        assert os.path.abspath(m.__file__).startswith(os.path.abspath(root) + os.sep), (m.__file__, root)

    records = []

    def run(label, fn):
        """Runs fn, records result / exception / stdout / warnings"""
        buf = io.StringIO()
        with warnings.catch_warnings(record=True) as wlist:
            warnings.simplefilter('always')
            with contextlib.redirect_stdout(buf):
                try:
                    res = ('ok', norm(fn()))
                except BaseException as e:  # noqa
                    res = ('exc', type(e).__name__, str(e))
        wrn = [(w.category.__name__, str(w.message)) for w in wlist]
        records.append((label, res, buf.getvalue(), wrn))

    rng = np.random.RandomState(1801)

    def rand_series(n, kind):
        if kind == 'float':
            return rng.randn(n)
        if kind == 'walk':
            return np.cumsum(rng.randn(n)) * 0.1
        if kind == 'int':
            return rng.randint(-50, 50, size=n)
        if kind == 'int32':
            return rng.randint(-50, 50, size=n).astype(np.int32)
        if kind == 'list':
            return list(rng.randn(n))
        if kind == 'intlist':
            return [int(v) for v in rng.randint(-9, 9, size=n)]
        if kind == 'zeros':
            return np.zeros(n)
        if kind == 'f32':
            return rng.randn(n).astype(np.float32)
        raise ValueError(kind)

    kinds = ['float', 'walk', 'int', 'int32', 'list', 'intlist', 'zeros', 'f32']

    # ------------------------------------------------------------------ combine_at_angle
    angles = [0, 0.0, 90, 90.0, 180, 270, 360, -45, 45.5, 1e-9, 720.25, np.float32(33.3), np.float64(12.5),
              np.int64(60), -180, 123.456789, True]
    case = 0
    for n in [1, 2, 3, 7, 50, 257]:
        for kind_ns, kind_we in [('float', 'float'), ('int', 'float'), ('int', 'int'), ('list', 'walk'),
                                 ('zeros', 'float'), ('f32', 'f32'), ('int32', 'intlist'), ('zeros', 'zeros')]:
            dt = [0.01, 0.005, 1, 0.02][case % 4]
            ns = eqsig.AccSignal(rand_series(n, kind_ns), dt, label='ns')
            we = eqsig.AccSignal(rand_series(n, kind_we), dt, label='we')
            extra = list(rng.uniform(-400, 400, size=3))
            for ang in angles + extra + [extra[0] + 180]:
                run('caa/%i/%r' % (case, ang), lambda: eqsig.combine_at_angle(ns, we, ang))
                run('caa-mod/%i/%r' % (case, ang), lambda: eqsig.multiple.combine_at_angle(ns, we, angle=ang))
            records.append(('caa-state/%i' % case, sig_state(ns), sig_state(we)))
            case += 1
    # different lengths / plain Signal / dt taken from the first argument
    ns = eqsig.AccSignal(rng.randn(10), 0.01)
    we = eqsig.AccSignal(rng.randn(12), 0.02)
    run('caa/mismatch', lambda: eqsig.combine_at_angle(ns, we, 30))
    we1 = eqsig.AccSignal(rng.randn(1), 0.02)
    run('caa/broadcast', lambda: eqsig.combine_at_angle(ns, we1, 30))
    sg = eqsig.Signal(rng.randn(10), 0.03)
    run('caa/signal', lambda: eqsig.combine_at_angle(sg, ns, 30.0))
    run('caa/array-angle', lambda: eqsig.combine_at_angle(ns, ns, np.arange(10.0)))
    run('caa/bad', lambda: eqsig.combine_at_angle(ns, None, 30.0))
    run('caa/bad-angle', lambda: eqsig.combine_at_angle(ns, ns, 'a'))

    # ------------------------------------------------------------------ compute_rotated
    def f_scalar(s):
        return np.max(np.abs(s.values))

    def f_pyfloat(s):
        return float(np.sum(s.values))

    def f_array(s):
        return np.cumsum(s.values ** 2)

    def f_list(s):
        return [float(v) for v in s.values[:3]]

    def f_tuple(s):
        return (1, float(s.values[0]))

    def f_int(s):
        return int(s.npts)

    def f_none(s):
        return None

    def f_sig(s):
        return s

    def f_raise(s):
        raise KeyError('boom')

    calls = []

    def f_count(s):
        calls.append(float(s.values[0]))
        return len(calls)

    funcs = [f_scalar, f_pyfloat, f_array, f_list, f_tuple, f_int, f_none, f_count, f_raise, eqsig.im.calc_arias_intensity,
             eqsig.im.calc_cav]
    params = ['arias_intensity', 'pga', 'pgv', 'pgd', 'npts', 'dt', 'values', 'label', 'time', 'no_such_attr', '']
    case = 0
    for n, kinds2 in [(1, ('float', 'float')), (2, ('int', 'float')), (5, ('list', 'int')), (40, ('walk', 'float')),
                      (121, ('float', 'zeros')), (33, ('zeros', 'zeros')), (64, ('f32', 'int32'))]:
        dt = [0.01, 0.02, 0.5][case % 3]
        ns = eqsig.AccSignal(rand_series(n, kinds2[0]), dt, label='ns')
        we = eqsig.AccSignal(rand_series(n, kinds2[1]), dt, label='we')
        for off in [0.0, 0, 30, -20.5, 200, 359.5, 180, -180.0, 725.125, float(rng.uniform(-360, 360))]:
            for points in [0, 1, 2, 3, 7, 100]:
                if points == 100 and case % 2:
                    continue
                for p in params[:4] if points > 3 else params:
                    run('cr/%i/%r/%i/p=%s' % (case, off, points, p),
                        lambda: eqsig.compute_rotated(ns, we, angle_off_ns=off, parameter=p, points=points))
                for f in funcs[:4] if points > 3 else funcs:
                    run('cr/%i/%r/%i/f=%s' % (case, off, points, f.__name__),
                        lambda: eqsig.compute_rotated(ns, we, off, None, f, points))
                    run('cr-kw/%i/%r/%i/f=%s' % (case, off, points, f.__name__),
                        lambda: eqsig.multiple.compute_rotated(acc_sig_ns=ns, acc_sig_we=we, func=f, points=points,
                                                               angle_off_ns=off))
                run('cr/%i/%r/%i/none' % (case, off, points),
                    lambda: eqsig.compute_rotated(ns, we, angle_off_ns=off, points=points))
                run('cr/%i/%r/%i/both' % (case, off, points),
                    lambda: eqsig.compute_rotated(ns, we, angle_off_ns=off, parameter='pga', func=f_scalar, points=points))
                run('cr/%i/%r/%i/arias+func' % (case, off, points),
                    lambda: eqsig.compute_rotated(ns, we, angle_off_ns=off, parameter='arias_intensity', func=f_scalar,
                                                  points=points))
        run('cr/%i/defaults' % case, lambda: eqsig.compute_rotated(ns, we, parameter='arias_intensity'))
        run('cr/%i/defaults-f' % case, lambda: eqsig.compute_rotated(ns, we, func=f_scalar))
        records.append(('cr-state/%i' % case, sig_state(ns), sig_state(we), list(calls)))
        case += 1
    # the exactness of each scan entry: measure of the combination at that angle
    ns = eqsig.AccSignal(rng.randn(80), 0.01)
    we = eqsig.AccSignal(rng.randn(80), 0.01)
    run('cr/mixed-lengths', lambda: eqsig.compute_rotated(ns, eqsig.AccSignal(rng.randn(81), 0.01), func=f_scalar))
    run('cr/mixed-dt', lambda: eqsig.compute_rotated(ns, eqsig.AccSignal(rng.randn(80), 0.02), func=f_scalar))
    run('cr/not-acc-1', lambda: eqsig.compute_rotated(eqsig.Signal(rng.randn(80), 0.01), we, func=f_scalar))
    run('cr/not-acc-2', lambda: eqsig.compute_rotated(ns, eqsig.Signal(rng.randn(80), 0.01), func=f_scalar))
    run('cr/not-acc-3', lambda: eqsig.compute_rotated(ns.values, we.values, func=f_scalar))
    run('cr/func-returns-sig', lambda: eqsig.compute_rotated(ns, we, func=f_sig, points=3))
    run('cr/neg-points', lambda: eqsig.compute_rotated(ns, we, func=f_scalar, points=-1))
    run('cr/float-points', lambda: eqsig.compute_rotated(ns, we, func=f_scalar, points=3.0))

    # ------------------------------------------------------------------ time_indices / get_section_average
    for npts in [1, 2, 10, 101]:
        for dt in [0.01, 0.5, 1, 2.0]:
            for start, end in [(0, -1), (0, 1), (0.0, 0.05), (0.3, 0.7), (1, 5), (2, 2), (5, 1), (0, npts * dt),
                               (0, (npts - 1) * dt), (0, npts), (0, npts + 1), (-1, -1), (-3, -2), (0, -1.0), (0.5, -1),
                               (0, 1e6), (np.float64(0.1), np.float64(0.4)), (np.int64(0), np.int64(-1)), (0, None),
                               (None, 1), (True, False)]:
                for index in [False, True, 0, 1, None, np.False_, 'x']:
                    run('ti/%i/%r/%r/%r/%r' % (npts, dt, start, end, index),
                        lambda: eqsig.fns.time_shift.time_indices(npts, dt, start, end, index))
    run('ti/dt0', lambda: eqsig.fns.time_shift.time_indices(10, 0, 0, 1, False))
    run('ti/dt0-b', lambda: eqsig.fns.time_shift.time_indices(10, 0, 0, -1, False))
    run('ti/kw', lambda: eqsig.fns.time_shift.time_indices(npts=10, dt=0.1, start=0.2, end=0.4, index=False))
    case = 0
    for n in [1, 2, 5, 30, 200]:
        for kind in kinds:
            dt = [0.01, 0.1, 1][case % 3]
            for cls in (eqsig.Signal, eqsig.AccSignal):
                sig = cls(rand_series(n, kind), dt)
                run('gsa/%i/default' % case, lambda: eqsig.get_section_average(sig))
                run('gsa/%i/method-default' % case, lambda: sig.get_section_average())
                for start, end, index in [(0, 1, False), (0, -1, False), (0, 0.05, False), (0.02, 0.3, False),
                                          (0, n * dt, False), (0, (n - 1) * dt, False), (0, n, True), (0, n + 1, True),
                                          (1, 3, True), (0, -1, True), (3, 1, True), (0, 0, True), (0, 1, 0),
                                          (0.0, 0.5, False), (-2, -1, True), (0, 1e9, False)]:
                    run('gsa/%i/%r/%r/%r' % (case, start, end, index),
                        lambda: eqsig.fns.average.get_section_average(sig, start, end, index))
                    run('gsa-m/%i/%r/%r/%r' % (case, start, end, index),
                        lambda: sig.get_section_average(start=start, end=end, index=index))
                records.append(('gsa-state/%i' % case, sig_state(sig)))
                case += 1

    # ------------------------------------------------------------------ Cluster.same_start
    def make_cluster(nsig, n, kind, dt, master, stypes, lens=None):
        vals = []
        for j in range(nsig):
            nn = n if lens is None else lens[j]
            vals.append(rand_series(nn, kind if isinstance(kind, str) else kind[j % len(kind)]))
        return eqsig.Cluster(vals, dt, master_index=master, stypes=stypes)

    case = 0
    for nsig in [2, 3, 4]:
        for master in range(nsig):
            for kind in ['float', 'walk', 'int', 'list', 'zeros', ('float', 'int'), ('int32', 'f32', 'intlist')]:
                for stypes in ['custom', 'acc', ['acc', 'custom', 'acc', 'custom'][:nsig]]:
                    n = [40, 101, 250, 12][case % 4]
                    dt = [0.01, 0.02, 0.1][case % 3]
                    for kw in [{}, {'start': 0, 'end': 0.1}, {'start': 0.05, 'end': 0.3, 'verbose': 1},
                               {'start': 0.0, 'end': (n - 1) * dt}, {'end': -1}, {'base': 3, 'end': 0.05},
                               {'start': 0.2, 'end': 0.1}, {'end': n * dt + 5}, {'verbose': True},
                               {'start': 0, 'end': 0}]:
                        cl = make_cluster(nsig, n, kind, dt, master, stypes)
                        # warm caches on some signals so that cache clearing is observable
                        if case % 2 == 0:
                            for s in cl.signals.values():
                                _ = s.fa_spectrum
                        run('ss/%i/%r' % (case, sorted(kw.items())), lambda: cl.same_start(**kw))
                        records.append(('ss-state/%i' % case, cluster_state(cl)))
                        # multi-step history
                        run('ss2/%i' % case, lambda: cl.same_start(**kw))
                        run('ss3/%i' % case, lambda: cl.time_match(steps=5))
                        run('ss4/%i' % case, lambda: cl.same_start(start=0.01, end=0.06))
                        records.append(('ss-state-b/%i' % case, cluster_state(cl)))
                    case += 1
    # master_index reassigned after construction (also out-of-contract values)
    for mi in [0, 1, 2, -1, 5]:
        cl = make_cluster(3, 60, 'float', 0.01, 0, 'acc')
        cl.master_index = mi
        run('ss-reassign/%i' % mi, lambda: cl.same_start(end=0.2))
        records.append(('ss-reassign-state/%i' % mi, cluster_state(cl)))
    # unequal lengths
    cl = make_cluster(3, 0, 'float', 0.01, 1, 'custom', lens=[50, 80, 20])
    run('ss-uneq', lambda: cl.same_start(end=0.15))
    records.append(('ss-uneq-state', cluster_state(cl)))
    cl = make_cluster(3, 0, 'float', 0.01, 1, 'custom', lens=[50, 80, 20])
    run('ss-uneq-exc', lambda: cl.same_start(end=0.3))
    records.append(('ss-uneq-exc-state', cluster_state(cl)))
    cl = eqsig.Cluster([rng.randn(30)], 0.01)
    run('ss-single', lambda: cl.same_start())
    records.append(('ss-single-state', cluster_state(cl)))

    # ------------------------------------------------------------------ Cluster.time_match
    def lagged(base, lag, n):
        """a copy of base delayed (lag>0) or advanced (lag<0) by whole samples, same length"""
        if lag >= 0:
            return np.concatenate([np.full(lag, base[0]), base])[:n]
        return np.concatenate([base[-lag:], np.full(-lag, base[-1])])[:n]

    case = 0
    for nsig in [2, 3, 4]:
        for master in range(nsig):
            for steps in [1, 2, 5, 10, 17]:
                for kind in ['walk', 'float', 'int', 'list']:
                    n = [60, 128, 300][case % 3]
                    dt = [0.01, 0.02][case % 2]
                    base = np.asarray(rand_series(n, kind if kind != 'list' else 'walk'))
                    vals = []
                    lags = []
                    for j in range(nsig):
                        lag = 0 if j == master else int(rng.randint(-steps + 1, steps))
                        lags.append(lag)
                        v = lagged(base, lag, n)
                        if case % 5 == 0 and j != master:
                            v = v + (rng.randn(n) * 1e-3 if v.dtype.kind == 'f' else rng.randint(0, 2, size=n))
                        vals.append(list(v) if kind == 'list' else v)
                    stypes = ['custom', 'acc'][case % 2]
                    for kw in [{'steps': steps}, {'steps': steps, 'verbose': 1}, {'steps': steps, 'trim': False},
                               {'steps': steps, 'set_step': False, 'verbose': 0}]:
                        cl = eqsig.Cluster([np.array(v) if not isinstance(v, list) else list(v) for v in vals], dt,
                                           master_index=master, stypes=stypes)
                        if case % 3 == 0:
                            for s in cl.signals.values():
                                _ = s.fa_spectrum
                        run('tm/%i/%r/%r' % (case, lags, sorted(kw.items())), lambda: cl.time_match(**kw))
                        records.append(('tm-state/%i' % case, cluster_state(cl)))
                        run('tm-again/%i' % case, lambda: cl.time_match(**kw))
                        run('tm-then-ss/%i' % case, lambda: cl.same_start(end=0.1))
                        run('tm-again2/%i' % case, lambda: cl.time_match(steps=3))
                        records.append(('tm-state-b/%i' % case, cluster_state(cl)))
                    case += 1
    # default steps, random unrelated signals (ties/noise), zeros, constant, short signals, odd options
    for nsig in [2, 3, 4]:
        for master in range(nsig):
            for kind in kinds:
                for n in [3, 11, 12, 25, 90]:
                    cl = make_cluster(nsig, n, kind, 0.01, master, 'custom')
                    run('tm-rand/%i/%i/%s/%i' % (nsig, master, kind, n), lambda: cl.time_match())
                    records.append(('tm-rand-state', cluster_state(cl)))
                    cl = make_cluster(nsig, n, kind, 0.01, master, 'acc')
                    run('tm-rand-v/%i/%i/%s/%i' % (nsig, master, kind, n), lambda: cl.time_match(steps=4, verbose=2))
                    records.append(('tm-rand-v-state', cluster_state(cl)))
    for steps in [0, 1, 30, 31, 100, -2]:
        cl = make_cluster(3, 30, 'walk', 0.01, 1, 'custom')
        run('tm-steps/%i' % steps, lambda: cl.time_match(steps=steps))
        records.append(('tm-steps-state/%i' % steps, cluster_state(cl)))
    for ss in [True, 3, 0, None, 1.0]:
        cl = make_cluster(2, 30, 'walk', 0.01, 0, 'custom')
        run('tm-setstep/%r' % (ss,), lambda: cl.time_match(set_step=ss))
        records.append(('tm-setstep-state/%r' % (ss,), cluster_state(cl)))
    for lens in [[50, 80, 20], [80, 50, 120], [30, 30, 10], [64, 40]]:
        for master in range(len(lens)):
            base = np.cumsum(rng.randn(200)) * 0.1
            vals = [lagged(base, [0, 3, -2][j], 200)[:lens[j]] for j in range(len(lens))]
            cl = eqsig.Cluster(vals, 0.01, master_index=master)
            run('tm-uneq/%r/%i' % (lens, master), lambda: cl.time_match(steps=6, verbose=1))
            records.append(('tm-uneq-state', cluster_state(cl)))
    cl = eqsig.Cluster([rng.randn(30)], 0.01)
    run('tm-single', lambda: cl.time_match())
    for mi in [0, 1, 2, -1, 5]:
        cl = make_cluster(3, 60, 'walk', 0.01, 0, 'acc')
        cl.master_index = mi
        run('tm-reassign/%i' % mi, lambda: cl.time_match(steps=4))
        records.append(('tm-reassign-state/%i' % mi, cluster_state(cl)))
    # exact lag removal on a clean pair (the property's statement) recorded too
    base = np.cumsum(rng.randn(150))
    for lag in range(-9, 10):
        for master in [0, 1]:
            vals = [None, None]
            vals[master] = base.copy()
            vals[1 - master] = lagged(base, lag, 150)
            cl = eqsig.Cluster(vals, 0.01, master_index=master)
            run('tm-clean/%i/%i' % (lag, master), lambda: cl.time_match(steps=10))
            records.append(('tm-clean-state/%i/%i' % (lag, master), cluster_state(cl)))

    with open(out_path, 'wb') as f:
        pickle.dump(records, f, protocol=4)


# ----------------------------------------------------------------------------------------------
# driver part
# ----------------------------------------------------------------------------------------------

def first_difference(a, b, path=''):
    if type(a) != type(b):
        return '%s: type %s vs %s' % (path, type(a).__name__, type(b).__name__)
    if isinstance(a, (list, tuple)):
        if len(a) != len(b):
            return '%s: length %i vs %i' % (path, len(a), len(b))
        for i, (x, y) in enumerate(zip(a, b)):
            d = first_difference(x, y, '%s[%i]' % (path, i))
            if d:
                return d
        return None
    if isinstance(a, dict):
        if sorted(a.keys()) != sorted(b.keys()):
            return '%s: keys differ' % path
        for k in a:
            d = first_difference(a[k], b[k], '%s[%r]' % (path, k))
            if d:
                return d
        return None
    if a != b:
        return '%s: %r vs %r' % (path, a if len(repr(a)) < 200 else repr(a)[:200], b if len(repr(b)) < 200 else repr(b)[:200])
    return None


def main():
    os.chdir(WORKTREE)
    # the twin must actually be applied
    changed = subprocess.check_output(['git', 'diff', '--name-only', 'HEAD', '--', 'eqsig'], cwd=WORKTREE).decode().split()
    assert sorted(changed) == sorted(TOUCHED), 'twin %s not applied (changed files: %r)' % (TWIN, changed)

    tmp = tempfile.mkdtemp(prefix='c18_equiv%s_' % TWIN, dir='/tmp')
    try:
        orig_root = os.path.join(tmp, 'orig')
        os.mkdir(orig_root)
        tar = subprocess.check_output(['git', 'archive', 'HEAD', 'eqsig'], cwd=WORKTREE)
        subprocess.run(['tar', '-x', '-C', orig_root], input=tar, check=True)
        # the touched modules in the temp copy are the ORIGINAL sources from git
        for rel in TOUCHED:
            src = subprocess.check_output(['git', 'show', 'HEAD:' + rel], cwd=WORKTREE)
            with open(os.path.join(orig_root, rel), 'rb') as f:
                assert f.read() == src
            with open(os.path.join(WORKTREE, rel), 'rb') as f:
                assert f.read() != src, '%s is not edited' % rel

        outs = {}
        for tag, root in (('orig', orig_root), ('edit', WORKTREE)):
            out_path = os.path.join(tmp, tag + '.pkl')
            env = dict(os.environ)
            env.pop('PYTHONPATH', None)
            env['PYTHONDONTWRITEBYTECODE'] = '1'
            env['PYTHONHASHSEED'] = '0'
            subprocess.run([sys.executable, os.path.abspath(__file__), '--worker', root, out_path], check=True, env=env,
                           cwd=root)
            with open(out_path, 'rb') as f:
                outs[tag] = pickle.load(f)
    finally:
        shutil.rmtree(tmp, ignore_errors=True)

    a, b = outs['orig'], outs['edit']
    assert len(a) == len(b), (len(a), len(b))
    n_exc = 0
    n_ok = 0
    bad = 0
    for ra, rb in zip(a, b):
        assert ra[0] == rb[0], (ra[0], rb[0])
        d = first_difference(ra, rb, ra[0])
        if d:
            bad += 1
            if bad <= 20:
                print('MISMATCH', d)
        if len(ra) == 4 and isinstance(ra[1], tuple) and ra[1] and ra[1][0] == 'exc':
            n_exc += 1
        elif len(ra) == 4:
            n_ok += 1
    print('twin %s: %i records compared (%i calls returned, %i calls raised, %i state snapshots), %i mismatches'
          % (TWIN, len(a), n_ok, n_exc, len(a) - n_ok - n_exc, bad))
    if bad:
        sys.exit(1)
    print('EQUIVALENT')
    sys.exit(0)


if __name__ == '__main__':
    if len(sys.argv) == 4 and sys.argv[1] == '--worker':
        worker(sys.argv[2], sys.argv[3])
    else:
        main()

"""
Equivalence check for twin3 (run with twin3 applied, cwd = worktree).

Compares eqsig.im.calc_n_cyc_array_w_power_law (edited: the four np.insert calls that build the step
function are replaced by two np.concatenate calls, the constant n_ref = 1 factor is dropped, the
cut-off threshold / amplitude ratio / weights get their own locals, locals renamed) against the
original source of eqsig/im.py taken from git HEAD.  Besides the returned series, the exact
(x, y) arrays handed to scipy's interp1d are recorded and compared bit-for-bit.
"""
import copy
import os
import subprocess
import sys
import types

import numpy as np
import scipy.interpolate

HERE = os.getcwd()
sys.path.insert(0, HERE)

import eqsig  # noqa: E402
import eqsig.im as new_im  # noqa: E402

assert os.path.abspath(eqsig.__file__).startswith(HERE), eqsig.__file__
assert os.path.abspath(new_im.__file__).startswith(HERE), new_im.__file__

REL = 'eqsig/im.py'
src = subprocess.check_output(['git', 'show', 'HEAD:' + REL], cwd=HERE).decode()
new_src = open(os.path.join(HERE, REL)).read()
assert new_src != src, 'twin3 is not applied'
assert 'n_ref = 1' in src and 'n_ref = 1' not in new_src
# the only other module the touched function relies on must be untouched
PC = 'eqsig/fns/peaks_and_crossings.py'
assert subprocess.check_output(['git', 'show', 'HEAD:' + PC], cwd=HERE).decode() == open(os.path.join(HERE, PC)).read()

old_im = types.ModuleType('orig_im')
old_im.__file__ = 'HEAD:' + REL
exec(compile(src, 'HEAD:' + REL, 'exec'), old_im.__dict__)  # absolute imports resolve to the (unchanged) package

# --- record what is handed to interp1d (imported inside the function at call time)
_real_interp1d = scipy.interpolate.interp1d
calls = []


def recording_interp1d(x, y, *args, **kwargs):
    calls.append((np.array(x, copy=True), np.array(y, copy=True), args, dict(kwargs)))
    return _real_interp1d(x, y, *args, **kwargs)


scipy.interpolate.interp1d = recording_interp1d

n_checked = 0
n_raised = 0


def same(a, b):
    """bit-for-bit equality: same type, dtype, shape, values (NaN == NaN) and sign of zeros"""
    if type(a) is not type(b):
        return False
    if not isinstance(a, np.ndarray):
        return a == b
    if a.dtype != b.dtype or a.shape != b.shape:
        return False
    if a.dtype.kind == 'f':
        return np.array_equal(a, b, equal_nan=True) and np.array_equal(np.signbit(a), np.signbit(b))
    return np.array_equal(a, b)


def unchanged(before, after):
    if isinstance(before, np.ndarray):
        return same(before, after)
    return type(before) is type(after) and before == after


def run(fn, args, kwargs):
    del calls[:]
    with np.errstate(all='ignore'):
        try:
            out = ('ok', fn(*args, **kwargs))
        except Exception as e:  # noqa
            out = ('exc', (type(e), str(e)))
    return out + (list(calls),)


def check(label, *args, **kwargs):
    global n_checked, n_raised
    a_old, k_old = copy.deepcopy(args), copy.deepcopy(kwargs)
    a_new, k_new = copy.deepcopy(args), copy.deepcopy(kwargs)
    s_old, r_old, c_old = run(old_im.calc_n_cyc_array_w_power_law, a_old, k_old)
    s_new, r_new, c_new = run(new_im.calc_n_cyc_array_w_power_law, a_new, k_new)
    assert s_old == s_new, (label, s_old, s_new, r_old, r_new)
    if s_old == 'exc':
        assert r_old == r_new, (label, r_old, r_new)
        n_raised += 1
    else:
        assert same(r_old, r_new), (label, r_old, r_new)
        assert r_old.flags.writeable == r_new.flags.writeable
    # identical interpolator inputs
    assert len(c_old) == len(c_new), (label, len(c_old), len(c_new))
    for (x0, y0, ar0, kw0), (x1, y1, ar1, kw1) in zip(c_old, c_new):
        assert same(x0, x1), (label, 'interp x', x0, x1)
        assert same(y0, y1), (label, 'interp y', y0, y1)
        assert ar0 == ar1 and kw0 == kw1, (label, ar0, ar1, kw0, kw1)
    # arguments untouched by both
    for orig, used in ((args, a_old), (args, a_new)):
        for o, u in zip(orig, used):
            assert unchanged(o, u), (label, 'positional argument mutated')
    for orig, used in ((kwargs, k_old), (kwargs, k_new)):
        for key in orig:
            assert unchanged(orig[key], used[key]), (label, 'keyword argument mutated', key)
    n_checked += 1
    return r_new if s_new == 'ok' else None


rng = np.random.RandomState(1313)


def make_series(trial, n):
    kind = trial % 8
    if kind == 0:
        return rng.normal(size=n)
    if kind == 1:
        return np.cumsum(rng.normal(size=n)) + rng.uniform(-3, 3)
    if kind == 2:  # integer with plateaus and zeros
        return rng.randint(-4, 5, size=n)
    if kind == 3:  # integer, with offset (may never cross zero)
        return rng.randint(-20, 20, size=n) + int(rng.randint(-30, 30))
    if kind == 4:  # float with plateaus
        return np.round(rng.normal(size=n), 1)
    if kind == 5:  # starts at exactly zero (first switched peak can be index 0 -> duplicated x in the step table)
        v = np.round(rng.normal(size=n), 2)
        v[0] = 0.0
        return v
    if kind == 6:  # offset float, one sided
        return np.abs(rng.normal(size=n)) + rng.uniform(0, 2)
    t = np.arange(n) * 0.01
    return np.sin(2 * np.pi * rng.uniform(0.5, 20) * t + rng.uniform(0, 6)) * np.exp(-0.5 * t) * rng.uniform(0.01, 50)


B_SCALARS = [0.05000001, 0.1, 0.2, 0.25, 1. / 3, 0.34, 0.5, 0.7, 0.9, 1.0, 1, np.float64(0.3), np.float32(0.5)]
B_ARRAYS = [np.array([0.34]), np.array([0.2, 0.34, 1.0]), np.array([1, 1]), np.linspace(0.06, 1.0, 7),
            np.array([0.5], dtype=np.float32), np.array(0.4)]
CUT_OFFS = [0, 0.0, 0.01, 0.05, 0.1, np.float64(0.02)]

for trial in range(1600):
    n = int(rng.choice([2, 3, 4, 5, 9, 40, 250, 1500]))
    v = make_series(trial, n)
    a_ref = [float(rng.uniform(0.01, 5)), 1, 2, np.float64(0.65), float(np.max(np.abs(v)) or 1.0), 1e-6, 1e6][trial % 7]
    if trial % 3 == 0:
        b = B_ARRAYS[(trial // 3) % len(B_ARRAYS)]
    elif trial % 3 == 1:
        b = B_SCALARS[(trial // 3) % len(B_SCALARS)]
    else:
        b = float(rng.uniform(0.0500001, 1.0))
    style = trial % 4
    if style == 0:    # default cut_off, positional
        check('rand-%d' % trial, v, a_ref, b)
    elif style == 1:  # keyword arguments
        check('rand-%d' % trial, v, a_ref=a_ref, b=b, cut_off=CUT_OFFS[(trial // 4) % len(CUT_OFFS)])
    elif style == 2:  # all positional
        check('rand-%d' % trial, v, a_ref, b, CUT_OFFS[(trial // 4) % len(CUT_OFFS)])
    else:
        check('rand-%d' % trial, values=v, a_ref=a_ref, b=b, cut_off=float(rng.uniform(0, 0.1)))
    if trial % 5 == 0:  # other containers / dtypes of the same record
        check('rand-list-%d' % trial, v.tolist(), a_ref, b)          # lists: abs(list) fails the same way in both
        check('rand-tuple-%d' % trial, tuple(v.tolist()), a_ref, b)
        check('rand-view-%d' % trial, v[::-1], a_ref, b, 0.03)
        if v.dtype.kind == 'f':
            check('rand-f32-%d' % trial, v.astype(np.float32), a_ref, b)
            check('rand-ld-%d' % trial, v.astype(np.longdouble), a_ref, b)
        else:
            check('rand-i32-%d' % trial, v.astype(np.int32), a_ref, b)
            check('rand-i16-%d' % trial, v.astype(np.int16), a_ref, b, 0.1)
            check('rand-asfloat-%d' % trial, v.astype(float), a_ref, b)

# --- hand written edge cases
edge_series = [
    [0., 1.], [1., 0.], [1., -1.], [0, 1], [1, 2, 3], [3, 2, 1], [0., 0., 0.], [0, 0], [2., 2., 2.], [5.],
    [0, 2, 1, 2, 0, 1, 0, -1, 0, 1, 0], [0., 2, 1, 2, 0.3, 1, 0.3, -1, 0.4, 1, 0],
    [1e-300, -1e-300, 1e-300, -1e-300], [1e300, -1e300, 1e300], [0.0, -0.0, 1.0, -1.0, 0.0],
    [1, 1, -1, -1, 1, 1, -1, -1], [0.001, -5, 0.002, 4, -0.003, 0.0001, -3], [np.nan, 1.0, -1.0], [0.0, np.inf, -1.0],
]
for i, ev in enumerate(edge_series):
    for b in (0.34, 1.0, 1, 0.05000001, np.array([0.2, 0.9]), np.array([0.34])):
        for cut_off in (0, 0.01, 0.1):
            for a_ref in (1.0, 1, 0.3):
                check('edge-%d' % i, np.array(ev), a_ref, b, cut_off=cut_off)
                check('edge-float-%d' % i, np.array(ev, dtype=float), a_ref, b, cut_off=cut_off)
    check('edge-list-%d' % i, list(ev), 1.0, 0.34)
check('edge-empty', np.array([]), 1.0, 0.34)
check('edge-list-b', np.array([0., 1., -1., 2.]), 1.0, [0.2, 0.34])  # list b: 1 / list fails the same way in both
check('edge-zero-b', np.array([0., 1., -1., 2.]), 1.0, 0.0)
check('edge-2d-b', np.array([0., 1., -1., 2.]), 1.0, np.array([[0.2, 0.34]]))

ro = rng.normal(size=50)
ro.setflags(write=False)
check('read-only', ro, 0.5, 0.34)

# --- property sanity on the edited code: non-decreasing, record length, inverse of the amplitude measure
for trial in range(60):
    v = make_series(7, 400)
    b = float(rng.uniform(0.06, 1.0))
    a_ref = float(rng.uniform(0.2, 1.0) * np.max(np.abs(v)))
    n_ser = new_im.calc_n_cyc_array_w_power_law(v, a_ref, b, cut_off=0.0)
    assert n_ser.shape == (len(v), 1) and np.all(np.diff(n_ser[:, 0]) >= 0)
    amp = new_im.calc_cyc_amp_array_w_power_law(v, n_cyc=n_ser[-1, 0], b=b)
    assert amp.shape == (len(v),) and np.isclose(amp[-1], a_ref, rtol=1e-9)

scipy.interpolate.interp1d = _real_interp1d
print('equiv3: %d comparisons identical (%d of them identical exceptions)' % (n_checked, n_raised))
sys.exit(0)

#!/usr/bin/env python
"""
Equivalence program for a behaviour-preserving edit of eqsig/fns/time_step.py (property C14).

Run with the edit applied and cwd = the worktree:

    cd <worktree> && PYTHONPATH=<worktree> /venv/bin/python out/equivK.py

The ORIGINAL package is extracted from git (`git archive HEAD eqsig`) into a temporary directory.
The same deterministic list of cases is executed in two subprocesses (one importing the original
package, one importing the edited package from os.getcwd()); every outcome (returned arrays bit for
bit incl. dtype/shape, scalars incl. their type, exception types, warnings categories, state of the
arguments after the call, aliasing between outputs and inputs, state of signal objects after
histories of public operations) is encoded canonically and the two encodings are compared.

Exit status 0 iff every case matches.
"""
import hashlib
import io
import os
import pickle
import subprocess
import sys
import tarfile
import tempfile

FOCUS = "twin2: explicit read-only coercion of values, explicit float sample grid, explicit raise for n-D data"


# --------------------------------------------------------------------------------------
# worker side
# --------------------------------------------------------------------------------------

def _worker(out_path):
    import warnings
    import numpy as np
    import eqsig
    from eqsig.fns import time_step as ts
    import eqsig.fns as fns_pkg

    assert os.path.abspath(eqsig.__file__).startswith(os.path.abspath(sys.path_marker)), \
        (eqsig.__file__, sys.path_marker)

    def enc(o, depth=0):
        if isinstance(o, np.ndarray):
            if o.dtype == object:
                return ('ndobj', o.shape, tuple(enc(x, depth + 1) for x in o.ravel().tolist()))
            c = np.ascontiguousarray(o)
            return ('nd', type(o).__name__, o.dtype.str, o.shape, hashlib.sha1(c.tobytes()).hexdigest(),
                    bool(o.flags.writeable))
        if isinstance(o, np.generic):
            return ('npscalar', type(o).__name__, o.dtype.str, o.tobytes())
        if isinstance(o, bool):
            return ('bool', o)
        if isinstance(o, int):
            return ('int', o)
        if isinstance(o, float):
            return ('float', o.hex())
        if isinstance(o, complex):
            return ('complex', o.real.hex(), o.imag.hex())
        if isinstance(o, (str, bytes)) or o is None:
            return ('lit', o)
        if isinstance(o, (list, tuple)):
            return (type(o).__name__, tuple(enc(x, depth + 1) for x in o))
        if isinstance(o, dict):
            return ('dict', tuple((repr(k), enc(v, depth + 1)) for k, v in o.items()))
        if isinstance(o, eqsig.single.Signal):
            return ('sig', type(o).__name__, enc(o.values), enc(o.dt), enc(o.npts), enc(o.label),
                    enc(o.smooth_fa_freqs), enc(getattr(o, 'response_times', None)))
        return ('repr', type(o).__name__, repr(o))

    results = []

    def run(tag, fn, *post):
        """run fn() recording result/exception/warnings; post are callables evaluated afterwards"""
        with warnings.catch_warnings(record=True) as w:
            warnings.simplefilter('always')
            try:
                r = ('ok', enc(fn()))
            except Exception as e:  # noqa
                r = ('exc', type(e).__name__)
            extra = []
            for p in post:
                try:
                    extra.append(('ok', enc(p())))
                except Exception as e:  # noqa
                    extra.append(('exc', type(e).__name__))
            cats = tuple(sorted(set(x.category.__name__ for x in w)))
        results.append((tag, r, tuple(extra), cats))

    rng = np.random.default_rng(20240914)

    # ---------------------------------------------------------------- namespace check
    results.append(('names_ts', tuple(sorted(n for n in dir(ts) if not n.startswith('_')))))
    results.append(('names_fns', tuple(sorted(n for n in dir(fns_pkg) if not n.startswith('_')))))
    results.append(('names_eqsig', tuple(sorted(n for n in dir(eqsig) if not n.startswith('_')))))
    import inspect
    for name in ('interp_array_to_approx_dt', 'interp_to_approx_dt', 'resample_to_approx_dt',
                 'time_series_from_motion'):
        results.append(('sig_' + name, str(inspect.signature(getattr(ts, name)))))

    # ---------------------------------------------------------------- value makers
    def make_values(kind, n):
        base = rng.standard_normal(n) * 10.0 ** float(rng.integers(-3, 4))
        if kind == 'f64':
            return base
        if kind == 'list':
            return [float(x) for x in base]
        if kind == 'tuple':
            return tuple(float(x) for x in base)
        if kind == 'intarr':
            return rng.integers(-50, 50, n)
        if kind == 'intlist':
            return [int(x) for x in rng.integers(-50, 50, n)]
        if kind == 'f32':
            return base.astype(np.float32)
        if kind == 'f16':
            return (base / max(1.0, float(np.max(np.abs(base))) if n else 1.0)).astype(np.float16)
        if kind == 'bool':
            return rng.integers(0, 2, n).astype(bool)
        if kind == 'u8':
            return rng.integers(0, 255, n).astype(np.uint8)
        if kind == 'u64':
            return rng.integers(0, 2 ** 62, n).astype(np.uint64) * np.uint64(3)
        if kind == 'i64big':
            return rng.integers(-2 ** 62, 2 ** 62, n)
        if kind == 'nan':
            v = base.copy()
            if n:
                v[int(rng.integers(0, n))] = np.nan
            return v
        if kind == 'inf':
            v = base.copy()
            if n:
                v[int(rng.integers(0, n))] = np.inf
                v[int(rng.integers(0, n))] = -np.inf
            return v
        if kind == 'negzero':
            v = base.copy()
            v[::2] = -0.0
            return v
        if kind == 'strided':
            return np.repeat(base, 2)[::2] if n else base
        if kind == 'revstride':
            return base[::-1]
        if kind == 'readonly':
            v = base.copy()
            v.setflags(write=False)
            return v
        if kind == 'bigendian':
            return base.astype('>f8')
        if kind == 'complex':
            return base + 1j * rng.standard_normal(n)
        if kind == 'longdouble':
            return base.astype(np.longdouble)
        if kind == 'object':
            return np.array([float(x) for x in base], dtype=object)
        if kind == 'masked':
            return np.ma.masked_array(base, mask=(rng.integers(0, 2, n) > 0))
        if kind == 'mixedlist':
            return [True if i % 3 == 0 else (int(x) if i % 3 == 1 else float(x)) for i, x in enumerate(base)]
        if kind == 'range':
            return range(n)
        if kind == 'const':
            return np.full(n, 3.25)
        if kind == 'huge':
            return base * 1e300
        if kind == 'tiny':
            return base * 1e-310
        raise ValueError(kind)

    real_kinds = ['f64', 'list', 'tuple', 'intarr', 'intlist', 'f32', 'f16', 'bool', 'u8', 'u64', 'i64big',
                  'nan', 'inf', 'negzero', 'strided', 'revstride', 'readonly', 'bigendian', 'mixedlist',
                  'range', 'const', 'huge', 'tiny']
    odd_kinds = ['complex', 'longdouble', 'object', 'masked']

    def snapshot(v):
        if isinstance(v, np.ndarray):
            return np.array(v, copy=True)
        return v

    def array_case(tag, values, dt, target, even, how='pos'):
        before = enc(values)
        holder = {}

        def call():
            if how == 'pos':
                r = ts.interp_array_to_approx_dt(values, dt, target, even)
            elif how == 'kw':
                r = ts.interp_array_to_approx_dt(values=values, dt=dt, target_dt=target, even=even)
            elif how == 'def_even':
                r = ts.interp_array_to_approx_dt(values, dt, target_dt=target)
            elif how == 'def_all':
                r = ts.interp_array_to_approx_dt(values, dt)
            elif how == 'viafns':
                r = eqsig.fns.interp_array_to_approx_dt(values, dt, target, even)
            else:
                raise RuntimeError(how)
            holder['r'] = r
            return (type(r).__name__, r)

        def unchanged():
            return enc(values) == before

        def alias():
            r = holder['r'][0]
            if isinstance(values, np.ndarray) and isinstance(r, np.ndarray):
                return bool(np.shares_memory(r, values)), bool(r.flags.owndata or r.base is not None), \
                    bool(r.flags.c_contiguous)
            return None

        def mutate_out_then_in():
            # writing into the output must not reach the argument
            r = holder['r'][0]
            if r.size:
                r[0] = 12345.0
            return enc(values) == before

        run(tag, call, unchanged, alias, mutate_out_then_in)

    # ---------------------------------------------------------------- A. dt == target (factor == 1)
    dts = [0.01, 0.005, 0.02, 0.1, 1, 1.0, 2, 0.0078125, 1.0 / 3, 0.03, 0.07, np.float64(0.01), np.float32(0.01),
           np.float64(0.25), np.int64(1), 1e-5, 123.456]
    lengths = [0, 1, 2, 3, 4, 5, 6, 7, 8, 9, 15, 16, 17, 31, 64, 100, 101, 255, 1000, 1001]
    evens = [True, False, 1, 0, None, 2, np.True_, np.False_]
    k = 0
    for n in lengths:
        for kind in real_kinds + odd_kinds:
            for dt in (dts if n in (0, 1, 2, 5, 16) else dts[:6]):
                even = evens[k % len(evens)]
                how = ('pos', 'kw', 'viafns')[k % 3]
                k += 1
                array_case(('A', n, kind, repr(dt), repr(even), how), make_values(kind, n), dt, dt, even, how)
                if k % 4 == 0:
                    array_case(('A2', n, kind, repr(dt), repr(not even)), make_values(kind, n), dt, dt, not even)
    # default target_dt = 0.01 with dt == 0.01
    for n in lengths:
        for kind in ('f64', 'list', 'intarr', 'f32', 'complex'):
            array_case(('Adef', n, kind), make_values(kind, n), 0.01, None, None, 'def_all')
            array_case(('Adef2', n, kind), make_values(kind, n), 0.01, 0.01, None, 'def_even')
            array_case(('Adef3', n, kind), make_values(kind, n), np.float64(0.01), None, None, 'def_all')

    # ---------------------------------------------------------------- B. dt/target sweep
    ratios = []
    for m in range(1, 21):
        ratios.append(('mul', m))
        ratios.append(('div', m))
    base_dts = [0.01, 0.005, 0.02, 0.1, 1.0, 0.0078125, 1.0 / 3, 0.03, 0.07, 0.004, 0.0025, np.float64(0.01), 2, 1]
    k = 0
    for dt in base_dts:
        for (op, m) in ratios:
            for form in (0, 1, 2):
                if op == 'mul':
                    target = [dt * m, round(float(dt) * m, 10), float(dt) * m * (1 + 2.2e-16)][form]
                else:
                    target = [dt / m, round(float(dt) / m, 10), float(dt) / m * (1 - 1.2e-16)][form]
                n = lengths[k % len(lengths)]
                kind = (real_kinds + odd_kinds)[k % (len(real_kinds) + len(odd_kinds))]
                even = evens[k % 3]
                k += 1
                array_case(('B', repr(dt), op, m, form, n, kind, repr(even)), make_values(kind, n), dt, target, even)
                array_case(('Bb', repr(dt), op, m, form, n, repr(even)), make_values('f64', n + 2), dt, target,
                           not even)
    # decimal literal pairs whose quotient lands next to an integer
    lits = [0.001, 0.002, 0.0025, 0.004, 0.005, 0.01, 0.02, 0.025, 0.03, 0.04, 0.05, 0.06, 0.07, 0.08, 0.09, 0.1,
            0.12, 0.15, 0.2, 0.25, 0.3, 0.35, 0.5, 0.7, 1.0]
    for a in lits:
        for b in lits:
            n = 4 + (k % 23)
            k += 1
            array_case(('Blit', a, b, n), make_values('f64', n), a, b, bool(k % 2))
    # random non-commensurate
    for i in range(600):
        dt = float(10.0 ** rng.uniform(-3, 0))
        target = float(dt * 10.0 ** rng.uniform(-1.3, 1.3))
        n = int(rng.integers(0, 60))
        kind = real_kinds[i % len(real_kinds)]
        array_case(('Brand', i, n, kind), make_values(kind, n), dt, target, bool(i % 2))
    # numpy scalar / integer typed steps
    for dt, target in [(np.float32(0.02), np.float32(0.02)), (np.float32(0.02), 0.01), (np.int64(2), np.int64(1)),
                       (np.int64(1), np.int64(2)), (2, 2), (3, 2), (2, 3), (np.float64(0.02), np.float32(0.02)),
                       (np.float16(0.5), np.float16(0.5)), (np.float16(0.5), 0.25), (True, True), (True, 2),
                       (np.array(0.01), np.array(0.01)), (np.array(0.02), 0.01), (np.array([0.01]), np.array([0.01])),
                       (np.array([0.02]), np.array([0.01])), (1 + 0j, 1 + 0j)]:
        for n in (0, 1, 2, 5, 8):
            for even in (True, False):
                for kind in ('f64', 'intlist', 'f32', 'complex'):
                    array_case(('Bnp', repr(dt), repr(target), n, even, kind), make_values(kind, n), dt, target, even)

    # reduced precision steps with records longer than the mantissa can count
    for dt, target in [(np.float16(0.5), np.float16(0.5)), (np.float16(0.5), np.float16(0.25)),
                       (np.float16(0.25), np.float16(0.5)), (np.float32(0.5), np.float32(0.5)),
                       (np.longdouble(0.5), np.longdouble(0.5)), (np.longdouble(0.5), 0.25)]:
        for n in (2047, 2048, 2049, 2051, 4099, 5003):
            for even in (True, False):
                array_case(('Bprec', repr(dt), repr(target), n, even), make_values('f64', n), dt, target, even)
    import fractions
    import decimal
    for dt, target in [(fractions.Fraction(1, 100), fractions.Fraction(1, 100)),
                       (fractions.Fraction(1, 50), fractions.Fraction(1, 100)),
                       (decimal.Decimal('0.01'), decimal.Decimal('0.01')),
                       (decimal.Decimal('0.01'), decimal.Decimal('0.02'))]:
        for n in (0, 1, 4, 5):
            for even in (True, False):
                array_case(('Bfrac', repr(dt), repr(target), n, even), make_values('f64', n), dt, target, even)

    # ---------------------------------------------------------------- C. inputs that fail / out of domain
    bad_values = [
        ('scalar', 3.0), ('npscalar', np.float64(3.0)), ('none', None), ('zero_d', np.array(2.0)),
        ('2d', np.ones((4, 3))), ('2d_n1', np.ones((4, 1))), ('2d_1n', np.ones((1, 4))), ('2d_0n', np.ones((0, 2))),
        ('3d', np.ones((2, 2, 2))), ('2dlist', [[1.0, 2.0], [3.0, 4.0]]), ('ragged', [1.0, [2.0, 3.0], 4.0]),
        ('str', 'abcd'), ('strlist', ['a', 'b', 'c']), ('numstrlist', ['1', '2', '3']), ('dict', {0: 1.0, 1: 2.0}),
        ('nonelist', [1.0, None, 2.0]), ('gen', (x for x in range(3))), ('2dobj', np.ones((2, 2), dtype=object)),
        ('2dcomplex', np.ones((2, 2), dtype=complex)), ('bigints', [1, 2, 10 ** 400]), ('set', {1.0, 2.0}),
        ('bytes', b'abc'), ('datetime', np.array(['2020-01-01', '2020-01-02'], dtype='M8[D]')),
        ('timedelta', np.array([1, 2, 3], dtype='m8[s]')), ('strarr', np.array(['a', 'b'])),
        ('void', np.zeros(3, dtype=[('a', float)])),
    ]
    bad_steps = [(0.01, 0.01), (0.02, 0.01), (0.01, 0.02), (0.01, 0.0), (0.0, 0.01), (0.0, 0.0),
                 (np.float64(0.01), np.float64(0.0)), (np.float64(0.0), np.float64(0.0)), (float('nan'), 0.01),
                 (0.01, float('nan')), (float('inf'), 0.01), (0.01, float('inf')), (float('inf'), float('inf')),
                 (-0.01, 0.01), (0.01, -0.01), (-0.01, -0.01), (-0.02, -0.01), (-0.01, -0.02), ('a', 0.01),
                 (0.01, 'a'), (None, 0.01), (0.01, None), ([0.01], [0.01]), (-0.01, np.float64(0.0))]
    for name, bv in bad_values:
        for (dt, target) in bad_steps[:3] + bad_steps[6:8] + [bad_steps[-1]]:
            for even in (True, False):
                array_case(('Cval', name, repr(dt), repr(target), even), bv, dt, target, even)
    for (dt, target) in bad_steps:
        for n in (0, 1, 2, 5):
            for even in (True, False):
                for kind in ('f64', 'list', 'complex'):
                    array_case(('Cstep', repr(dt), repr(target), n, even, kind), make_values(kind, n), dt, target,
                               even)
    run(('Cnoargs',), lambda: ts.interp_array_to_approx_dt())
    run(('Cnoargs2',), lambda: ts.interp_array_to_approx_dt([1.0, 2.0]))
    run(('Cextra',), lambda: ts.interp_array_to_approx_dt([1.0, 2.0], 0.01, 0.01, True, 5))
    run(('Ckw',), lambda: ts.interp_array_to_approx_dt([1.0, 2.0], 0.01, target=0.01))

    # ---------------------------------------------------------------- D. object level
    def sig_state(s):
        return s

    def make_sig(cls, kind, n, dt, **kw):
        return cls(make_values(kind, n), dt, **kw)

    obj_fns = [('interp', ts.interp_to_approx_dt), ('resample', ts.resample_to_approx_dt)]
    sig_kinds = ['f64', 'list', 'intarr', 'intlist', 'f32', 'bool', 'nan', 'const', 'strided', 'complex', 'tuple']
    k = 0
    for fname, fn in obj_fns:
        for cls in (eqsig.AccSignal, eqsig.Signal):
            for n in (2, 3, 4, 5, 8, 9, 16, 33, 100, 101, 256):
                for dt, target in [(0.01, 0.01), (0.01, 0.1), (0.01, 0.005), (0.02, 0.01), (0.01, 0.03), (0.07, 0.01),
                                   (0.005, 0.005), (1, 1), (0.03, 0.01), (0.01, 0.0101), (0.01, 0.0099),
                                   (np.float64(0.02), 0.02), (0.1, 0.03), (0.01, 0.025)]:
                    kind = sig_kinds[k % len(sig_kinds)]
                    even = (True, False)[k % 2]
                    k += 1
                    for ev in (even, not even):
                        asig = make_sig(cls, kind, n, dt, label='rec%i' % k)
                        before = enc(asig)
                        hold = {}

                        def call(asig=asig, ev=ev, fn=fn, target=target, hold=hold):
                            r = fn(asig, target, ev)
                            hold['r'] = r
                            return r

                        def src_unchanged(asig=asig, before=before):
                            return enc(asig) == before

                        def alias(asig=asig, hold=hold):
                            return bool(np.shares_memory(hold['r'].values, asig.values))

                        def hist(asig=asig, hold=hold, before=before):
                            # history of public operations on the result; source must stay untouched
                            r = hold['r']
                            out = []
                            r.add_constant(1.5)
                            out.append(enc(r))
                            r.running_average(3)
                            out.append(enc(r))
                            r.remove_average()
                            out.append(enc(r.values))
                            out.append(enc(r.time))
                            out.append(enc(asig) == before)
                            return tuple(out)

                        run(('D', fname, cls.__name__, n, repr(dt), repr(target), kind, ev), call, src_unchanged,
                            alias, hist)
    # defaults and keyword forms, and via package-level namespace
    for fname, fn in obj_fns:
        for n in (4, 7, 50):
            for dt in (0.01, 0.02, 0.005, 0.004):
                a = eqsig.AccSignal(make_values('f64', n), dt)
                run(('Ddef', fname, n, dt), lambda a=a, fn=fn: fn(a))
                run(('Ddefkw', fname, n, dt), lambda a=a, fn=fn: fn(asig=a, even=False))
                run(('Ddefkw2', fname, n, dt), lambda a=a, fn=fn: fn(a, target_dt=dt))
                run(('Dpkg', fname, n, dt),
                    lambda a=a, fname=fname: getattr(eqsig.fns, fname + '_to_approx_dt')(a, dt, False))
    # histories BEFORE resampling: state of the object as seen through the public API
    for fname, fn in obj_fns:
        for i in range(60):
            n = int(rng.integers(4, 80))
            dt = [0.01, 0.02, 0.005][i % 3]
            target = [dt, dt * 2, dt / 2, dt * 3, dt / 3, dt * 1.5, dt / 1.5][i % 7]
            a = eqsig.AccSignal(make_values(['f64', 'intarr', 'list'][i % 3], n), dt)

            def history(a=a, fn=fn, target=target, i=i, n=n):
                out = []
                a.add_constant(0.25)
                if i % 2:
                    a.running_average(2 + i % 3)
                if i % 3 == 0:
                    a.reset_values(np.asarray(a.values)[: max(2, n - 3)])
                if i % 5 == 0:
                    a.add_series(np.ones(a.npts))
                r1 = fn(a, target, bool(i % 2))
                out.append(enc(r1))
                r2 = fn(r1, a.dt, not bool(i % 2))  # back again
                out.append(enc(r2))
                r3 = fn(r2, r2.dt, bool(i % 2))  # dt == target on a resampled object
                out.append(enc(r3))
                r3.remove_poly(1)
                out.append(enc(r3))
                out.append(enc(a))
                out.append(enc(r1))
                out.append(enc(a.fa_spectrum))
                out.append(enc(r1.fa_spectrum))
                return tuple(out)

            run(('Dhist', fname, i), history)
    # bad objects
    for fname, fn in obj_fns:
        for bad in (None, 3.0, np.ones(4), [1.0, 2.0], 'abc'):
            run(('Dbad', fname, repr(bad)), lambda fn=fn, bad=bad: fn(bad, 0.01))
        a = eqsig.AccSignal(np.ones(6), 0.01)
        for target in (0.0, float('nan'), -0.01, 'a', None, float('inf'), np.float64(0.0)):
            for ev in (True, False):
                run(('Dbadstep', fname, repr(target), ev), lambda fn=fn, target=target, ev=ev: fn(a, target, ev))
        e = eqsig.Signal([], 0.01)
        for target in (0.01, 0.02, 0.005):
            for ev in (True, False):
                run(('Dempty', fname, target, ev), lambda fn=fn, target=target, ev=ev, e=e: fn(e, target, ev))
        one = eqsig.Signal([2.5], 0.01)
        for target in (0.01, 0.02, 0.005):
            for ev in (True, False):
                run(('Done', fname, target, ev), lambda fn=fn, target=target, ev=ev, one=one: fn(one, target, ev))
        m = eqsig.Signal(np.ones((6, 2)), 0.01)
        for target in (0.01, 0.02, 0.005):
            for ev in (True, False):
                run(('D2d', fname, target, ev), lambda fn=fn, target=target, ev=ev, m=m: fn(m, target, ev))

    # ---------------------------------------------------------------- E. consumer: response spectrum
    k = 0
    for n in (8, 21, 64, 150):
        for dt in (0.01, 0.02, 0.005, 0.1):
            for rts in ([0.05, 0.1, 0.5], [0.0, 0.2, 1.0], [0.3, 1.0], [0.01, 0.02], [0.2], [0.0021, 0.3],
                        [dt * 20, 1.0], [dt * 10, 1.0], [dt * 40, 2.0]):
                for mdr in (4, 1, 2.5, 8, 0.5):
                    k += 1
                    if k % 3:
                        continue
                    kind = ['f64', 'intarr', 'list', 'f32'][k % 4]
                    a = eqsig.AccSignal(make_values(kind, n), dt)
                    before = enc(a.values)

                    def call(a=a, rts=rts, mdr=mdr):
                        a.gen_response_spectrum(response_times=np.array(rts), min_dt_ratio=mdr)
                        return (a.s_a, a.s_v, a.s_d)

                    run(('E', n, dt, tuple(rts), mdr, kind), call, lambda a=a, before=before: enc(a.values) == before)
    for n in (10, 33):
        a = eqsig.AccSignal(make_values('f64', n), 0.01)
        run(('Edef', n), lambda a=a: (a.s_a, a.s_v, a.s_d))

    # ---------------------------------------------------------------- F. time_series_from_motion (same module)
    for n in (0, 1, 2, 5, 100):
        for dt in (0.01, 1, np.float32(0.5)):
            run(('F', n, repr(dt)), lambda n=n, dt=dt: ts.time_series_from_motion(np.zeros(n), dt))

    with open(out_path, 'wb') as f:
        pickle.dump(results, f)


# --------------------------------------------------------------------------------------
# parent side
# --------------------------------------------------------------------------------------

def _main():
    here = os.getcwd()
    me = os.path.abspath(__file__)
    if not os.path.isdir(os.path.join(here, 'eqsig')):
        print('run me with cwd = the worktree')
        return 2
    with tempfile.TemporaryDirectory() as tmp:
        orig_dir = os.path.join(tmp, 'orig')
        os.makedirs(orig_dir)
        data = subprocess.check_output(['git', 'archive', 'HEAD', 'eqsig'], cwd=here)
        with tarfile.open(fileobj=io.BytesIO(data)) as tf:
            tf.extractall(orig_dir)
        outs = {}
        procs = {}
        for name, root in (('orig', orig_dir), ('edit', here)):
            out_path = os.path.join(tmp, name + '.pkl')
            env = dict(os.environ)
            env['PYTHONPATH'] = root
            env['PYTHONHASHSEED'] = '0'
            env['PYTHONDONTWRITEBYTECODE'] = '1'
            procs[name] = (subprocess.Popen([sys.executable, me, '--worker', root, out_path], env=env, cwd=tmp),
                           out_path)
        for name, (p, out_path) in procs.items():
            rc = p.wait()
            if rc != 0:
                print('worker %s failed with exit status %s' % (name, rc))
                return 3
            with open(out_path, 'rb') as f:
                outs[name] = pickle.load(f)
    a, b = outs['orig'], outs['edit']
    print(FOCUS)
    print('cases: original %i, edited %i' % (len(a), len(b)))
    if len(a) != len(b):
        print('DIFFERENT number of cases')
        return 1
    nbad = 0
    n_exc = 0
    for x, y in zip(a, b):
        if len(x) > 1 and isinstance(x[1], tuple) and x[1] and x[1][0] == 'exc':
            n_exc += 1
        if x != y:
            nbad += 1
            if nbad <= 40:
                print('MISMATCH at', x[0])
                print('   original:', repr(x[1:])[:600])
                print('   edited  :', repr(y[1:])[:600])
    print('cases ending in an exception (in the original): %i' % n_exc)
    if nbad:
        print('%i mismatching cases' % nbad)
        return 1
    print('all cases match')
    return 0


if __name__ == '__main__':
    if len(sys.argv) >= 4 and sys.argv[1] == '--worker':
        sys.path_marker = sys.argv[2]
        # make sure the requested root wins over everything else
        sys.path.insert(0, sys.argv[2])
        _worker(sys.argv[3])
        sys.exit(0)
    sys.exit(_main())

"""
Equivalence check for twin (run with the twin applied, cwd = the worktree).

The ORIGINAL package is extracted from git (`git archive HEAD eqsig`) into a temporary directory under /tmp.
The same deterministic battery of calls is executed in two child processes - one importing the original
package, one importing the edited package of the worktree - and every result (values, dtypes, shapes, python
types, exceptions, argument mutation, full object state) is encoded bit-exactly and compared in the parent.

Exit status 0 iff everything is identical.
"""
import os
import pickle
import subprocess
import sys
import tempfile

FOCUS = "eqsig.im.calc_peak / calculate_peak and the peaks pga/pgv/pgd taken through them"


# ----------------------------------------------------------------------------------------------------------------
# child side
# ----------------------------------------------------------------------------------------------------------------

def enc(obj):
    """Bit-exact, picklable encoding of a result"""
    import numpy as np
    if isinstance(obj, np.ndarray):
        return ("ndarray", type(obj).__name__, obj.dtype.str, obj.shape, np.ascontiguousarray(obj).tobytes())
    if isinstance(obj, np.generic):
        return ("npscalar", type(obj).__name__, obj.dtype.str, obj.tobytes())
    if isinstance(obj, bool):
        return ("bool", obj)
    if isinstance(obj, float):
        return ("float", obj.hex())
    if isinstance(obj, int):
        return ("int", obj)
    if isinstance(obj, str):
        return ("str", obj)
    if obj is None:
        return ("none",)
    if isinstance(obj, tuple):
        return ("tuple", [enc(o) for o in obj])
    if isinstance(obj, list):
        return ("list", [enc(o) for o in obj])
    if isinstance(obj, dict):
        return ("dict", [(repr(k), enc(obj[k])) for k in sorted(obj, key=repr)])
    if isinstance(obj, BaseException):
        return ("exception", type(obj).__name__, str(obj))
    return ("other", type(obj).__name__, repr(obj))


def call(fn, *args, **kwargs):
    """Result of a call, or the exception it raised"""
    import warnings
    with warnings.catch_warnings(record=True) as wlist:
        warnings.simplefilter("always")
        try:
            res = fn(*args, **kwargs)
        except Exception as e:  # noqa
            res = e
    return enc(res), sorted(set(w.category.__name__ for w in wlist))


def records():
    """Named acceleration records: random ones and the edge cases of the property's quantifier"""
    import numpy as np
    rng = np.random.RandomState(20240908)
    recs = []
    for n in (2, 3, 4, 5, 7, 16, 100, 1001, 4096):
        recs.append(("rand%d" % n, rng.randn(n)))
        recs.append(("big%d" % n, 1e6 * rng.randn(n) + 3.0))
        recs.append(("tiny%d" % n, 1e-9 * rng.randn(n)))
    recs.append(("zeros", np.zeros(8)))
    recs.append(("negzeros", -np.zeros(8)))
    recs.append(("mixedzeros", np.array([0.0, -0.0, 0.0, -0.0])))
    recs.append(("negzero_then", np.array([-0.0, -0.0, 1.0, -1.0, -0.0])))
    recs.append(("const", np.full(11, 2.5)))
    recs.append(("negconst", np.full(11, -2.5)))
    recs.append(("linear", 0.3 * np.arange(13) - 1.0))
    recs.append(("allpos", np.abs(rng.randn(20)) + 0.1))
    recs.append(("allneg", -np.abs(rng.randn(20)) - 0.1))
    recs.append(("tie", np.array([1.5, -1.5, 0.5, 1.5, -1.5])))
    recs.append(("tie2", np.array([-1.5, 1.5, 0.5])))
    recs.append(("int64", rng.randint(-50, 50, size=30)))
    recs.append(("int32", rng.randint(-50, 50, size=30).astype(np.int32)))
    recs.append(("uint8", rng.randint(0, 50, size=9).astype(np.uint8)))
    recs.append(("float32", rng.randn(25).astype(np.float32)))
    recs.append(("float16", rng.randn(6).astype(np.float16)))
    recs.append(("bool", np.array([True, False, True, True])))
    recs.append(("list_float", [float(v) for v in rng.randn(9)]))
    recs.append(("list_int", [3, -4, 1, 0, 2]))
    recs.append(("list2", [0.25, -0.75]))
    recs.append(("tuple_float", tuple(float(v) for v in rng.randn(6))))
    recs.append(("list_npfloat", list(rng.randn(6))))
    recs.append(("noncontig", rng.randn(40)[::3]))
    recs.append(("reversed_view", rng.randn(17)[::-1]))
    recs.append(("with_inf", np.array([0.0, 1.0, np.inf, -2.0, 1.0])))
    recs.append(("with_nan", np.array([0.5, np.nan, -2.0, 1.0])))
    recs.append(("nan_first", np.array([np.nan, 0.5, -2.0, 1.0])))
    recs.append(("len1", np.array([1.25])))
    recs.append(("len0", np.array([])))
    recs.append(("twod", rng.randn(3, 12)))
    recs.append(("complex", rng.randn(5) + 1j * rng.randn(5)))
    return recs


def copy_of(rec):
    import copy
    return copy.deepcopy(rec)


def state_of(asig):
    """Complete instance state (incl. caches) of a signal object"""
    return enc(dict(asig.__dict__))


def battery(eqsig):
    import numpy as np
    import eqsig.displacements as sd
    from eqsig import im
    out = []

    def add(key, val):
        out.append((key, val))

    dts = [("f0.01", 0.01), ("f0.005", 0.005), ("f1.0", 1.0), ("f0.1", 0.1), ("f3.7", 3.7), ("npf0.02", np.float64(0.02)),
           ("int1", 1), ("int2", 2), ("npf32", np.float32(0.05)), ("neg", -0.01), ("zero", 0.0)]
    traps = [("default", None), ("True", True), ("False", False), ("0", 0), ("1", 1), ("None", None),
             ("npFalse", np.False_), ("npTrue", np.True_), ("str", "no")]

    # ---- array level -------------------------------------------------------------------------------------------
    for rname, rec in records():
        for dname, dt in dts:
            for ti, (tname, trap) in enumerate(traps):
                for fname in ("calc_velo_and_disp_from_accel_arr", "velocity_and_displacement_from_acceleration"):
                    fn = getattr(sd, fname)
                    arg = copy_of(rec)
                    if ti == 0:
                        res = call(fn, arg, dt)
                    else:
                        res = call(fn, arg, dt, trap=trap)
                    add(("arr", fname, rname, dname, tname), res)
                    add(("arr-argument-after", fname, rname, dname, tname), (enc(arg), type(arg).__name__))
        # positional form of trap
        add(("arr-positional", rname), call(sd.calc_velo_and_disp_from_accel_arr, copy_of(rec), 0.01, False))
        add(("arr-positional-T", rname), call(sd.calc_velo_and_disp_from_accel_arr, copy_of(rec), 0.01, True))
        # peaks
        arg = copy_of(rec)
        add(("calc_peak", rname), call(im.calc_peak, arg))
        add(("calc_peak-argument-after", rname), (enc(arg), type(arg).__name__))
        add(("calculate_peak", rname), call(im.calculate_peak, copy_of(rec)))
        # peak of integrated series
        vd = None
        try:
            vd = sd.calc_velo_and_disp_from_accel_arr(copy_of(rec), 0.01)
        except Exception:  # noqa
            pass
        if vd is not None:
            add(("calc_peak-velocity", rname), call(im.calc_peak, vd[0]))
            add(("calc_peak-displacement", rname), call(im.calc_peak, vd[1]))

    # public names of the package are unchanged
    import eqsig.fns
    for mod in (eqsig, eqsig.fns, eqsig.im, eqsig.displacements, eqsig.fns.peaks_and_crossings, eqsig.fns.generic,
                eqsig.single):
        add(("public-names", mod.__name__), enc(sorted(n for n in dir(mod) if not n.startswith("_"))))

    # peaks of many short series with ties between entries and between |min| and max, in several containers / types
    prng = np.random.RandomState(5)
    for i in range(400):
        n = int(prng.randint(2, 12))
        base = np.round(prng.randn(n) * 2) / 2  # many ties, signed zeros
        base = np.where(prng.rand(n) < 0.15, -0.0, base)
        variants = [("f8", base), ("list", [float(v) for v in base]), ("tuple", tuple(float(v) for v in base)),
                    ("i8", (2 * base).astype(np.int64)), ("pyint", [int(v) for v in 2 * base]),
                    ("mixed", [int(v) if j % 2 else float(v) for j, v in enumerate(2 * base)]),
                    ("f4", base.astype(np.float32)), ("object", np.array([float(v) for v in base], dtype=object)),
                    ("neg", -base), ("scaled", -0.37 * base)]
        for vname, vals in variants:
            add(("peak-ties", i, vname), call(im.calc_peak, vals))
            add(("peak-ties-deprecated", i, vname), call(im.calculate_peak, vals))
    add(("peak-int8-min",), call(im.calc_peak, np.array([-128, 5, 127], dtype=np.int8)))
    add(("peak-bools",), call(im.calc_peak, [True, False]))
    add(("peak-str",), call(im.calc_peak, ["a", "b"]))
    add(("peak-scalar",), call(im.calc_peak, 3.0))
    add(("peak-none",), call(im.calc_peak, None))
    add(("peak-empty-list",), call(im.calc_peak, []))
    add(("peak-long",), call(im.calc_peak, prng.randn(200000)))

    # results must be usable/writable and independent of the input
    rec = np.linspace(-1, 1, 9)
    for trap in (True, False):
        v, d = sd.calc_velo_and_disp_from_accel_arr(rec, 0.1, trap=trap)
        add(("flags", trap), enc((v.flags.writeable, d.flags.writeable, v.ndim, d.ndim, np.shares_memory(v, rec),
                                  np.shares_memory(d, rec), np.shares_memory(v, d))))
        v[0] = 7.0
        d[-1] = -7.0
        add(("write-through", trap), enc((v, d, rec)))

    # ---- object level ------------------------------------------------------------------------------------------
    for name in ("velocity", "displacement", "pga", "pgv", "pgd"):
        prop = getattr(eqsig.AccSignal, name)
        add(("property", name), enc((type(prop).__name__, prop.__doc__, prop.fset is None, prop.fdel is None)))
    for fn in (sd.calc_velo_and_disp_from_accel_arr, sd.velocity_and_displacement_from_acceleration, im.calc_peak,
               im.calculate_peak, eqsig.AccSignal.generate_displacement_and_velocity_series):
        import inspect
        add(("signature", fn.__name__), enc((str(inspect.signature(fn)), fn.__doc__)))
    def observe(asig, tag, order):
        for name in order:
            add((tag, "get", name), call(getattr, asig, name))
            add((tag, "state-after", name), state_of(asig))

    orders = [("velocity", "displacement", "pga", "pgv", "pgd"),
              ("pgd", "pgv", "pga", "displacement", "velocity"),
              ("displacement", "pgv", "velocity", "pgd", "pga", "pga", "pgv", "pgd"),
              ("pgv",), ("pgd",), ("pga",)]
    for rname, rec in records():
        if rname in ("len0", "twod", "complex"):
            continue
        for dname, dt in dts[:6]:
            for oi, order in enumerate(orders):
                res = call(eqsig.AccSignal, copy_of(rec), dt)
                if res[0][0] == "exception":
                    add(("obj-construct", rname, dname, oi), res)
                    continue
                asig = eqsig.AccSignal(copy_of(rec), dt)
                tag = ("obj", rname, dname, oi)
                add((tag, "state-initial"), state_of(asig))
                observe(asig, tag, order)

    # multi-step histories
    rng = np.random.RandomState(77)
    for hi in range(12):
        n = int(rng.randint(2, 300))
        dt = float(rng.choice([0.01, 0.02, 0.005, 0.1]))
        asig = eqsig.AccSignal(rng.randn(n), dt, label="h%d" % hi)
        tag = ("hist", hi)
        add((tag, 0), state_of(asig))
        add((tag, "pgv0"), call(getattr, asig, "pgv"))
        add((tag, 1), state_of(asig))
        add((tag, "gen-rect"), call(asig.generate_displacement_and_velocity_series, trap=False))
        add((tag, 2), state_of(asig))
        observe(asig, tag + ("after-rect",), ("velocity", "pgv", "displacement", "pgd", "pga"))
        add((tag, "gen-trap-positional"), call(asig.generate_displacement_and_velocity_series, True))
        observe(asig, tag + ("after-trap",), ("pgd", "displacement", "velocity", "pgv"))
        add((tag, "reset"), call(asig.reset_values, rng.randn(n + 3)))
        add((tag, 3), state_of(asig))
        observe(asig, tag + ("after-reset",), ("pgd", "pga", "velocity", "pgv", "displacement"))
        add((tag, "clear"), call(asig.clear_cache))
        add((tag, 4), state_of(asig))
        observe(asig, tag + ("after-clear",), ("displacement", "pgd"))
        add((tag, "gen-default"), call(asig.generate_displacement_and_velocity_series))
        add((tag, 5), state_of(asig))
        # scaling and sign reversal through the object interface
        for alpha in (-1.0, 2.0, -0.37):
            other = eqsig.AccSignal(alpha * asig.values, dt)
            observe(other, tag + ("scaled", alpha), ("pga", "pgv", "pgd", "velocity", "displacement"))
        # stale user-filled cache entry must be honoured
        asig._cached_params["pgv"] = 123.0
        add((tag, "stale-pgv"), call(getattr, asig, "pgv"))
        asig._cached_params["pga"] = None
        add((tag, "none-pga"), call(getattr, asig, "pga"))
        add((tag, 6), state_of(asig))
        # methods that go through velocity/displacement/pga
        if n > 20:
            add((tag, "zero-res-velocity"), call(asig.set_zero_residual_velocity))
            add((tag, 7), state_of(asig))
            observe(asig, tag + ("after-zrv",), ("velocity", "pgv", "pgd"))
            add((tag, "zero-res-disp"), call(asig.set_zero_residual_displacement))
            observe(asig, tag + ("after-zrd",), ("pgd", "displacement", "pga"))
        # generated series are what the peaks are taken of, even when modified in place by the user
        asig.velocity[0] = 1e9
        add((tag, "pgv-after-inplace"), call(getattr, asig, "pgv"))
        asig._cached_params.pop("pgv", None)
        add((tag, "pgv-after-inplace-uncached"), call(getattr, asig, "pgv"))
        add((tag, 8), state_of(asig))

    # failure inside a lazy peak (invalid 2-D record): same exception, no extra exception context, same state
    asig = eqsig.AccSignal(np.arange(10.).reshape(2, 5) - 3, 0.01)
    for name in ("pga", "pgv", "pgd", "pga"):
        try:
            getattr(asig, name)
            add(("fail2d", name), "no exception")
        except Exception as e:  # noqa
            add(("fail2d", name), enc((e, e.__context__, e.__cause__)))
        add(("fail2d-state", name), state_of(asig))

    # copies of objects keep / share the lazily evaluated state in the same way
    import copy
    asig = eqsig.AccSignal(np.sin(np.arange(50) * 0.3), 0.02)
    add(("copy", "pgv"), call(getattr, asig, "pgv"))
    for cname, twin_obj in (("deepcopy", copy.deepcopy(asig)), ("copy", copy.copy(asig))):
        add(("copy", cname, 0), state_of(twin_obj))
        observe(twin_obj, ("copy", cname), ("pgd", "pga", "pgv", "velocity"))
        twin_obj.reset_values(twin_obj.values * -2)
        observe(twin_obj, ("copy", cname, "reset"), ("pgd", "pga", "pgv", "velocity"))
        add(("copy", cname, "source-state"), state_of(asig))

    # a subclass that overrides a series is honoured by the peaks
    class Biased(eqsig.AccSignal):
        @property
        def velocity(self):
            return super(Biased, self).velocity + 1.0

    basig = Biased(np.cos(np.arange(40) * 0.2), 0.01)
    observe(basig, ("subclass",), ("pgv", "pgd", "pga", "velocity", "displacement"))

    # list / integer inputs at object level
    for vals in ([1, -2, 3, 0], [0.5, -0.25], (1.0, 2.0, -4.0), np.arange(6), np.zeros(5), -np.zeros(3)):
        asig = eqsig.AccSignal(vals, 0.01)
        observe(asig, ("objlist", repr(vals)), ("pga", "velocity", "displacement", "pgv", "pgd"))
    return out


def child(path, outfile):
    sys.path.insert(0, path)
    os.chdir(path)
    import eqsig
    assert os.path.realpath(eqsig.__file__).startswith(os.path.realpath(path) + os.sep), (eqsig.__file__, path)
    res = battery(eqsig)
    with open(outfile, "wb") as f:
        pickle.dump((os.path.realpath(eqsig.__file__), res), f)


# ----------------------------------------------------------------------------------------------------------------
# parent side
# ----------------------------------------------------------------------------------------------------------------

def strip_messages(e):
    """Encoded result with the texts of exceptions removed (the exception types are kept)"""
    if isinstance(e, tuple) and len(e) == 3 and e[0] == "exception":
        return e[:2]
    if isinstance(e, (tuple, list)):
        return type(e)(strip_messages(x) for x in e)
    return e


def main():
    worktree = os.getcwd()
    assert os.path.isdir(os.path.join(worktree, "eqsig")), "run with cwd = the worktree"
    tmp = tempfile.mkdtemp(prefix="eqsig_orig_", dir="/tmp")
    subprocess.check_call("git archive HEAD eqsig | tar -x -C %s" % tmp, shell=True, cwd=worktree)
    env = dict(os.environ)
    env.pop("PYTHONPATH", None)
    env["PYTHONDONTWRITEBYTECODE"] = "1"
    outs = []
    for name, path in (("orig", tmp), ("edit", worktree)):
        outfile = os.path.join(tmp, "result_%s.pkl" % name)
        subprocess.check_call([sys.executable, os.path.abspath(__file__), "--child", path, outfile], env=env, cwd=path)
        with open(outfile, "rb") as f:
            outs.append(pickle.load(f))
    (file_o, res_o), (file_e, res_e) = outs
    assert file_o.startswith(os.path.realpath(tmp)), file_o
    assert file_e.startswith(os.path.realpath(worktree)), file_e
    assert file_o != file_e
    ndiff = subprocess.call("git diff --quiet HEAD -- eqsig", shell=True, cwd=worktree)
    if ndiff == 0 and not subprocess.check_output("git status --porcelain -- eqsig", shell=True, cwd=worktree).strip():
        print("WARNING: worktree identical to HEAD - the twin is not applied")
    bad = 0
    if len(res_o) != len(res_e):
        print("different number of observations", len(res_o), len(res_e))
        bad += 1
    msg_only = 0
    for (ko, vo), (ke, ve) in zip(res_o, res_e):
        if ko == ke and vo != ve and strip_messages(vo) == strip_messages(ve):
            # an INVALID input (outside the property's domain, e.g. a python list times an integer dt, or a 2-D
            # record with trap=False) rejected with the same exception type but another wording
            msg_only += 1
            continue
        if ko != ke or vo != ve:
            bad += 1
            if bad <= 15:
                print("MISMATCH at", ko, ke)
                print("   orig:", str(vo)[:300])
                print("   edit:", str(ve)[:300])
    nexc = sum(1 for k, v in res_o if isinstance(v, tuple) and len(v) == 2 and isinstance(v[0], tuple)
               and v[0] and v[0][0] == "exception")
    print("focus: %s" % FOCUS)
    print("compared %d observations (%d of them exceptions on invalid inputs, %d with same type but different text); "
          "mismatches: %d" % (len(res_o), nexc, msg_only, bad))
    import shutil
    shutil.rmtree(tmp, ignore_errors=True)
    sys.exit(1 if bad else 0)


if __name__ == "__main__":
    if len(sys.argv) >= 4 and sys.argv[1] == "--child":
        child(sys.argv[2], sys.argv[3])
    else:
        main()

"""
Equivalence program for the C06 twin (Fourier amplitude spectrum code).

Run with the edit applied and cwd = the worktree:
    cd <worktree> && PYTHONPATH=<worktree> /venv/bin/python out/equiv2.py

The original package is taken from git (`git archive HEAD eqsig`) into a temporary
directory.  The same deterministic battery of cases is run in two subprocesses (one
importing the original, one importing the edited package) and the pickled results
are compared here.  Exit status 0 iff everything matches.
"""
import io
import os
import pickle
import subprocess
import sys
import tarfile
import tempfile

RTOL = 1e-12


# ----------------------------------------------------------------------------------------
# worker
# ----------------------------------------------------------------------------------------

def canon(obj):
    """Turn a result into something picklable and comparable."""
    import numpy as np
    if isinstance(obj, np.ndarray):
        return ('nd', str(obj.dtype), obj.shape, np.ascontiguousarray(obj).copy())
    if isinstance(obj, np.generic):
        return ('npscalar', str(obj.dtype), np.array(obj))
    if isinstance(obj, (tuple, list)):
        return (type(obj).__name__, [canon(o) for o in obj])
    if isinstance(obj, (int, float, complex, str, bool, type(None))):
        return ('py', type(obj).__name__, obj)
    if type(obj).__name__ in ('Signal', 'AccSignal'):
        return ('sigobj', type(obj).__name__, canon(obj.values), canon(obj.dt), canon(obj.npts), canon(obj.label))
    return ('other', type(obj).__name__, repr(obj))


def attempt(fn, *args, **kwargs):
    try:
        return ('ok', canon(fn(*args, **kwargs)))
    except Exception as e:  # noqa
        return ('exc', type(e).__name__, str(e))


def worker(pkg_dir, out_path):
    sys.path.insert(0, pkg_dir)
    import warnings
    warnings.simplefilter('ignore')
    import numpy as np
    np.seterr(all='ignore')
    from types import SimpleNamespace
    import eqsig
    from eqsig.fns import frequency as fq
    from eqsig import im
    assert os.path.abspath(eqsig.__file__).startswith(os.path.abspath(pkg_dir)), (eqsig.__file__, pkg_dir)

    rng = np.random.RandomState(20260928)
    res = []

    def rec(tag, r):
        res.append((tag, r))

    def make_values(npts, kind):
        t = np.arange(npts)
        if kind == 'normal':
            return rng.standard_normal(npts)
        if kind == 'int64':
            return rng.randint(-50, 50, size=npts).astype(np.int64)
        if kind == 'int32':
            return rng.randint(-5, 5, size=npts).astype(np.int32)
        if kind == 'float32':
            return rng.standard_normal(npts).astype(np.float32)
        if kind == 'list':
            return [float(x) for x in rng.standard_normal(npts)]
        if kind == 'intlist':
            return [int(x) for x in rng.randint(-9, 9, size=npts)]
        if kind == 'sine':
            f = rng.uniform(0.02, 0.45)
            ph = rng.uniform(0, 2 * np.pi)
            return np.sin(2 * np.pi * f * t + ph) + 0.1 * rng.standard_normal(npts)
        if kind == 'two_sines':
            return np.sin(0.3 * t + 1.0) + np.sin(0.9 * t + 2.5)
        if kind == 'zeros':
            return np.zeros(npts)
        if kind == 'trail0':
            v = rng.standard_normal(npts)
            v[npts // 2:] = 0
            return v
        if kind == 'const':
            return np.ones(npts) * 3
        if kind == 'nan':
            v = rng.standard_normal(npts)
            v[rng.randint(npts)] = np.nan
            return v
        if kind == 'complex':
            return rng.standard_normal(npts) + 1j * rng.standard_normal(npts)
        if kind == 'tuple':
            return tuple(float(x) for x in rng.standard_normal(npts))
        raise ValueError(kind)

    kinds = ['normal', 'int64', 'int32', 'float32', 'list', 'intlist', 'sine', 'two_sines', 'zeros', 'trail0',
             'const', 'nan', 'complex', 'tuple']
    dts = [0.01, 0.005, 1.0, 1, 0.02, 1. / 3, np.float32(0.01), np.float64(0.1), 2.5, 1e-4, 0.0]
    lengths = list(range(1, 70)) + [96, 100, 127, 128, 129, 255, 256, 257, 500, 1000, 1023, 1024, 1025, 4684]

    def mk_sig(cls_id, values, dt):
        if cls_id == 0:
            return eqsig.Signal(values, dt)
        if cls_id == 1:
            return eqsig.AccSignal(values, dt)
        if cls_id == 2:
            return eqsig.single.Signal(values, dt, label='zz', smooth_freq_range=(0.2, 20))
        v = values
        return SimpleNamespace(values=v, dt=dt, npts=len(v))

    # ------------------------------------------------------------------ 1. array level
    case = 0
    for npts in lengths:
        for rep in range(3 if npts < 300 else 1):
            kind = kinds[case % len(kinds)]
            dt = dts[(case // 3) % len(dts)]
            cls_id = case % 4
            case += 1
            values = make_values(npts, kind)
            if cls_id == 3 and kind in ('list', 'intlist', 'tuple'):
                pass  # duck-typed signal with raw python sequences
            tag = 'arr[%d,%s,%r,%d]' % (npts, kind, dt, cls_id)
            sig = attempt(mk_sig, cls_id, values, dt)
            if sig[0] != 'ok':
                rec(tag + 'ctor', sig)
                continue
            sig = mk_sig(cls_id, values, dt)
            before = canon(np.array(sig.values))
            rec(tag + 'gen', attempt(fq.generate_fa_spectrum, sig))
            for n_pad in (False, True, 0, 1, None, 'yes', ''):
                rec(tag + 'gen%r' % (n_pad,), attempt(fq.generate_fa_spectrum, sig, n_pad=n_pad))
            rec(tag + 'genpos', attempt(fq.generate_fa_spectrum, sig, False))
            rec(tag + 'calc', attempt(fq.calc_fa_spectrum, sig))
            n_opts = [npts, npts - 1, npts + 3, 1, 2, 3, 5, 64, 2 * npts, 2 * npts + 1, np.int64(16), 0, -1, 2.5,
                      8.0, '8', True]
            for n in n_opts:
                rec(tag + 'calc_n%r' % (n,), attempt(fq.calc_fa_spectrum, sig, n=n))
            for p2 in (0, 1, 2, 3, -1, -2, -40, 1.0, 0.5, 1.9, np.int64(2), True, False, 'a', [1]):
                rec(tag + 'calc_p%r' % (p2,), attempt(fq.calc_fa_spectrum, sig, p2_plus=p2))
            rec(tag + 'calc_np', attempt(fq.calc_fa_spectrum, sig, n=npts + 7, p2_plus=2))
            rec(tag + 'calc_np2', attempt(fq.calc_fa_spectrum, sig, npts + 2, 1))
            rec(tag + 'calc_np3', attempt(fq.calc_fa_spectrum, sig, None, 1))
            rec(tag + 'calc_np4', attempt(fq.calc_fa_spectrum, sig, 0, 1))
            rec(tag + 'after', ('ok', canon(np.array(sig.values))))
            assert before[1:3] == canon(np.array(sig.values))[1:3]
            if cls_id != 3:
                rec(tag + 'maxfa', attempt(im.max_fa_period, sig))
                rec(tag + 'objfa', attempt(lambda: (sig.fa_spectrum, sig.fa_freqs, sig.fa_frequencies,
                                                    sig.fa_spectrum_abs)))
                for k in (0, 1, 2, 4, 0.5, -1):
                    rec(tag + 'mom%r' % k, attempt(fq.calc_fourier_moment, sig, k))
                rec(tag + 'boore', attempt(fq.get_bandwidth_boore_2003, sig))
                if npts <= 129:
                    rec(tag + 'smooth', attempt(lambda: sig.smooth_fa_spectrum))

    # duck-typed signals: bad attributes, 2-D values, missing attributes
    for shape in [(4, 6), (8, 8), (3, 1), (1, 5), (16, 2)]:
        v = rng.standard_normal(shape)
        ns = SimpleNamespace(values=v, dt=0.1, npts=shape[0])
        tag = 'duck2d%r' % (shape,)
        rec(tag + 'gen', attempt(fq.generate_fa_spectrum, ns))
        rec(tag + 'genF', attempt(fq.generate_fa_spectrum, ns, n_pad=False))
        rec(tag + 'calc', attempt(fq.calc_fa_spectrum, ns))
        rec(tag + 'calcn', attempt(fq.calc_fa_spectrum, ns, n=shape[0]))
        rec(tag + 'calcn2', attempt(fq.calc_fa_spectrum, ns, n=shape[1]))
        rec(tag + 'calcp', attempt(fq.calc_fa_spectrum, ns, p2_plus=1))
    for ns in [SimpleNamespace(values=[1., 2., 3.], dt=0.1), SimpleNamespace(values=[1., 2., 3.], npts=3),
               SimpleNamespace(npts=3, dt=0.1), SimpleNamespace(values=[1., 2., 3.], npts=0, dt=0.1),
               SimpleNamespace(values=[1., 2., 3.], npts=7, dt=0.1), SimpleNamespace(values=[], npts=0, dt=0.1),
               SimpleNamespace(values=[1., 2., 3.], npts=-3, dt=0.1), SimpleNamespace(values=[1., 2.], npts=2, dt='x'),
               SimpleNamespace(values=[1., 2., 3., 4.], npts=4.0, dt=0.1), SimpleNamespace(values='abc', npts=3, dt=1)]:
        tag = 'duckbad%r' % (sorted(ns.__dict__.items()),)
        rec(tag + 'gen', attempt(fq.generate_fa_spectrum, ns))
        rec(tag + 'genF', attempt(fq.generate_fa_spectrum, ns, n_pad=False))
        rec(tag + 'calc', attempt(fq.calc_fa_spectrum, ns))
        rec(tag + 'calcn', attempt(fq.calc_fa_spectrum, ns, n=4))
        rec(tag + 'calcp', attempt(fq.calc_fa_spectrum, ns, p2_plus=1))

    # ------------------------------------------------------------------ 2. object histories
    def snap(s):
        return attempt(lambda: (s.fa_spectrum, s.fa_freqs, s.fa_frequencies, s.fa_spectrum_abs, s.values, s.npts,
                                s.dt, s._cached_fa, s.time))

    for h in range(400):
        npts = int(rng.choice([2, 3, 4, 5, 7, 8, 9, 15, 16, 17, 31, 33, 50, 64, 100, 130]))
        kind = kinds[h % 11]
        dt = dts[h % 9]
        cls_id = h % 2
        s = mk_sig(cls_id, make_values(npts, kind), dt)
        tag = 'hist%d' % h
        nops = int(rng.randint(3, 10))
        for j in range(nops):
            op = int(rng.randint(0, 12))
            t2 = tag + '.%d.op%d' % (j, op)
            if op == 0:
                rec(t2, snap(s))
            elif op == 1:
                p2 = [0, 1, 2, 3, 1.0, -1, None, 'q'][int(rng.randint(0, 8))]
                rec(t2 + 'call', attempt(s.gen_fa_spectrum, p2_plus=p2))
                rec(t2, snap(s))
            elif op == 2:
                n = [s.npts, s.npts + 1, s.npts - 1, 2, 3, 1, 128, 7, 0, -2, 4.0, 2 * s.npts][int(rng.randint(0, 12))]
                rec(t2 + 'call', attempt(s.gen_fa_spectrum, n=n))
                rec(t2, snap(s))
            elif op == 3:
                rec(t2 + 'call', attempt(s.gen_fa_spectrum, int(rng.randint(0, 4)), [None, 10, 32][int(rng.randint(0, 3))]))
                rec(t2, snap(s))
            elif op == 4:
                newn = int(rng.choice([2, 3, 6, 8, 13, 32, 40]))
                rec(t2 + 'call', attempt(s.reset_values, make_values(newn, kinds[int(rng.randint(0, 11))])))
                rec(t2, snap(s))
            elif op == 5:
                s.clear_cache()
                rec(t2, snap(s))
            elif op == 6:
                rec(t2 + 'call', attempt(s.generate_fa_spectrum))
                rec(t2, snap(s))
            elif op == 7:
                rec(t2, attempt(im.max_fa_period, s))
            elif op == 8:
                rec(t2 + 'a', attempt(fq.calc_fa_spectrum, s, p2_plus=int(rng.randint(0, 4))))
                rec(t2 + 'b', attempt(fq.generate_fa_spectrum, s))
                rec(t2, snap(s))
            elif op == 9:
                # private state after a failed / successful generation is seen through the properties only
                rec(t2 + 'call', attempt(s.gen_fa_spectrum, n=int(rng.randint(1, 50))))
                rec(t2 + 'm', attempt(fq.calc_fourier_moment, s, 2))
                rec(t2 + 'b', attempt(fq.get_bandwidth_boore_2003, s))
            elif op == 10:
                # mutate the returned arrays: cached object must behave the same afterwards
                sp = s.fa_spectrum
                if len(sp):
                    sp[0] = 5.0
                fr = s.fa_freqs
                if len(fr):
                    fr[-1] = 9.0
                rec(t2, snap(s))
            elif op == 11:
                if cls_id == 1:
                    rec(t2 + 'sm', attempt(lambda: s.smooth_fa_spectrum))
                rec(t2 + 'agree', attempt(lambda: (fq.calc_fa_spectrum(s, p2_plus=0), fq.generate_fa_spectrum(s))))

    # ------------------------------------------------------------------ 3. inverse helpers
    stypes = ['signal', 'acc', 'accsignal', None, 'Signal', 5, ['signal'], '', np.str_('signal')]
    for c in range(600):
        m = int(rng.choice(list(range(0, 40)) + [64, 100, 128, 513]))
        form = c % 8
        fas = rng.standard_normal(m) + 1j * rng.standard_normal(m)
        if form == 1:
            fas = list(fas)
        elif form == 2:
            fas = fas.astype(np.complex64)
        elif form == 3:
            fas = fas.real.copy()
        elif form == 4:
            fas = rng.randint(-5, 5, size=m)
        elif form == 5:
            fas = tuple(fas)
        elif form == 6 and m > 0:
            src = eqsig.Signal(rng.standard_normal(2 * m), 0.01)
            fas = src.fa_spectrum
        elif form == 7:
            fas = [float(x) for x in fas.real]
        dt = dts[c % len(dts)]
        tag = 'inv%d[%d,%d,%r]' % (c, m, form, dt)
        keep = canon(np.array(fas))
        rec(tag + 'vals', attempt(fq.fas2values, fas, dt))
        st = stypes[c % len(stypes)]
        rec(tag + 'sig%r' % (st,), attempt(fq.fas2signal, fas, dt, stype=st))
        rec(tag + 'sigdef', attempt(fq.fas2signal, fas, dt))
        rec(tag + 'sigpos', attempt(fq.fas2signal, fas, dt, 'other'))
        rec(tag + 'argafter', ('ok', canon(np.array(fas))))
        assert keep[1:3] == canon(np.array(fas))[1:3]
    for bad in [None, 3.0, np.zeros((4, 3)), np.zeros((3, 1)), np.zeros((2, 1)), 'abcd', [[1, 2], [3, 4]]]:
        tag = 'invbad%r' % (bad,)
        rec(tag + 'vals', attempt(fq.fas2values, bad, 0.1))
        rec(tag + 'sig', attempt(fq.fas2signal, bad, 0.1))
        rec(tag + 'acc', attempt(fq.fas2signal, bad, 0.1, stype='acc'))
    for baddt in ['x', None, [1.0], np.array([1., 2.]), 1j, 0]:
        tag = 'invbaddt%r' % (baddt,)
        fas = np.arange(6) + 1j
        rec(tag + 'vals', attempt(fq.fas2values, fas, baddt))
        rec(tag + 'sig', attempt(fq.fas2signal, fas, baddt))

    # round trips
    for c in range(150):
        npts = int(rng.choice([2, 4, 8, 16, 32, 64, 6, 10, 14, 100, 37]))
        dt = [0.01, 0.1, 1.0, 0.004][c % 4]
        s = mk_sig(c % 2, make_values(npts, kinds[c % 7]), dt)
        tag = 'rt%d' % c
        rec(tag + 'a', attempt(lambda: fq.fas2values(s.fa_spectrum, s.dt)))
        rec(tag + 'b', attempt(lambda: fq.fas2signal(fq.calc_fa_spectrum(s, p2_plus=c % 3)[0], s.dt, 'acc' if c % 3 else 'signal')))
        rec(tag + 'c', attempt(lambda: im.max_fa_period(fq.fas2signal(s.fa_spectrum, s.dt))))

    # ------------------------------------------------------------------ 4. dominant period
    for c in range(300):
        npts = int(rng.randint(2, 400))
        dt = [0.01, 0.02, 0.005, 1.0][c % 4]
        t = np.arange(npts) * dt
        f0 = rng.uniform(0.2, 0.4 / dt)
        ph = rng.uniform(0, 2 * np.pi)
        v = np.sin(2 * np.pi * f0 * t + ph) + 0.3 * np.sin(2 * np.pi * 0.37 * f0 * t + 2 * ph)
        if c % 5 == 0:
            v = np.round(v * 10).astype(int)
        s = mk_sig(c % 2, v, dt)
        if c % 3 == 0:
            s.gen_fa_spectrum(p2_plus=c % 4)
        elif c % 3 == 1:
            s.gen_fa_spectrum(n=npts + c % 7)
        rec('dom%d' % c, attempt(im.max_fa_period, s))
        ns = SimpleNamespace(fa_spectrum=s.fa_spectrum, fa_frequencies=s.fa_freqs)
        rec('domduck%d' % c, attempt(im.max_fa_period, ns))
        ns2 = SimpleNamespace(fa_spectrum=list(s.fa_spectrum), fa_frequencies=list(s.fa_freqs))
        rec('domduckl%d' % c, attempt(im.max_fa_period, ns2))
    rec('domempty', attempt(im.max_fa_period, SimpleNamespace(fa_spectrum=np.array([]), fa_frequencies=np.array([]))))
    rec('dombad', attempt(im.max_fa_period, SimpleNamespace(fa_spectrum=np.array([1, 2]))))
    rec('dom2d', attempt(im.max_fa_period, SimpleNamespace(fa_spectrum=np.array([[1, 5], [7j, 2]]),
                                                          fa_frequencies=np.array([1., 2., 3., 4.]))))

    with open(out_path, 'wb') as f:
        pickle.dump(res, f, protocol=4)


# ----------------------------------------------------------------------------------------
# comparison
# ----------------------------------------------------------------------------------------

class Stats(object):
    exact = 0
    close = 0


def same(a, b, stats):
    import numpy as np
    if type(a) is not type(b):
        return False
    if isinstance(a, np.ndarray):
        if a.dtype != b.dtype or a.shape != b.shape:
            return False
        if a.tobytes() == b.tobytes():
            stats.exact += 1
            return True
        if a.dtype.kind not in 'fc':
            return False
        if a.dtype.kind == 'c':
            ok = same(a.real.copy(), b.real.copy(), Stats()) and same(a.imag.copy(), b.imag.copy(), Stats())
            if ok:
                stats.close += 1
            return ok
        nan_a, nan_b = np.isnan(a), np.isnan(b)
        if not np.array_equal(nan_a, nan_b):
            return False
        inf_a = np.isinf(a)
        if not np.array_equal(inf_a, np.isinf(b)) or not np.array_equal(a[inf_a], b[inf_a]):
            return False
        fin = ~(nan_a | inf_a)
        x, y = a[fin].astype(float), b[fin].astype(float)
        if x.size and not np.all(np.abs(x - y) <= RTOL * np.maximum(np.abs(x), np.abs(y))):
            return False
        stats.close += 1
        return True
    if isinstance(a, (tuple, list)):
        return len(a) == len(b) and all(same(x, y, stats) for x, y in zip(a, b))
    if isinstance(a, float) and a != a:
        return b != b
    return a == b


def main():
    cwd = os.getcwd()
    me = os.path.abspath(__file__)
    tmp = tempfile.mkdtemp(prefix='c06_equiv_')
    try:
        data = subprocess.check_output(['git', 'archive', 'HEAD', 'eqsig'], cwd=cwd)
        orig_dir = os.path.join(tmp, 'orig')
        os.mkdir(orig_dir)
        tarfile.open(fileobj=io.BytesIO(data)).extractall(orig_dir)
        outs = []
        procs = []
        for name, pkg_dir in (('orig', orig_dir), ('edit', cwd)):
            out = os.path.join(tmp, name + '.pkl')
            env = dict(os.environ)
            env.pop('PYTHONPATH', None)
            env['PYTHONHASHSEED'] = '0'
            env['PYTHONDONTWRITEBYTECODE'] = '1'
            procs.append(subprocess.Popen([sys.executable, me, '--worker', pkg_dir, out], env=env, cwd=tmp))
            outs.append(out)
        for p in procs:
            if p.wait() != 0:
                print('worker failed')
                return 2
        res = [pickle.load(open(o, 'rb')) for o in outs]
    finally:
        import shutil
        shutil.rmtree(tmp, ignore_errors=True)
    a, b = res
    if len(a) != len(b):
        print('different number of results', len(a), len(b))
        return 1
    stats = Stats()
    bad = 0
    n_exc = 0
    for (ta, ra), (tb, rb) in zip(a, b):
        if ta != tb or not same(ra, rb, stats):
            bad += 1
            if bad <= 15:
                print('MISMATCH', ta, tb)
                print('   orig:', repr(ra)[:300])
                print('   edit:', repr(rb)[:300])
        if ra[0] == 'exc':
            n_exc += 1
    print('%d cases compared (%d raising), %d arrays bit-identical, %d within %g, %d mismatches'
          % (len(a), n_exc, stats.exact, stats.close, RTOL, bad))
    return 1 if bad else 0


if __name__ == '__main__':
    if len(sys.argv) > 1 and sys.argv[1] == '--worker':
        worker(sys.argv[2], sys.argv[3])
    else:
        sys.exit(main())

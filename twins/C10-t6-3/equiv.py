"""
Equivalence program for twin 3 (property C10: significant / bracketed durations).

Run with the edit applied and cwd = the worktree:
    cd <worktree> && PYTHONPATH=<worktree> /venv/bin/python out/equiv3.py

The ORIGINAL package is taken from git (`git archive HEAD eqsig`) into a temporary directory.
The same deterministic battery of cases is executed in two separate subprocesses, one importing the
original package and one importing the edited package (from os.getcwd()); every outcome (returned value
with its exact type/dtype/bytes, exception type and message, warnings, mutation of the arguments, object
state seen through the public attributes) is compared exactly.  Exit status 0 iff everything matches.
"""
import os
import sys
import io
import pickle
import subprocess
import tarfile
import tempfile

TWIN = 3


# ----------------------------------------------------------------------------------------------------
# worker: runs the battery against whichever `eqsig` is first on sys.path
# ----------------------------------------------------------------------------------------------------

def enc(v, depth=0):
    """Encode a value exactly (type, dtype, raw bytes) so that it can be compared between processes"""
    import numpy as np
    if isinstance(v, np.generic):  # before float: np.float64 is a subclass of float
        return ('npscalar', type(v).__name__, str(v.dtype), v.tobytes())
    if v is None or isinstance(v, (bool, str)):
        return ('py', type(v).__name__, v)
    if isinstance(v, int):
        return ('py', type(v).__name__, v)
    if isinstance(v, float):
        return ('py', type(v).__name__, v.hex())
    if isinstance(v, np.ndarray):
        return ('ndarray', str(v.dtype), v.shape, np.ascontiguousarray(v).tobytes() if v.dtype != object else repr(v))
    if isinstance(v, (tuple, list)) and depth < 4:
        return (type(v).__name__, [enc(x, depth + 1) for x in v])
    if isinstance(v, dict) and depth < 4:
        return ('dict', sorted((str(k), enc(x, depth + 1)) for k, x in v.items()))
    return ('other', type(v).__name__, repr(v))


def worker(out_path):
    import warnings
    import types
    import numpy as np
    import eqsig
    from eqsig import im as eim

    here = os.path.dirname(os.path.abspath(eqsig.__file__))
    results = []

    def wenc(wlist):
        out = []
        for w in wlist:
            fn = os.path.basename(w.filename)
            inside = os.path.abspath(w.filename).startswith(here)
            out.append((w.category.__name__, str(w.message), fn, None if inside else w.lineno))
        return out

    def run(tag, fn, *args, **kwargs):
        """Run one call, record outcome + warnings"""
        with warnings.catch_warnings(record=True) as wl:
            warnings.simplefilter('always')
            try:
                r = ('ok', enc(fn(*args, **kwargs)))
            except BaseException as e:  # noqa
                r = ('exc', type(e).__name__, str(e))
        results.append((tag, r, wenc(wl)))
        return r

    STATE_ATTRS = ['t_b01', 't_b05', 't_b10', 'a_rms01', 'a_rms05', 'a_rms10', 't_595', 'sd_start', 'sd_end',
                   'arias_intensity', 'cav', 'npts', 'dt']

    def state(tag, a):
        d = {}
        for k in STATE_ATTRS:
            with warnings.catch_warnings():
                warnings.simplefilter('ignore')
                try:
                    d[k] = enc(getattr(a, k, '<missing>'))
                except BaseException as e:  # noqa
                    d[k] = ('exc', type(e).__name__, str(e))
        d['values'] = enc(a.values)
        d['cached'] = enc(dict(getattr(a, '_cached_params', {})))
        results.append((tag + ':state', d, []))

    rng = np.random.RandomState(20240610 + TWIN)

    # ------------------------------------------------------------------ record generator
    def make_record(i):
        kind = i % 16
        n = int(rng.choice([1, 2, 3, 5, 8, 13, 20, 33, 50, 64, 100, 150, 257, 400]))
        if kind == 0:
            v = rng.randn(n)
        elif kind == 1:
            v = rng.randn(n) * np.exp(-np.linspace(0, 4, n)) * 3.0
        elif kind == 2:
            k = int(rng.randint(0, 6))
            v = np.concatenate([np.zeros(k), rng.randn(n), np.zeros(int(rng.randint(0, 6)))])
        elif kind == 3:
            v = rng.randint(-5, 6, size=n).astype(np.int64)
        elif kind == 4:
            v = rng.randint(-3, 4, size=n).astype(np.int32)
        elif kind == 5:
            v = rng.randn(n).astype(np.float32)
        elif kind == 6:
            v = np.zeros(n)
        elif kind == 7:
            v = np.ones(n) * float(rng.choice([1.0, -2.5, 0.1]))
        elif kind == 8:
            v = np.zeros(n)
            v[int(rng.randint(0, n))] = float(rng.choice([1.0, -3.0, 1e-3]))
        elif kind == 9:
            v = np.round(rng.randn(n) * 2) / 2.0  # many ties / plateaus
        elif kind == 10:
            v = rng.randn(n) * float(rng.choice([1e-6, 1e6, 1e150, 1e-150]))
        elif kind == 11:
            v = rng.randn(n)
            if n > 2 and rng.rand() < 0.5:
                v[int(rng.randint(0, n))] = np.nan
            elif n > 2:
                v[int(rng.randint(0, n))] = np.inf
        elif kind == 12:
            v = np.sin(np.linspace(0, 12, n)) * np.linspace(0, 1, n)
        elif kind == 13:
            v = rng.randint(-100, 101, size=n).astype(np.int8)  # squares overflow in int8
        elif kind == 14:
            v = rng.randn(n) * 0.05  # small amplitude: below 0.01 g .. 0.1 g
        else:
            v = np.repeat(rng.randn(max(n // 4, 1)), 4)
        return v

    DTS = [0.01, 0.005, 0.1, 1.0, 1.0 / 3.0, 0.02, 1, 2, np.float64(0.025), np.float32(0.02), 1e-3, 7.3]

    def fractions(j):
        m = j % 14
        if m == 0:
            return ()
        if m == 1:
            return (0.05, 0.75)
        if m == 2:
            return (0.0, 1.0)
        if m == 3:
            return (0, 1)
        if m == 4:
            return (0.2, 0.8)
        if m == 5:
            return (0.8, 0.2)  # reversed: nothing in between
        if m == 6:
            return (0.5, 0.5)
        if m == 7:
            return (np.float64(0.1), np.float32(0.9))
        if m == 8:
            return (1e-12, 1 - 1e-12)
        if m == 9:
            return (0.05,)
        a, b = sorted(rng.rand(2))
        return (float(a), float(b))

    SES = [False, True, 0, 1, None, 'yes', np.bool_(True), np.bool_(False)]

    # ------------------------------------------------------------------ 1. calc_sig_dur_vals
    for i in range(2600):
        v = make_record(i)
        dt = DTS[int(rng.randint(0, len(DTS)))]
        fr = fractions(int(rng.randint(0, 14)))
        se = SES[int(rng.randint(0, len(SES)))] if rng.rand() < 0.8 else False
        before = v.copy()
        if rng.rand() < 0.5:
            kw = {}
            if len(fr) > 0:
                kw['start'] = fr[0]
            if len(fr) > 1:
                kw['end'] = fr[1]
            kw['se'] = se
            run('sdv%d' % i, eim.calc_sig_dur_vals, v, dt, **kw)
        else:
            args = list(fr)
            if len(args) == 2:
                args.append(se)
                run('sdv%d' % i, eim.calc_sig_dur_vals, v, dt, *args)
            else:
                run('sdv%d' % i, eim.calc_sig_dur_vals, v, dt, *args, se=se)
        results.append(('sdv%d:mut' % i, enc(v), [('same', bool(np.array_equal(v, before, equal_nan=True)))]))
        if i % 5 == 0:
            # property-style relations evaluated inside each version: scaling, prepending zeros, widening
            k = int(rng.randint(1, 5))
            run('sdv%d:scaled' % i, eim.calc_sig_dur_vals, v * 3, dt, se=True)
            run('sdv%d:shift' % i, eim.calc_sig_dur_vals, np.concatenate([np.zeros(k, dtype=v.dtype), v]), dt, se=True)
            run('sdv%d:wide' % i, eim.calc_sig_dur_vals, v, dt, start=0.01, end=0.99, se=True)

    # unusual forms of the record argument
    odd_records = [
        [0.1, -0.5, 0.7, 0.2, -0.1], (0.1, -0.5, 0.7), 3.0, np.float64(2.0), np.array(2.0), np.array([]),
        np.array([], dtype=int), np.arange(12.0).reshape(3, 4), np.arange(12).reshape(3, 4), np.arange(8.0).reshape(2, 2, 2),
        np.array([1 + 1j, 2 - 1j, 0.5j]), np.array([True, False, True, True]), np.array([1, 2, 3], dtype=object),
        np.arange(10.0)[::-1], np.arange(20.0)[::2], None, 'abc', np.ma.masked_array([1.0, 2.0, 3.0, 4.0], mask=[0, 1, 0, 0]),
        np.array([1.0, 2.0, 3.0]).view(np.ndarray), np.linspace(-1, 1, 9).astype(np.float16), np.array([2 ** 31, 2 ** 31, 5], dtype=np.int64),
        np.array([2 ** 62, 2 ** 62, 2 ** 62], dtype=np.int64), np.array([200, 200, 100], dtype=np.uint8),
    ]
    for i, rec in enumerate(odd_records):
        for dt in (0.01, 1, None, 'x', np.array([0.1, 0.2]), [0.5]):
            for se in (False, True):
                run('sdv_odd%d' % i, eim.calc_sig_dur_vals, rec, dt, se=se)
                run('sdv_odd%d_b' % i, eim.calc_sig_dur_vals, rec, dt, 0.1, 0.6, se)
    for st, en in [(None, 0.9), (0.1, None), ('a', 0.9), (0.1, 'b'), ([0.1], 0.9), (np.array([0.1, 0.2]), 0.9),
                   (0.1, np.array([0.5, 0.9, 0.95])), (-1.0, 2.0), (np.nan, 0.9), (0.1, np.inf), (-np.inf, np.inf)]:
        for se in (False, True):
            run('sdv_oddfrac', eim.calc_sig_dur_vals, np.array([0.1, -0.5, 0.7, 0.2, -0.1]), 0.1, st, en, se)
            run('sdv_oddfrac3', eim.calc_sig_dur_vals, np.array([0.3, -0.5, 0.7]), 0.1, start=st, end=en, se=se)

    # ------------------------------------------------------------------ 2. calc_sig_dur / calc_brac_dur on signals
    def cum_sq(a):
        return np.cumsum(a.values ** 2)

    def cum_abs(a):
        return np.cumsum(np.abs(a.values))

    def signed(a):
        return a.values  # not monotone

    def as_list(a):
        return list(np.cumsum(a.values ** 2))

    def as_int(a):
        return np.cumsum(np.abs(np.round(a.values * 10)).astype(int))

    def two_d(a):
        c = np.cumsum(a.values ** 2)
        return np.vstack([c, 2 * c]).T

    def raises(a):
        raise RuntimeError('measure failed')

    def mutating(a):
        c = np.cumsum(a.values ** 2)
        c.setflags(write=False)
        return c

    MEASURES = [None, None, None, eim.calc_arias_intensity, eim.calc_cav, eim.calc_isv, cum_sq, cum_abs, signed, as_list,
                as_int, two_d, raises, mutating, eim.calc_integral_of_abs_acceleration, eim.calc_unit_kinetic_energy]

    def thresholds(v):
        av = np.abs(np.asarray(v, dtype=float)) if np.asarray(v).dtype != object else np.array([1.0])
        av = av[np.isfinite(av)]
        if av.size == 0:
            av = np.array([0.0])
        out = [0, 0.0, float(av.max()), float(av.max()) * 2 + 1, -1.0, float(np.median(av)), float(av[int(rng.randint(0, av.size))]),
               float(av.min()), np.float64(av.mean()), 1e-300, float(np.percentile(av, 90)), np.nextafter(float(av.max()), 0.0)]
        if np.asarray(v).dtype.kind in 'iu':
            out += [1, 2, int(av.max()), np.int64(1)]
        return out

    def make_sig(v, dt, j):
        m = j % 6
        with warnings.catch_warnings():
            warnings.simplefilter('ignore')
            if m == 0:
                return eqsig.AccSignal(v, dt)
            if m == 1:
                return eqsig.AccSignal(list(v), dt, label='rec%d' % j)
            if m == 2:
                return eqsig.AccSignal(tuple(v.tolist()), dt)
            if m == 3:
                return eqsig.Signal(v, dt)
            if m == 4:
                return eqsig.AccSignal(v.copy(), dt, smooth_freq_range=(0.2, 20))
            return eqsig.AccSignal(v, dt, response_times=(0.1, 1.0))

    for i in range(1500):
        v = make_record(i + 3)
        dt = DTS[int(rng.randint(0, len(DTS)))]
        try:
            a = make_sig(v, dt, i)
        except BaseException as e:  # noqa
            results.append(('sig%d:ctor' % i, ('exc', type(e).__name__, str(e)), []))
            continue
        before = a.values.copy()
        # significant duration
        for rep in range(2):
            fr = fractions(int(rng.randint(0, 14)))
            se = SES[int(rng.randint(0, len(SES)))] if rng.rand() < 0.8 else False
            meas = MEASURES[int(rng.randint(0, len(MEASURES)))]
            if isinstance(a, eqsig.AccSignal) is False and meas in (eim.calc_isv, eim.calc_unit_kinetic_energy):
                meas = None
            kw = {'se': se}
            if len(fr) > 0:
                kw['start'] = fr[0]
            if len(fr) > 1:
                kw['end'] = fr[1]
            if meas is not None or rng.rand() < 0.3:
                kw['im'] = meas
            if rng.rand() < 0.25 and len(fr) == 2:
                run('sig%d:sd%d' % (i, rep), eim.calc_sig_dur, a, fr[0], fr[1], meas, se)
            else:
                run('sig%d:sd%d' % (i, rep), eim.calc_sig_dur, a, **kw)
        # bracketed duration
        ths = thresholds(a.values)
        for rep in range(3):
            th = ths[int(rng.randint(0, len(ths)))]
            se = SES[int(rng.randint(0, len(SES)))]
            if rng.rand() < 0.5:
                run('sig%d:bd%d' % (i, rep), eim.calc_brac_dur, a, th, se)
            elif rng.rand() < 0.5:
                run('sig%d:bd%d' % (i, rep), eim.calc_brac_dur, a, threshold=th, se=se)
            else:
                run('sig%d:bd%d' % (i, rep), eim.calc_brac_dur, a, th)
        if i % 4 == 0:
            # relations of the property, evaluated inside each version
            k = int(rng.randint(1, 5))
            with warnings.catch_warnings():
                warnings.simplefilter('ignore')
                try:
                    a3 = eqsig.AccSignal(a.values * 3, dt)
                    ak = eqsig.AccSignal(np.concatenate([np.zeros(k, dtype=a.values.dtype), a.values]), dt)
                except BaseException:  # noqa
                    a3 = ak = None
            if a3 is not None:
                th = ths[5]
                run('sig%d:rel0' % i, eim.calc_sig_dur, a3, se=True)
                run('sig%d:rel1' % i, eim.calc_sig_dur, ak, se=True)
                run('sig%d:rel2' % i, eim.calc_sig_dur, a, start=0.01, end=0.99, se=True)
                run('sig%d:rel3' % i, eim.calc_brac_dur, a3, th * 3, se=True)
                run('sig%d:rel4' % i, eim.calc_brac_dur, ak, th, se=True)
                run('sig%d:rel5' % i, eim.calc_brac_dur, a, th * 0.5)
        results.append(('sig%d:mut' % i, enc(a.values), [('same', bool(np.array_equal(a.values, before, equal_nan=True)))]))

    # threshold exactly at sample magnitudes (strict inequality), every sample of a few records
    for i in range(40):
        v = make_record(i * 7 + 1)[:24]
        dt = DTS[i % len(DTS)]
        with warnings.catch_warnings():
            warnings.simplefilter('ignore')
            a = eqsig.AccSignal(v, dt)
        for x in np.unique(np.abs(a.values)):
            for se in (False, True):
                run('exact%d' % i, eim.calc_brac_dur, a, x, se)
                if np.isfinite(x) and a.values.dtype.kind == 'f':
                    run('exact%d+' % i, eim.calc_brac_dur, a, np.nextafter(x, np.inf), se)
                    run('exact%d-' % i, eim.calc_brac_dur, a, np.nextafter(x, -np.inf), se)
        # fractions exactly at the normalised cumulative values
        c = np.cumsum(a.values ** 2)
        if c.size and np.isfinite(c[-1]) and c[-1] != 0:
            for x in np.unique(c / c[-1])[:12]:
                for y in (0.95, 1.0, float(x)):
                    run('exactfrac%d' % i, eim.calc_sig_dur_vals, a.values, dt, x, y, True)
                    run('exactfrac%d_s' % i, eim.calc_sig_dur, a, x, y, cum_sq, True)
                    run('exactfrac%d_r' % i, eim.calc_sig_dur_vals, a.values, dt, 0.0, x, True)

    # unusual thresholds / signal-like objects
    with warnings.catch_warnings():
        warnings.simplefilter('ignore')
        a = eqsig.AccSignal(np.array([0.0, 0.3, -0.8, 0.5, 0.0, -0.2, 0.05]), 0.1)
    # (a threshold that broadcasts the record to 2-D is outside the property's domain - thresholds are scalars >= 0 -
    #  and is the one place where this twin is allowed to differ: the original fails with IndexError there)
    for th in [None, 'x', [0.1], np.array(0.25), np.array([0.25]), np.full(7, 0.25), np.linspace(0, 1, 7),
               np.full(3, 0.25), np.nan, np.inf, -np.inf, True, 0.3, 0.8, 1 + 0j]:
        for se in (False, True):
            run('oddth', eim.calc_brac_dur, a, th, se)
            run('oddth_kw', eim.calc_brac_dur, a, threshold=th, se=se)
    ducks = [
        types.SimpleNamespace(values=np.array([0.0, 1.0, -2.0, 0.5]), dt=0.5, npts=4),
        types.SimpleNamespace(values=np.array([0.0, 1.0, -2.0, 0.5]), dt=1, npts=4),
        types.SimpleNamespace(values=np.array([0, 1, -2, 1]), dt=2, npts=4),
        types.SimpleNamespace(values=np.array([0.0, 1.0, -2.0, 0.5]), dt=None, npts=4),
        types.SimpleNamespace(values=np.array([]), dt=0.5, npts=0),
        types.SimpleNamespace(values=np.array([0.0, 0.0]), dt=0.5, npts=2),
        types.SimpleNamespace(values=np.array([0.0, 1.0, -2.0, 0.5])),
        types.SimpleNamespace(dt=0.5, npts=4),
        None, 3.0, np.array([0.0, 1.0, -2.0, 0.5]),
    ]
    for d in ducks:
        # calc_brac_dur is compared only on signal-like objects that are in the property's domain (values, npts and a
        # numeric dt all present, as on every eqsig.Signal) or that fail before anything is computed (no `values`)
        brac_ok = (not hasattr(d, 'values')) or (hasattr(d, 'npts') and getattr(d, 'dt', None) is not None)
        for se in (False, True):
            run('duck_sd', eim.calc_sig_dur, d, se=se)
            run('duck_sd2', eim.calc_sig_dur, d, 0.1, 0.9, cum_sq if d is not None else None, se)
            if brac_ok:
                run('duck_bd', eim.calc_brac_dur, d, 0.4, se)
                run('duck_bd0', eim.calc_brac_dur, d, 5.0, se)
    run('noargs0', eim.calc_sig_dur_vals)
    run('noargs1', eim.calc_sig_dur)
    run('noargs2', eim.calc_brac_dur)
    run('badkw0', eim.calc_sig_dur_vals, np.ones(3), 0.1, im=None)
    run('badkw1', eim.calc_sig_dur, a, dt=0.1)
    run('badkw2', eim.calc_brac_dur, a, 0.1, start=0.1)
    run('toomany0', eim.calc_sig_dur_vals, np.ones(3), 0.1, 0.05, 0.95, True, 1)
    run('toomany1', eim.calc_sig_dur, a, 0.05, 0.95, None, True, 1)
    run('toomany2', eim.calc_brac_dur, a, 0.1, True, 1)

    # ------------------------------------------------------------------ 3. histories of public operations on objects
    def op_list():
        return ['sd', 'sd_se', 'bd', 'bd_se', 'gds', 'gams', 'reset_stats', 'add_const', 'reset_values', 'rm_avg', 'dep_sd',
                'dep_bd', 'sir', 'acc_rms', 'scale', 'prepend', 'gcs', 'butter', 'time', 'add_series']

    have_trapz = hasattr(np, 'trapz')
    for i in range(320):
        # half of the histories run with np.trapz shimmed (as on NumPy < 2.4) so that the deprecated
        # generate_duration_stats gets past its rms computation; the other half with NumPy as installed
        shim = (i % 2 == 0) and not have_trapz
        if shim:
            np.trapz = np.trapezoid
        try:
            v = make_record(i + 5)
            if i % 3 == 0:
                v = v * 0.02  # below the 0.01 g level: generate_duration_stats completes without np.trapz
            dt = DTS[int(rng.randint(0, len(DTS)))]
            try:
                with warnings.catch_warnings():
                    warnings.simplefilter('ignore')
                    a = eqsig.AccSignal(v, dt)
            except BaseException as e:  # noqa
                results.append(('hist%d:ctor' % i, ('exc', type(e).__name__, str(e)), []))
                continue
            ops = op_list()
            for step in range(9):
                op = ops[int(rng.randint(0, len(ops)))]
                tag = 'hist%d.%d:%s' % (i, step, op)
                if op == 'sd':
                    run(tag, eim.calc_sig_dur, a)
                elif op == 'sd_se':
                    run(tag, eim.calc_sig_dur, a, start=0.1, end=0.8, im=MEASURES[int(rng.randint(0, 9))], se=True)
                elif op == 'bd':
                    run(tag, eim.calc_brac_dur, a, float(rng.choice([0.0, 0.01 * 9.8, 0.05 * 9.8, 0.5, 1.0])))
                elif op == 'bd_se':
                    run(tag, eim.calc_brac_dur, a, float(rng.choice([0.0, 0.01 * 9.8, 0.05 * 9.8, 0.5, 1.0])), se=True)
                elif op == 'gds':
                    run(tag, a.generate_duration_stats)
                elif op == 'gams':
                    run(tag, a.generate_all_motion_stats)
                elif op == 'gcs':
                    run(tag, a.generate_cumulative_stats)
                elif op == 'reset_stats':
                    run(tag, a.reset_all_motion_stats)
                elif op == 'add_const':
                    run(tag, a.add_constant, float(rng.choice([0.5, -0.05, 0.2])))
                elif op == 'reset_values':
                    run(tag, a.reset_values, make_record(int(rng.randint(0, 1000))))
                elif op == 'rm_avg':
                    run(tag, a.remove_average)
                elif op == 'dep_sd':
                    run(tag, eim.calc_significant_duration, a.values, a.dt)
                    run(tag + 'pkg', eqsig.calc_significant_duration, a.values, a.dt, 0.1, 0.9)
                elif op == 'dep_bd':
                    run(tag, eim.calc_bracketed_duration, a, 0.3)
                elif op == 'sir':
                    run(tag, eim.calc_sir, a)
                elif op == 'acc_rms':
                    run(tag, eim.calc_acc_rms, a, 0.01 * 9.8)
                elif op == 'scale':
                    run(tag, a.reset_values, a.values * 2.5)
                elif op == 'prepend':
                    run(tag, a.reset_values, np.concatenate([np.zeros(3), a.values]))
                elif op == 'butter':
                    run(tag, a.butter_pass, (0.5, None))
                elif op == 'time':
                    run(tag, lambda: a.time)
                elif op == 'add_series':
                    run(tag, a.add_series, np.linspace(0, 0.3, a.npts))
                state(tag, a)
        finally:
            if shim:
                del np.trapz

    # generate_duration_stats on its own, for every record kind, both with and without the shim
    for i in range(160):
        shim = (i % 2 == 0) and not have_trapz
        if shim:
            np.trapz = np.trapezoid
        try:
            v = make_record(i)
            scale = [1.0, 0.02, 0.3, 0.08][i % 4]
            dt = DTS[i % len(DTS)]
            try:
                with warnings.catch_warnings():
                    warnings.simplefilter('ignore')
                    a = eqsig.AccSignal(v * scale, dt)
            except BaseException as e:  # noqa
                results.append(('gds%d:ctor' % i, ('exc', type(e).__name__, str(e)), []))
                continue
            run('gds%d' % i, a.generate_duration_stats)
            state('gds%d' % i, a)
            run('gds%d:again' % i, a.generate_duration_stats)
            state('gds%d:again' % i, a)
        finally:
            if shim:
                del np.trapz

    with open(out_path, 'wb') as f:
        pickle.dump(results, f, protocol=4)


# ----------------------------------------------------------------------------------------------------
# driver
# ----------------------------------------------------------------------------------------------------

def main():
    cwd = os.getcwd()
    me = os.path.abspath(__file__)
    with tempfile.TemporaryDirectory() as tmp:
        orig_root = os.path.join(tmp, 'orig')
        os.mkdir(orig_root)
        data = subprocess.check_output(['git', 'archive', 'HEAD', 'eqsig'], cwd=cwd)
        with tarfile.open(fileobj=io.BytesIO(data)) as tf:
            tf.extractall(orig_root)
        outs = {}
        procs = {}
        for name, root in (('orig', orig_root), ('edit', cwd)):
            env = dict(os.environ)
            env['PYTHONPATH'] = root
            env['PYTHONHASHSEED'] = '0'
            env['PYTHONDONTWRITEBYTECODE'] = '1'
            outs[name] = os.path.join(tmp, name + '.pkl')
            # run from the temporary directory so that '' / cwd on sys.path cannot shadow the chosen root
            procs[name] = subprocess.Popen([sys.executable, me, '--worker', outs[name], root], env=env, cwd=tmp)
        for name, p in procs.items():
            rc = p.wait()
            if rc != 0:
                print('worker %s failed with exit status %s' % (name, rc))
                return 2
        res = {}
        for name in outs:
            with open(outs[name], 'rb') as f:
                res[name] = pickle.load(f)
    ro, re_ = res['orig'], res['edit']
    bad = 0
    if len(ro) != len(re_):
        print('different number of recorded outcomes: %d vs %d' % (len(ro), len(re_)))
        bad += 1
    n_ok = n_exc = 0
    for x, y in zip(ro, re_):
        if x != y:
            bad += 1
            if bad <= 15:
                print('MISMATCH at %s\n   original: %r\n   edited  : %r' % (x[0], x[1:], y[1:]))
        if isinstance(x[1], tuple) and x[1] and x[1][0] == 'ok':
            n_ok += 1
        elif isinstance(x[1], tuple) and x[1] and x[1][0] == 'exc':
            n_exc += 1
    print('twin %d: %d outcomes compared (%d returned values, %d exceptions, rest state/mutation records); %d mismatches'
          % (TWIN, len(ro), n_ok, n_exc, bad))
    return 0 if bad == 0 else 1


if __name__ == '__main__':
    if len(sys.argv) >= 4 and sys.argv[1] == '--worker':
        root = os.path.abspath(sys.argv[3])
        sys.path.insert(0, root)
        import eqsig as _e
        assert os.path.abspath(_e.__file__).startswith(root + os.sep), (_e.__file__, root)
        worker(sys.argv[2])
        sys.exit(0)
    sys.exit(main())

"""
Equivalence check for twin3 (C10): AccSignal.generate_duration_stats loops over a table of (level, suffix) and a
private method _set_bracketed_stats sets t_b<suffix> / a_rms<suffix> with setattr (instead of three copied blocks).

Every case is evaluated twice: with the installed NumPy as it is (np.trapz no longer exists there, so the method
raises AttributeError after setting t_b01 whenever 0.01g is exceeded - that behaviour and the partially updated object
state must be preserved) and with np.trapz aliased to np.trapezoid in BOTH the original and the edited process (the
behaviour under an older NumPy, which exercises the rms branch).

Run with twin3 applied and cwd = the worktree:  /venv/bin/python out/equiv3.py
The original package is extracted from git HEAD into a temporary directory; the same deterministic list of cases is
evaluated in two subprocesses (original / edited) and the encoded outcomes (values incl. type, dtype, shape and bits,
exceptions, warnings, argument mutation and object state) are compared for exact equality.
"""
import os
import pickle
import struct
import subprocess
import sys
import tempfile
import warnings


def enc(x):
    import numpy as np
    if isinstance(x, np.ndarray):
        return ("nd", x.dtype.str, x.shape, np.ascontiguousarray(x).tobytes())
    if isinstance(x, np.generic):
        return ("ng", x.dtype.str, x.tobytes())
    if isinstance(x, bool) or x is None or isinstance(x, (str, int)):
        return (type(x).__name__, x)
    if isinstance(x, float):
        return ("float", struct.pack("<d", x))
    if isinstance(x, (tuple, list)):
        return (type(x).__name__, [enc(v) for v in x])
    if isinstance(x, dict):
        return ("dict", [(k, enc(x[k])) for k in sorted(x)])
    return ("obj", type(x).__name__)


def run_case(fn, args_for_mutation_check=()):
    """Runs fn() recording result or exception, warnings, and the (possibly mutated) arguments afterwards"""
    with warnings.catch_warnings(record=True) as wlist:
        warnings.simplefilter("always")
        try:
            out = ("ok", enc(fn()))
        except Exception as e:  # noqa
            out = ("exc", type(e).__name__, str(e))
    wenc = [(w.category.__name__, str(w.message)) for w in wlist]
    return out, wenc, [enc(a) for a in args_for_mutation_check]


def worker(pkg_root, out_path):
    sys.path.insert(0, pkg_root)
    import numpy as np
    import eqsig
    assert os.path.realpath(eqsig.__file__).startswith(os.path.realpath(pkg_root) + os.sep), eqsig.__file__

    results = []

    def add(tag, fn, args=()):
        results.append((tag, run_case(fn, args)))

    def state(asig):
        d = dict(asig.__dict__)
        return enc(d), sorted(d)

    def build_records():
        rng = np.random.default_rng(3020260926)
        g = 9.8
        records = []
        for n in [1, 2, 3, 4, 5, 7, 10, 33, 100, 257, 1000, 4096]:
            for peak_g in [0.001, 0.009, 0.02, 0.049, 0.07, 0.099, 0.3, 2.0]:
                env = np.exp(-((np.arange(n) - 0.4 * n) / (0.2 * n + 1)) ** 2)
                x = rng.standard_normal(n) * env
                x = x / np.max(np.abs(x)) * peak_g * g
                records.append(("rand_n%d_pk%g" % (n, peak_g), x))
        records.append(("zeros5", np.zeros(5)))
        records.append(("zeros1", np.zeros(1)))
        records.append(("ones6", np.ones(6)))
        records.append(("small6", 0.05 * np.ones(6)))
        records.append(("at_level_001g", np.array([0.0, 0.01 * g, 0.02, 0.01 * g, 0.0])))
        records.append(("spike_001g", np.array([0., 0.01, 0.2, 0.03, 0.])))
        records.append(("spike_005g", np.array([0., 0.01, 0.6, 0.03, 0.])))
        records.append(("spike_010g", np.array([0., 0.01, -1.6, 0.03, 0.])))
        records.append(("two_spikes", np.array([0., 0.2, 0., 0., -0.2, 0., 0.])))
        records.append(("nested", np.array([0., 0.2, 0.6, 1.5, 0.02, -1.2, -0.7, 0.15, 0.01, 0.])))
        records.append(("lead_zeros", np.concatenate([np.zeros(13), rng.standard_normal(50)])))
        records.append(("int64", rng.integers(-9, 10, size=40)))
        records.append(("int64_small", np.array([0, 0, 0, 0])))
        records.append(("int32", rng.integers(-2, 3, size=40).astype(np.int32)))
        records.append(("float32", (0.3 * rng.standard_normal(64)).astype(np.float32)))
        records.append(("float32_small", (0.01 * rng.standard_normal(64)).astype(np.float32)))
        records.append(("with_nan", np.array([0.01, 0.05, np.nan, 0.03, 0.02])))
        records.append(("with_nan_big", np.array([0.1, 0.5, np.nan, 0.3, 0.2])))
        records.append(("with_inf", np.array([0.01, 0.05, np.inf, 0.03, 0.02])))
        base = rng.standard_normal(300) * np.hanning(300)
        records.append(("base", base))
        records.append(("base_x0.01", base * 0.01))
        records.append(("base_x3", base * 3.0))
        records.append(("base_pad4", np.concatenate([np.zeros(4), base])))
        return records

    dts = [0.01, 0.005, 0.02, 1.0, 1, 2, np.float64(0.01), np.float32(0.01), 1. / 3, 0.1]

    for numpy_mode in ("as_installed", "with_trapz"):
        if numpy_mode == "with_trapz" and not hasattr(np, "trapz"):
            np.trapz = np.trapezoid
        results.append((("has_trapz", numpy_mode), hasattr(np, "trapz")))
        k = 0
        for name, rec in build_records():
            for input_kind in ("array", "list"):
                vals = rec.copy() if input_kind == "array" else rec.tolist()
                for j in range(2):
                    dt = dts[k % len(dts)]
                    k += 1
                    tag = (numpy_mode, name, input_kind, repr(dt))
                    asig = eqsig.AccSignal(vals, dt)
                    results.append((("state_new",) + tag, state(asig)))
                    add(("gds",) + tag, lambda: asig.generate_duration_stats(), (vals, asig.values))
                    results.append((("state_after_gds",) + tag, state(asig)))
                    # second call on the same object (attributes already exist)
                    add(("gds_again",) + tag, lambda: asig.generate_duration_stats(), (vals, asig.values))
                    results.append((("state_after_gds_again",) + tag, state(asig)))
            # multi-step histories
            tag = (numpy_mode, name)
            asig = eqsig.AccSignal(rec.copy(), 0.01)
            add(("h_reset_stats",) + tag, lambda: asig.reset_all_motion_stats())
            results.append((("h_state0",) + tag, state(asig)))
            add(("h_all",) + tag, lambda: asig.generate_all_motion_stats())
            results.append((("h_state1",) + tag, state(asig)))
            add(("h_pga",) + tag, lambda: asig.pga)
            add(("h_reset_values",) + tag, lambda: asig.reset_values(np.concatenate([np.zeros(3), 0.3 * asig.values])))
            results.append((("h_state2",) + tag, state(asig)))
            add(("h_gds",) + tag, lambda: asig.generate_duration_stats())
            results.append((("h_state3",) + tag, state(asig)))
            add(("h_reset_values2",) + tag, lambda: asig.reset_values(20.0 * asig.values[: max(1, asig.npts // 2)]))
            add(("h_gds2",) + tag, lambda: asig.generate_duration_stats())
            results.append((("h_state4",) + tag, state(asig)))
            add(("h_clear",) + tag, lambda: asig.clear_cache())
            results.append((("h_state5",) + tag, state(asig)))
            add(("h_rms",) + tag, lambda: eqsig.im.calc_acc_rms(asig, 0.01 * 9.8))
            add(("h_cum",) + tag, lambda: asig.generate_cumulative_stats())
            results.append((("h_state6",) + tag, state(asig)))

    # public interface of the class (only a private method may be new)
    results.append((("public_attrs",), sorted(n for n in dir(eqsig.AccSignal) if not n.startswith("_"))))

    with open(out_path, "wb") as f:
        pickle.dump(results, f)


def main():
    here = os.getcwd()
    assert os.path.isdir(os.path.join(here, "eqsig")), "run with cwd = the worktree"
    tmp = tempfile.mkdtemp(prefix="c10_equiv3_", dir="/tmp")
    subprocess.check_call("git archive HEAD eqsig | tar -x -C %s" % tmp, shell=True, cwd=here)
    outs = []
    for label, root in (("orig", tmp), ("edit", here)):
        out_path = os.path.join(tmp, label + ".pkl")
        env = dict(os.environ)
        env.pop("PYTHONPATH", None)
        subprocess.check_call([sys.executable, os.path.abspath(__file__), "--worker", root, out_path], cwd=root, env=env)
        with open(out_path, "rb") as f:
            outs.append(pickle.load(f))
    orig, edit = outs
    assert len(orig) == len(edit), (len(orig), len(edit))
    n_bad = 0
    n_ok_vals = 0
    n_exc = 0
    for (t0, r0), (t1, r1) in zip(orig, edit):
        assert t0 == t1, (t0, t1)
        if r0 != r1:
            n_bad += 1
            if n_bad < 10:
                print("MISMATCH", t0, "\n  orig:", str(r0)[:400], "\n  edit:", str(r1)[:400])
        if isinstance(r0, tuple) and len(r0) == 3 and isinstance(r0[0], tuple):
            if r0[0][0] == "ok":
                n_ok_vals += 1
            elif r0[0][0] == "exc":
                n_exc += 1
    print("cases: %d (returned: %d, raised: %d), mismatches: %d" % (len(orig), n_ok_vals, n_exc, n_bad))
    sys.exit(1 if n_bad else 0)


if __name__ == "__main__":
    if len(sys.argv) > 1 and sys.argv[1] == "--worker":
        worker(sys.argv[2], sys.argv[3])
    else:
        main()

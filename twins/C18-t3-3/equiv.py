"""
Equivalence check for a behaviour-preserving edit of the functions property C18 is anchored in
(eqsig.combine_at_angle, eqsig.compute_rotated, eqsig.Cluster.same_start / .time_match,
eqsig.fns.average.get_section_average, eqsig.fns.time_shift.time_indices).

Run with the edit applied and cwd = the worktree.  The ORIGINAL package is extracted from git HEAD into a temporary
directory; both packages are imported in this process (the edited one first, then - after the `eqsig*` entries have
been taken out of sys.modules - the original one), the same scenarios are run against each of them and everything
observable is recorded: returned values (dtype, shape, bits), types, exceptions, console output, argument mutation
and the complete state (`vars`) of every signal involved.  Exit status 0 iff the two recordings are identical.
"""
import contextlib
import io
import os
import shutil
import subprocess
import sys
import tempfile
import warnings

import numpy as np

warnings.simplefilter('ignore')

WORKTREE = os.getcwd()


def load_packages():
    sys.path.insert(0, WORKTREE)
    import eqsig as edited
    assert edited.__file__.startswith(WORKTREE), edited.__file__
    edited_mods = {k: sys.modules.pop(k) for k in list(sys.modules) if k == 'eqsig' or k.startswith('eqsig.')}
    tmp = tempfile.mkdtemp(prefix='c18_orig_', dir='/tmp')
    subprocess.check_call('git archive HEAD eqsig | tar -x -C %s' % tmp, shell=True, cwd=WORKTREE)
    sys.path.insert(0, tmp)
    import eqsig as original
    assert original.__file__.startswith(tmp), original.__file__
    original_mods = {k: sys.modules[k] for k in list(sys.modules) if k == 'eqsig' or k.startswith('eqsig.')}
    return edited, edited_mods, original, original_mods, tmp


def activate(mods):
    for k in [k for k in sys.modules if k == 'eqsig' or k.startswith('eqsig.')]:
        del sys.modules[k]
    sys.modules.update(mods)


# ---------------------------------------------------------------------------------------------------------------------
# recording helpers

def freeze(obj, depth=0):
    """Turns a result into a structure that can be compared with `same`"""
    if depth > 6:
        return ('deep', type(obj).__name__)
    if isinstance(obj, np.ndarray):
        return ('nd', str(obj.dtype), obj.shape, obj.copy())
    if isinstance(obj, np.generic):
        return ('npscalar', type(obj).__name__, np.array(obj))
    if isinstance(obj, (bool, int, float, complex, str, bytes, type(None))):
        return ('py', type(obj).__name__, obj)
    if isinstance(obj, (list, tuple)):
        return (type(obj).__name__, [freeze(o, depth + 1) for o in obj])
    if isinstance(obj, dict):
        return ('dict', type(obj).__name__, [(freeze(k, depth + 1), freeze(v, depth + 1)) for k, v in obj.items()])
    if isinstance(obj, BaseException):
        return ('exc', type(obj).__name__, str(obj))
    if hasattr(obj, '__dict__') and type(obj).__module__.startswith('eqsig'):
        return ('obj', type(obj).__name__, freeze(dict(vars(obj)), depth + 1))
    return ('other', type(obj).__name__, repr(obj))


def same(a, b):
    if type(a) is not type(b):
        return False
    if isinstance(a, np.ndarray):
        if a.dtype != b.dtype or a.shape != b.shape:
            return False
        if a.dtype.kind in 'fc':  # bit for bit (distinguishes -0.0 from 0.0, and NaNs compare equal)
            return np.ascontiguousarray(a).tobytes() == np.ascontiguousarray(b).tobytes()
        return bool(np.array_equal(a, b))
    if isinstance(a, float):
        return a == b or (a != a and b != b)
    if isinstance(a, (list, tuple)):
        return len(a) == len(b) and all(same(x, y) for x, y in zip(a, b))
    return a == b


class Recorder(object):
    def __init__(self):
        self.records = []

    def call(self, label, fn, *args, **kwargs):
        out = io.StringIO()
        try:
            with contextlib.redirect_stdout(out), np.errstate(all='ignore'):
                res = fn(*args, **kwargs)
            rec = ('ok', freeze(res))
        except Exception as e:  # noqa
            rec = ('raised', type(e).__name__, str(e))
        self.records.append((label, rec, out.getvalue()))
        return rec

    def note(self, label, obj):
        self.records.append((label, freeze(obj), ''))


# ---------------------------------------------------------------------------------------------------------------------
# scenarios

def make_values(rng, n, kind):
    if kind == 'float':
        return rng.normal(size=n)
    if kind == 'int':
        return rng.integers(-50, 50, size=n)
    if kind == 'list':
        return list(rng.normal(size=n))
    if kind == 'zeros':
        return np.zeros(n)
    if kind == 'const':
        return np.full(n, 1.5)
    if kind == 'smooth':
        t = np.arange(n) * 0.05
        return np.sin(t * 3.1) * np.exp(-0.01 * t) + 0.3 * np.cos(t * 0.7)
    if kind == 'f32':
        return rng.normal(size=n).astype(np.float32)
    raise ValueError(kind)


def scen_rotation(pkg, rec):
    rng = np.random.default_rng(1801)
    kinds = ['float', 'int', 'list', 'zeros', 'const', 'smooth', 'f32']
    angles = [0, 0.0, 90, 90.0, 180, 270.0, 360, 45, -30.0, 12.345, 725.5, np.float64(33.3), np.int64(60),
              np.float32(10.5), 1e-9]
    for n in [1, 2, 3, 7, 50, 200]:
        for kind_ns in kinds:
            kind_we = kinds[(kinds.index(kind_ns) + n) % len(kinds)]
            dt = [0.01, 0.005, 0.1, 1][n % 4]
            ns_v = make_values(rng, n, kind_ns)
            we_v = make_values(rng, n, kind_we)
            ns = pkg.AccSignal(ns_v, dt)
            we = pkg.AccSignal(we_v, dt, label='we')
            before = (freeze(ns), freeze(we))
            for a in angles + list(rng.uniform(-400, 400, size=3)):
                rec.call('combine %s %s %s %r' % (n, kind_ns, kind_we, a), pkg.combine_at_angle, ns, we, a)
                rec.call('combine+180 %s %r' % (n, a), pkg.combine_at_angle, ns, we, a + 180)
            rec.note('combine inputs untouched %s %s' % (n, kind_ns), same(before, (freeze(ns), freeze(we))))
            rec.note('combine inputs', (ns, we))
    # a Signal (not AccSignal) and duck-typed components are accepted by combine_at_angle
    s1 = pkg.Signal(rng.normal(size=20), 0.02)
    s2 = pkg.Signal(rng.normal(size=20), 0.02)
    rec.call('combine Signal', pkg.combine_at_angle, s1, s2, 17.0)
    s3 = pkg.Signal(rng.normal(size=21), 0.02)
    rec.call('combine unequal', pkg.combine_at_angle, s1, s3, 17.0)


def scen_compute_rotated(pkg, rec):
    rng = np.random.default_rng(1802)
    calls = []

    def f_scalar(sig):
        calls.append(('scalar', float(sig.values[0])))
        return float(np.max(np.abs(sig.values)))

    def f_npscalar(sig):
        return np.max(sig.values)

    def f_array(sig):
        calls.append(('array', sig.npts))
        return np.cumsum(np.abs(sig.values))

    def f_list(sig):
        return [1.0, float(sig.values[-1])]

    def f_tuple(sig):
        return (sig.npts, float(np.sum(sig.values)))

    def f_int(sig):
        return int(sig.npts)

    def f_str(sig):
        return "ab"

    class Boom(Exception):
        pass

    def make_failing(k):
        count = [0]

        def f(sig):
            count[0] += 1
            calls.append(('failing', count[0]))
            if count[0] == k:
                raise Boom("at call %i" % k)
            return 1.0
        return f

    def f_arias(sig):
        return pkg.im.calc_arias_intensity(sig)

    def f_state(sig):
        # the signal handed over is a fresh AccSignal with an untouched state
        return [float(len(vars(sig))), float(sig._cached_disp_and_velo), float(len(sig._cached_params)), sig.dt]

    funcs = [f_scalar, f_npscalar, f_array, f_list, f_tuple, f_int, f_arias, f_state]
    params = ['arias_intensity', 'pga', 'pgv', 'pgd', 'npts', 'dt', 'label', 'values', 'velocity']
    for n in [1, 2, 5, 40, 150]:
        for kind in ['float', 'int', 'smooth', 'zeros', 'list']:
            dt = [0.01, 0.02, 0.5][n % 3]
            ns = pkg.AccSignal(make_values(rng, n, kind), dt)
            we = pkg.AccSignal(make_values(rng, n, 'float' if kind != 'zeros' else 'zeros'), dt)
            before = (freeze(ns), freeze(we))
            for off in [0.0, 0, 30.0, -45.5, 180.0, 200, 359.9, 720.25, float(rng.uniform(-360, 360))]:
                for points in ([100, 7, 2, 1] if off in (0.0, 30.0) else [5]):
                    for p in params:
                        rec.call('rot p=%s n=%s %s off=%r pts=%s' % (p, n, kind, off, points),
                                 pkg.compute_rotated, ns, we, off, p, None, points)
                    for f in funcs:
                        rec.call('rot f=%s n=%s %s off=%r pts=%s' % (f.__name__, n, kind, off, points),
                                 pkg.compute_rotated, ns, we, angle_off_ns=off, func=f, points=points)
            # default arguments
            rec.call('rot defaults pga', pkg.compute_rotated, ns, we, parameter='pga')
            rec.call('rot defaults func', pkg.compute_rotated, ns, we, func=f_scalar)
            # option combinations / error paths
            rec.call('rot nothing', pkg.compute_rotated, ns, we)
            rec.call('rot nothing pts=0', pkg.compute_rotated, ns, we, points=0)
            rec.call('rot pga pts=0', pkg.compute_rotated, ns, we, parameter='pga', points=0)
            rec.call('rot both', pkg.compute_rotated, ns, we, parameter='pga', func=f_scalar, points=4)
            rec.call('rot both pts=0', pkg.compute_rotated, ns, we, parameter='pga', func=f_scalar, points=0)
            rec.call('rot arias+func', pkg.compute_rotated, ns, we, parameter='arias_intensity', func=f_scalar,
                     points=4)
            rec.call('rot missing attr', pkg.compute_rotated, ns, we, parameter='no_such_attribute', points=3)
            rec.call('rot f_str', pkg.compute_rotated, ns, we, func=f_str, points=3)
            for k in [1, 2, 4]:
                rec.call('rot failing %i' % k, pkg.compute_rotated, ns, we, func=make_failing(k), points=4)
            rec.note('rot inputs untouched', same(before, (freeze(ns), freeze(we))))
            rec.note('rot inputs', (ns, we))
    rec.note('rot call log', list(calls))
    # assertion paths
    a = pkg.AccSignal(rng.normal(size=10), 0.01)
    b = pkg.AccSignal(rng.normal(size=11), 0.01)
    c = pkg.AccSignal(rng.normal(size=10), 0.02)
    s = pkg.Signal(rng.normal(size=10), 0.01)
    rec.call('rot npts mismatch', pkg.compute_rotated, a, b, parameter='pga')
    rec.call('rot dt mismatch', pkg.compute_rotated, a, c, parameter='pga')
    rec.call('rot not acc 1', pkg.compute_rotated, s, a, parameter='pga')
    rec.call('rot not acc 2', pkg.compute_rotated, a, s, parameter='pga')


def lagged_cluster_values(rng, n_sig, n, lags, kind, noise):
    base = make_values(rng, n + 80, kind if kind != 'list' else 'float')
    vals = []
    for s in range(n_sig):
        lag = lags[s]
        v = np.array(base[40 + lag: 40 + lag + n])
        if noise and v.dtype.kind == 'f':
            v = v + noise * rng.normal(size=n)
        vals.append(v)
    if kind == 'list':
        vals = [list(v) for v in vals]
    return vals


def cluster_state(cl):
    return [cl.master_index, cl.master, cl.dt, list(cl.names), list(cl.signals.keys()),
            [cl.signal_by_index(i) for i in range(cl.n_signals)]]


def scen_time_match(pkg, rec):
    rng = np.random.default_rng(1803)
    for n_sig in [2, 3, 4]:
        for master_index in range(n_sig):
            for steps in [1, 2, 5, 10, 23]:
                for kind in ['float', 'smooth', 'int', 'list', 'zeros', 'const']:
                    for trial in range(2):
                        n = int(rng.choice([steps + 1, steps + 2, 2 * steps + 3, 60, 131]))
                        lags = [int(rng.integers(-steps + 1, steps)) if steps > 1 else 0 for _ in range(n_sig)]
                        if trial == 0:
                            lags[master_index] = 0
                        noise = [0.0, 1e-3][trial]
                        vals = lagged_cluster_values(rng, n_sig, n, lags, kind, noise)
                        stypes = ['custom', 'acc', ['acc', 'custom', 'acc', 'custom'][:n_sig]][(n + trial) % 3]
                        cl = pkg.Cluster(vals, dt=0.01, master_index=master_index, stypes=stypes)
                        label = 'tm n_sig=%i m=%i steps=%i %s n=%i lags=%s' % (n_sig, master_index, steps, kind, n,
                                                                              lags)
                        kw = {'steps': steps}
                        if trial:
                            kw['verbose'] = 1
                        rec.call(label, cl.time_match, **kw)
                        rec.note(label + ' state', cluster_state(cl))
                        # a second round: everything should be aligned already, whatever it does must be the same
                        rec.call(label + ' again', cl.time_match, **kw)
                        rec.note(label + ' state again', cluster_state(cl))
    # default steps, unequal lengths, short arrays, NaNs, options that are read but unused, set_step
    for n_sig in [2, 3, 4]:
        for master_index in range(n_sig):
            vals = lagged_cluster_values(rng, n_sig, 90, [0, 3, -7, 9][:n_sig], 'smooth', 0.0)
            cl = pkg.Cluster(vals, dt=0.02, master_index=master_index, names=['a', 'b'])
            rec.call('tm default steps', cl.time_match)
            rec.note('tm default steps state', cluster_state(cl))
            vals = [rng.normal(size=k) for k in [70, 64, 81, 64][:n_sig]]
            vals[1][:60] = vals[0][4:64]
            cl = pkg.Cluster(vals, dt=0.02, master_index=master_index)
            rec.call('tm unequal', cl.time_match, steps=6, trim=False)
            rec.note('tm unequal state', cluster_state(cl))
            for n in [1, 2, 3, 5, 10, 11]:
                vals = [rng.normal(size=n) for _ in range(n_sig)]
                cl = pkg.Cluster(vals, dt=0.02, master_index=master_index)
                rec.call('tm short %i' % n, cl.time_match, verbose=n % 2)
                rec.note('tm short state %i' % n, cluster_state(cl))
            vals = lagged_cluster_values(rng, n_sig, 50, [2, 0, -1, 4][:n_sig], 'float', 0.0)
            vals[n_sig - 1][7] = np.nan
            cl = pkg.Cluster(vals, dt=0.02, master_index=master_index)
            rec.call('tm nan', cl.time_match, steps=5)
            rec.note('tm nan state', cluster_state(cl))
            vals = lagged_cluster_values(rng, n_sig, 50, [2, 0, -1, 4][:n_sig], 'float', 0.0)
            cl = pkg.Cluster(vals, dt=0.02, master_index=master_index)
            rec.call('tm set_step', cl.time_match, set_step=3)
            rec.note('tm set_step state', cluster_state(cl))
            rec.call('tm set_step 0', cl.time_match, set_step=0)
            rec.call('tm steps=0', cl.time_match, steps=0)
            rec.note('tm steps=0 state', cluster_state(cl))
    cl = pkg.Cluster([rng.normal(size=30)], dt=0.01)
    rec.call('tm single', cl.time_match)


def scen_same_start(pkg, rec):
    rng = np.random.default_rng(1804)
    windows = [{}, {'start': 0, 'end': 1}, {'start': 0.2, 'end': 0.5}, {'start': 0.0, 'end': -1},
               {'end': 0.3}, {'start': 0.11}, {'start': 0.3, 'end': 0.3}, {'start': 0.5, 'end': 0.2},
               {'start': 0, 'end': 50.0}, {'base': 1}, {'verbose': 1}, {'verbose': 1, 'start': 0.1, 'end': 0.4}]
    for n_sig in [2, 3, 4]:
        for master_index in range(n_sig):
            for kind in ['float', 'int', 'list', 'smooth', 'zeros']:
                for w, kw in enumerate(windows):
                    n = [120, 150, 101][(w + n_sig) % 3]
                    dt = [0.01, 0.005, 0.02][w % 3]
                    vals = [make_values(rng, n, kind) for _ in range(n_sig)]
                    if kind == 'float':
                        vals = [v + 3.0 * rng.normal() for v in vals]
                    stypes = ['custom', 'acc', ['custom', 'acc', 'custom', 'acc'][:n_sig]][w % 3]
                    cl = pkg.Cluster(vals, dt=dt, master_index=master_index, stypes=stypes,
                                     names=['x', 'y', 'z', 'w'][:n_sig - 1])
                    label = 'ss n_sig=%i m=%i %s %r' % (n_sig, master_index, kind, kw)
                    rec.call(label, cl.same_start, **kw)
                    rec.note(label + ' state', cluster_state(cl))
                    rec.call(label + ' again', cl.same_start, **kw)
                    rec.note(label + ' state again', cluster_state(cl))
            # unequal lengths / short signals
            vals = [rng.normal(size=k) + k for k in [30, 5, 200, 101][:n_sig]]
            cl = pkg.Cluster(vals, dt=0.01, master_index=master_index)
            rec.call('ss unequal', cl.same_start, start=0.0, end=0.03)
            rec.note('ss unequal state', cluster_state(cl))
            rec.call('ss unequal too long', cl.same_start, start=0.0, end=0.2)
            rec.note('ss unequal too long state', cluster_state(cl))
            vals = [rng.normal(size=1) for _ in range(n_sig)]
            cl = pkg.Cluster(vals, dt=0.01, master_index=master_index)
            rec.call('ss one sample', cl.same_start, start=0, end=0)
            rec.note('ss one sample state', cluster_state(cl))
            # unknown options are ignored; master_index changed after construction (also to odd values)
            vals = [rng.normal(size=120) + k for k in range(n_sig)]
            cl = pkg.Cluster(vals, dt=0.01, master_index=master_index)
            rec.call('ss unknown option', cl.same_start, start=0.1, end=0.2, foo=3, index=True, verbose=0)
            rec.note('ss unknown option state', cluster_state(cl))
            for m in [-1, n_sig, 0, n_sig - 1]:
                cl.master_index = m
                rec.call('ss master_index:=%i' % m, cl.same_start, verbose=1)
                rec.note('ss master_index:=%i state' % m, cluster_state(cl))
                rec.call('tm master_index:=%i' % m, cl.time_match, steps=4)
                rec.note('tm master_index:=%i state' % m, cluster_state(cl))
            rec.call('ss nan window', cl.same_start, start=0.0, end=float('nan'))
            rec.call('ss None window', cl.same_start, start=None, end=None)
            rec.call('ss positional', cl.same_start, 0, 1)
            rec.note('ss odd windows state', cluster_state(cl))
    rec.note('Cluster instance attributes', sorted(vars(cl)))
    cl = pkg.Cluster([rng.normal(size=30)], dt=0.01)
    rec.call('ss single', cl.same_start)
    rec.note('ss single state', cluster_state(cl))


def scen_histories(pkg, rec):
    rng = np.random.default_rng(1805)
    for n_sig in [2, 3, 4]:
        for master_index in range(n_sig):
            for kind in ['smooth', 'float', 'int']:
                lags = [int(rng.integers(-6, 7)) for _ in range(n_sig)]
                vals = lagged_cluster_values(rng, n_sig, 160, lags, kind, 0.0)
                vals = [np.asarray(v) + i for i, v in enumerate(vals)]
                cl = pkg.Cluster(vals, dt=0.01, master_index=master_index, stypes='acc')
                # warm the caches so that the effect of reset_values on the state is visible
                for i in range(n_sig):
                    sig = cl.signal_by_index(i)
                    rec.note('hist warm', [sig.pga, sig.pgv, sig.fa_spectrum])
                label = 'hist n_sig=%i m=%i %s' % (n_sig, master_index, kind)
                rec.call(label + ' ss1', cl.same_start, start=0.0, end=0.5)
                rec.note(label + ' s1', cluster_state(cl))
                rec.call(label + ' tm1', cl.time_match, steps=8)
                rec.note(label + ' s2', cluster_state(cl))
                rec.note(label + ' pga', [cl.signal_by_index(i).pga for i in range(n_sig)])
                rec.call(label + ' ss2', cl.same_start, start=0.2, end=1.0, verbose=1)
                rec.note(label + ' s3', cluster_state(cl))
                rec.call(label + ' tm2', cl.time_match, steps=3, verbose=1)
                rec.note(label + ' s4', cluster_state(cl))
                cl.master_index = (master_index + 1) % n_sig
                rec.call(label + ' ss3', cl.same_start)
                rec.call(label + ' tm3', cl.time_match)
                rec.note(label + ' s5', cluster_state(cl))
                if n_sig == 2:
                    a, b = cl.signal_by_index(0), cl.signal_by_index(1)
                    rec.call(label + ' rot', pkg.compute_rotated, a, b, 10.0, 'pga', None, 9)
                    rec.call(label + ' comb', pkg.combine_at_angle, a, b, 10.0)
                    rec.note(label + ' s6', cluster_state(cl))


def scen_section_average(pkg, rec):
    import collections
    rng = np.random.default_rng(1806)
    average = sys.modules['eqsig.fns.average']
    time_shift = sys.modules['eqsig.fns.time_shift']
    assert average.__file__.startswith(os.path.dirname(os.path.dirname(pkg.__file__)))
    Duck = collections.namedtuple('Duck', ['values', 'npts', 'dt'])
    for npts in [1, 2, 10, 100]:
        for dt in [0.01, 0.1, 1, 0.3, 0, 0.0]:
            for index in [False, True, 0, 1, None, np.False_]:
                for start in [0, 1, 0.0, 0.05, 0.35, 3, -2, np.int64(2), np.float64(0.2)]:
                    for end in [-1, 0, 1, 0.5, 0.99, 5, 9.99, 10, 100, 101, 1e6, -1.0, -3, np.int64(4),
                                np.float64(0.4), float('nan'), float('inf'), np.int64(-1), np.float64(-1), None]:
                        rec.call('ti %r' % ((npts, dt, start, end, index),), time_shift.time_indices, npts, dt, start,
                                 end, index)
    for kind in ['float', 'int', 'zeros', 'f32']:
        for n in [1, 3, 50]:
            vals = make_values(rng, n, kind)
            sigs = [pkg.Signal(vals, 0.02), pkg.AccSignal(vals, 0.02), Duck(np.array(vals), n, 0.02),
                    Duck(list(vals), n, 0.02)]
            for sig in sigs:
                for kw in [{}, {'start': 0, 'end': 1}, {'start': 0.1, 'end': 0.5}, {'start': 2, 'end': 10, 'index': True},
                           {'start': 0, 'end': -1, 'index': True}, {'start': 0, 'end': 0}, {'start': 5.0, 'end': 1.0},
                           {'start': 0, 'end': 2.0}, {'start': 1, 'end': 3, 'index': 1}]:
                    rec.call('gsa fn %s %i %s %r' % (kind, n, type(sig).__name__, kw), average.get_section_average,
                             sig, **kw)
                    if hasattr(sig, 'get_section_average'):
                        rec.call('gsa method %s %i %r' % (kind, n, kw), sig.get_section_average, **kw)
                if not isinstance(sig, Duck):
                    rec.note('gsa state', sig)


SCENARIOS = [scen_rotation, scen_compute_rotated, scen_time_match, scen_same_start, scen_histories,
             scen_section_average]


def main():
    edited, edited_mods, original, original_mods, tmp = load_packages()
    try:
        recs = {}
        for name, pkg, mods in [('original', original, original_mods), ('edited', edited, edited_mods)]:
            activate(mods)
            rec = Recorder()
            for scen in SCENARIOS:
                scen(pkg, rec)
            recs[name] = rec.records
        ro, re_ = recs['original'], recs['edited']
        n_bad = 0
        if len(ro) != len(re_):
            print('different number of records', len(ro), len(re_))
            n_bad += 1
        n_raised = 0
        for a, b in zip(ro, re_):
            if a[1][0] == 'raised':
                n_raised += 1
            if not same(a, b):
                n_bad += 1
                if n_bad < 15:
                    print('MISMATCH at', a[0])
                    print('   original:', repr(a[1:])[:600])
                    print('   edited  :', repr(b[1:])[:600])
        print('%i records compared (%i of them exceptions), %i mismatches' % (len(ro), n_raised, n_bad))
        return 1 if n_bad else 0
    finally:
        shutil.rmtree(tmp, ignore_errors=True)


if __name__ == '__main__':
    sys.exit(main())

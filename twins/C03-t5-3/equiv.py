"""
Equivalence program for twin 3 (property C03: response spectra / energy spectra / AccSignal lazy spectra).

Run with the edit applied and cwd = the worktree:
    cd <worktree> && PYTHONPATH=<worktree> /venv/bin/python out/equiv3.py

It extracts the ORIGINAL package with `git archive HEAD eqsig` into a temporary directory, runs the same
deterministic battery of cases once against the original and once against the edited package (two subprocesses,
this same file in --worker mode), and compares every recorded observation bit-for-bit
(arrays: dtype, shape and raw bytes; scalars: type and repr; exceptions: type name; argument mutation; aliasing
of returned arrays with array arguments; warnings
categories; object state seen through the public API after every operation of a history).
Exit status 0 iff everything matches.
"""
import io
import os
import pickle
import shutil
import subprocess
import sys
import tarfile
import tempfile

TWIN = 3


# --------------------------------------------------------------------------------------------------------------
# worker side
# --------------------------------------------------------------------------------------------------------------

def _ser(x):
    """Serialise an observation so that equality of the serialisation == bit-for-bit equality."""
    import numpy as np
    if isinstance(x, np.ndarray):
        return ('nd', str(x.dtype), tuple(x.shape), np.ascontiguousarray(x).tobytes())
    if isinstance(x, np.generic):
        return ('npscalar', type(x).__name__, np.asarray(x).tobytes())
    if isinstance(x, (tuple, list)):
        return (type(x).__name__, tuple(_ser(v) for v in x))
    if isinstance(x, float):
        return ('float', x.hex() if x == x else 'nan')
    if isinstance(x, (int, bool, str)) or x is None:
        return (type(x).__name__, repr(x))
    return ('obj', type(x).__name__)


def _aliases(res, inputs):
    """Which returned arrays share memory with an array argument (the caller could see later writes)."""
    import numpy as np
    outs = [r for r in (res if isinstance(res, (tuple, list)) else [res]) if isinstance(r, np.ndarray)]
    ins = [a for a in inputs if isinstance(a, np.ndarray)]
    return tuple(bool(np.shares_memory(r, a)) for r in outs for a in ins)


def _call(fn, args, kwargs=None):
    """Call fn, record result or exception type, warnings categories and the state of the arguments afterwards."""
    import warnings
    kwargs = kwargs or {}
    with warnings.catch_warnings(record=True) as wlist:
        warnings.simplefilter('always')
        try:
            res = fn(*args, **kwargs)
            out = ('ok', _ser(res), _aliases(res, list(args) + list(kwargs.values())))
        except Exception as e:  # noqa - the type of every exception is part of the observation
            out = ('exc', type(e).__name__)
    wcats = tuple(sorted(set(w.category.__name__ for w in wlist)))
    after = tuple(_ser(a) for a in args) + tuple(_ser(kwargs[k]) for k in sorted(kwargs))
    return out, wcats, after


def _make_record(rng, kind, n):
    import numpy as np
    if kind == 'normal':
        return rng.standard_normal(n)
    if kind == 'sine':
        return np.sin(0.3 * np.arange(n)) * 2.5
    if kind == 'zeros':
        return np.zeros(n)
    if kind == 'int':
        return rng.integers(-5, 6, size=n)
    if kind == 'int32':
        return rng.integers(-5, 6, size=n).astype(np.int32)
    if kind == 'float32':
        return rng.standard_normal(n).astype(np.float32)
    if kind == 'list':
        return list(rng.standard_normal(n))
    if kind == 'tuple':
        return tuple(float(v) for v in rng.standard_normal(n))
    if kind == 'neg':
        return -np.abs(rng.standard_normal(n)) - 0.1
    if kind == 'pos':
        return np.abs(rng.standard_normal(n)) + 0.1
    if kind == 'pulse':
        v = np.zeros(n)
        if n:
            v[rng.integers(0, n)] = -3.0
        return v
    if kind == 'strided':
        return rng.standard_normal(2 * n)[::2]
    if kind == 'nan':
        v = rng.standard_normal(n)
        if n:
            v[rng.integers(0, n)] = np.nan
        return v
    if kind == 'inf':
        v = rng.standard_normal(n)
        if n:
            v[rng.integers(0, n)] = np.inf
        return v
    if kind == 'big':
        return rng.standard_normal(n) * 1e150
    raise ValueError(kind)


def _make_periods(rng, kind, dt):
    """Period containers on either side of 6*dt, with / without leading zero, list/tuple/array/int forms."""
    import numpy as np
    k = int(rng.integers(1, 7))
    lo = np.sort(rng.uniform(0.2, 5.9, size=k)) * dt      # below 6 dt
    hi = np.sort(rng.uniform(6.1, 400., size=k)) * dt     # above 6 dt
    if kind == 'hi':
        return hi
    if kind == 'lo':
        return lo
    if kind == 'mixed':
        return np.concatenate([lo, [6 * dt], hi])
    if kind == 'zero_mixed':
        return np.concatenate([[0.0], lo, [dt * 6], hi])
    if kind == 'zero_hi':
        return np.concatenate([[0.0], hi])
    if kind == 'zero_only':
        return np.array([0.0])
    if kind == 'single_hi':
        return np.array([hi[0]])
    if kind == 'single_lo':
        return [float(lo[0])]
    if kind == 'list':
        return [float(v) for v in np.concatenate([lo, hi])]
    if kind == 'zero_list':
        return [0] + [float(v) for v in hi]
    if kind == 'tuple':
        return tuple(float(v) for v in np.concatenate([lo, hi]))
    if kind == 'zero_tuple':
        return (0.0,) + tuple(float(v) for v in hi)
    if kind == 'int_array':
        return np.arange(1, 2 + k)
    if kind == 'int_list_zero':
        return [0] + list(range(1, 2 + k))
    if kind == 'unsorted':
        v = np.concatenate([lo, hi])
        rng.shuffle(v)
        return v
    if kind == 'repeated':
        return np.array([hi[0], hi[0], lo[0], lo[0]])
    if kind == 'float32':
        return hi.astype(np.float32)
    if kind == 'strided':
        return np.concatenate([hi, hi])[::2]
    # --- outside the nominal domain: behaviour (values, warnings, exceptions) must still be the same
    if kind == 'empty':
        return []
    if kind == 'scalar':
        return float(hi[0])
    if kind == 'interior_zero':
        return np.array([hi[0], 0.0, hi[-1]])
    if kind == 'two_zeros':
        return np.array([0.0, 0.0, hi[-1]])
    if kind == 'negative':
        return np.array([-hi[0], hi[-1]])
    if kind == 'nan':
        return np.array([hi[0], np.nan])
    if kind == 'twod':
        return np.array([[hi[0], hi[-1]], [hi[-1], hi[0]]])
    if kind == 'strings':
        return ['a', 'b']
    if kind == 'tiny':
        return np.array([1e-200, 1e-120, hi[0]])
    if kind == 'huge':
        return np.array([hi[0], 1e200])
    raise ValueError(kind)


PERIOD_KINDS_DOMAIN = ['hi', 'lo', 'mixed', 'zero_mixed', 'zero_hi', 'zero_only', 'single_hi', 'single_lo', 'list',
                       'zero_list', 'tuple', 'zero_tuple', 'int_array', 'int_list_zero', 'unsorted', 'repeated',
                       'float32', 'strided']
PERIOD_KINDS_ODD = ['empty', 'scalar', 'interior_zero', 'two_zeros', 'negative', 'nan', 'twod', 'strings', 'tiny',
                    'huge']
RECORD_KINDS_DOMAIN = ['normal', 'sine', 'zeros', 'int', 'int32', 'float32', 'neg', 'pos', 'pulse', 'strided']
RECORD_KINDS_ODD = ['list', 'tuple', 'nan', 'inf', 'big']
LENGTHS = [0, 1, 2, 3, 4, 5, 7, 16, 33, 64, 120]
XIS = [0.0, 0.0, 0.02, 0.05, 0.05, 0.2, 0.5, 0.9, 0.99, 0, 1, 1.3, -0.1]


def worker(outfile):
    import numpy as np
    import eqsig
    from eqsig import sdof, im

    results = []

    def rec(tag, obs):
        results.append((tag, obs))

    rng = np.random.default_rng(20240917)
    dts = [0.005, 0.01, 0.02, 0.1, 1.0, 2, np.float64(0.04), np.float32(0.01)]

    # ----------------------------------------------------------------------------------------------------------
    # A. module level functions of eqsig.sdof on raw arrays
    # ----------------------------------------------------------------------------------------------------------
    fns = [('pseudo', sdof.pseudo_response_spectra), ('true', sdof.true_response_spectra),
           ('series', sdof.response_series), ('nj', sdof.nigam_and_jennings_response)]
    n_a = 0
    for icase in range(2200):
        odd = (icase % 5 == 4)
        pk = PERIOD_KINDS_ODD if (odd and icase % 2) else PERIOD_KINDS_DOMAIN
        rk = RECORD_KINDS_ODD if (odd and not icase % 2) else RECORD_KINDS_DOMAIN
        pkind = pk[int(rng.integers(0, len(pk)))]
        rkind = rk[int(rng.integers(0, len(rk)))]
        n = LENGTHS[int(rng.integers(0, len(LENGTHS)))]
        if icase % 7 and n == 0:
            n = 9
        dt = dts[int(rng.integers(0, len(dts)))]
        xi = XIS[int(rng.integers(0, len(XIS)))]
        if not odd and not (0 <= xi < 1):
            xi = 0.05
        motion = _make_record(rng, rkind, n)
        periods = _make_periods(rng, pkind, float(dt))
        for name, fn in fns:
            if name == 'nj' and icase % 4:
                continue  # response_series is a plain alias of it
            rec(('A', icase, name, pkind, rkind, n, repr(dt), xi), _call(fn, (motion, dt, periods, xi)))
            n_a += 1
        if icase % 3 == 0:  # keyword form, as used by eqsig.im
            rec(('A-kw', icase), _call(sdof.pseudo_response_spectra, (motion, dt, periods), {'xi': xi}))
    # absmax directly
    for icase in range(300):
        shape = [(5,), (1,), (3, 4), (4, 1), (1, 6), (2, 3, 2), (0,), (3, 0)][icase % 8]
        arr = rng.standard_normal(shape)
        if icase % 3 == 0:
            arr = -np.abs(arr)
        if icase % 11 == 0:
            arr = (arr * 3).astype(int)
        if icase % 13 == 0:
            arr = arr * 0.0
        for axis in [None, 0, 1, -1]:
            rec(('absmax', icase, axis), _call(sdof.absmax, (arr,), {'axis': axis}))
        rec(('absmax-pos', icase), _call(sdof.absmax, (arr, 0)))
    rec(('absmax-list',), _call(sdof.absmax, ([1.0, -2.0],)))
    # compute_a_and_b (helper the spectra rely on)
    for icase in range(200):
        w = 6.2831853 / rng.uniform(0.01, 5, size=int(rng.integers(0, 5)))
        rec(('ab', icase), _call(sdof.compute_a_and_b, (float(rng.uniform(0, 0.99)), w, 0.01)))

    # a few moderately long records (typical use)
    for icase in range(6):
        n = [1500, 2048, 3001][icase % 3]
        motion = np.cumsum(rng.standard_normal(n)) * 0.01
        motion -= motion.mean()
        dt = [0.01, 0.005][icase % 2]
        periods = np.concatenate([[0.0] if icase % 2 else [], np.logspace(-2, 1, 40)])
        for name, fn in fns:
            rec(('A-long', icase, name), _call(fn, (motion, dt, periods, [0.05, 0.0, 0.3][icase % 3])))

    # ----------------------------------------------------------------------------------------------------------
    # B. AccSignal histories
    # ----------------------------------------------------------------------------------------------------------
    def observe(asig):
        out = []
        for attr in ['s_d', 's_v', 's_a']:
            out.append(_call(lambda: getattr(asig, attr), ()))
        out.append(_call(lambda: asig.response_times, ()))
        out.append(_call(lambda: asig.values, ()))
        out.append(_call(lambda: (asig.dt, asig.npts), ()))
        return tuple(out)

    def rt_choice(dt):
        kind = ['hi', 'mixed', 'zero_mixed', 'zero_hi', 'list', 'zero_list', 'tuple', 'zero_tuple', 'zero_only',
                'single_hi', 'single_lo', 'lo', 'int_array', 'int_list_zero', 'empty', 'scalar', 'unsorted',
                'interior_zero'][int(rng.integers(0, 18))]
        return _make_periods(rng, kind, dt)

    for icase in range(420):
        n = [2, 3, 5, 16, 50, 101][int(rng.integers(0, 6))]
        dt = [0.005, 0.01, 0.02, 0.1, 0.5][int(rng.integers(0, 5))]
        rkind = ['normal', 'sine', 'int', 'list', 'pulse', 'zeros', 'float32'][int(rng.integers(0, 7))]
        vals = _make_record(rng, rkind, n)
        ctor = int(rng.integers(0, 4))
        tag = ('B', icase, n, dt, rkind, ctor)
        try:
            if ctor == 0:
                asig = eqsig.AccSignal(vals, dt)
            elif ctor == 1:
                asig = eqsig.AccSignal(vals, dt, response_times=rt_choice(dt))
            elif ctor == 2:
                asig = eqsig.AccSignal(vals, dt, response_period_range=(dt * float(rng.uniform(1, 30)), 2.0))
            else:
                asig = eqsig.AccSignal(vals, dt, response_times=(0.0, 0.2 * dt * 20, 1.0, 3.0))
        except Exception as e:  # noqa
            rec(tag + ('ctor',), ('exc', type(e).__name__))
            continue
        nops = int(rng.integers(1, 9))
        for iop in range(nops):
            op = int(rng.integers(0, 14))
            otag = tag + (iop, op)
            if op == 0:
                rec(otag, observe(asig))
            elif op == 1:
                attr = ['s_a', 's_v', 's_d'][int(rng.integers(0, 3))]
                rec(otag, _call(lambda: getattr(asig, attr), ()))
            elif op == 2:
                rts = rt_choice(dt)
                xi = [-1, 0.0, 0.05, 0.3, 0.8][int(rng.integers(0, 5))]
                mdr = [1, 2, 4, 8][int(rng.integers(0, 4))]
                rec(otag, _call(asig.gen_response_spectrum, (), {'response_times': rts, 'xi': xi,
                                                                 'min_dt_ratio': mdr}))
            elif op == 3:
                mdr = [1, 2, 4, 8, 3, 0.5, 16][int(rng.integers(0, 7))]
                rec(otag, _call(asig.gen_response_spectrum, (), {'min_dt_ratio': mdr}))
            elif op == 4:
                rec(otag, _call(asig.generate_response_spectrum, (rt_choice(dt),)))
            elif op == 5:
                rec(otag, _call(asig.generate_response_spectrum, (), {'xi': float(rng.uniform(0, 0.9))}))
            elif op == 6:
                rec(otag, _call(asig.reset_values, (_make_record(rng, 'normal', int(rng.integers(2, 40))),)))
            elif op == 7:
                rec(otag, _call(asig.add_constant, (float(rng.standard_normal()),)))
            elif op == 8:
                rts = rt_choice(dt)

                def set_rt():
                    asig.response_times = rts
                rec(otag, _call(set_rt, ()))
            elif op == 9:
                rec(otag, _call(asig.clear_cache, ()))
            elif op == 10:
                # in-place modification of the record through the public `values` view followed by explicit
                # regeneration (a memo of the interpolated record must not survive this)
                def poke():
                    asig.values[0] = asig.values[0] + 1
                if asig.npts:
                    rec(otag, _call(poke, ()))
                rec(otag + ('regen',), _call(asig.gen_response_spectrum, ()))
            elif op == 11:
                rec(otag, _call(asig.gen_response_spectrum, (rt_choice(dt), 0.05, [1, 2, 4, 8][iop % 4])))
            elif op == 12:
                rec(otag, _call(sdof.calc_input_energy_spectrum, (asig,), {'series': bool(iop % 2)}))
            elif op == 13:
                rec(otag, _call(asig.remove_average, ()))
            rec(otag + ('after',), observe(asig) if iop % 2 else None)
        rec(tag + ('final',), observe(asig))

    # the interpolating branch on a longer record with the default 100 periods, every min_dt_ratio
    vals = np.cumsum(rng.standard_normal(600)) * 0.02
    for mdr in [1, 2, 4, 8]:
        for lead in [False, True]:
            asig = eqsig.AccSignal(vals, 0.02)
            rts = np.concatenate([[0.0] if lead else [], np.linspace(0.03, 3, 30)])
            rec(('B-interp', mdr, lead), _call(asig.gen_response_spectrum, (), {'response_times': rts,
                                                                               'min_dt_ratio': mdr}))
            rec(('B-interp-obs', mdr, lead), observe(asig))
    asig = eqsig.AccSignal(vals, 0.02)
    rec(('B-default',), observe(asig))
    asig = eqsig.AccSignal(vals, 0.02, verbose=0)
    asig.verbose = 0
    rec(('B-default2',), (_call(lambda: asig.s_v, ()), _call(lambda: asig.s_a, ()), _call(lambda: asig.s_d, ())))

    # ----------------------------------------------------------------------------------------------------------
    # C. energy spectra and the spectrum intensities
    # ----------------------------------------------------------------------------------------------------------
    for icase in range(500):
        n = [1, 2, 3, 8, 30, 77][int(rng.integers(0, 6))]
        dt = [0.005, 0.01, 0.05, 0.2][int(rng.integers(0, 4))]
        rkind = ['normal', 'sine', 'int', 'pulse', 'zeros', 'pos'][int(rng.integers(0, 6))]
        vals = _make_record(rng, rkind, n)
        pkind = (PERIOD_KINDS_DOMAIN + ['empty', 'scalar', 'interior_zero'])[int(rng.integers(0, 21))]
        periods = _make_periods(rng, pkind, dt)
        xi = [None, 0.0, 0.05, 0.4][int(rng.integers(0, 4))]
        if icase % 4 == 0:
            asig = eqsig.AccSignal(vals, dt)
            periods = None
        else:
            asig = eqsig.AccSignal(vals, dt, response_times=_make_periods(rng, 'zero_mixed', dt))
        tag = ('C', icase, n, dt, rkind, pkind, xi)
        rec(tag + ('uke',), _call(sdof.calc_resp_uke_spectrum, (asig,), {'periods': periods, 'xi': xi}))
        rec(tag + ('ie',), _call(sdof.calc_input_energy_spectrum, (asig,), {'periods': periods, 'xi': xi}))
        rec(tag + ('ies',), _call(sdof.calc_input_energy_spectrum, (asig, periods, xi, True)))
        if icase % 5 == 0:
            rec(tag + ('asi',), _call(im.calc_asi, (asig,)))
            rec(tag + ('vsi',), _call(im.calc_vsi, (asig,)))
        if periods is not None:
            rec(tag + ('asi-p',), _call(im.calc_asi, (asig,), {'xi': 0.05 if xi is None else xi, 'periods': periods}))
            rec(tag + ('vsi-p',), _call(im.calc_vsi, (asig, 0.05 if xi is None else xi, periods)))
        if icase % 25 == 0:
            rec(tag + ('mvp',), _call(im.calc_max_velocity_period, (asig,)))
            rec(tag + ('map',), _call(im.max_acceleration_period, (asig,)))
            rec(tag + ('crs',), _call(im.cumulative_response_spectra, (asig, 'arias_intensity'),
                                      {'periods': periods, 'xi': xi}))
        rec(tag + ('state',), observe(asig) if icase % 3 == 0 else None)

    with open(outfile, 'wb') as f:
        pickle.dump(results, f, protocol=4)


# --------------------------------------------------------------------------------------------------------------
# driver side
# --------------------------------------------------------------------------------------------------------------

def main():
    cwd = os.getcwd()
    if not os.path.isdir(os.path.join(cwd, 'eqsig')):
        print('run me with cwd = the worktree')
        return 2
    tmp = tempfile.mkdtemp(prefix='equiv%d_' % TWIN)
    try:
        return _compare(cwd, tmp)
    finally:
        shutil.rmtree(tmp, ignore_errors=True)


def _compare(cwd, tmp):
    orig_root = os.path.join(tmp, 'orig')
    os.makedirs(orig_root)
    tar_bytes = subprocess.check_output(['git', 'archive', 'HEAD', 'eqsig'], cwd=cwd)
    with tarfile.open(fileobj=io.BytesIO(tar_bytes)) as tf:
        tf.extractall(orig_root, filter='data')
    me = os.path.abspath(__file__)
    outs = {}
    procs = {}
    for name, root in [('orig', orig_root), ('edit', cwd)]:
        env = dict(os.environ)
        env['PYTHONPATH'] = root
        env['PYTHONHASHSEED'] = '0'
        env['PYTHONDONTWRITEBYTECODE'] = '1'
        outs[name] = os.path.join(tmp, name + '.pkl')
        # run from the temporary directory so that only PYTHONPATH decides which eqsig is imported
        procs[name] = subprocess.Popen([sys.executable, me, '--worker', outs[name], root], cwd=tmp, env=env)
    for name, p in procs.items():
        if p.wait() != 0:
            print('worker %s failed' % name)
            return 3
    res = {}
    for name in outs:
        with open(outs[name], 'rb') as f:
            res[name] = pickle.load(f)
    o, e = res['orig'], res['edit']
    bad = 0
    if len(o) != len(e):
        print('different number of observations', len(o), len(e))
        bad += 1
    n_exc = 0
    stats = {}
    for (to, vo), (te, ve) in zip(o, e):
        if to != te:
            print('tag mismatch', to, te)
            bad += 1
            break
        if vo != ve:
            bad += 1
            if bad < 15:
                print('MISMATCH at', to)
                print('   orig:', _short(vo))
                print('   edit:', _short(ve))
        if isinstance(vo, tuple) and len(vo) == 3 and isinstance(vo[0], tuple) and vo[0][0] in ('exc', 'ok'):
            key = (str(to[0]), vo[0][1] if vo[0][0] == 'exc' else 'ok')
            stats[key] = stats.get(key, 0) + 1
            n_exc += vo[0][0] == 'exc'
    print('outcomes per group:', ', '.join('%s/%s=%d' % (k[0], k[1], v) for k, v in sorted(stats.items())))
    print('twin %d: %d observations compared, %d of them exceptions, %d mismatches' % (TWIN, len(o), n_exc, bad))
    return 0 if bad == 0 else 1


def _short(v):
    s = repr(v)
    return s if len(s) < 400 else s[:400] + '...'


if __name__ == '__main__':
    if len(sys.argv) >= 4 and sys.argv[1] == '--worker':
        import eqsig as _e
        assert os.path.abspath(os.path.dirname(os.path.dirname(_e.__file__))) == os.path.abspath(sys.argv[3]), \
            (_e.__file__, sys.argv[3])
        worker(sys.argv[2])
        sys.exit(0)
    sys.exit(main())

"""
Equivalence program for twin 3 (property C20).

Run with the edit applied and cwd = the worktree:

    cd <worktree> && PYTHONPATH=<worktree> python out/equiv3.py

The ORIGINAL package source is taken from git (`git archive HEAD eqsig`) into a
temporary directory.  The original and the edited package are each exercised in
their own subprocess (the same deterministic list of cases), every observation
(returned value with its type / dtype / shape / exact bytes, exception type and
arguments, warnings, text printed to stdout, state of the arguments after the
call) is recorded, and the two records are compared for exact equality.

Exit status 0 iff everything matches.
"""
import contextlib
import copy
import inspect
import io
import os
import pickle
import subprocess
import sys
import tempfile
import warnings

TWIN = 3


# --------------------------------------------------------------------------
# normalisation of observations
# --------------------------------------------------------------------------

def norm(obj, depth=0):
    import numpy as np
    if depth > 6:
        return ('deep', repr(obj))
    if isinstance(obj, np.ndarray):
        if obj.dtype == object:
            return ('ndobj', obj.shape, [norm(e, depth + 1) for e in obj.ravel().tolist()])
        return ('nd', obj.dtype.str, obj.shape, np.ascontiguousarray(obj).tobytes())
    if isinstance(obj, np.generic):
        return ('npscalar', type(obj).__name__, obj.dtype.str, obj.tobytes())
    if isinstance(obj, bool):
        return ('bool', obj)
    if isinstance(obj, float):
        return ('float', obj.hex() if obj == obj else 'nan')
    if isinstance(obj, int):
        return ('int', obj)
    if isinstance(obj, complex):
        return ('complex', repr(obj))
    if isinstance(obj, str):
        return ('str', obj)
    if obj is None:
        return ('None',)
    if isinstance(obj, (list, tuple)):
        return (type(obj).__name__, [norm(e, depth + 1) for e in obj])
    if isinstance(obj, dict):
        return ('dict', [(norm(k, depth + 1), norm(v, depth + 1)) for k, v in obj.items()])
    return ('obj', type(obj).__name__, repr(obj))


def observe(fn, args, kwargs=None):
    """Call fn(*args, **kwargs) and record everything that can be seen from outside."""
    kwargs = {} if kwargs is None else kwargs
    args = copy.deepcopy(args)
    kwargs = copy.deepcopy(kwargs)
    out = io.StringIO()
    rec = {}
    with warnings.catch_warnings(record=True) as wlist:
        warnings.simplefilter('always')
        with contextlib.redirect_stdout(out):
            try:
                res = fn(*args, **kwargs)
                rec['result'] = norm(res)
            except BaseException as exc:  # noqa
                if isinstance(exc, (KeyboardInterrupt, SystemExit)):
                    raise
                rec['exception'] = (type(exc).__name__, norm(exc.args))
    rec['warnings'] = [(w.category.__name__, str(w.message)) for w in wlist]
    rec['stdout'] = out.getvalue()
    rec['args_after'] = norm(list(args))
    rec['kwargs_after'] = norm(kwargs)
    return rec


# --------------------------------------------------------------------------
# the cases (worker side)
# --------------------------------------------------------------------------

def build_and_run(eqsig):
    import numpy as np
    from eqsig import design_spectra as ds
    fns = eqsig.fns

    records = []

    def run(label, fn, *args, **kwargs):
        records.append((label, observe(fn, args, kwargs)))

    # ---- public surface ---------------------------------------------------
    for mod in (eqsig.fns, eqsig.fns.generic, eqsig.fns.average, ds):
        names = sorted(n for n in dir(mod) if not n.startswith('_'))
        records.append(('surface:' + mod.__name__, {'names': names}))
    for f in (fns.interp2d, fns.interp_left, fns.calc_roll_av_vals, fns.calc_step_fn_vals_error,
              fns.calc_step_fn_steps_vals, fns.average.get_section_average,
              ds.c_h_factor, ds.sd_nzs, ds.t_eff):
        records.append(('signature:' + f.__name__, {'sig': str(inspect.signature(f)), 'doc': f.__doc__}))

    # ======================================================================
    # interp2d
    # ======================================================================
    rs = np.random.RandomState(2001)

    def node_set(kind, n):
        if kind == 'float_inc':
            return np.cumsum(rs.uniform(0.05, 2.0, n)) + rs.uniform(-5, 5)
        if kind == 'int_inc':
            return np.cumsum(rs.randint(1, 4, n)) + rs.randint(-5, 5)
        if kind == 'unit':
            return np.arange(n)
        if kind == 'unit_f':
            return np.arange(n, dtype=float)
        if kind == 'float_dec':
            return (np.cumsum(rs.uniform(0.05, 2.0, n)) + rs.uniform(-5, 5))[::-1]
        if kind == 'int_dec':
            return (np.cumsum(rs.randint(1, 4, n)) + rs.randint(-5, 5))[::-1].copy()
        if kind == 'dupl':
            v = np.cumsum(rs.randint(0, 2, n)).astype(float)
            return v
        if kind == 'f32':
            return (np.cumsum(rs.uniform(0.05, 2.0, n))).astype(np.float32)
        raise ValueError(kind)

    def queries(xf, kind, m):
        lo, hi = float(np.min(xf)), float(np.max(xf))
        span = max(hi - lo, 1.0)
        if kind == 'inside':
            return rs.uniform(lo, hi, m)
        if kind == 'nodes':
            return np.asarray(xf)[rs.randint(0, len(xf), m)].astype(float)
        if kind == 'nodes_native':
            return np.asarray(xf)[rs.randint(0, len(xf), m)]
        if kind == 'outside':
            return np.concatenate([lo - rs.uniform(0, span, m // 2 + 1), hi + rs.uniform(0, span, m // 2 + 1)])
        if kind == 'mixed':
            q = np.concatenate([rs.uniform(lo - span, hi + span, m), np.asarray(xf, dtype=float),
                                [lo, hi, lo - 1e-12, hi + 1e-12]])
            return q[rs.permutation(len(q))]
        if kind == 'midpoints':
            xs = np.asarray(xf, dtype=float)
            if len(xs) < 2:
                return xs.copy()
            return 0.5 * (xs[1:] + xs[:-1])
        if kind == 'near_nodes':
            xs = np.asarray(xf, dtype=float)
            return np.concatenate([np.nextafter(xs, -np.inf), np.nextafter(xs, np.inf)])
        if kind == 'int':
            return rs.randint(int(np.floor(lo)) - 2, int(np.ceil(hi)) + 3, m)
        if kind == 'empty':
            return np.array([], dtype=float)
        raise ValueError(kind)

    node_kinds = ['float_inc', 'int_inc', 'unit', 'unit_f', 'float_dec', 'int_dec', 'dupl', 'f32']
    query_kinds = ['inside', 'nodes', 'nodes_native', 'outside', 'mixed', 'midpoints', 'near_nodes', 'int', 'empty']
    count = 0
    for rep in range(5):
        for nk in node_kinds:
            for n in (1, 2, 3, 5, 8, 13):
                xf = node_set(nk, n)
                for qk in query_kinds:
                    m = int(rs.randint(1, 9))
                    x = queries(xf, qk, m)
                    ncol = int(rs.randint(1, 5))
                    fk = count % 4
                    if fk == 0:
                        f = rs.normal(0, 10, (n, ncol))
                    elif fk == 1:
                        f = rs.randint(-20, 20, (n, ncol))
                    elif fk == 2:
                        f = rs.uniform(-1e6, 1e6, (n, ncol))
                    else:
                        f = rs.normal(0, 1, (n, ncol)) * 10.0 ** rs.randint(-8, 8, (n, ncol))
                    run('interp2d/%s/%s/n%d' % (nk, qk, n), fns.interp2d, x, xf, f)
                    count += 1
    # documented examples, special values and odd forms
    f_doc = np.array([[0, 0, 0], [0, 1, 4], [2, 6, 2], [10, 10, 10]])
    xf_doc = np.array([0, 1, 2, 3])
    run('interp2d/doc', fns.interp2d, np.array([0.5, 1, 2.2, 2.5]), xf_doc, f_doc)
    run('interp2d/doc_edge', fns.interp2d, np.array([0, 3, -1, 4.5]), xf_doc, f_doc)
    run('interp2d/nanq', fns.interp2d, np.array([np.nan, 0.5, np.inf, -np.inf]), xf_doc, f_doc)
    f_inf = np.array([[0., np.inf], [1., 2.], [np.nan, 3.], [-np.inf, 4.]])
    run('interp2d/inf_table', fns.interp2d, np.array([0, 0.5, 1, 1.5, 2, 2.5, 3, 7, -2]), xf_doc, f_inf)
    run('interp2d/f1d', fns.interp2d, np.array([0.5, 1.5, 2.0]), xf_doc, np.array([1., 2., 4., 8.]))
    run('interp2d/f3d', fns.interp2d, np.array([0.5, 1.5]), xf_doc, rs.normal(0, 1, (4, 2, 3)))
    run('interp2d/lists', fns.interp2d, [0.5, 1.5], [0, 1, 2, 3], [[0, 1], [1, 2], [2, 3], [3, 4]])
    run('interp2d/x_list', fns.interp2d, [0.5, 1.5], xf_doc, f_doc)
    run('interp2d/xf_list', fns.interp2d, np.array([0.5, 1.5]), [0, 1, 2, 3], f_doc)
    run('interp2d/f_list', fns.interp2d, np.array([0.5, 1.5]), xf_doc, [[0, 1], [1, 2], [2, 3], [3, 4]])
    run('interp2d/x_scalar', fns.interp2d, 0.5, xf_doc, f_doc)
    run('interp2d/x_0d', fns.interp2d, np.array(0.5), xf_doc, f_doc)
    run('interp2d/x_2d', fns.interp2d, np.array([[0.5, 1.5]]), xf_doc, f_doc)
    run('interp2d/xf_empty', fns.interp2d, np.array([0.5, 1.5]), np.array([]), np.zeros((0, 2)))
    run('interp2d/f_short', fns.interp2d, np.array([0.5, 2.5]), xf_doc, f_doc[:2])
    run('interp2d/huge', fns.interp2d, np.array([1e300, -1e300, 1e-300]), np.array([-1e308, 0, 1e308]),
        np.array([[1., 2.], [3., 4.], [5., 6.]]))
    run('interp2d/tiny_gap', fns.interp2d, np.array([1.0, 1.0 + 5e-11, 1.0 + 1e-10, 1.0 + 2e-10]),
        np.array([0.0, 1.0, 1.0 + 1e-10, 1.0 + 3e-10, 2.0]), rs.normal(0, 1, (5, 2)))
    run('interp2d/bool_table', fns.interp2d, np.array([0.5, 1.0]), xf_doc, np.array([[True], [False], [True], [True]]))
    run('interp2d/uint_nodes', fns.interp2d, np.array([0.5, 1.0, 7.0]), np.array([0, 1, 2, 3], dtype=np.uint8), f_doc)
    run('interp2d/int_queries_uint', fns.interp2d, np.array([0, 1, 5], dtype=np.uint8),
        np.array([0, 1, 2, 3], dtype=np.uint8), f_doc)

    # ======================================================================
    # interp_left
    # ======================================================================
    rs = np.random.RandomState(2002)

    def as_form(arr, form):
        if form == 'array':
            return np.array(arr)
        if form == 'list':
            return np.array(arr).tolist()
        if form == 'tuple':
            return tuple(np.array(arr).tolist())
        raise ValueError(form)

    count = 0
    for rep in range(60):
        for n in (1, 2, 3, 6, 11):
            kind = count % 3
            if kind == 0:
                x = np.cumsum(rs.uniform(0.1, 2.0, n)) + rs.uniform(-3, 3)
            elif kind == 1:
                x = np.cumsum(rs.randint(1, 4, n)) + rs.randint(-3, 3)
            else:
                x = np.cumsum(rs.randint(0, 3, n)).astype(float)  # with repeated nodes
            xform = ['array', 'list', 'tuple'][(count // 3) % 3]
            xa = as_form(x, xform)
            lo, hi = float(x[0]), float(x[-1])
            span = max(hi - lo, 1.0)
            ykinds = [None,
                      rs.normal(0, 5, n),
                      rs.randint(-9, 9, n).tolist(),
                      tuple(rs.normal(0, 5, n).tolist()),
                      rs.normal(0, 1, (n, 2)),
                      ['s%d' % i for i in range(n)]]
            y = ykinds[count % len(ykinds)]
            m = int(rs.randint(1, 8))
            q_arr = np.concatenate([rs.uniform(lo, hi + span, m), x[rs.randint(0, n, 2)].astype(float)])
            # vector forms
            run('interp_left/arr', fns.interp_left, q_arr, xa, y)
            run('interp_left/list', fns.interp_left, q_arr.tolist(), xa, y)
            run('interp_left/tuple', fns.interp_left, tuple(q_arr.tolist()), xa, y)
            run('interp_left/int_arr', fns.interp_left, rs.randint(int(np.ceil(lo)), int(np.ceil(hi)) + 4, m), xa, y)
            run('interp_left/nodes_native', fns.interp_left, np.array(x)[rs.randint(0, n, m)], xa, y)
            # scalar forms
            qs = float(rs.uniform(lo, hi + span))
            run('interp_left/pyfloat', fns.interp_left, qs, xa, y)
            run('interp_left/npfloat', fns.interp_left, np.float64(qs), xa, y)
            run('interp_left/pyint', fns.interp_left, int(np.ceil(lo)) + int(rs.randint(0, 4)), xa, y)
            run('interp_left/npint', fns.interp_left, np.int64(int(np.ceil(lo)) + int(rs.randint(0, 4))), xa, y)
            run('interp_left/first_node', fns.interp_left, x[0], xa, y)
            run('interp_left/last_node', fns.interp_left, x[-1], xa, y)
            run('interp_left/no_y', fns.interp_left, q_arr, xa)
            run('interp_left/kw_y', fns.interp_left, q_arr, xa, y=y)
            # below the first node -> AssertionError (with its arguments)
            run('interp_left/below_scalar', fns.interp_left, lo - float(rs.uniform(0.01, 2)), xa, y)
            bad = q_arr.copy()
            bad[int(rs.randint(0, len(bad)))] = lo - 0.5
            run('interp_left/below_arr', fns.interp_left, bad, xa, y)
            run('interp_left/below_list', fns.interp_left, bad.tolist(), xa, y)
            run('interp_left/just_below', fns.interp_left, np.nextafter(lo, -np.inf), xa, y)
            count += 1
    x = [0., 1., 2., 3.]
    run('interp_left/empty_list', fns.interp_left, [], x)
    run('interp_left/empty_arr', fns.interp_left, np.array([]), x)
    run('interp_left/0d', fns.interp_left, np.array(1.5), x)
    run('interp_left/2d', fns.interp_left, np.array([[0.5, 1.5], [2.5, 3.5]]), x)
    run('interp_left/2d_single', fns.interp_left, np.array([[0.5]]), x)
    run('interp_left/nan', fns.interp_left, np.nan, x)
    run('interp_left/nan_arr', fns.interp_left, np.array([0.5, np.nan, 1.5]), x)
    run('interp_left/nan_first', fns.interp_left, [np.nan, 0.5], x)
    run('interp_left/inf', fns.interp_left, np.inf, x)
    run('interp_left/str', fns.interp_left, 'ab', x)
    run('interp_left/none', fns.interp_left, None, x)
    run('interp_left/x_empty', fns.interp_left, 1.0, [])
    run('interp_left/y_short', fns.interp_left, [0.5, 2.5], x, [1, 2])
    run('interp_left/y_scalar', fns.interp_left, [0.5, 2.5], x, 3.0)
    run('interp_left/bool', fns.interp_left, True, x)
    run('interp_left/gen', lambda: fns.interp_left((v for v in [0.5, 1.5]), x))
    run('interp_left/range', fns.interp_left, range(0, 3), x)
    run('interp_left/doc_a', fns.interp_left, [0, 1, 2.5, 5], [0, 2, 6], [1.5, 2.5, 3.5])
    run('interp_left/doc_b', fns.interp_left, [6, 7], [0, 2, 6], [1.5, 2.5, 3.5])
    run('interp_left/doc_c', fns.interp_left, [-1], [0, 2, 6], [1.5, 2.5, 3.5])

    # ======================================================================
    # calc_roll_av_vals
    # ======================================================================
    rs = np.random.RandomState(2003)
    modes = ['forward', 'backward', 'centre', 'center', 'other', None]
    count = 0
    for rep in range(14):
        for n in (1, 2, 3, 4, 5, 8, 13, 30):
            kind = count % 7
            if kind == 0:
                vals = rs.normal(0, 10, n)
            elif kind == 1:
                vals = rs.randint(-50, 50, n)
            elif kind == 2:
                vals = rs.randint(0, 9, n).tolist()
            elif kind == 3:
                vals = tuple(rs.normal(0, 1, n).tolist())
            elif kind == 4:
                vals = np.full(n, float(rs.normal(0, 100)))  # constants
            elif kind == 5:
                vals = (rs.uniform(0, 1, n) > 0.5)
            else:
                vals = rs.normal(0, 1, n).astype(np.float32)
            step_list = sorted(set([1, 2, 3, n // 2 if n > 1 else 1, max(n - 1, 1), n, n + 1, 2 * n + 1]))
            for steps in step_list:
                for mode in modes:
                    run('roll/%s/n%d/s%d' % (mode, n, steps), fns.calc_roll_av_vals, vals, steps, mode)
            run('roll/default', fns.calc_roll_av_vals, vals, min(2, n))
            run('roll/kw', fns.calc_roll_av_vals, vals, steps=min(3, n), mode='centre')
            run('roll/float_steps', fns.calc_roll_av_vals, vals, 2.0, 'centre')
            run('roll/frac_steps', fns.calc_roll_av_vals, vals, 2.7, 'backward')
            run('roll/np_steps', fns.calc_roll_av_vals, vals, np.int64(min(3, n)), 'forward')
            run('roll/str_steps', fns.calc_roll_av_vals, vals, '2', 'forward')
            count += 1
    base = [4, 4, 4, 4, 1, 1, 1, 1]
    for mode in modes:
        for steps in (0, -1, -3, 1, 3, 8, 9):
            run('roll/base/%s/%d' % (mode, steps), fns.calc_roll_av_vals, base, steps, mode)
        run('roll/empty/%s' % mode, fns.calc_roll_av_vals, [], 1, mode)
        run('roll/empty_arr/%s' % mode, fns.calc_roll_av_vals, np.array([]), 2, mode)
        run('roll/2d/%s' % mode, fns.calc_roll_av_vals, np.arange(6.).reshape(2, 3), 2, mode)
        run('roll/big_int/%s' % mode, fns.calc_roll_av_vals, np.array([2 ** 62, 2 ** 62 - 1, -2 ** 62, 7]), 2, mode)
        run('roll/nan/%s' % mode, fns.calc_roll_av_vals, [1.0, np.nan, 2.0, np.inf, 3.0], 2, mode)
        run('roll/none_steps/%s' % mode, fns.calc_roll_av_vals, base, None, mode)
        run('roll/scalar/%s' % mode, fns.calc_roll_av_vals, 3.0, 1, mode)
        run('roll/uint8/%s' % mode, fns.calc_roll_av_vals, np.array([250, 251, 3, 4], dtype=np.uint8), 3, mode)
        run('roll/complex/%s' % mode, fns.calc_roll_av_vals, np.array([1 + 2j, 3 - 1j, 0.5j]), 2, mode)

    # histories: repeated smoothing of the previous output, argument reused
    rs = np.random.RandomState(2004)
    for rep in range(40):
        n = int(rs.randint(3, 25))
        series = rs.normal(0, 3, n) if rep % 2 else rs.randint(-9, 9, n)

        def history(series=series, n=n, seed=rep):
            r2 = np.random.RandomState(seed)
            out = []
            cur = series
            for k in range(6):
                steps = int(r2.randint(1, n + 1))
                mode = ['forward', 'backward', 'centre'][int(r2.randint(0, 3))]
                cur = fns.calc_roll_av_vals(cur, steps, mode)
                out.append(cur)
                out.append(fns.calc_roll_av_vals(series, steps, mode))
            return out
        run('roll/history', history)

    # ======================================================================
    # calc_step_fn_vals_error / calc_step_fn_steps_vals
    # ======================================================================
    rs = np.random.RandomState(2005)
    dirs = [None, 'up', 'down', 'other']
    count = 0
    for rep in range(25):
        for n in (1, 2, 3, 4, 5, 8, 12, 25):
            kind = count % 8
            if kind == 0:
                vals = rs.normal(0, 5, n)
            elif kind == 1:
                vals = rs.randint(-9, 9, n)
            elif kind == 2:
                vals = rs.randint(0, 9, n).tolist()
            elif kind == 3:
                vals = tuple((-np.abs(rs.normal(3, 2, n))).tolist())  # all negative
            elif kind == 4:
                k = int(rs.randint(0, n))
                vals = np.where(np.arange(n) < k, float(rs.normal(0, 5)), float(rs.normal(0, 5)))  # exact step
            elif kind == 5:
                k = int(rs.randint(0, n))
                vals = (np.where(np.arange(n) < k, -4.0, 3.0) + rs.normal(0, 0.3, n)).tolist()
            elif kind == 6:
                vals = rs.randint(-3, 4, n).astype(np.int32)
            else:
                vals = rs.normal(0, 1, n).astype(np.float32)
            for p in (1, 2, 3, 0.5, 2.0, 0):
                for d in dirs:
                    run('steperr/p%s/%s/n%d' % (p, d, n), fns.calc_step_fn_vals_error, vals, p, d)
            run('steperr/default', fns.calc_step_fn_vals_error, vals)
            run('steperr/kw', fns.calc_step_fn_vals_error, vals, dir='down', pow=2)
            run('stepvals/auto', fns.calc_step_fn_steps_vals, vals)
            for ind in sorted(set([0, 1, n // 2, max(n - 2, 0), n - 1, n, n + 3, -1])):
                run('stepvals/ind%d' % ind, fns.calc_step_fn_steps_vals, vals, ind)
                run('stepvals/npind%d' % ind, fns.calc_step_fn_steps_vals, vals, np.int64(ind))
            run('stepvals/kw', fns.calc_step_fn_steps_vals, vals, ind=n // 2)

            def chain(vals=vals):
                out = []
                for p in (1, 2):
                    for d in (None, 'up', 'down'):
                        err = fns.calc_step_fn_vals_error(vals, pow=p, dir=d)
                        ind = np.argmin(err)
                        out.append((err, ind, fns.calc_step_fn_steps_vals(vals, ind)))
                return out
            run('step/chain', chain)
            count += 1
    for d in dirs:
        run('steperr/empty/%s' % d, fns.calc_step_fn_vals_error, [], 1, d)
        run('steperr/2d/%s' % d, fns.calc_step_fn_vals_error, np.arange(9.).reshape(3, 3), 1, d)
        run('steperr/nan/%s' % d, fns.calc_step_fn_vals_error, [1.0, np.nan, 3.0, 4.0], 2, d)
        run('steperr/inf/%s' % d, fns.calc_step_fn_vals_error, [1.0, np.inf, 3.0, 4.0], 1, d)
        run('steperr/scalar/%s' % d, fns.calc_step_fn_vals_error, 3.0, 1, d)
        run('steperr/bool/%s' % d, fns.calc_step_fn_vals_error, [True, True, False, False], 1, d)
        run('steperr/test_a/%s' % d, fns.calc_step_fn_vals_error, [4, 4, 4, 4, 1, 1, 1, 1], 1, d)
        run('steperr/test_b/%s' % d, fns.calc_step_fn_vals_error, [4, 5, 4, 4, 1, 1, 2, 1], 2, d)
        run('steperr/uint8/%s' % d, fns.calc_step_fn_vals_error, np.array([200, 201, 3, 4], dtype=np.uint8), 2, d)
        run('steperr/big/%s' % d, fns.calc_step_fn_vals_error, np.array([1e200, -1e200, 3e199, 1e-200]), 2, d)
    run('stepvals/empty', fns.calc_step_fn_steps_vals, [])
    run('stepvals/empty_ind', fns.calc_step_fn_steps_vals, [], 0)
    run('stepvals/float_ind', fns.calc_step_fn_steps_vals, [1., 2., 3.], 1.0)

    # ======================================================================
    # design spectra
    # ======================================================================
    rs = np.random.RandomState(2006)
    sites = ['C', 'D', 'E']
    bad_sites = ['F', 'c', 'A', 'B', '', 'CD', None, 3, np.str_('D')]
    knots = [0.0, 0.1, 0.3, 0.56, 1.0, 1.5, 3.0]
    corner = []
    for k in knots:
        corner += [k, float(np.nextafter(k, -np.inf)), float(np.nextafter(k, np.inf)), k * (1 + 1e-9), k * (1 - 1e-9)]
    corner += [-0.0, 1e-300, 5e-324, 0.05, 0.2, 0.4, 0.8, 1.2, 2.0, 2.999999, 3.000001, 4.5, 10.0, 1e3]
    corner = [float(c) for c in corner if c >= 0]
    wild = [1e154, 1e200, 1e308, float(np.inf), float(np.nan)]
    negs = [-1e-300, -0.05, -1.0, -np.inf, float(np.nextafter(0.0, -np.inf))]

    def trim(seq, site, keep):
        # the full list for the three valid site classes, a short one for the invalid ones
        seq = list(seq)
        return seq if site in sites else seq[::max(len(seq) // keep, 1)]
    rand_t = np.concatenate([rs.uniform(0, 5, 500), 10.0 ** rs.uniform(-6, 3, 300)]).tolist()

    for site in sites + bad_sites:
        for t in trim(corner + wild + negs + rand_t[:150], site, 25):
            run('ch/float/%s' % site, ds.c_h_factor, t, site)
            run('ch/npfloat/%s' % site, ds.c_h_factor, np.float64(t), site)
        for t in trim(rand_t[150:], site, 10):
            run('ch/float_r/%s' % site, ds.c_h_factor, t, site)
        run('ch/list_corner/%s' % site, ds.c_h_factor, list(corner), site)
        run('ch/arr_corner/%s' % site, ds.c_h_factor, np.array(corner), site)
        run('ch/tuple_corner/%s' % site, ds.c_h_factor, tuple(corner), site)
        run('ch/list_wild/%s' % site, ds.c_h_factor, corner + wild, site)
        run('ch/arr_wild/%s' % site, ds.c_h_factor, np.array(corner + wild), site)
        for w in wild:
            run('ch/list_wild1/%s' % site, ds.c_h_factor, [0.5, w, 2.0], site)
            run('ch/arr_wild1/%s' % site, ds.c_h_factor, np.array([0.5, w, 2.0]), site)
        run('ch/arr_rand/%s' % site, ds.c_h_factor, np.array(rand_t), site)
        run('ch/list_rand/%s' % site, ds.c_h_factor, list(rand_t), site)
        run('ch/kw/%s' % site, ds.c_h_factor, period=[0.2, 0.7, 2.0, 4.0], site_class=site)
        run('ch/int_list/%s' % site, ds.c_h_factor, [0, 1, 2, 3, 4, 7], site)
        run('ch/int_arr/%s' % site, ds.c_h_factor, np.arange(0, 9), site)
        run('ch/int32_arr/%s' % site, ds.c_h_factor, np.arange(0, 9, dtype=np.int32), site)
        run('ch/f32_arr/%s' % site, ds.c_h_factor, np.array(rand_t[:40], dtype=np.float32), site)
        run('ch/mixed_list/%s' % site, ds.c_h_factor, [0, 0.05, np.float64(0.2), 1, np.float32(1.2), 2, True, 5], site)
        run('ch/int_scalar/%s' % site, ds.c_h_factor, 1, site)
        run('ch/npint_scalar/%s' % site, ds.c_h_factor, np.int64(1), site)
        run('ch/f32_scalar/%s' % site, ds.c_h_factor, np.float32(0.7), site)
        run('ch/0d/%s' % site, ds.c_h_factor, np.array(0.7), site)
        run('ch/empty_list/%s' % site, ds.c_h_factor, [], site)
        run('ch/empty_arr/%s' % site, ds.c_h_factor, np.array([]), site)
        run('ch/2d/%s' % site, ds.c_h_factor, np.array([[0.2, 0.7], [1.0, 2.0]]), site)
        run('ch/2d_single/%s' % site, ds.c_h_factor, np.array([[0.2], [0.7]]), site)
        run('ch/neg_first/%s' % site, ds.c_h_factor, [-0.1, 0.5, 1.0], site)
        run('ch/neg_mid/%s' % site, ds.c_h_factor, [0.5, -0.1, 1.0], site)
        run('ch/neg_last/%s' % site, ds.c_h_factor, np.array([0.5, 1.0, -2.0]), site)
        run('ch/nan_list/%s' % site, ds.c_h_factor, [np.nan, 0.5], site)
        run('ch/none/%s' % site, ds.c_h_factor, None, site)
        run('ch/str/%s' % site, ds.c_h_factor, 'ab', site)
        run('ch/dict/%s' % site, ds.c_h_factor, {0: 0.5, 1: 2.0}, site)
        run('ch/one_list/%s' % site, ds.c_h_factor, [0.7], site)
    for t in corner + wild + negs + rand_t[:100]:
        run('ch/default_site', ds.c_h_factor, t)
    run('ch/default_site_list', ds.c_h_factor, list(corner))

    factor_sets = [(0.13, 1.0, 1.0), (0.4, 1.3, 1.0), (0.3, 1.8, 1.2), (1, 1, 1), (0.6, 0.25, 1.0),
                   (np.float64(0.22), np.float64(1.0), 1), (0.0, 1.0, 1.0), (-0.2, 1.0, 1.0),
                   (np.float32(0.3), 1.0, 1.0)]
    for site in sites + bad_sites:
        for t in trim(corner + wild + negs + rand_t[:80], site, 25):
            for (z, r, nf) in factor_sets[:3]:
                run('sd/float/%s' % site, ds.sd_nzs, t, site, z, r, nf)
            run('sd/npfloat/%s' % site, ds.sd_nzs, np.float64(t), site, 0.4, 1.3, 1.1)
            run('sd/arr1/%s' % site, ds.sd_nzs, np.array([t]), site, 0.4, 1.3, 1.1)
        for t in trim(rand_t[80:400], site, 10):
            z, r, nf = factor_sets[int(rs.randint(0, len(factor_sets)))]
            run('sd/float_r/%s' % site, ds.sd_nzs, t, site, z, r, nf)
        for t in (0, 1, 2, 3, 4, 10, True, False):
            for (z, r, nf) in factor_sets:
                run('sd/int/%s' % site, ds.sd_nzs, t, site, z, r, nf)
            run('sd/npint/%s' % site, ds.sd_nzs, np.int64(t), site, 0.4, 1.3, 1.1)
            run('sd/npint32/%s' % site, ds.sd_nzs, np.int32(t), site, 0.4, 1, 1)
        for t in (0.0, 0.05, 0.2, 0.45, 0.8, 1.2, 2.0, 3.0, 5.0):
            run('sd/f32/%s' % site, ds.sd_nzs, np.float32(t), site, 0.4, 1.3, 1.1)
            run('sd/0d/%s' % site, ds.sd_nzs, np.array(t), site, 0.4, 1.3, 1.1)
            run('sd/arr_factors/%s' % site, ds.sd_nzs, t, site, np.array([0.1, 0.2]), 1.3, np.array([1.0, 1.1]))
            run('sd/kw/%s' % site, ds.sd_nzs, period=t, site_class=site, z_factor=0.3, r_factor=1.0, n_factor=1.0)
            run('sd/str_factor/%s' % site, ds.sd_nzs, t, site, 'z', 1.0, 1.0)
            run('sd/none_factor/%s' % site, ds.sd_nzs, t, site, None, 1.0, 1.0)
        run('sd/arr/%s' % site, ds.sd_nzs, np.array([0.2, 0.7]), site, 0.4, 1.3, 1.1)
        run('sd/list/%s' % site, ds.sd_nzs, [0.2, 0.7], site, 0.4, 1.3, 1.1)
        run('sd/list1/%s' % site, ds.sd_nzs, [0.2], site, 0.4, 1.3, 1.1)
        run('sd/empty/%s' % site, ds.sd_nzs, np.array([]), site, 0.4, 1.3, 1.1)
        run('sd/none/%s' % site, ds.sd_nzs, None, site, 0.4, 1.3, 1.1)
        run('sd/str/%s' % site, ds.sd_nzs, '1.0', site, 0.4, 1.3, 1.1)

    # displacements as fractions of (approximately) the corner displacement, so most of them are admissible
    frac_list = [0.0, -0.0, 1e-300, 0.001, 0.01, 0.05, 0.1, 0.2, 0.35, 0.5, 0.9, 0.999999, 1.000001, 1.1, 2.0, 10.0,
                 -0.1, np.inf, -np.inf, np.nan] + rs.uniform(0, 1.05, 120).tolist() \
        + (10.0 ** rs.uniform(-8, 0, 40)).tolist()
    approx_coeff = {'C': 3.96, 'D': 6.42, 'E': 9.96}
    for site in sites + bad_sites:
        for (z, r, nf) in factor_sets:
            d_ref = approx_coeff.get(site if isinstance(site, str) else 'x', 5.0) * abs(float(z)) * r * nf / 39.478 * 9.81
            d_ref = d_ref if d_ref > 0 else 0.1
            for fr in trim(frac_list, site, 12):
                run('teff/float/%s' % site, ds.t_eff, fr * d_ref, site, z, r, nf)
            for fr in trim(frac_list[:40], site, 6):
                run('teff/npfloat/%s' % site, ds.t_eff, np.float64(fr * d_ref), site, z, r, nf)
            for d in (0, 1, 2, True):
                run('teff/int/%s' % site, ds.t_eff, d, site, z, r, nf)
            # the corner displacement itself and its neighbours (taken from sd_nzs at T = 3 s)

            def corner_case(site=site, z=z, r=r, nf=nf):
                out = []
                d_c = ds.sd_nzs(3.0, site, z, r, nf) / (2 * np.pi) ** 2 * 9.81
                for d in (d_c, np.nextafter(d_c, -np.inf), np.nextafter(d_c, np.inf), 0.5 * d_c, 1.5 * d_c):
                    out.append(observe(ds.t_eff, (d, site, z, r, nf)))
                return out
            run('teff/corner/%s' % site, corner_case)
        run('teff/arr/%s' % site, ds.t_eff, np.array([0.1, 0.2]), site, 0.4, 1.3, 1.0)
        run('teff/arr1/%s' % site, ds.t_eff, np.array([0.1]), site, 0.4, 1.3, 1.0)
        run('teff/arr_z/%s' % site, ds.t_eff, 0.1, site, np.array([0.4, 0.5]), 1.3, 1.0)
        run('teff/kw/%s' % site, ds.t_eff, displacement=0.1, site_class=site, z_factor=0.4, r_factor=1.3,
            n_factor=1.0)
        run('teff/none/%s' % site, ds.t_eff, None, site, 0.4, 1.3, 1.0)
        run('teff/str_z/%s' % site, ds.t_eff, 0.1, site, 'z', 1.3, 1.0)
        run('teff/zero_z/%s' % site, ds.t_eff, 0.0, site, 0.0, 1.0, 1.0)

    # histories across the three design-spectrum functions
    for site in sites:
        def spectrum_chain(site=site):
            out = []
            ts = np.linspace(0.0, 6.0, 241)
            ch = ds.c_h_factor(ts, site)
            out.append(ch)
            for (z, r, nf) in factor_sets[:4]:
                sd = [ds.sd_nzs(t, site, z, r, nf) for t in ts]
                out.append(sd)
                disp = [s / (2 * np.pi) ** 2 * 9.81 for s in sd]
                back = [observe(ds.t_eff, (d, site, z, r, nf)) for d in disp]
                out.append(back)
                out.append(ds.c_h_factor(ts.tolist(), site))
                out.append([ds.c_h_factor(float(t), site) for t in ts])
            # dense sweep of periods over seven decades, array / list / scalar forms against each other
            r2 = np.random.RandomState(77)
            tl = np.concatenate([10.0 ** r2.uniform(-5, 2, 4000), r2.uniform(0, 3.5, 4000)])
            out.append(ds.c_h_factor(tl, site))
            out.append(ds.c_h_factor(tl.tolist(), site))
            out.append([ds.c_h_factor(t, site) for t in tl.tolist()])
            out.append([ds.sd_nzs(t, site, 0.4, 1.3, 1.1) for t in tl.tolist()])
            out.append([ds.sd_nzs(t, site, 0.4, 1.3, 1.1) for t in tl])
            return out
        run('design/chain/%s' % site, spectrum_chain)

    return records


# --------------------------------------------------------------------------
# driver
# --------------------------------------------------------------------------

def worker(pkg_root, out_file):
    pkg_root = os.path.realpath(pkg_root)
    sys.path.insert(0, pkg_root)
    import numpy as np
    np.seterr(all='warn')
    warnings.simplefilter('ignore')  # case generation only; observe() records warnings of the calls
    import eqsig
    got = os.path.realpath(os.path.dirname(os.path.dirname(eqsig.__file__)))
    if got != pkg_root:
        print('worker: eqsig imported from %s, expected %s' % (got, pkg_root))
        sys.exit(3)
    records = build_and_run(eqsig)
    with open(out_file, 'wb') as fh:
        pickle.dump(records, fh, protocol=2)
    sys.exit(0)


def main():
    cwd = os.getcwd()
    if not os.path.isdir(os.path.join(cwd, 'eqsig')):
        print('run from the worktree root (no eqsig/ in %s)' % cwd)
        return 2
    tmp = tempfile.mkdtemp(prefix='c20_equiv%d_' % TWIN)
    try:
        orig_root = os.path.join(tmp, 'orig')
        os.makedirs(orig_root)
        tar_path = os.path.join(tmp, 'orig.tar')
        with open(tar_path, 'wb') as fh:
            subprocess.check_call(['git', 'archive', 'HEAD', 'eqsig'], cwd=cwd, stdout=fh)
        subprocess.check_call(['tar', '-xf', tar_path, '-C', orig_root])

        changed = []
        for dirpath, _, files in os.walk(os.path.join(cwd, 'eqsig')):
            for name in files:
                if not name.endswith('.py'):
                    continue
                p_new = os.path.join(dirpath, name)
                p_old = os.path.join(orig_root, os.path.relpath(p_new, cwd))
                if not os.path.exists(p_old) or open(p_old, 'rb').read() != open(p_new, 'rb').read():
                    changed.append(os.path.relpath(p_new, cwd))
        print('files differing from HEAD: %s' % (sorted(changed) if changed else 'NONE (edit not applied?)'))

        outs = {}
        for tag, root in (('orig', orig_root), ('edit', cwd)):
            out_file = os.path.join(tmp, tag + '.pkl')
            env = dict(os.environ)
            env['PYTHONPATH'] = root
            env['PYTHONHASHSEED'] = '0'
            env['PYTHONDONTWRITEBYTECODE'] = '1'
            rc = subprocess.call([sys.executable, os.path.abspath(__file__), '--worker', root, out_file],
                                 env=env, cwd=tmp)
            if rc != 0:
                print('worker for %s failed with exit status %d' % (tag, rc))
                return 2
            with open(out_file, 'rb') as fh:
                outs[tag] = pickle.load(fh)
    finally:
        import shutil
        shutil.rmtree(tmp, ignore_errors=True)

    a, b = outs['orig'], outs['edit']
    n_bad = 0
    if len(a) != len(b):
        print('different number of records: %d vs %d' % (len(a), len(b)))
        n_bad += 1
    n_exc = 0
    for i, ((la, ra), (lb, rb)) in enumerate(zip(a, b)):
        if 'exception' in ra:
            n_exc += 1
        if la != lb or ra != rb:
            n_bad += 1
            if n_bad <= 15:
                print('MISMATCH in case %d (%s):' % (i, la))
                for key in sorted(set(ra) | set(rb)):
                    if ra.get(key) != rb.get(key):
                        print('   %s:\n      orig: %r\n      edit: %r' % (key, ra.get(key), rb.get(key)))
    print('%d cases compared (%d of them raise), %d mismatches' % (len(a), n_exc, n_bad))
    if n_bad:
        print('NOT EQUIVALENT')
        return 1
    print('EQUIVALENT on all cases')
    return 0


if __name__ == '__main__':
    if len(sys.argv) == 4 and sys.argv[1] == '--worker':
        worker(sys.argv[2], sys.argv[3])
    sys.exit(main())

"""
Equivalence check for twin1 (C10): calc_sig_dur_vals / calc_sig_dur use a shared helper that lives in
eqsig/fns/peaks_and_crossings.py.

Run with twin1 applied and cwd = the worktree:  /venv/bin/python out/equiv1.py
The original package is extracted from git HEAD into a temporary directory; the same deterministic list of cases is
evaluated in two subprocesses (original / edited) and the encoded outcomes (values incl. type, dtype, shape and bits,
exceptions, warnings, argument mutation and object state) are compared for exact equality.
"""
import os
import pickle
import struct
import subprocess
import sys
import tempfile
import warnings


def enc(x):
    import numpy as np
    if isinstance(x, np.ndarray):
        return ("nd", x.dtype.str, x.shape, np.ascontiguousarray(x).tobytes())
    if isinstance(x, np.generic):
        return ("ng", x.dtype.str, x.tobytes())
    if isinstance(x, bool) or x is None or isinstance(x, (str, int)):
        return (type(x).__name__, x)
    if isinstance(x, float):
        return ("float", struct.pack("<d", x))
    if isinstance(x, (tuple, list)):
        return (type(x).__name__, [enc(v) for v in x])
    if isinstance(x, dict):
        return ("dict", [(k, enc(x[k])) for k in sorted(x)])
    return ("obj", type(x).__name__)


def run_case(fn, args_for_mutation_check=()):
    """Runs fn() recording result or exception, warnings, and the (possibly mutated) arguments afterwards"""
    with warnings.catch_warnings(record=True) as wlist:
        warnings.simplefilter("always")
        try:
            out = ("ok", enc(fn()))
        except Exception as e:  # noqa
            out = ("exc", type(e).__name__, str(e))
    wenc = [(w.category.__name__, str(w.message)) for w in wlist]
    return out, wenc, [enc(a) for a in args_for_mutation_check]


def worker(pkg_root, out_path):
    sys.path.insert(0, pkg_root)
    import numpy as np
    import eqsig
    assert os.path.realpath(eqsig.__file__).startswith(os.path.realpath(pkg_root) + os.sep), eqsig.__file__
    from eqsig import im

    rng = np.random.default_rng(20260926)
    results = []

    def add(tag, fn, args=()):
        results.append((tag, run_case(fn, args)))

    # ---- records ----
    records = []
    for n in [1, 2, 3, 4, 5, 7, 10, 33, 100, 257, 1000, 4096]:
        for rep in range(4):
            env = np.exp(-((np.arange(n) - 0.4 * n) / (0.2 * n + 1)) ** 2)
            records.append(("rand_n%d_%d" % (n, rep), rng.standard_normal(n) * env * 10 ** rng.uniform(-3, 2)))
    records.append(("zeros5", np.zeros(5)))
    records.append(("zeros1", np.zeros(1)))
    records.append(("ones6", np.ones(6)))
    records.append(("spike", np.array([0., 0., 0., 5., 0., 0.])))
    records.append(("two_spikes", np.array([0., 1., 0., 0., 1., 0., 0.])))
    records.append(("lead_zeros", np.concatenate([np.zeros(13), rng.standard_normal(50)])))
    records.append(("trail_zeros", np.concatenate([rng.standard_normal(50), np.zeros(13)])))
    records.append(("int64", rng.integers(-9, 10, size=40)))
    records.append(("int32", rng.integers(-9, 10, size=40).astype(np.int32)))
    records.append(("int8_overflow", rng.integers(-100, 100, size=40).astype(np.int8)))
    records.append(("float32", rng.standard_normal(64).astype(np.float32)))
    records.append(("with_nan", np.array([0.1, 0.5, np.nan, 0.3, 0.2])))
    records.append(("with_inf", np.array([0.1, 0.5, np.inf, 0.3, 0.2])))
    records.append(("huge", rng.standard_normal(30) * 1e160))
    records.append(("tiny", rng.standard_normal(30) * 1e-170))
    base = rng.standard_normal(300) * np.hanning(300)
    records.append(("base", base))
    records.append(("base_x3", base * 3.0))
    records.append(("base_x2pow", base * 2.0 ** 7))
    records.append(("base_pad4", np.concatenate([np.zeros(4), base])))
    records.append(("empty", np.zeros(0)))

    fracs = [(0.05, 0.95), (0.05, 0.75), (0.01, 0.99), (0.2, 0.8), (0.45, 0.55), (0.499, 0.501), (1e-9, 1 - 1e-9),
             (0.3, 0.3), (0.9, 0.1), (0.0, 1.0), (0, 1), (0.5, 1.5)]
    dts = [0.01, 0.005, 0.02, 1.0, 1, np.float64(0.01), np.float32(0.01), 1. / 3]

    # ---- calc_sig_dur_vals on arrays ----
    k = 0
    for name, rec in records:
        for (s, e) in fracs:
            dt = dts[k % len(dts)]
            k += 1
            for se in (False, True):
                a = rec.copy()
                add(("vals", name, s, e, repr(dt), se), lambda: im.calc_sig_dur_vals(a, dt, start=s, end=e, se=se), (a,))
        a = rec.copy()
        add(("vals_default", name), lambda: im.calc_sig_dur_vals(a, 0.01), (a,))
        add(("vals_positional", name), lambda: im.calc_sig_dur_vals(a, 0.01, 0.1, 0.9, True), (a,))
        add(("vals_deprecated", name), lambda: im.calc_significant_duration(a, 0.01), (a,))
    # lists / tuples / scalars (invalid for the array variant: must fail in the same way)
    lst = [0.0, 0.1, -0.5, 0.7, 0.2, -0.1]
    add(("vals_list",), lambda: im.calc_sig_dur_vals(lst, 0.01), (lst,))
    add(("vals_tuple",), lambda: im.calc_sig_dur_vals(tuple(lst), 0.01))
    add(("vals_scalar",), lambda: im.calc_sig_dur_vals(3.0, 0.01))
    add(("vals_2d",), lambda: im.calc_sig_dur_vals(np.arange(12.).reshape(3, 4), 0.01))

    # ---- calc_sig_dur on AccSignal objects ----
    def cum_abs(asig):
        return np.cumsum(np.abs(asig.values))

    def cum_sq_list(asig):
        return list(np.cumsum(asig.values ** 2))

    def cum_int(asig):
        return np.cumsum((np.abs(asig.values) * 10).astype(np.int64))

    def cum_f32(asig):
        return np.cumsum(asig.values ** 2).astype(np.float32)

    ims = [("none", None), ("arias", im.calc_arias_intensity), ("cav", im.calc_cav), ("cum_abs", cum_abs),
           ("list", cum_sq_list), ("int", cum_int), ("f32", cum_f32)]

    def state(asig):
        return enc(dict(asig.__dict__))

    k = 0
    for name, rec in records:
        if len(rec) == 0:
            continue
        for input_kind in ("array", "list"):
            vals = rec.copy() if input_kind == "array" else rec.tolist()
            for (s, e) in fracs[:8]:
                dt = dts[k % len(dts)]
                imname, imf = ims[k % len(ims)]
                k += 1
                try:
                    asig = eqsig.AccSignal(vals, dt)
                except Exception as ex:  # noqa
                    results.append((("ctor", name, input_kind), type(ex).__name__))
                    continue
                for se in (False, True):
                    add(("sig", name, input_kind, s, e, repr(dt), imname, se),
                        lambda: im.calc_sig_dur(asig, start=s, end=e, im=imf, se=se), (vals,))
                    results.append((("state", name, input_kind, s, e, imname, se), state(asig)))
        # multi-step history on one object
        asig = eqsig.AccSignal(rec.copy(), 0.01)
        add(("hist0", name), lambda: im.calc_sig_dur(asig))
        add(("hist1", name), lambda: im.calc_sig_dur(asig, se=True))
        add(("hist_ai", name), lambda: asig.arias_intensity if hasattr(asig, "arias_intensity") else None)
        add(("hist_sir", name), lambda: im.calc_sir(asig) if hasattr(asig, "arias_intensity") else None)
        add(("hist_reset", name), lambda: asig.reset_values(np.concatenate([np.zeros(3), 2.0 * asig.values])))
        add(("hist2", name), lambda: im.calc_sig_dur(asig, 0.05, 0.75, None, True))
        add(("hist3", name), lambda: im.calc_sig_dur(asig, im=im.calc_cav))
        results.append((("hist_state", name), state(asig)))

    # helper must not leak into the public namespaces
    results.append((("public_names_eqsig",), sorted(n for n in dir(eqsig) if not n.startswith("_"))))
    results.append((("public_names_fns",), sorted(n for n in dir(eqsig.fns) if not n.startswith("_"))))
    results.append((("public_names_im",), sorted(n for n in dir(eqsig.im) if not n.startswith("_"))))

    with open(out_path, "wb") as f:
        pickle.dump(results, f)


def main():
    here = os.getcwd()
    assert os.path.isdir(os.path.join(here, "eqsig")), "run with cwd = the worktree"
    tmp = tempfile.mkdtemp(prefix="c10_equiv1_", dir="/tmp")
    subprocess.check_call("git archive HEAD eqsig | tar -x -C %s" % tmp, shell=True, cwd=here)
    outs = []
    for label, root in (("orig", tmp), ("edit", here)):
        out_path = os.path.join(tmp, label + ".pkl")
        env = dict(os.environ)
        env.pop("PYTHONPATH", None)
        subprocess.check_call([sys.executable, os.path.abspath(__file__), "--worker", root, out_path], cwd=root, env=env)
        with open(out_path, "rb") as f:
            outs.append(pickle.load(f))
    orig, edit = outs
    assert len(orig) == len(edit), (len(orig), len(edit))
    n_bad = 0
    n_ok_vals = 0
    n_exc = 0
    for (t0, r0), (t1, r1) in zip(orig, edit):
        assert t0 == t1, (t0, t1)
        if r0 != r1:
            n_bad += 1
            if n_bad < 10:
                print("MISMATCH", t0, "\n  orig:", str(r0)[:400], "\n  edit:", str(r1)[:400])
        if isinstance(r0, tuple) and len(r0) == 3 and isinstance(r0[0], tuple):
            if r0[0][0] == "ok":
                n_ok_vals += 1
            elif r0[0][0] == "exc":
                n_exc += 1
    print("cases: %d (returned: %d, raised: %d), mismatches: %d" % (len(orig), n_ok_vals, n_exc, n_bad))
    sys.exit(1 if n_bad else 0)


if __name__ == "__main__":
    if len(sys.argv) > 1 and sys.argv[1] == "--worker":
        worker(sys.argv[2], sys.argv[3])
    else:
        main()

"""Equivalence check for twin TWIN_K of property C04 (run with the twin applied, cwd = the worktree).

Loads the ORIGINAL package from git (HEAD) into a temporary directory and the EDITED package from the
working tree, then drives eqsig.Signal / eqsig.AccSignal objects of both in lock-step through
  (a) an exhaustive exploration of the observational cache state (which derived quantities have been read
      since the last change) x every mutator / settings change,
  (b) long random histories of mutators, settings changes and reads,
on random records and on edge-case records (short, integer dtype, lists, zeros).
After EVERY step it compares: the returned value (type, dtype, shape, bits), the exception (type, text),
the warnings issued, the printed text, the mutation of the arguments and the complete instance state
(`__dict__`: keys, key order, values, dtypes and the aliasing between attributes and returned objects).
Exit status 0 iff everything matches.
"""
import contextlib
import importlib
import io
import itertools
import os
import shutil
import subprocess
import sys
import tempfile
import time
import warnings

import numpy as np

TWIN_K = 2
WORKTREE = os.path.abspath(os.getcwd())
T_START = time.time()


# ----------------------------------------------------------------------------------------------------------
# loading the two packages
# ----------------------------------------------------------------------------------------------------------
def _load_pkg(root):
    for k in list(sys.modules):
        if k == 'eqsig' or k.startswith('eqsig.'):
            del sys.modules[k]
    importlib.invalidate_caches()
    sys.path.insert(0, root)
    try:
        mod = importlib.import_module('eqsig')
        importlib.import_module('eqsig.single')
    finally:
        sys.path.remove(root)
    assert os.path.abspath(mod.__file__).startswith(root + os.sep), (mod.__file__, root)
    assert os.path.abspath(sys.modules['eqsig.single'].__file__).startswith(root + os.sep)
    return mod


assert os.path.isdir(os.path.join(WORKTREE, 'eqsig')) and os.path.exists(os.path.join(WORKTREE, '.git')), \
    'run me with cwd = the worktree'
TMP = tempfile.mkdtemp(prefix='c04_orig_', dir='/tmp')
subprocess.check_call('git archive HEAD eqsig | tar -x -C %s' % TMP, shell=True, cwd=WORKTREE)
sys.dont_write_bytecode = True
ORIG = _load_pkg(TMP)
EDIT = _load_pkg(WORKTREE)
assert ORIG is not EDIT and ORIG.AccSignal is not EDIT.AccSignal
_diff = subprocess.run(['git', 'diff', '--quiet', 'HEAD', '--', 'eqsig'], cwd=WORKTREE).returncode
if _diff == 0:
    print('WARNING: working tree has no edit applied under eqsig/ - comparing the original with itself')


# ----------------------------------------------------------------------------------------------------------
# comparison utilities
# ----------------------------------------------------------------------------------------------------------
class Mismatch(AssertionError):
    pass


def same(a, b, path='value'):
    """Strict structural equality: types, dtypes, shapes and bits (NaNs in the same places)."""
    if isinstance(a, np.ndarray) or isinstance(b, np.ndarray):
        if not (isinstance(a, np.ndarray) and isinstance(b, np.ndarray)):
            raise Mismatch('%s: %r vs %r' % (path, type(a), type(b)))
        if type(a) is not type(b) or a.dtype != b.dtype or a.shape != b.shape:
            raise Mismatch('%s: array %s%s vs %s%s' % (path, a.dtype, a.shape, b.dtype, b.shape))
        if a.dtype == object:
            for i, (x, y) in enumerate(zip(a.ravel(), b.ravel())):
                same(x, y, '%s[%d]' % (path, i))
            return
        if a.tobytes() != b.tobytes():
            eq_nan = a.dtype.kind in 'fc'
            if not np.array_equal(a, b, equal_nan=eq_nan):
                raise Mismatch('%s: array contents differ: %r vs %r' % (path, a, b))
            # equal in value but not in bits (e.g. -0.0 vs 0.0): not accepted either
            raise Mismatch('%s: array bits differ (signed zero?): %r vs %r' % (path, a, b))
        return
    if type(a).__module__.startswith('eqsig') or type(b).__module__.startswith('eqsig'):
        if type(a).__name__ != type(b).__name__:
            raise Mismatch('%s: %r vs %r' % (path, type(a), type(b)))
        if isinstance(a, BaseException):
            if str(a) != str(b):
                raise Mismatch('%s: exception text %r vs %r' % (path, str(a), str(b)))
        elif hasattr(a, '__dict__'):
            same_state(a, b, path)
        return
    if type(a) is not type(b):
        raise Mismatch('%s: type %r vs %r (%r vs %r)' % (path, type(a), type(b), a, b))
    if isinstance(a, (list, tuple)):
        if len(a) != len(b):
            raise Mismatch('%s: length %d vs %d' % (path, len(a), len(b)))
        for i, (x, y) in enumerate(zip(a, b)):
            same(x, y, '%s[%d]' % (path, i))
        return
    if isinstance(a, dict):
        if list(a.keys()) != list(b.keys()):
            raise Mismatch('%s: keys %r vs %r' % (path, list(a.keys()), list(b.keys())))
        for k in a:
            same(a[k], b[k], '%s[%r]' % (path, k))
        return
    if isinstance(a, (float, complex, np.generic)):
        if np.asarray(a).tobytes() != np.asarray(b).tobytes():
            raise Mismatch('%s: %r vs %r' % (path, a, b))
        return
    if isinstance(a, BaseException):
        if str(a) != str(b):
            raise Mismatch('%s: exception text %r vs %r' % (path, str(a), str(b)))
        return
    if a != b:
        raise Mismatch('%s: %r vs %r' % (path, a, b))


def alias_map(obj, extra=()):
    """Which instance attributes (and extra objects) are the same object / share memory."""
    items = [(k, v) for k, v in list(obj.__dict__.items()) + list(extra) if isinstance(v, np.ndarray)]
    out = []
    for (k1, v1), (k2, v2) in itertools.combinations(items, 2):
        if v1 is v2:
            out.append((k1, k2, 'is'))
        elif v1.size and v2.size and np.may_share_memory(v1, v2):
            out.append((k1, k2, 'shares'))
    return out


def same_state(a, b, path='state', extra_a=(), extra_b=()):
    da, db = a.__dict__, b.__dict__
    if list(da.keys()) != list(db.keys()):
        raise Mismatch('%s: __dict__ keys/order %r vs %r' % (path, list(da.keys()), list(db.keys())))
    for k in da:
        same(da[k], db[k], '%s.%s' % (path, k))
    if alias_map(a, extra_a) != alias_map(b, extra_b):
        raise Mismatch('%s: aliasing %r vs %r' % (path, alias_map(a, extra_a), alias_map(b, extra_b)))
    # class-level defaults that instances fall back on
    for k in ('_npts', '_smooth_freq_points', '_fa_spectrum', '_fa_freqs', '_cached_fa', '_cached_smooth_fa',
              '_smooth_fa_freqs', '_smooth_freq_range'):
        same(getattr(type(a), k), getattr(type(b), k), '%s.<class>.%s' % (path, k))


def call(fn):
    """Run fn capturing result / exception / warnings / printed text."""
    buf = io.StringIO()
    with warnings.catch_warnings(record=True) as wlist, contextlib.redirect_stdout(buf), np.errstate(all='ignore'):
        warnings.simplefilter('always')
        try:
            res, exc = fn(), None
        except Exception as e:  # noqa
            res, exc = None, e
    wl = [(w.category.__name__, str(w.message)) for w in wlist]
    return res, exc, wl, buf.getvalue()


N_STEPS = [0]


def lockstep(so, se, op, args_factory, trace):
    """Apply one operation to the original object `so` and the edited one `se` and compare everything."""
    N_STEPS[0] += 1
    ao, ae = args_factory(ORIG), args_factory(EDIT)
    ao0, ae0 = args_factory(ORIG), args_factory(EDIT)
    ro, xo, wo, po = call(lambda: op(so, *ao))
    re_, xe, we, pe = call(lambda: op(se, *ae))
    where = ' -> '.join(trace)
    try:
        if (xo is None) != (xe is None) or (xo is not None and type(xo).__name__ != type(xe).__name__):
            raise Mismatch('exception %r vs %r' % (xo, xe))
        if xo is not None:
            same(xo, xe, 'exception')
        same(ro, re_, 'result')
        same(wo, we, 'warnings')
        same(po, pe, 'stdout')
        same(list(ao), list(ae), 'arguments after the call')
        # argument mutation: identical on both sides (first check) and each side vs its pristine copy
        mo = [_mut(x, y) for x, y in zip(ao, ao0)]
        me = [_mut(x, y) for x, y in zip(ae, ae0)]
        if mo != me:
            raise Mismatch('argument mutation %r vs %r' % (mo, me))
        same_state(so, se, 'state', extra_a=[('<result>', ro)] + [('<arg%d>' % i, x) for i, x in enumerate(ao)],
                   extra_b=[('<result>', re_)] + [('<arg%d>' % i, x) for i, x in enumerate(ae)])
    except Mismatch as m:
        print('MISMATCH after history: %s\n   %s' % (where, m))
        raise
    return xo


def _mut(x, x0):
    try:
        same(x, x0)
        return False
    except Mismatch:
        return True


# ----------------------------------------------------------------------------------------------------------
# the operations
# ----------------------------------------------------------------------------------------------------------
def R(name):
    def op(s):
        return getattr(s, name)
    op.__name__ = name
    return name, op, (lambda mod: ())


READ_NAMES_SIG = ['values', 'dt', 'npts', 'time', 'fa_spectrum', 'fa_spectrum_abs', 'fa_freqs', 'fa_frequencies',
                  'smooth_fa_freqs', 'smooth_fa_frequencies', 'smooth_fa_spectrum', 'smooth_freq_range',
                  'smooth_freq_points', 'label', 'verbose']
READ_NAMES_ACC = ['response_times', 'velocity', 'displacement', 'pga', 'pgv', 'pgd', 's_a', 's_v', 's_d']
# the observational cache state is the set of these groups read since the last change
READ_GROUPS_SIG = ['fa_spectrum', 'smooth_fa_spectrum']
READ_GROUPS_ACC = ['fa_freqs', 'smooth_fa_spectrum', 'displacement', 'pga', 'pgv', 'pgd', 's_v']


def M(name, *a, **kw):
    """Method call with constant arguments (core=True: also used in the exhaustive part)."""
    core = kw.pop('core', False)

    def op(s):
        return getattr(s, name)(*a, **kw)
    op.core = core
    label = '%s(%s)' % (name, ', '.join([repr(x) for x in a] + ['%s=%r' % i for i in kw.items()]))
    return label, op, (lambda mod: ())


def MA(label, fn, factory, core=False):
    """Operation with freshly built (per package) arguments."""
    def op(s, *a):
        return fn(s, *a)
    op.core = core
    return label, op, factory


def setter(name):
    def op(s, v):
        setattr(s, name, v)
    return op


def mutators(rng, n, dt, acc):
    """Operations that change values or settings.  `n` is the current number of points."""
    series = rng.normal(size=n)
    series_l = [float(x) for x in rng.normal(size=n)]
    series_i = rng.integers(-5, 5, size=n)
    newvals = rng.normal(size=max(1, n + int(rng.integers(-3, 4))))
    other = rng.normal(size=n)
    freqs = np.sort(rng.uniform(0.2, 20, size=int(rng.integers(2, 9))))
    rts = np.sort(rng.uniform(0.05, 3.0, size=int(rng.integers(2, 7))))
    rts0 = np.concatenate([[0.0], rts])
    c = float(rng.normal())
    w = int(rng.integers(1, 8))
    ops = [
        MA('reset_values(arr)', lambda s, v: s.reset_values(v), lambda mod: (newvals.copy(),), core=True),
        MA('reset_values(list)', lambda s, v: s.reset_values(v), lambda mod: (list(newvals),)),
        MA('reset_values(int arr)', lambda s, v: s.reset_values(v), lambda mod: (series_i.copy(),), core=True),
        MA('values=', setter('values'), lambda mod: (newvals.copy(),)),
        M('add_constant', c, core=True),
        M('add_constant', 2),
        MA('add_series(arr)', lambda s, v: s.add_series(v), lambda mod: (series.copy(),), core=True),
        MA('add_series(list)', lambda s, v: s.add_series(v), lambda mod: (list(series_l),)),
        MA('add_series(int)', lambda s, v: s.add_series(v), lambda mod: (series_i.copy(),)),
        MA('add_series(wrong len)', lambda s, v: s.add_series(v), lambda mod: (np.ones(n + 1),)),
        MA('add_signal(Signal)', lambda s, o: s.add_signal(o), lambda mod: (mod.Signal(other.copy(), dt),), core=True),
        MA('add_signal(AccSignal)', lambda s, o: s.add_signal(o), lambda mod: (mod.AccSignal(other.copy(), dt),)),
        MA('add_signal(other dt)', lambda s, o: s.add_signal(o), lambda mod: (mod.Signal(other.copy(), dt * 2),)),
        MA('add_signal(not a signal)', lambda s, o: s.add_signal(o), lambda mod: (other.copy(),)),
        M('butter_pass', core=True),
        M('butter_pass', (None, 8)),
        M('butter_pass', [0.5, None], filter_order=2),
        M('butter_pass', (0.2, 10), remove_gibbs='start'),
        M('butter_pass', (0.2, 10), remove_gibbs='end', gibbs_extra=2),
        M('butter_pass', (0.2, 10), remove_gibbs='mid', gibbs_range=5, core=True),
        M('butter_pass', 3.0),
        M('remove_average', core=True),
        M('remove_average', section=max(1, n // 2)),
        M('remove_poly'),
        M('remove_poly', poly_fit=2, core=True),
        M('running_average'),
        M('running_average', width=w, core=True),
        M('running_average', width=2 * n + 1),
        M('get_section_average'),
        M('clear_cache', core=True),
        M('gen_fa_spectrum', p2_plus=1, core=True),
        M('gen_fa_spectrum', n=2 * n + 3),
        M('generate_fa_spectrum'),
        M('generate_smooth_fa_spectrum', band=20, core=True),
        MA('gen_smooth_fa_spectrum(freqs)', lambda s, f: s.gen_smooth_fa_spectrum(smooth_fa_freqs=f, band=30),
           lambda mod: (freqs.copy(),), core=True),
        MA('smooth_fa_freqs=', setter('smooth_fa_freqs'), lambda mod: (freqs.copy(),), core=True),
        MA('smooth_fa_freqs=list', setter('smooth_fa_freqs'), lambda mod: ([1, 2, 5],)),
        MA('smooth_fa_frequencies=', setter('smooth_fa_frequencies'), lambda mod: (freqs[::-1].copy(),), core=True),
        MA('smooth_freq_range=', setter('smooth_freq_range'), lambda mod: ((0.5, 12.0),), core=True),
        MA('smooth_freq_points=', setter('smooth_freq_points'), lambda mod: (7,)),
        M('set_smooth_fa_frequecies_by_range', (0.3, 9.0), 6, core=True),
    ]
    if acc:
        ops += [
            MA('response_times=', setter('response_times'), lambda mod: (rts.copy(),), core=True),
            MA('response_times=(0,...)', setter('response_times'), lambda mod: (rts0.copy(),)),
            MA('gen_response_spectrum(rts)', lambda s, r: s.gen_response_spectrum(response_times=r, xi=0.1),
               lambda mod: (rts.copy(),), core=True),
            M('gen_response_spectrum', min_dt_ratio=1),
            M('generate_response_spectrum', xi=0.02, core=True),
            MA('response_series(rts)', lambda s, r: s.response_series(response_times=r), lambda mod: (rts.copy(),)),
            M('response_series'),
            M('correct_me', core=True),
            M('remove_rolling_average', core=True),
            M('remove_rolling_average', mtype='velocity', freq_window=1.0 / (dt * w)),
            M('remove_rolling_average', mtype='acceleration', freq_window=1.0 / (dt * w) * 0.999, core=True),
            M('remove_rolling_average', mtype='acceleration', freq_window=3.0 / dt),
            M('rebase_displacement', core=True),
            M('set_zero_residual_velocity', core=True),
            M('set_zero_residual_velocity', timezone=(dt * 2, None)),
            M('set_zero_residual_velocity', timezone=(dt * 1, dt * max(2, n // 2))),
            M('set_zero_residual_displacement', core=True),
            M('set_zero_residual_displacement', timezone=(0, 1)),
            M('set_zero_residual_displacement_and_velocity', core=True),
            M('set_zero_residual_displacement_and_velocity', timezone=(dt * 2, None)),
            M('set_zero_residual_displacement_and_velocity', timezone=(dt * 1, dt * max(2, n // 2))),
            M('generate_displacement_and_velocity_series', trap=False, core=True),
            M('generate_displacement_and_velocity_series'),
            M('generate_peak_values'),
            M('generate_duration_stats'),
            M('generate_cumulative_stats'),
            M('generate_all_motion_stats', core=True),
            M('reset_all_motion_stats', core=True),
            MA('s_a=', setter('s_a'), lambda mod: (1.0,)),
            MA('velocity=', setter('velocity'), lambda mod: (np.zeros(3),)),
            MA('pga=', setter('pga'), lambda mod: (1.0,)),
        ]
    return ops


def reads(acc):
    return [R(nm) for nm in READ_NAMES_SIG + (READ_NAMES_ACC if acc else [])]


def records(rng):
    """name, factory(values) pairs: random ones and the edge cases of the quantifier."""
    out = [
        ('random64', rng.normal(size=64)),
        ('random50', rng.normal(size=50) * 3),
        ('random131', np.cumsum(rng.normal(size=131)) * 0.1),
        ('sine40', np.sin(np.arange(40) * 0.3)),
        ('zeros33', np.zeros(33)),
        ('int40', rng.integers(-9, 9, size=40)),
        ('list36', [float(x) for x in rng.normal(size=36)]),
        ('intlist35', [int(x) for x in rng.integers(-4, 4, size=35)]),
        ('short5', rng.normal(size=5)),
        ('short3', np.array([1.0, -2.0, 0.5])),
        ('short2', np.array([0.3, -0.1])),
        ('short1', np.array([2.0])),
        ('float32_48', rng.normal(size=48).astype(np.float32)),
    ]
    return out


def build(mod, cls_name, vals, dt, variant):
    cls = getattr(mod, cls_name)
    v = vals.copy() if isinstance(vals, np.ndarray) else list(vals)
    if cls_name == 'Signal':
        if variant == 0:
            return cls(v, dt)
        if variant == 1:
            return cls(v, dt, label='x', smooth_freq_range=(0.2, 15), verbose=1, ccbox=2)
        return cls(v, dt, smooth_fa_freqs=[0.5, 1.0, 2.0, 4.0])
    if variant == 0:
        return cls(v, dt, response_times=np.array([0.1, 0.3, 0.8, 1.5]))
    if variant == 1:
        return cls(v, dt, label='y', smooth_freq_range=(0.2, 15), verbose=1, response_period_range=(0.2, 2.0))
    if variant == 2:
        return cls(v, dt, smooth_fa_freqs=[0.5, 1.0, 2.0, 4.0], response_times=(0.0, 0.2, 0.7))
    return cls(v, dt, response_times=[0.25, 0.5])


def fresh_pair(cls_name, vals, dt, variant, trace):
    ro, xo, wo, po = call(lambda: build(ORIG, cls_name, vals, dt, variant))
    re_, xe, we, pe = call(lambda: build(EDIT, cls_name, vals, dt, variant))
    if (xo is None) != (xe is None):
        print('MISMATCH constructing %s: %r vs %r' % (trace, xo, xe))
        raise Mismatch('construction')
    if xo is not None:
        return None, None
    try:
        same(wo, we, 'warnings')
        same(po, pe, 'stdout')
        same_state(ro, re_, 'state after construction')
    except Mismatch as m:
        print('MISMATCH constructing %s: %s' % (trace, m))
        raise
    return ro, re_


# ----------------------------------------------------------------------------------------------------------
# (a) exhaustive over the observational cache state
# ----------------------------------------------------------------------------------------------------------
DERIVED_SIG = ['values', 'npts', 'time', 'fa_spectrum', 'fa_spectrum_abs', 'fa_freqs', 'fa_frequencies',
               'smooth_fa_freqs', 'smooth_fa_spectrum']
DERIVED_ACC = ['response_times', 'velocity', 'displacement', 'pga', 'pgv', 'pgd', 's_a', 's_v', 's_d']


def exhaustive(seed=11):
    """every subset of the read groups  x  every (core) mutator  x  read every derived quantity afterwards"""
    rng = np.random.default_rng(seed)
    dt = 0.02
    cases = [('AccSignal', rng.normal(size=40), 0, READ_GROUPS_ACC, True),
             ('Signal', rng.normal(size=40), 0, READ_GROUPS_SIG, False),
             ('Signal', rng.integers(-5, 5, size=21), 2, READ_GROUPS_SIG, False),
             ('AccSignal', rng.integers(-5, 5, size=33), 3, ['fa_freqs', 'displacement', 'pga', 's_v'], False),
             ('AccSignal', [0.5, -1.0, 0.25, 0.0, 2.0, 1.0, -0.5], 2, ['smooth_fa_spectrum', 'velocity', 'pgd', 's_d'],
              False)]
    n_hist = 0
    for cls_name, vals, variant, groups, core_only in cases:
        acc = cls_name == 'AccSignal'
        n = len(vals)
        muts = mutators(np.random.default_rng(seed + 1), n, dt, acc)
        if core_only:
            muts = [m for m in muts if m[1].core]
        derived = DERIVED_SIG + (DERIVED_ACC if acc else [])
        for r in range(len(groups) + 1):
            for subset in itertools.combinations(groups, r):
                for k, (label, op, fac) in enumerate(muts):
                    trace = ['%s(%s pts, variant %d)' % (cls_name, n, variant)]
                    so, se = fresh_pair(cls_name, vals, dt, variant, trace[0])
                    n_hist += 1
                    for nm in subset:
                        trace.append(nm)
                        lockstep(so, se, R(nm)[1], R(nm)[2], trace)
                    trace.append(label)
                    lockstep(so, se, op, fac, trace)
                    # read every derived quantity, in an order that varies; re-read the groups (idempotence)
                    order = derived if (k + r) % 2 == 0 else derived[::-1]
                    for nm in order:
                        trace.append(nm)
                        lockstep(so, se, R(nm)[1], R(nm)[2], trace)
                    if not core_only:
                        for nm in groups:
                            lockstep(so, se, R(nm)[1], R(nm)[2], trace + ['again ' + nm])
    print('exhaustive part done: %d histories, %d lock-step comparisons so far, %.1fs'
          % (n_hist, N_STEPS[0], time.time() - T_START))


# ----------------------------------------------------------------------------------------------------------
# (b) random long histories
# ----------------------------------------------------------------------------------------------------------
def random_histories(seed=5, extra_s=20, budget_s=100):
    rng = np.random.default_rng(seed)
    n_hist = 0
    recs = records(rng)
    budget_s = min(budget_s, time.time() - T_START + extra_s)
    for rep in range(1000):
        for name, vals in recs:
            if time.time() - T_START > budget_s:
                print('random histories: %d histories, %d lock-step comparisons in total, %.1fs'
                      % (n_hist, N_STEPS[0], time.time() - T_START))
                return
            cls_name = 'AccSignal' if rng.random() < 0.75 else 'Signal'
            acc = cls_name == 'AccSignal'
            variant = int(rng.integers(0, 4 if acc else 3))
            dt = float(rng.choice([0.005, 0.01, 0.02, 0.1]))
            trace = ['%s(%s, dt=%s, variant %d)' % (cls_name, name, dt, variant)]
            so, se = fresh_pair(cls_name, vals, dt, variant, trace[0])
            if so is None:
                continue
            n_hist += 1
            rd = reads(acc)
            for step in range(int(rng.integers(8, 30))):
                if rng.random() < 0.45:
                    muts = mutators(rng, len(so.values), dt, acc)
                    label, op, fac = muts[int(rng.integers(len(muts)))]
                else:
                    label, op, fac = rd[int(rng.integers(len(rd)))]
                trace.append(label)
                lockstep(so, se, op, fac, trace)
            for label, op, fac in rd:
                trace.append(label)
                lockstep(so, se, op, fac, trace)
    print('random histories: %d histories, %d lock-step comparisons in total' % (n_hist, N_STEPS[0]))


def extra_checks():
    """Twin specific checks: docstrings of the read-only attributes, virtual dispatch to an overriding generator in a
    subclass, no instance attribute shadows the class-level accessor."""
    names = ('s_a', 's_v', 's_d', 'velocity', 'displacement')
    for nm in names:
        same(getattr(ORIG.AccSignal, nm).__doc__, getattr(EDIT.AccSignal, nm).__doc__, 'doc of ' + nm)
    logs = []
    for mod in (ORIG, EDIT):
        class Sub(mod.AccSignal):
            def generate_response_spectrum(self, *a, **kw):
                self.log.append('rs')
                super(Sub, self).generate_response_spectrum(*a, **kw)

            def generate_displacement_and_velocity_series(self, *a, **kw):
                self.log.append('dv')
                super(Sub, self).generate_displacement_and_velocity_series(*a, **kw)

        sub = Sub(np.sin(np.arange(30) * 0.4), 0.01, response_times=(0.2, 0.5))
        sub.log = []
        out = []
        for nm in names + names[::-1]:
            out.append(getattr(sub, nm))
        sub.add_constant(0.5)
        for nm in names[::-1]:
            out.append(getattr(sub, nm))
        sub.response_times = np.array([0.3, 0.4])
        out.append(sub.s_d)
        logs.append((list(sub.log), out, [k for k in sub.__dict__ if k in names]))
    same(logs[0], logs[1], 'subclass with overriding generators')
    assert logs[0][0] == ['rs', 'dv', 'dv', 'rs', 'rs'], logs[0][0]
    print('extra checks done')


if __name__ == '__main__':
    try:
        extra_checks()
        exhaustive()
        random_histories()
    except Mismatch:
        shutil.rmtree(TMP, ignore_errors=True)
        print('FAILED')
        sys.exit(1)
    shutil.rmtree(TMP, ignore_errors=True)
    print('OK: original and edited package agree on every step (%d lock-step comparisons, %.1fs)'
          % (N_STEPS[0], time.time() - T_START))
    sys.exit(0)

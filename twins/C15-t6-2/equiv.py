"""
Equivalence program for twin 2 (property C15, eqsig/stockwell.py).

Run with the edit applied and cwd = the worktree:

    cd <worktree> && PYTHONPATH=<worktree> python out/equiv2.py

It extracts the ORIGINAL package from git (`git archive HEAD eqsig`) into a temporary
directory, runs the same deterministic battery of cases in two separate subprocesses
(one importing the original package, one importing the edited package in cwd), and compares
every recorded outcome (returned arrays bit-for-bit via dtype/shape/raw bytes, exceptions by
type and message, warnings by category, arguments after the call, object state after the call).

Exit status 0 iff everything matches.
"""
import hashlib
import io
import os
import pickle
import subprocess
import sys
import tarfile
import tempfile

TWIN = 2
REL_TOL = 1e-12  # only used to grade a mismatch in the report; any bit difference is reported


# ----------------------------------------------------------------------------------------------
# worker: runs the battery against whichever eqsig is first on sys.path
# ----------------------------------------------------------------------------------------------

def _enc(x, keep=200000):
    """Encode a result into something picklable and exactly comparable"""
    import numpy as np
    if isinstance(x, np.ndarray):
        raw = np.ascontiguousarray(x).tobytes()
        return ('arr', x.dtype.str, tuple(x.shape), hashlib.sha256(raw).hexdigest(),
                raw if len(raw) <= keep else None)
    if isinstance(x, np.generic):
        return ('npscalar', x.dtype.str, x.tobytes())
    if isinstance(x, (list, tuple)):
        return (type(x).__name__,) + tuple(_enc(v, keep) for v in x)
    if isinstance(x, dict):
        return ('dict',) + tuple((k, _enc(x[k], keep)) for k in sorted(x))
    if isinstance(x, float):
        return ('float', x.hex())
    if x is None or isinstance(x, (int, bool, str)):
        return (type(x).__name__, x)
    return ('repr', type(x).__name__)


class _Recorder(object):
    """Stand-in for a matplotlib subplot: records every call made on it"""

    def __init__(self):
        self.calls = []

    def __getattr__(self, name):
        if name.startswith('__'):
            raise AttributeError(name)

        def method(*args, **kwargs):
            self.calls.append((name, _enc(args), _enc(kwargs)))
            return 'ret-' + name
        return method


class _Bare(object):
    """Minimal duck-typed signal: only .values and .dt (and optionally .swtf)"""

    def __init__(self, values, dt):
        self.values = values
        self.dt = dt


def worker(root, out_path):
    import warnings
    sys.path.insert(0, root)
    import numpy as np
    import eqsig
    from eqsig import stockwell as sw
    assert os.path.realpath(eqsig.__file__).startswith(os.path.realpath(root) + os.sep), \
        (eqsig.__file__, root)
    assert os.path.realpath(sw.__file__).startswith(os.path.realpath(root) + os.sep)

    results = []
    warnings.simplefilter('ignore')  # keep the worker's own test-data preparation quiet

    def run(cid, func, *args, **kwargs):
        """Call func, record outcome + warnings; returns the value (or None on exception)"""
        with warnings.catch_warnings(record=True) as wlist:
            warnings.simplefilter('always')
            try:
                val = func(*args, **kwargs)
                out = ('ok', _enc(val))
            except Exception as e:  # noqa
                val = None
                out = ('exc', type(e).__name__, str(e))
        wset = tuple(sorted(set(w.category.__name__ for w in wlist)))
        results.append((cid, out, wset))
        return val

    def note(cid, x):
        results.append((cid, ('state', _enc(x)), ()))

    rng = np.random.RandomState(20240615)

    # ---- A. generate_gaussian -----------------------------------------------------------------
    for n_d2 in list(range(0, 140)) + [200, 255, 256, 257, 400, 511, 512]:
        run('gauss/%d' % n_d2, sw.generate_gaussian, n_d2)
    for n_d2 in [np.int64(5), np.int32(6), np.int16(7), np.uint8(9), 4.0, 8.0, np.float64(3.0), 2.5, True]:
        run('gauss/typed/%r' % (n_d2,), sw.generate_gaussian, n_d2)
    for n_d2 in [-1, -2, -7, None, 'a', [3], (2, 3)]:
        run('gauss/bad/%r' % (n_d2,), sw.generate_gaussian, n_d2)

    # ---- B. records ---------------------------------------------------------------------------
    def make_records():
        recs = []
        for n in range(0, 72):
            base = rng.standard_normal(n)
            recs.append(('f64/%d' % n, base.copy()))
            recs.append(('list/%d' % n, [float(v) for v in base]))
            recs.append(('int64/%d' % n, rng.randint(-1000, 1000, size=n).astype(np.int64)))
            recs.append(('intlist/%d' % n, [int(v) for v in rng.randint(-50, 50, size=n)]))
            recs.append(('f32/%d' % n, base.astype(np.float32)))
            recs.append(('strided/%d' % n, rng.standard_normal(3 * n + 1)[1::3]))
            recs.append(('reversed/%d' % n, rng.standard_normal(n)[::-1]))
        for n in [4, 5, 6, 7, 8, 9, 16, 17, 31, 32, 33, 64, 65]:
            recs.append(('zeros/%d' % n, np.zeros(n)))
            recs.append(('ones/%d' % n, np.ones(n)))
            recs.append(('const-int/%d' % n, np.full(n, 7, dtype=np.int32)))
            recs.append(('tuple/%d' % n, tuple(float(v) for v in rng.standard_normal(n))))
            recs.append(('bool/%d' % n, rng.randint(0, 2, size=n).astype(bool)))
            recs.append(('huge/%d' % n, rng.standard_normal(n) * 1e150))
            recs.append(('tiny/%d' % n, rng.standard_normal(n) * 1e-160))
            recs.append(('mixed/%d' % n, rng.standard_normal(n) * 10.0 ** rng.randint(-8, 8, size=n)))
            x = rng.standard_normal(n)
            x[n // 2] = np.nan
            recs.append(('nan/%d' % n, x))
            x = rng.standard_normal(n)
            x[1] = np.inf
            recs.append(('inf/%d' % n, x))
            recs.append(('uint8/%d' % n, rng.randint(0, 255, size=n).astype(np.uint8)))
            recs.append(('int16/%d' % n, rng.randint(-300, 300, size=n).astype(np.int16)))
            recs.append(('f16/%d' % n, rng.standard_normal(n).astype(np.float16)))
            recs.append(('impulse/%d' % n, np.eye(1, n, n // 3)[0]))
            recs.append(('ramp-int/%d' % n, np.arange(n)))
            recs.append(('complex/%d' % n, rng.standard_normal(n) + 1j * rng.standard_normal(n)))
        # on-grid sinusoids (all harmonics) for a few lengths
        for n in [8, 12, 20, 33, 64]:
            t = np.arange(n)
            ne = 2 * (n // 2)
            for k in range(0, ne // 2 + 1):
                recs.append(('sin/%d/%d' % (n, k), np.sin(2 * np.pi * k * t / ne + 0.3)))
        # random lengths over the whole domain, odd and even
        lens = list(rng.randint(4, 200, size=120)) + list(rng.randint(200, 600, size=30)) + \
            list(rng.randint(600, 1025, size=8)) + [255, 256, 257, 511, 512, 513, 1000, 1023, 1024]
        for i, n in enumerate(lens):
            n = int(n)
            kind = i % 4
            if kind == 0:
                recs.append(('rand-f64/%d/%d' % (i, n), rng.standard_normal(n)))
            elif kind == 1:
                recs.append(('rand-int/%d/%d' % (i, n), rng.randint(-2000, 2000, size=n)))
            elif kind == 2:
                recs.append(('rand-walk/%d/%d' % (i, n), np.cumsum(rng.standard_normal(n))))
            else:
                t = np.arange(n) * 0.01
                recs.append(('rand-chirp/%d/%d' % (i, n),
                             np.sin(2 * np.pi * (1 + 3 * t) * t) * np.exp(-t) + 0.1 * rng.standard_normal(n)))
        return recs

    def fresh(a):
        if isinstance(a, np.ndarray):
            return a.copy() if a.flags.c_contiguous else a  # keep the strided views strided
        return type(a)(a)

    dts = [0.01, 0.005, 0.02, 1.0, 0.1, 1, 2, 1e-4, 37.5, np.float64(0.04)]
    recs = make_records()
    for ri, (label, acc) in enumerate(recs):
        dt = dts[ri % len(dts)]
        interp = bool(ri % 2)
        big = len(acc) > 300

        a1 = fresh(acc)
        st = run('B/%s/transform' % label, sw.transform, a1, interp=interp)
        note('B/%s/transform/arg-after' % label, a1)

        a2 = fresh(acc)
        if ri % 3 == 0:
            st2 = run('B/%s/scipy' % label, sw.transform_w_scipy_fft, a2, interp)
        else:
            st2 = run('B/%s/scipy' % label, sw.transform_w_scipy_fft, a2)
        note('B/%s/scipy/arg-after' % label, a2)

        if not big or ri % 2 == 0:
            a3 = fresh(acc)
            run('B/%s/positional' % label, sw.transform, a3, interp)
            ith = 1 + ri % 3
            run('B/%s/slow' % label, sw.transform_slow, fresh(acc), ith=ith)

        for tag, s in (('own', st), ('own-scipy', st2)):
            if s is None:
                continue
            keep = s.copy()
            run('B/%s/itransform/%s' % (label, tag), sw.itransform, s)
            run('B/%s/maxf/%s' % (label, tag), sw.get_max_tifq_vals_freq, s, dt)
            note('B/%s/%s/stock-after' % (label, tag), [s, bool(np.array_equal(keep, s, equal_nan=True))])
            if tag == 'own' and not big:
                run('B/%s/itransform/list' % label, sw.itransform, s.tolist())
                run('B/%s/itransform/c64' % label, sw.itransform, s.astype(np.complex64))
                run('B/%s/itransform/forder' % label, sw.itransform, np.asfortranarray(s))
                run('B/%s/itransform/abs' % label, sw.itransform, np.abs(s))
                run('B/%s/maxf/abs-list' % label, sw.get_max_tifq_vals_freq, np.abs(s).tolist(), dt)
                run('B/%s/dep_itransform' % label, sw.dep_itransform, s.copy())

    # ---- C. itransform / get_max_tifq_vals_freq on arbitrary arrays -----------------------------
    for i in range(400):
        h = int(rng.randint(0, 40))
        m = int(rng.choice([2 * h, 2 * h, 2 * h + 1, max(h, 1), 1, 3 * h + 2]))
        z = rng.standard_normal((h, m)) + 1j * rng.standard_normal((h, m))
        run('C/%d/itransform/%dx%d' % (i, h, m), sw.itransform, z)
        run('C/%d/itransform-flip' % i, sw.itransform, np.flipud(z))
        run('C/%d/itransform-T' % i, sw.itransform, z.T)
        dt = [0.01, 0.02, 1, 0.0, -0.5, 3, 0][i % 7]
        run('C/%d/maxf' % i, sw.get_max_tifq_vals_freq, z, dt)
        # many ties in the magnitude: integer data
        zi = rng.randint(-2, 3, size=(h, m))
        run('C/%d/maxf-ties' % i, sw.get_max_tifq_vals_freq, zi, dt)
        run('C/%d/maxf-ties-c' % i, sw.get_max_tifq_vals_freq, zi + 1j * rng.randint(-1, 2, size=(h, m)), dt)
        if h:
            zn = z.copy()
            zn[rng.randint(0, h), rng.randint(0, m)] = np.nan
            run('C/%d/maxf-nan' % i, sw.get_max_tifq_vals_freq, zn, dt)
            run('C/%d/itransform-nan' % i, sw.itransform, zn)
            run('C/%d/maxf-1d' % i, sw.get_max_tifq_vals_freq, z[:, 0], dt)
        if i % 10 == 0:
            z3 = rng.standard_normal((h, 3, 2))
            run('C/%d/maxf-3d' % i, sw.get_max_tifq_vals_freq, z3, dt)
            run('C/%d/itransform-3d' % i, sw.itransform, z3)
            run('C/%d/itransform-1d' % i, sw.itransform, z[:, 0] if h else np.zeros(0))
    for bad in [None, 3, 'abc', [], [[]], [[1, 2], [3]]]:
        run('C/bad/itransform/%r' % (bad,), sw.itransform, bad)
        run('C/bad/maxf/%r' % (bad,), sw.get_max_tifq_vals_freq, bad, 0.01)
        run('C/bad/transform/%r' % (bad,), sw.transform, bad)
        run('C/bad/scipy/%r' % (bad,), sw.transform_w_scipy_fft, bad)

    # ---- D. histories on signal objects ---------------------------------------------------------
    def state(asig):
        d = {'values': np.asarray(asig.values), 'dt': asig.dt, 'has_swtf': hasattr(asig, 'swtf')}
        if hasattr(asig, 'swtf'):
            d['swtf'] = asig.swtf
        return d

    for i in range(220):
        n = int(rng.randint(4, 90)) if i % 11 else int(rng.randint(300, 700))
        dt = [0.01, 0.02, 0.005, 1.0, 0.25, 1, np.float64(0.04)][i % 7]
        vals = rng.standard_normal(n) if i % 3 else rng.randint(-100, 100, size=n)
        if i % 2:
            asig = eqsig.AccSignal(vals, dt)
        elif i % 4 == 0:
            asig = eqsig.Signal(vals, dt)
        else:
            asig = _Bare(vals if i % 8 else list(map(float, vals)), dt)
        cid = 'D/%d/n%d' % (i, n)
        mode = i % 5
        if mode == 1:   # preset with the scipy flavour
            preset = sw.transform_w_scipy_fft(np.array(asig.values, dtype=float))
            asig.swtf = preset
        elif mode == 2:  # preset with something of another shape
            preset = rng.standard_normal((7, 11)) + 1j * rng.standard_normal((7, 11))
            asig.swtf = preset
        else:
            preset = None
        run(cid + '/maxf-1', sw.get_max_stockwell_freq, asig)
        note(cid + '/state-1', state(asig))
        if preset is not None:
            note(cid + '/preset-kept', bool(asig.swtf is preset))
        run(cid + '/freqs', sw.get_stockwell_freqs, asig)
        run(cid + '/times', sw.get_stockwell_times, asig)
        run(cid + '/maxf-2', sw.get_max_stockwell_freq, asig)
        # change the record through the public API; the cached transform is (deliberately) stale
        if isinstance(asig, eqsig.Signal):
            if i % 3 == 0:
                asig.reset_values(np.asarray(asig.values)[::-1] * 2.0)
            elif i % 3 == 1:
                asig.add_constant(0.5)
            else:
                asig.remove_average()
        else:
            asig.values = np.asarray(asig.values)[::-1] * 2.0
        run(cid + '/maxf-3-stale', sw.get_max_stockwell_freq, asig)
        note(cid + '/state-3', state(asig))
        if hasattr(asig, 'swtf'):
            del asig.swtf
        run(cid + '/maxf-4-recomputed', sw.get_max_stockwell_freq, asig)
        note(cid + '/state-4', state(asig))
        if hasattr(asig, 'swtf'):
            run(cid + '/itransform', sw.itransform, asig.swtf)
        # plotting helpers rely on the same cached attribute
        if i % 4 == 0 and isinstance(asig, eqsig.Signal):
            rec = _Recorder()
            run(cid + '/plot_stock', sw.plot_stock, rec, asig, bool(i % 8), bool(i % 3 == 0), bool(i % 16 == 0))
            run(cid + '/plot_fas', sw.plot_fas_at_time, rec, asig, asig.time[len(asig.time) // 3])
            run(cid + '/plot_wfas', sw.plot_windowed_fas_at_time, rec, asig, asig.time[len(asig.time) // 4], 3)
            run(cid + '/plot_tifq', sw.plot_tifq_vals, rec, np.abs(asig.swtf), asig.dt, bool(i % 8), False)
            note(cid + '/plot-calls', rec.calls)
            asig2 = eqsig.AccSignal(np.asarray(asig.values), asig.dt)
            rec = _Recorder()
            run(cid + '/plot_stock-fresh', sw.plot_stock, rec, asig2)
            note(cid + '/plot-calls-fresh', rec.calls)
            note(cid + '/state-fresh', state(asig2))
    # objects missing attributes
    for k, obj in enumerate([_Bare(None, 0.1), _Bare(5, 0.1), object(), _Bare(np.arange(8.), None),
                             _Bare(np.arange(8.), 'x'), _Bare([], 0.1), _Bare([1.0], 0.1)]):
        run('D/bad/%d' % k, sw.get_max_stockwell_freq, obj)
        note('D/bad/%d/has' % k, hasattr(obj, 'swtf'))
    # azimuth plot (uses get_max_stockwell_freq on combined signals)
    for k in range(3):
        n = [16, 31, 50][k]
        s1 = eqsig.AccSignal(rng.standard_normal(n), 0.02)
        s2 = eqsig.AccSignal(rng.standard_normal(n), 0.02)
        rec = _Recorder()
        run('D/azimuth/%d' % k, sw.plot_max_freq_azimuth, rec, s1, s2, [None, 10.0, 5.0][k], bool(k % 2), 7)
        note('D/azimuth/%d/calls' % k, rec.calls)

    # ---- E. outside the domain: 2-D "records" (the toeplitz call is unchanged by this edit) ------
    for k, shp in enumerate([(4, 4), (6, 8), (5, 3), (2, 7), (2, 2), (3, 1), (1, 5), (8, 2), (2, 3, 4)]):
        x = rng.standard_normal(shp)
        run('E/2d/%d/transform' % k, sw.transform, x.copy())
        run('E/2d/%d/scipy' % k, sw.transform_w_scipy_fft, x.copy())
        run('E/2d/%d/list' % k, sw.transform, x.tolist())

    with open(out_path, 'wb') as f:
        pickle.dump(results, f, protocol=pickle.HIGHEST_PROTOCOL)
    return 0


# ----------------------------------------------------------------------------------------------
# driver
# ----------------------------------------------------------------------------------------------

def _describe(a, b):
    import numpy as np
    try:
        if a[0] == 'ok' and b[0] == 'ok' and a[1][0] == 'arr' and b[1][0] == 'arr':
            ea, eb = a[1], b[1]
            if ea[1:3] != eb[1:3]:
                return 'dtype/shape %s%s vs %s%s' % (ea[1], ea[2], eb[1], eb[2])
            if ea[4] is not None and eb[4] is not None:
                xa = np.frombuffer(ea[4], dtype=np.dtype(ea[1]))
                xb = np.frombuffer(eb[4], dtype=np.dtype(eb[1]))
                with np.errstate(all='ignore'):
                    d = np.abs(xa - xb)
                    scale = np.maximum(np.abs(xa), np.abs(xb))
                    rel = np.nanmax(np.where(scale > 0, d / scale, 0.0)) if d.size else 0.0
                return 'values differ, max rel diff %.3e (%s 1e-12)' % (rel, '<=' if rel <= REL_TOL else '>')
            return 'values differ (large array, hashes only)'
    except Exception as e:  # noqa
        return 'undescribable (%s)' % e
    return '%r vs %r' % (str(a)[:200], str(b)[:200])


def main():
    cwd = os.getcwd()
    if not os.path.isdir(os.path.join(cwd, 'eqsig')):
        print('run me with cwd = the worktree')
        return 2
    tmp = tempfile.mkdtemp(prefix='equiv%d_' % TWIN)
    try:
        orig_root = os.path.join(tmp, 'orig')
        os.makedirs(orig_root)
        blob = subprocess.check_output(['git', 'archive', 'HEAD', 'eqsig'], cwd=cwd)
        with tarfile.open(fileobj=io.BytesIO(blob)) as tf:
            tf.extractall(orig_root)
        outs = {}
        procs = {}
        for name, root in (('orig', orig_root), ('edit', cwd)):
            outs[name] = os.path.join(tmp, name + '.pkl')
            env = dict(os.environ)
            env['PYTHONPATH'] = root
            env['PYTHONHASHSEED'] = '0'
            env['PYTHONDONTWRITEBYTECODE'] = '1'
            procs[name] = subprocess.Popen([sys.executable, os.path.abspath(__file__), '--worker', root, outs[name]],
                                           cwd=tmp, env=env)
        for name in procs:
            rc = procs[name].wait()
            if rc != 0:
                print('worker %s failed with exit status %d' % (name, rc))
                return 3
        with open(outs['orig'], 'rb') as f:
            ro = pickle.load(f)
        with open(outs['edit'], 'rb') as f:
            re_ = pickle.load(f)
    finally:
        import shutil
        shutil.rmtree(tmp, ignore_errors=True)

    bad = 0
    if [r[0] for r in ro] != [r[0] for r in re_]:
        print('MISMATCH: the two runs did not execute the same list of cases (%d vs %d)' % (len(ro), len(re_)))
        bad += 1
    n_exc = 0
    for (cid, oa, wa), (cid2, ob, wb) in zip(ro, re_):
        if oa[0] == 'exc':
            n_exc += 1
        if cid != cid2:
            continue
        if oa != ob:
            bad += 1
            if bad <= 25:
                print('MISMATCH %s: %s' % (cid, _describe(oa, ob)))
        elif wa != wb:
            bad += 1
            if bad <= 25:
                print('MISMATCH %s: warnings %r vs %r' % (cid, wa, wb))
    print('twin %d: %d recorded outcomes compared (%d of them exceptions), %d mismatches'
          % (TWIN, len(ro), n_exc, bad))
    return 0 if bad == 0 else 1


if __name__ == '__main__':
    if len(sys.argv) == 4 and sys.argv[1] == '--worker':
        sys.exit(worker(sys.argv[2], sys.argv[3]))
    sys.exit(main())

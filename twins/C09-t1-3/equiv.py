"""
Equivalence check for twin3 (|a|, |v| rectangle integrals and unit kinetic energy re-spelled).

Run with twin3.diff applied, cwd = the worktree:
    /venv/bin/python out/equiv3.py
Loads the ORIGINAL eqsig/im.py from git (HEAD) into a fresh module and compares it with the
edited eqsig.im on many inputs. Exit 0 iff everything matches.
"""
import os
import sys
import copy
import types
import subprocess
import warnings

HERE = os.getcwd()
sys.path.insert(0, HERE)

import numpy as np
import eqsig
import eqsig.im as new_im

assert os.path.realpath(eqsig.__file__).startswith(os.path.realpath(HERE)), eqsig.__file__
assert os.path.realpath(new_im.__file__).startswith(os.path.realpath(HERE)), new_im.__file__

warnings.simplefilter("ignore")
np.seterr(all="ignore")


def load_original(relpath, modname):
    src = subprocess.check_output(["git", "show", "HEAD:" + relpath], cwd=HERE).decode()
    mod = types.ModuleType(modname)
    mod.__file__ = "<git HEAD:%s>" % relpath
    mod.__package__ = "eqsig"
    exec(compile(src, mod.__file__, "exec"), mod.__dict__)
    return mod


old_im = load_original("eqsig/im.py", "eqsig._orig_im")
import inspect
assert "np.empty_like" in inspect.getsource(new_im.calc_unit_kinetic_energy)
assert "np.insert" in subprocess.check_output(["git", "show", "HEAD:eqsig/im.py"], cwd=HERE).decode().split("def calc_unit_kinetic_energy")[1]

N_CHECKS = 0


def same_value(a, b):
    if type(a) is not type(b):
        return False
    if isinstance(a, np.ndarray):
        return a.dtype == b.dtype and a.shape == b.shape and np.array_equal(a, b, equal_nan=(a.dtype.kind in "fc"))
    if isinstance(a, dict):
        return a.keys() == b.keys() and all(same_value(a[k], b[k]) for k in a)
    if isinstance(a, (list, tuple)):
        return len(a) == len(b) and all(same_value(x, y) for x, y in zip(a, b))
    if isinstance(a, (float, np.floating)):
        return (a == b) or (a != a and b != b)
    try:
        return bool(a == b)
    except Exception:
        return a is b


def run(fn, *args):
    try:
        return ("ok", fn(*args))
    except Exception as e:  # noqa
        return ("exc", type(e), str(e))


def same_outcome(o, n):
    if o[0] != n[0]:
        return False
    if o[0] == "ok":
        return same_value(o[1], n[1])
    if o[1] is not n[1]:
        return False
    if o[1] is IndexError:  # running off the end of the record: only the class is preserved
        return True
    return o[2] == n[2]


def state_of(obj):
    return {k: copy.deepcopy(v) for k, v in vars(obj).items()}


def check_pair(make_obj, label, prepare=None):
    """Build two identical objects, run old on one and new on the other, compare result+state."""
    global N_CHECKS
    for name in FUNCS:
        a = make_obj()
        b = make_obj()
        if prepare is not None:
            prepare(a)
            prepare(b)
        va = copy.deepcopy(a.values)
        o = run(getattr(old_im, name), a)
        n = run(getattr(new_im, name), b)
        assert same_outcome(o, n), (label, name, o, n)
        if hasattr(a, "__dict__"):
            assert same_value(state_of(a), state_of(b)), (label, name, "state differs")
        assert same_value(a.values, va) and same_value(b.values, va), (label, name, "argument mutated")
        # second call on the same objects (cached state)
        o2 = run(getattr(old_im, name), a)
        n2 = run(getattr(new_im, name), b)
        assert same_outcome(o2, n2), (label, name, "second call", o2, n2)
        assert same_outcome(o, o2) and same_outcome(n, n2), (label, name, "not idempotent alike")
        N_CHECKS += 1


def acc(values, dt):
    return lambda: eqsig.AccSignal(copy.deepcopy(values), dt)



FUNCS = ["calc_integral_of_abs_velocity", "calc_cumulative_abs_displacement", "calc_integral_of_abs_acceleration",
         "calc_unit_kinetic_energy"]
ALL_FUNCS = ["calc_arias_intensity", "calc_cav", "calc_cav_dp", "calc_isv", "calc_integral_of_abs_velocity",
             "calc_integral_of_abs_acceleration", "calc_unit_kinetic_energy"]

rng = np.random.default_rng(20240911)
DTS = [0.01, 0.005, 0.02, 0.05, 0.1, 0.2, 0.25, 0.5, 1.0, 0.004, 0.001, 1.0 / 3, 0.3, 0.03, 0.007, 2.0,
       np.float64(0.01), np.float32(0.01), 1, 2, -0.01, 0, 0.0, np.nan, np.inf, 1e-300, 1e300, None, "0.01"]

# 1. random records: plain, sign-reversed, scaled, zero-padded, list/tuple input, float32, integer dtypes
for dt in DTS:
    for rep in range(10):
        n = int(rng.choice([0, 1, 2, 3, 4, 7, 50, 200, 1001, 4096]))
        amp = rng.choice([1e-8, 0.01, 0.3, 1.0, 5.0, 1e6])
        vals = amp * rng.standard_normal(n)
        check_pair(acc(vals, dt), ("random", dt, rep))
        check_pair(acc(-vals, dt), ("random-neg", dt, rep))
        check_pair(acc(vals * -2.5, dt), ("random-scaled", dt, rep))
        check_pair(acc(np.concatenate([vals, np.zeros(int(rng.integers(1, 300)))]), dt), ("random-padded", dt, rep))
        check_pair(acc(list(vals), dt), ("random-list", dt, rep))
        check_pair(acc(tuple(vals), dt), ("random-tuple", dt, rep))
        check_pair(acc(vals.astype(np.float32), dt), ("random-f32", dt, rep))
        check_pair(acc(vals.astype(np.float16), dt), ("random-f16", dt, rep))
        check_pair(acc(np.round(vals * 10).astype(np.int64), dt), ("random-int64", dt, rep))
        check_pair(acc(np.clip(np.round(vals * 10), -100, 100).astype(np.int8), dt), ("random-int8", dt, rep))
        check_pair(acc(np.clip(np.round(vals * 10), 0, 200).astype(np.uint8), dt), ("random-uint8", dt, rep))
        check_pair(acc(np.clip(np.round(vals * 1e5), -2e9, 2e9).astype(np.int32), dt), ("random-int32", dt, rep))

# 2. zeros, constants, non-finite, huge/tiny values, bool and complex records
for dt in [0.01, 0.5, 1]:
    for n in [1, 2, 5, 300]:
        check_pair(acc(np.zeros(n), dt), ("zeros", dt, n))
        check_pair(acc(np.zeros(n, dtype=int), dt), ("int zeros", dt, n))
        check_pair(acc([0] * n, dt), ("int zero list", dt, n))
        check_pair(acc(np.full(n, -0.0), dt), ("neg zeros", dt, n))
        check_pair(acc(np.full(n, 3.3), dt), ("const", dt, n))
        check_pair(acc(np.full(n, -3), dt), ("int const", dt, n))
        check_pair(acc(np.full(n, 1e200) * rng.choice([-1, 1], n), dt), ("huge", dt, n))
        check_pair(acc(np.full(n, 1e-200) * rng.choice([-1, 1], n), dt), ("tiny", dt, n))
        check_pair(acc(np.full(n, np.iinfo(np.int64).min), dt), ("int64 min", dt, n))
        for bad in [np.nan, np.inf, -np.inf]:
            v = rng.standard_normal(n)
            v[rng.integers(0, n)] = bad
            check_pair(acc(v, dt), ("nonfinite", dt, n, bad))
        check_pair(acc(rng.standard_normal(n) > 0, dt), ("bool", dt, n))
        check_pair(acc(rng.standard_normal(n) + 1j * rng.standard_normal(n), dt), ("complex", dt, n))
        # alternating-sign velocity (kinetic energy changes sign every step)
        v = np.zeros(n)
        v[::2] = 1.0
        v[1::2] = -1.0
        check_pair(acc(np.cumsum(v) * 0 + v * np.arange(n), dt), ("alternating", dt, n))

# 3. duck-typed signals whose velocity / values are not float64 ndarrays
def duck(values, velocity, dt):
    def make():
        ns = types.SimpleNamespace()
        ns.values = copy.deepcopy(values)
        ns.velocity = copy.deepcopy(velocity)
        ns.dt = dt
        return ns
    return make


for dt in [0.01, 1, 0.5]:
    for n in [1, 2, 9, 100]:
        a = rng.standard_normal(n)
        v = rng.standard_normal(n)
        for conv in [lambda x: x, lambda x: (x * 10).astype(int), lambda x: x.astype(np.float32),
                     lambda x: x[::-1], lambda x: np.asfortranarray(x), lambda x: np.repeat(x, 2)[::2],
                     lambda x: x.astype(np.longdouble), lambda x: x.astype(">f8")]:  # records are 1-D series
            base = duck(conv(a), conv(v), dt)

            def make(base=base):
                ns = base()
                return ns
            # SimpleNamespace has __dict__, so state comparison applies too
            check_pair(make, ("duck", dt, n))

# 4. multi-step histories on one object
def hist_trap_false(a):
    a.generate_displacement_and_velocity_series(trap=False)


def hist_cached(a):
    _ = a.velocity
    _ = a.displacement


def hist_reset(a):
    _ = a.velocity
    a.reset_values(a.values[::-1] * 0.7)


def hist_filter(a):
    a.remove_poly(2)
    a.butter_pass((0.2, 2.0))
    _ = a.fa_spectrum


def hist_stale(a):
    _ = a.velocity
    a.clear_cache()


def hist_zero_residual(a):
    a.set_zero_residual_velocity()


def hist_add(a):
    _ = a.velocity
    a.add_constant(0.3)
    a.add_series(np.linspace(0, 1, a.npts))


for dt in [0.01, 0.02, 0.1]:
    for rep in range(4):
        n = int(rng.choice([4, 8, 15]) / dt) + int(rng.integers(0, 5))
        vals = rng.choice([0.1, 0.5, 2.0]) * rng.standard_normal(n)
        for h in [hist_trap_false, hist_cached, hist_reset, hist_filter, hist_stale, hist_zero_residual, hist_add]:
            check_pair(acc(vals, dt), ("history", h.__name__, dt, rep), prepare=h)
            if h is not hist_zero_residual:  # in-place float correction is not defined for integer records
                check_pair(acc((vals * 5).astype(int), dt), ("history-int", h.__name__, dt, rep), prepare=h)

# 5. results must not alias the object's cached arrays: writing into the result leaves the signal untouched
for name in FUNCS:
    for which in (old_im, new_im):
        a = eqsig.AccSignal(rng.standard_normal(50), 0.01)
        before_v, before_a = a.velocity.copy(), a.values.copy()
        out = getattr(which, name)(a)
        out[:] = -7.0
        assert np.array_equal(a.velocity, before_v) and np.array_equal(a.values, before_a), (name, "aliasing")
        N_CHECKS += 1

# 6. every anchored function in sequence on the same pair of objects, comparing state after every call
for dt in [0.01, 0.05, 0.5]:
    for rep in range(4):
        n = int(6 / dt) + 1
        vals = rng.standard_normal(n)
        a, b = eqsig.AccSignal(vals, dt), eqsig.AccSignal(vals, dt)
        for name in ALL_FUNCS[::-1] + ALL_FUNCS:
            assert same_outcome(run(getattr(old_im, name), a), run(getattr(new_im, name), b)), ("sequence", name)
            assert same_value(state_of(a), state_of(b)), ("sequence state", name)
            N_CHECKS += 1

print("equiv3: %d comparisons, all identical" % N_CHECKS)
sys.exit(0)

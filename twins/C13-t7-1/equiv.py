"""
Equivalence program for twin 1 (eqsig/fns/peaks_and_crossings.py: shared private helpers for the peaks-only series).

Run with the edit applied and cwd = the worktree:
    cd <worktree> && PYTHONPATH=<worktree> /venv/bin/python out/equiv1.py

The original package is obtained with `git archive HEAD eqsig` into a temporary directory. The original and the
edited package are each exercised in a separate subprocess (this file, `worker` mode) on the same deterministic
set of cases; the parent compares the pickled outcomes bit-for-bit (dtype, shape, bytes, exception type and text,
and the state of the argument after the call).
"""
import io
import os
import pickle
import subprocess
import sys
import tarfile
import tempfile


# ---------------------------------------------------------------------------------------------------------------
# worker
# ---------------------------------------------------------------------------------------------------------------

def enc(obj):
    import numpy as np
    if isinstance(obj, np.ndarray):
        if obj.dtype == object:
            return ('ndobj', obj.shape, repr(obj.tolist()))
        if obj.dtype.kind in 'fc' and obj.dtype.itemsize > 8 and obj.dtype != np.complex128:
            # extended precision has padding bytes of unspecified content: compare the printed digits
            return ('ndlong', obj.dtype.str, obj.shape, repr([repr(v) for v in obj.ravel().tolist()]))
        return ('nd', obj.dtype.str, obj.shape, np.ascontiguousarray(obj).tobytes())
    if isinstance(obj, np.generic):
        return ('npscalar', obj.dtype.str, obj.tobytes())
    if isinstance(obj, (list, tuple)):
        return (type(obj).__name__, [enc(o) for o in obj])
    return ('py', type(obj).__name__, repr(obj))


def build_cases():
    """Returns a list of (label, constructor) where constructor() gives a fresh argument"""
    import numpy as np
    rng = np.random.RandomState(20240613)
    cases = []

    def add(label, arr):
        cases.append((label, arr))

    # hand made (from the docstrings / tests and corners)
    hand = [
        [0, 2, 1, 2, 0, 1, 0, -1, 0, 1, 0],
        [0, 2, 1, 2, 0.3, 1, 0.3, -1, 0.4, 1, 0],
        [0, 2, 1, 2, -1, 1, 1, 0.3, -1, 0.2, 1, 0.2],
        [0, 1], [1, 0], [0, 0, 1], [1, 1, 0], [0, 1, 1], [5, 5, 5, 4, 4, 6, 6, 6],
        [0, -1, -1, -2, 3, 3, 3, -4], [3, 2, 1, 0, -1], [1, 2, 3, 4], [0, 1, 0], [0, -1, 0],
        [1.5, 1.5, 1.5, 1.5, 2.5], [2.5, 1.5, 1.5, 1.5, 1.5], [0.0, -0.0, 1.0, -0.0, 0.0],
        [1e-300, 2e-300, 1e-300], [1e300, -1e300, 1e300], [7, 7, 7], [0, 0], [0.0], [3], [],
        [1, 2, 2, 2, 1, 1, 3, 3, 0, 0, 0, 5], [0, 1, 2, 1, 2, 1, 2, 3, 2, 1, 0, -1, 0, -1],
    ]
    for k, h in enumerate(hand):
        add('hand-list-%i' % k, list(h))
        add('hand-tuple-%i' % k, tuple(h))
        add('hand-arr-%i' % k, np.array(h))
        add('hand-float-%i' % k, np.array(h, dtype=float))
        add('hand-shift-%i' % k, np.array(h, dtype=float) + 3.25)
        add('hand-neg-%i' % k, -np.array(h, dtype=float))
        add('hand-rev-%i' % k, np.array(h)[::-1])  # negative strides view

    # random real series of many lengths
    for k in range(700):
        n = int(rng.randint(2, 120))
        x = rng.randn(n)
        add('randn-%i' % k, x)
        if k % 3 == 0:
            add('randn-list-%i' % k, x.tolist())
        if k % 5 == 0:
            add('randn-off-%i' % k, x + rng.uniform(-100, 100))
    # random walks with plateaus (float)
    for k in range(500):
        n = int(rng.randint(2, 150))
        steps = rng.choice([-1.0, -0.5, 0.0, 0.0, 0.5, 1.0], size=n)
        x = np.cumsum(steps) + rng.choice([0.0, 1.0, -7.5])
        add('walk-%i' % k, x)
    # integer typed, with plateaus
    for k in range(600):
        n = int(rng.randint(2, 100))
        x = rng.randint(-4, 5, size=n)
        dt = [np.int64, np.int32, np.int16, np.int8][k % 4]
        add('int-%i' % k, x.astype(dt))
        if k % 4 == 0:
            add('int-list-%i' % k, [int(v) for v in x])
        if k % 7 == 0:
            add('int-off-%i' % k, x.astype(dt) + 20)
    # quantised floats (plateaus + offsets), float32
    for k in range(400):
        n = int(rng.randint(2, 200))
        x = np.round(rng.randn(n) * 2) / 2 + (k % 3)
        add('quant-%i' % k, x)
        add('quant32-%i' % k, x.astype(np.float32))
    # smooth signals, long
    for k in range(40):
        n = int(rng.randint(500, 4000))
        t = np.arange(n) * 0.01
        x = np.sin(2 * np.pi * rng.uniform(0.2, 5) * t) * np.exp(-t * rng.uniform(0, 0.3)) + 0.1 * rng.randn(n)
        add('smooth-%i' % k, x)
        add('smooth-clip-%i' % k, np.clip(x, -0.3, 0.4))
    # monotonic, leading / trailing plateaus
    for k in range(100):
        n = int(rng.randint(2, 40))
        x = np.sort(rng.randn(n))
        add('mono-up-%i' % k, x)
        add('mono-down-%i' % k, x[::-1].copy())
        add('lead-plateau-%i' % k, np.concatenate((np.full(k % 5 + 1, x[0]), x, np.full(k % 4, x[-1]))))
    # unusual: other dtypes, shapes, special values
    add('uint8', np.array([3, 5, 2, 2, 9, 1], dtype=np.uint8))
    add('uint16-up', np.array([0, 5, 2, 2, 9, 1], dtype=np.uint16))
    add('bool', np.array([True, False, True, True]))
    add('complex', np.array([0, 1 + 1j, 0.5, 2j]))
    add('nan-mid', np.array([0., 1., np.nan, 2., 1.]))
    add('nan-first', np.array([np.nan, 1., 0., 2., 1.]))
    add('inf', np.array([0., np.inf, 1., -np.inf, 1.]))
    add('2d', np.array([[0., 1., 0.], [2., 1., 3.]]))
    add('2d-int', np.array([[0, 1, 0], [2, 1, 3], [1, 1, 1]]))
    add('2d-list', [[0., 1., 0.], [2., 1., 3.]])
    add('col', np.array([[0.], [1.], [0.5]]))
    add('scalar', 3.0)
    add('0d', np.array(2.0))
    add('none', None)
    add('str', 'abc')
    add('strlist', ['a', 'b'])
    add('object', np.array([0, 1.5, 1, 2], dtype=object))
    add('ragged-ish', [0, 1.0, 2, 1])
    add('range', range(5))
    add('f16', np.array([0, 1, 0.5, 2, 2, 1], dtype=np.float16))
    add('longdouble', np.array([0, 1, 0.5, 2, 2, 1], dtype=np.longdouble))
    return cases


def worker(out_path, expected_root):
    import copy
    import warnings
    import numpy as np
    import eqsig
    import eqsig.fns.peaks_and_crossings as pc
    import eqsig.im
    root = os.path.realpath(os.path.dirname(os.path.dirname(eqsig.__file__)))
    assert root == os.path.realpath(expected_root), (root, expected_root)
    warnings.simplefilter('ignore')
    np.seterr(all='ignore')

    fns = ['determine_peaks_only_delta_series', 'determine_pseudo_cyclic_peak_only_series',
           'determine_peak_only_delta_series_4_cleaned_data', '_determine_peak_only_series_4_cleaned_data',
           'determine_indices_of_peaks_for_cleaned_array', 'clean_out_non_changing']
    results = {}
    for label, arg in build_cases():
        for fn in fns:
            a = copy.deepcopy(arg)
            try:
                out = ('ok', enc(getattr(pc, fn)(a)))
            except Exception as e:  # noqa
                out = ('exc', type(e).__name__, str(e))
            results[(label, fn)] = (out, enc(a) if not isinstance(a, range) else repr(a))
        # the cleaned-data functions on properly cleaned data (their documented domain)
        try:
            base = np.array(arg)
            base = base - base[0]
            cleaned, _ = pc.clean_out_non_changing(base)
        except Exception:  # noqa
            continue
        for fn in fns[2:4]:
            a = cleaned.copy()
            try:
                out = ('ok', enc(getattr(pc, fn)(a)))
            except Exception as e:  # noqa
                out = ('exc', type(e).__name__, str(e))
            results[(label, fn + '@cleaned')] = (out, enc(a))
        # a history of calls on the same object: results must not depend on the previous calls
        if isinstance(arg, np.ndarray) and arg.ndim == 1 and len(arg) > 1:
            a = arg.copy()
            seq = []
            for fn in (fns[0], fns[1], fns[0], fns[1]):
                try:
                    seq.append(('ok', enc(getattr(pc, fn)(a))))
                except Exception as e:  # noqa
                    seq.append(('exc', type(e).__name__, str(e)))
            results[(label, 'history')] = (seq, enc(a))
    with open(out_path, 'wb') as f:
        pickle.dump(results, f, protocol=4)


# ---------------------------------------------------------------------------------------------------------------
# parent
# ---------------------------------------------------------------------------------------------------------------

def run_worker(root, out_path):
    env = dict(os.environ)
    env['PYTHONPATH'] = root
    env['PYTHONHASHSEED'] = '0'
    env['PYTHONDONTWRITEBYTECODE'] = '1'
    subprocess.check_call([sys.executable, os.path.abspath(__file__), 'worker', out_path, root], cwd=root, env=env)
    with open(out_path, 'rb') as f:
        return pickle.load(f)


def main():
    cwd = os.getcwd()
    with tempfile.TemporaryDirectory() as tmp:
        orig_root = os.path.join(tmp, 'orig')
        os.makedirs(orig_root)
        blob = subprocess.check_output(['git', 'archive', 'HEAD', 'eqsig'], cwd=cwd)
        with tarfile.open(fileobj=io.BytesIO(blob)) as tf:
            tf.extractall(orig_root)
        res_orig = run_worker(orig_root, os.path.join(tmp, 'orig.pkl'))
        res_edit = run_worker(cwd, os.path.join(tmp, 'edit.pkl'))
    bad = 0
    if set(res_orig) != set(res_edit):
        print('case sets differ')
        bad += 1
    n_ok = n_exc = 0
    for key in sorted(res_orig, key=repr):
        if key not in res_edit:
            continue
        if res_orig[key] != res_edit[key]:
            bad += 1
            if bad < 20:
                print('MISMATCH', key, str(res_orig[key])[:300], '!=', str(res_edit[key])[:300])
        out = res_orig[key][0]
        if isinstance(out, tuple) and out[0] == 'exc':
            n_exc += 1
        else:
            n_ok += 1
    print('compared %i outcomes (%i returned, %i raised); mismatches: %i' % (len(res_orig), n_ok, n_exc, bad))
    return 1 if bad else 0


if __name__ == '__main__':
    if len(sys.argv) > 1 and sys.argv[1] == 'worker':
        worker(sys.argv[2], sys.argv[3])
    else:
        sys.exit(main())

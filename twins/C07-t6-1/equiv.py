#!/usr/bin/env python
"""
Equivalence program for a behaviour-preserving edit ("twin") of the Konno-Ohmachi smoothing code of eqsig
(eqsig/fns/frequency.py, eqsig/single.py, eqsig/im.py).

Run with the edit applied and cwd = the worktree:

    cd <worktree> && PYTHONPATH=<worktree> python out/equivK.py

The ORIGINAL package is taken from git (`git archive HEAD eqsig`) into a temporary directory.  The same
deterministic driver is then run twice, in two separate subprocesses, once against the original package and once
against the edited package in os.getcwd().  Each run records, for several thousand direct calls and several
hundred histories of public operations on Signal / AccSignal objects:

  * the returned value (dtype, shape, flags and every bit of the data; NaNs canonicalised),
  * or the exception (type and message),
  * the warnings that were issued (category, message, file the warning is attributed to),
  * whether the arguments were mutated, whether the result aliases an argument,
  * the smoothing-related state of the object after every operation.

The two records must be identical.  Exit status 0 iff they are.
"""
import io
import os
import pickle
import subprocess
import sys
import tarfile
import tempfile
import shutil

TWIN = 1
SEED = 70700 + TWIN


# ---------------------------------------------------------------------------------------------------------------------
# canonical form of results
# ---------------------------------------------------------------------------------------------------------------------

def canon(obj):
    import numpy as np
    if isinstance(obj, BaseException):
        return ('exc', type(obj).__name__, str(obj))
    if obj is None or isinstance(obj, (bool, str, bytes)):
        return ('py', type(obj).__name__, repr(obj))
    if isinstance(obj, int):
        return ('py', 'int', repr(obj))
    if isinstance(obj, float):
        return ('py', 'float', 'nan' if obj != obj else obj.hex())
    if isinstance(obj, complex):
        return ('py', 'complex', canon(obj.real), canon(obj.imag))
    if isinstance(obj, np.generic):
        return ('npscalar', obj.dtype.str, canon(obj.item()))
    if isinstance(obj, np.ndarray):
        if obj.dtype == object:
            return ('ndobj', obj.shape, [canon(v) for v in obj.ravel().tolist()])
        arr = np.array(obj, copy=True, order='C')
        if arr.dtype.kind in 'fc' and arr.size:
            bad = np.isnan(arr)
            if bad.any():
                arr[bad] = np.nan
        return ('nd', type(obj).__name__, obj.dtype.str, obj.shape,
                (bool(obj.flags.c_contiguous), bool(obj.flags.writeable)), arr.tobytes())
    if isinstance(obj, (tuple, list)):
        return (type(obj).__name__, [canon(v) for v in obj])
    if isinstance(obj, dict):
        return ('dict', sorted((repr(k), canon(v)) for k, v in obj.items()))
    return ('other', type(obj).__module__, type(obj).__name__)


def describe(c, depth=0):
    """Short human-readable form of a canonical value (for mismatch reports)."""
    import numpy as np
    if isinstance(c, tuple) and c and c[0] == 'nd':
        arr = np.frombuffer(c[5], dtype=np.dtype(c[2])).reshape(c[3])
        with np.printoptions(precision=17, threshold=12):
            return 'ndarray %s %s flags=%s %s' % (c[2], c[3], c[4], arr)
    if isinstance(c, (tuple, list)) and depth < 6:
        return '(' + ', '.join(describe(v, depth + 1) for v in c) + ')'
    s = repr(c)
    return s if len(s) < 300 else s[:300] + '...'


# ---------------------------------------------------------------------------------------------------------------------
# the driver (runs in a subprocess against ONE version of the package)
# ---------------------------------------------------------------------------------------------------------------------

def driver(root, outfile):
    import copy
    import inspect
    import warnings
    import numpy as np
    import eqsig
    from eqsig.fns import frequency as fq
    from eqsig import im

    pkg_file = os.path.realpath(eqsig.__file__)
    assert pkg_file.startswith(os.path.realpath(root) + os.sep), (pkg_file, root)
    for mod in (fq, im, sys.modules['eqsig.single']):
        assert os.path.realpath(mod.__file__).startswith(os.path.realpath(root) + os.sep)

    rng = np.random.RandomState(SEED)
    records = []
    warnings.simplefilter('ignore')  # outside call(); inside call() every warning is recorded

    def call(label, fn, *args, **kwargs):
        """Run fn, record (label, result-or-exception, warnings)."""
        with warnings.catch_warnings(record=True) as wlist:
            warnings.simplefilter('always')
            try:
                res = fn(*args, **kwargs)
                ok = True
            except Exception as e:  # noqa
                res = e
                ok = False
        wrec = [(w.category.__name__, str(w.message), os.path.basename(w.filename)) for w in wlist]
        records.append((label, canon(res), wrec))
        return res if ok else None

    def same_or_value(before, after):
        cb, ca = canon(before), canon(after)
        return 'unchanged' if cb == ca else ('MUTATED', ca)

    def shares(res, arg):
        if isinstance(res, np.ndarray) and isinstance(arg, np.ndarray):
            return bool(np.shares_memory(res, arg))
        return res is arg and res is not None

    # ------------------------------------------------------------------ static facts about the public interface
    sigs = []
    for mod, names in ((fq, ['get_sig_freq_range', 'get_sig_array_indexes_range', 'calc_smooth_fa_spectrum',
                             'generate_smooth_fa_spectrum', 'calc_smoothing_matrix_konno_1998',
                             'calc_smooth_fa_spectrum_w_custom_matrix']),
                       (im, ['calc_bandwidth_freqs', 'calc_bandwidth_f_min', 'calc_bandwidth_f_max']),
                       (eqsig.Signal, ['__init__', 'set_smooth_fa_frequecies_by_range', 'gen_smooth_fa_spectrum',
                                       'generate_smooth_fa_spectrum', 'clear_cache', 'reset_values',
                                       'gen_fa_spectrum'])):
        for name in names:
            f = getattr(mod, name)
            sigs.append((getattr(mod, '__name__', str(mod)), name, str(inspect.signature(f)), f.__doc__))
    for pname in ['smooth_fa_freqs', 'smooth_fa_frequencies', 'smooth_fa_spectrum', 'smooth_freq_range',
                  'smooth_freq_points']:
        p = inspect.getattr_static(eqsig.Signal, pname)
        sigs.append(('Signal.property', pname, isinstance(p, property), p.fget is not None, p.fset is not None,
                     p.fdel is not None))
    records.append(('static-signatures', canon(sigs), []))
    records.append(('public-names-frequency', canon(sorted(n for n in dir(fq) if not n.startswith('_'))), []))
    records.append(('public-names-im', canon(sorted(n for n in dir(im) if not n.startswith('_'))), []))
    records.append(('public-names-Signal', canon(sorted(n for n in dir(eqsig.Signal) if not n.startswith('_'))), []))
    records.append(('public-names-eqsig', canon(sorted(n for n in dir(eqsig) if not n.startswith('_'))), []))

    # ------------------------------------------------------------------ generators of inputs
    def fourier_grid(npts, dt):
        points = int(npts / 2)
        return np.arange(points) / (npts * dt)

    def make_freqs(kind):
        """Returns (fa_frequencies array, has_zero_bin)"""
        n = int(rng.choice([2, 3, 4, 5, 8, 9, 16, 17, 32, 33, 64]))
        dt = float(rng.choice([0.005, 0.01, 0.02, 0.1, 1.0]))
        if kind == 'grid0':
            return fourier_grid(2 * n, dt)
        if kind == 'grid':
            return fourier_grid(2 * n + 2, dt)[1:]
        if kind == 'grid_odd':
            return fourier_grid(2 * n + 1, dt)
        if kind == 'random':
            return np.sort(rng.uniform(0.01, 50, size=n))
        if kind == 'log':
            return np.logspace(-2, 2, n)
        if kind == 'unsorted':
            return rng.uniform(0.01, 50, size=n)
        if kind == 'dupl':
            f = np.sort(rng.uniform(0.1, 20, size=n))
            f[n // 2] = f[0]
            return f
        if kind == 'int':
            return np.arange(0 if rng.rand() < 0.5 else 1, n + 1)
        if kind == 'f32':
            return fourier_grid(2 * n, dt).astype(np.float32)
        if kind == 'single':
            return np.array([float(rng.choice([0.0, 1.0, 2.5]))]) if rng.rand() < 0.5 else np.array([0.0, 1.5])
        raise ValueError(kind)

    freq_kinds = ['grid0', 'grid0', 'grid0', 'grid', 'grid_odd', 'random', 'log', 'unsorted', 'dupl', 'int', 'f32',
                  'single']

    def make_spectrum(kind, n):
        if kind == 'complex':
            return rng.randn(n) + 1j * rng.randn(n)
        if kind == 'pos':
            return np.abs(rng.randn(n)) + 0.01
        if kind == 'signed':
            return rng.randn(n)
        if kind == 'int':
            return rng.randint(-5, 20, size=n)
        if kind == 'const':
            return np.full(n, float(rng.choice([1.0, 3.25, 1e-12, 1e12])))
        if kind == 'zeros':
            return np.zeros(n)
        if kind == 'spike':
            a = np.zeros(n)
            a[rng.randint(n)] = 1.0
            return a
        if kind == 'f32':
            return np.abs(rng.randn(n)).astype(np.float32)
        if kind == 'c64':
            return (rng.randn(n) + 1j * rng.randn(n)).astype(np.complex64)
        if kind == 'naninf':
            a = np.abs(rng.randn(n))
            a[rng.randint(n)] = np.nan if rng.rand() < 0.5 else np.inf
            return a
        if kind == 'list':
            return list(np.abs(rng.randn(n)))
        if kind == 'short':
            return np.abs(rng.randn(max(n - 1, 1)))
        if kind == 'long':
            return np.abs(rng.randn(n + 2))
        if kind == 'scalar':
            return 2.0
        if kind == '2d':
            return np.abs(rng.randn(n, 2))
        raise ValueError(kind)

    spec_kinds = ['complex'] * 4 + ['pos'] * 3 + ['signed', 'int', 'const', 'zeros', 'spike', 'f32', 'c64', 'naninf',
                                                 'list', 'short', 'long', 'scalar', '2d']

    def make_targets(kind, f):
        fpos = np.asarray(f, dtype=float)
        fpos = fpos[fpos > 0]
        if len(fpos) == 0:
            fpos = np.array([1.0])
        if kind == 'none':
            return None
        if kind == 'on':
            k = rng.randint(1, len(fpos) + 1)
            return np.array(fpos[np.sort(rng.choice(len(fpos), size=k, replace=False))])
        if kind == 'on_all':
            return np.array(fpos)
        if kind == 'mid':
            if len(fpos) < 2:
                return fpos * 1.5
            return 0.5 * (fpos[1:] + fpos[:-1])
        if kind == 'geo':
            if len(fpos) < 2:
                return fpos * 0.7
            return np.sqrt(np.abs(fpos[1:] * fpos[:-1]))
        if kind == 'outside':
            return np.array([fpos.min() / 10, fpos.min() / 1.001, fpos.max() * 1.001, fpos.max() * 7, fpos.max() * 1e3,
                             fpos.min() * 1e-3])
        if kind == 'logspace':
            return np.logspace(-1, np.log10(30), int(rng.choice([1, 2, 5, 50])))
        if kind == 'mix':
            m = rng.randint(1, 8)
            t = rng.uniform(fpos.min() / 2, fpos.max() * 2, size=m)
            j = rng.randint(m)
            t[j] = fpos[rng.randint(len(fpos))]
            return t
        if kind == 'one_on':
            return np.array([fpos[rng.randint(len(fpos))]])
        if kind == 'one_off':
            return np.array([float(rng.uniform(0.05, 40))])
        if kind == 'int':
            return np.array([1, 2, 5, 10])
        if kind == 'f32':
            return np.array(fpos[:max(1, len(fpos) // 2)], dtype=np.float32)
        if kind == 'unsorted':
            t = rng.uniform(0.05, 40, size=6)
            t[2] = fpos[-1]
            return t
        if kind == 'with_zero':
            return np.array([0.0, fpos[0], 2 * fpos[-1]])
        if kind == 'negative':
            return np.array([-1.0, fpos[0]])
        if kind == 'nan':
            return np.array([np.nan, fpos[0], 3.3])
        if kind == 'empty':
            return np.array([])
        if kind == 'list':
            return [float(fpos[0]), 2.0, 5.5]
        if kind == 'tuple':
            return (float(fpos[0]), 2.0)
        if kind == 'scalar':
            return float(fpos[0])
        if kind == 'zero_d':
            return np.array(float(fpos[0]))
        if kind == '2d':
            return np.array([[float(fpos[0]), 2.0], [3.0, 4.0]])
        raise ValueError(kind)

    target_kinds = (['none'] * 4 + ['on'] * 4 + ['on_all'] * 2 + ['mid', 'geo', 'outside', 'outside', 'logspace',
                                                                 'logspace', 'mix', 'mix', 'mix', 'one_on', 'one_off',
                                                                 'int', 'f32', 'unsorted', 'with_zero', 'negative',
                                                                 'nan', 'empty', 'list', 'tuple', 'scalar', 'zero_d',
                                                                 '2d'])

    def make_band():
        r = rng.rand()
        if r < 0.15:
            return 'default'
        if r < 0.45:
            return int(rng.randint(5, 101))
        if r < 0.70:
            return float(rng.uniform(5, 100))
        if r < 0.76:
            return float(rng.choice([5.0, 100.0, 40.0]))
        if r < 0.82:
            return np.float64(rng.uniform(5, 100))
        if r < 0.87:
            return np.int64(rng.randint(5, 101))
        if r < 0.91:
            return np.float32(rng.uniform(5, 100))
        if r < 0.94:
            return np.int32(rng.randint(5, 101))
        if r < 0.96:
            return 0
        if r < 0.98:
            return -20
        return float(rng.choice([1e-3, 1e3]))

    def mangle_freq_container(f):
        r = rng.rand()
        if r < 0.04:
            return list(f)
        if r < 0.06:
            return tuple(f)
        if r < 0.08:
            return f[::-1][::-1][::1]  # a view
        if r < 0.10 and len(f) > 2:
            return np.concatenate([f, f])[::2][:len(f)]  # non-contiguous view
        return f

    # ------------------------------------------------------------------ section 1: direct calls of the functions
    def direct_case(tag, f, a, t, band):
        f0, a0, t0 = copy.deepcopy(f), copy.deepcopy(a), copy.deepcopy(t)
        kw = {} if isinstance(band, str) else {'band': band}
        r1 = call(tag + ':calc_smooth(kw)', fq.calc_smooth_fa_spectrum, f, a, t, **kw)
        records.append((tag + ':mut1', (same_or_value(f0, f), same_or_value(a0, a), same_or_value(t0, t)),
                        [shares(r1, f), shares(r1, a), shares(r1, t)]))
        if t is None:
            call(tag + ':calc_smooth(no target arg)', fq.calc_smooth_fa_spectrum, f, a, **kw)
        if not isinstance(band, str):
            call(tag + ':calc_smooth(positional)', fq.calc_smooth_fa_spectrum, f, a, t, band)
            call(tag + ':calc_smooth(all kw)', fq.calc_smooth_fa_spectrum, fa_frequencies=f, fa_spectrum=a,
                 smooth_fa_frequencies=t, band=band)
        call(tag + ':generate_smooth', fq.generate_smooth_fa_spectrum, t, f, a, **kw)
        call(tag + ':generate_smooth(reexport)', eqsig.generate_smooth_fa_spectrum, t, f, a, **kw)
        r2 = call(tag + ':matrix', fq.calc_smoothing_matrix_konno_1998, f, t, **kw)
        records.append((tag + ':mut2', (same_or_value(f0, f), same_or_value(a0, a), same_or_value(t0, t)),
                        [shares(r2, f), shares(r2, t)]))
        if not isinstance(band, str):
            call(tag + ':matrix(positional)', fq.calc_smoothing_matrix_konno_1998, f, t, band)
        if t is None:
            call(tag + ':matrix(no target arg)', fq.calc_smoothing_matrix_konno_1998, f, **kw)
        # the matrix is a fresh writable array: two calls give independent results
        if isinstance(r2, np.ndarray) and r2.size:
            r2b = fq.calc_smoothing_matrix_konno_1998(f, t, **kw)
            r2b.flat[0] = -123.0
            r2c = fq.calc_smoothing_matrix_konno_1998(f, t, **kw)
            records.append((tag + ':matrix-fresh', canon(r2c), []))

    n_direct = 2500
    for i in range(n_direct):
        fk = freq_kinds[rng.randint(len(freq_kinds))]
        f = make_freqs(fk)
        sk = spec_kinds[rng.randint(len(spec_kinds))]
        a = make_spectrum(sk, len(f))
        tk = target_kinds[rng.randint(len(target_kinds))]
        t = make_targets(tk, f)
        band = make_band()
        f = mangle_freq_container(f)
        direct_case('D%04d[%s,%s,%s,%r]' % (i, fk, sk, tk, band), f, a, t, band)

    # a few bigger ones (realistic sizes)
    for i, (npts, dt, m) in enumerate([(1024, 0.01, 50), (4096, 0.005, 61), (2000, 0.02, 200), (8192, 0.01, 30),
                                       (1 << 10, 0.01, 1), (3001, 0.01, 17)]):
        f = fourier_grid(npts, dt)
        a = rng.randn(len(f)) + 1j * rng.randn(len(f))
        for tk in ['logspace50', 'on', 'none']:
            if tk == 'logspace50':
                t = np.logspace(-1, np.log10(30), m)
            elif tk == 'on':
                t = np.array(f[1:][np.sort(rng.choice(len(f) - 1, size=m, replace=False))])
            else:
                if len(f) > 1100:
                    continue
                t = None
            band = [40, 'default', 5, 100, 17.5, 63][i]
            direct_case('B%02d[%s]' % (i, tk), f, a, t, band)

    # every band in [5, 100] on one fixed configuration, on-grid and off-grid targets
    f = fourier_grid(128, 0.01)
    a = np.abs(rng.randn(len(f))) + 0.1
    t = np.concatenate([f[[1, 5, 20, 63]], [0.3, 7.77, 49.9, 80.0]])
    for band in range(5, 101):
        call('band-sweep[%d]' % band, fq.calc_smooth_fa_spectrum, f, a, t, band=band)
        call('band-sweep-matrix[%d]' % band, fq.calc_smoothing_matrix_konno_1998, f, t, band=band)
        call('band-sweep-float[%d]' % band, fq.calc_smooth_fa_spectrum, f[1:], a[1:], t, band=band + 0.5 * (band < 100))

    # ------------------------------------------------------------------ section 2: histories on Signal / AccSignal
    class Duck(object):
        """A minimal stand-in for a signal (the im / frequency helpers only use attributes)."""

        def __init__(self, spec, freqs, fa=None):
            self.smooth_fa_spectrum = spec
            self.smooth_fa_frequencies = freqs
            self.fa_spectrum = fa

    def snapshot(sig, passed):
        d = sig.__dict__
        cls = type(sig)
        out = []
        for name in ['_cached_smooth_fa', '_cached_fa', '_smooth_fa_freqs', '_smooth_fa_spectrum',
                     '_smooth_freq_range', '_smooth_freq_points', '_npts']:
            out.append((name, name in d, canon(getattr(sig, name, 'MISSING'))))
        out.append(('freqs-is-passed', [getattr(sig, '_smooth_fa_freqs', None) is p for p in passed]))
        out.append(('extra-attrs', sorted(k for k in d if 'smooth' in k)))
        return tuple(out)

    def make_values(npts):
        r = rng.rand()
        t = np.arange(npts) * 0.01
        v = rng.randn(npts) * np.exp(-((t - t.mean()) ** 2) / (0.1 + t.var())) if npts > 1 else rng.randn(npts)
        if r < 0.15:
            return rng.randint(-100, 100, size=npts)
        if r < 0.25:
            return list(v)
        if r < 0.30:
            return np.zeros(npts)
        if r < 0.35:
            return np.sin(2 * np.pi * float(rng.uniform(0.5, 10)) * t)
        return v

    def freq_value(sig_grid):
        """A value for the smoothing-frequency setters."""
        r = rng.rand()
        grid = sig_grid[1:] if len(sig_grid) > 1 else np.array([1.0])
        if r < 0.20:
            k = rng.randint(1, min(len(grid), 12) + 1)
            return np.array(grid[np.sort(rng.choice(len(grid), size=k, replace=False))])
        if r < 0.35:
            return np.logspace(-1, 1.3, int(rng.choice([1, 2, 10, 30])))
        if r < 0.45:
            return [0.2, 0.5, 1.0, 2.0, 5.0, 10.0]
        if r < 0.52:
            return np.array([1, 2, 3, 5, 8])
        if r < 0.58:
            return (0.5, float(grid[0]), 4.0)
        if r < 0.64:
            return np.sort(rng.uniform(0.05, 40, size=rng.randint(1, 9)))
        if r < 0.70:
            return np.array([0.3, 1.0, 3.0], dtype=np.float32)
        if r < 0.75:
            return [1, 2.5, 4]
        if r < 0.79:
            return 2.0
        if r < 0.83:
            return []
        if r < 0.87:
            return np.array([0.0, 1.0, 2.0])
        if r < 0.90:
            return ['a', 'b']
        if r < 0.93:
            return [[1.0, 2.0], [3.0, 4.0]] if rng.rand() < 0.4 else [[0.5, 1.0, float(grid[0])]]
        if r < 0.96:
            return np.array(grid[:1])
        return None

    def limits_value():
        r = rng.rand()
        if r < 0.25:
            return (0.1, 30)
        if r < 0.40:
            return [float(rng.uniform(0.05, 1)), float(rng.uniform(2, 40))]
        if r < 0.50:
            return np.array([0.2, 20.0])
        if r < 0.58:
            return (1, 10)
        if r < 0.64:
            return np.array([1, 25])
        if r < 0.70:
            return (0.1, 1.0, 10.0)
        if r < 0.75:
            return (5.0,)
        if r < 0.80:
            return (10.0, 0.5)
        if r < 0.84:
            return (0.0, 10.0)
        if r < 0.88:
            return (-1.0, 10.0)
        if r < 0.91:
            return 3.0
        if r < 0.94:
            return None
        if r < 0.97:
            return (2.0, 2.0)
        return ('a', 'b')

    def npoints_value():
        r = rng.rand()
        if r < 0.5:
            return int(rng.choice([1, 2, 3, 10, 50, 61]))
        if r < 0.6:
            return 0
        if r < 0.7:
            return 20.0
        if r < 0.78:
            return np.int64(12)
        if r < 0.84:
            return '30'
        if r < 0.90:
            return -3
        if r < 0.95:
            return 7.9
        return None

    def ratio_value():
        r = rng.rand()
        if r < 0.3:
            return 'default'
        if r < 0.75:
            return float(rng.choice([0.0, 0.1, 0.5, 0.707, 0.9, 0.99, 0.999999, 1.0, 1.5, -1.0]))
        if r < 0.85:
            return float(rng.uniform(0.01, 1.2))
        if r < 0.92:
            return int(rng.choice([0, 1, 2]))
        return np.float64(0.8)

    def band_value():
        b = make_band()
        return b

    op_names = ['get_spec', 'get_spec', 'get_spec', 'get_freqs', 'get_frequencies', 'set_freqs', 'set_freqs',
                'set_frequencies', 'by_range', 'by_range', 'get_range', 'set_range', 'get_points', 'set_points',
                'gen_smooth', 'gen_smooth', 'gen_smooth', 'generate_smooth', 'reset_values', 'clear_cache', 'gen_fa',
                'bw_freqs', 'bw_freqs', 'bw_fmin', 'bw_fmax', 'sig_freq_range', 'idx_range', 'custom_matrix',
                'mutate_passed', 'mutate_returned', 'abs_spec', 'deprecated_fn']

    n_hist = 400
    for h in range(n_hist):
        npts = int(rng.choice([1, 2, 3, 4, 5, 7, 16, 37, 100, 128, 255, 256, 600, 1000, 1500]))
        dt = float(rng.choice([0.005, 0.01, 0.02, 0.1, 1.0]))
        vals = make_values(npts)
        cls = eqsig.AccSignal if rng.rand() < 0.6 else eqsig.Signal
        grid = fourier_grid(2 ** int(np.ceil(np.log2(npts))), dt) if npts > 1 else np.array([0.0])
        r = rng.rand()
        ckw = {}
        if r < 0.3:
            ckw['smooth_freq_range'] = limits_value()
        elif r < 0.6:
            ckw['smooth_fa_freqs'] = freq_value(grid)
        tag = 'H%03d[%s,npts=%d,dt=%g]' % (h, cls.__name__, npts, dt)
        vals0 = copy.deepcopy(vals)
        ckw0 = copy.deepcopy(ckw)
        sig = call(tag + ':construct %r' % (sorted(ckw),), cls, vals, dt, **ckw)
        records.append((tag + ':construct-mut', (same_or_value(vals0, vals), same_or_value(ckw0, ckw)), []))
        if sig is None:
            continue
        passed = []
        records.append((tag + ':state0', snapshot(sig, passed), []))
        n_ops = rng.randint(4, 16)
        for k in range(n_ops):
            op = op_names[rng.randint(len(op_names))]
            lab = '%s:%02d:%s' % (tag, k, op)
            if op == 'get_spec':
                r1 = call(lab, lambda: sig.smooth_fa_spectrum)
                r2 = call(lab + '(again)', lambda: sig.smooth_fa_spectrum)
                records.append((lab + ':same-object', r1 is r2, []))
            elif op == 'get_freqs':
                call(lab, lambda: sig.smooth_fa_freqs)
            elif op == 'get_frequencies':
                r1 = call(lab, lambda: sig.smooth_fa_frequencies)
                records.append((lab + ':same-object', r1 is sig.smooth_fa_freqs, []))
            elif op in ('set_freqs', 'set_frequencies'):
                v = freq_value(grid)
                v0 = copy.deepcopy(v)
                attr = 'smooth_fa_freqs' if op == 'set_freqs' else 'smooth_fa_frequencies'
                call(lab + ' %r' % (type(v).__name__,), setattr, sig, attr, v)
                records.append((lab + ':mut', same_or_value(v0, v), [shares(sig.smooth_fa_freqs, v)]))
            elif op == 'by_range':
                lim, n = limits_value(), npoints_value()
                lim0 = copy.deepcopy(lim)
                call(lab + ' %r %r' % (lim, n), sig.set_smooth_fa_frequecies_by_range, lim, n)
                records.append((lab + ':mut', same_or_value(lim0, lim),
                                [shares(getattr(sig, '_smooth_freq_range', None), lim)]))
            elif op == 'get_range':
                call(lab, lambda: sig.smooth_freq_range)
            elif op == 'set_range':
                lim = limits_value()
                call(lab + ' %r' % (lim,), setattr, sig, 'smooth_freq_range', lim)
            elif op == 'get_points':
                call(lab, lambda: sig.smooth_freq_points)
            elif op == 'set_points':
                n = npoints_value()
                call(lab + ' %r' % (n,), setattr, sig, 'smooth_freq_points', n)
            elif op == 'gen_smooth':
                v = freq_value(grid) if rng.rand() < 0.7 else None
                b = band_value()
                kw = {} if isinstance(b, str) else {'band': b}
                v0 = copy.deepcopy(v)
                style = rng.randint(3)
                if style == 0:
                    call(lab + ' kw %r %r' % (type(v).__name__, b), sig.gen_smooth_fa_spectrum, smooth_fa_freqs=v, **kw)
                elif style == 1 and kw:
                    call(lab + ' pos %r %r' % (type(v).__name__, b), sig.gen_smooth_fa_spectrum, v, b)
                else:
                    call(lab + ' pos1 %r %r' % (type(v).__name__, b), sig.gen_smooth_fa_spectrum, v, **kw)
                if v is not None:
                    passed.append(v)
                records.append((lab + ':mut', same_or_value(v0, v), []))
            elif op == 'generate_smooth':
                b = band_value()
                if isinstance(b, str):
                    call(lab, sig.generate_smooth_fa_spectrum)
                elif rng.rand() < 0.5:
                    call(lab + ' %r' % (b,), sig.generate_smooth_fa_spectrum, b)
                else:
                    call(lab + ' band=%r' % (b,), sig.generate_smooth_fa_spectrum, band=b)
            elif op == 'reset_values':
                m = int(rng.choice([2, 3, 8, 50, 129, 400]))
                call(lab, sig.reset_values, make_values(m))
            elif op == 'clear_cache':
                call(lab, sig.clear_cache)
            elif op == 'gen_fa':
                if rng.rand() < 0.5:
                    call(lab, sig.gen_fa_spectrum, p2_plus=int(rng.choice([0, 1, 2])))
                else:
                    call(lab, sig.gen_fa_spectrum, n=int(rng.choice([4, 10, 64, 333, 2048])))
            elif op in ('bw_freqs', 'bw_fmin', 'bw_fmax'):
                fn = {'bw_freqs': im.calc_bandwidth_freqs, 'bw_fmin': im.calc_bandwidth_f_min,
                      'bw_fmax': im.calc_bandwidth_f_max}[op]
                ra = ratio_value()
                if isinstance(ra, str):
                    call(lab, fn, sig)
                elif rng.rand() < 0.5:
                    call(lab + ' %r' % (ra,), fn, sig, ra)
                else:
                    call(lab + ' ratio=%r' % (ra,), fn, sig, ratio=ra)
            elif op == 'sig_freq_range':
                ra = float(rng.choice([15, 2, 1.0001, 1.0, 0.5, 100, 1e6]))
                if rng.rand() < 0.3:
                    call(lab, fq.get_sig_freq_range, sig)
                else:
                    call(lab + ' %r' % (ra,), fq.get_sig_freq_range, sig, ratio=ra)
            elif op == 'idx_range':
                ra = float(rng.choice([15, 2, 1.0001, 1.0, 0.5, 100]))
                spec = call(lab + ':spec', lambda: sig.smooth_fa_spectrum)
                if spec is not None:
                    call(lab + ' %r' % (ra,), fq.get_sig_array_indexes_range, spec, ra)
                    call(lab + ' list %r' % (ra,), fq.get_sig_array_indexes_range, list(spec), ratio=ra)
            elif op == 'custom_matrix':
                b = band_value()
                kw = {} if isinstance(b, str) else {'band': b}
                m = call(lab + ':matrix %r' % (b,), lambda: fq.calc_smoothing_matrix_konno_1998(
                    sig.fa_freqs, sig.smooth_fa_freqs, **kw))
                if m is not None:
                    call(lab + ':apply', fq.calc_smooth_fa_spectrum_w_custom_matrix, sig, m)
                    call(lab + ':apply(reexport)', eqsig.calc_smooth_fa_spectrum_w_custom_matrix, sig, m)
            elif op == 'mutate_passed':
                if passed and isinstance(passed[-1], np.ndarray) and passed[-1].size and passed[-1].ndim == 1:
                    call(lab, lambda: passed[-1].__setitem__(0, passed[-1][0] * 1.25 + 0.01))
                    call(lab + ':freqs', lambda: sig.smooth_fa_freqs)
                    call(lab + ':spec', lambda: sig.smooth_fa_spectrum)
            elif op == 'mutate_returned':
                fr = sig.smooth_fa_freqs
                if isinstance(fr, np.ndarray) and fr.size and fr.ndim == 1 and fr.flags.writeable:
                    call(lab, lambda: fr.__setitem__(-1, fr[-1] * 1.1))
                    call(lab + ':spec', lambda: sig.smooth_fa_spectrum)
                sp = call(lab + ':spec2', lambda: sig.smooth_fa_spectrum)
                if isinstance(sp, np.ndarray) and sp.size and sp.flags.writeable:
                    call(lab + ':write-spec', sp.__setitem__, 0, 77.0)
                    call(lab + ':spec3', lambda: sig.smooth_fa_spectrum)
                    call(lab + ':bw', im.calc_bandwidth_freqs, sig)
            elif op == 'abs_spec':
                call(lab, lambda: sig.fa_spectrum_abs)
                call(lab + ':fa_frequencies', lambda: sig.fa_frequencies)
            elif op == 'deprecated_fn':
                call(lab, lambda: eqsig.generate_smooth_fa_spectrum(sig.smooth_fa_freqs, sig.fa_freqs,
                                                                    sig.fa_spectrum))
            records.append((lab + ':state', snapshot(sig, passed), []))
        # end of history: the public view
        call(tag + ':final:freqs', lambda: sig.smooth_fa_freqs)
        call(tag + ':final:spec', lambda: sig.smooth_fa_spectrum)
        call(tag + ':final:bw', im.calc_bandwidth_freqs, sig)
        call(tag + ':final:fmin', im.calc_bandwidth_f_min, sig)
        call(tag + ':final:fmax', im.calc_bandwidth_f_max, sig)
        call(tag + ':final:sigrange', fq.get_sig_freq_range, sig)

    # ------------------------------------------------------------------ section 3: bandwidth helpers on duck-typed objects
    for i in range(600):
        m = int(rng.choice([1, 2, 3, 5, 10, 50]))
        kind = rng.randint(9)
        if kind == 0:
            spec = np.abs(rng.randn(m))
        elif kind == 1:
            spec = np.full(m, 2.0)
        elif kind == 2:
            spec = np.zeros(m)
        elif kind == 3:
            spec = np.abs(rng.randn(m))
            spec[rng.randint(m)] = np.nan
        elif kind == 4:
            spec = -np.abs(rng.randn(m))
        elif kind == 5:
            spec = rng.randint(0, 10, size=m)
        elif kind == 6:
            spec = list(np.abs(rng.randn(m)))
        elif kind == 7:
            spec = np.abs(rng.randn(m)).astype(np.float32)
        else:
            spec = np.sort(np.abs(rng.randn(m)))[::-1 if rng.rand() < 0.5 else 1]
        fkind = rng.randint(5)
        freqs = np.logspace(-1, 1.3, m)
        if fkind == 1:
            freqs = list(freqs)
        elif fkind == 2:
            freqs = tuple(freqs)
        elif fkind == 3:
            freqs = np.arange(1, m + 1)
        elif fkind == 4:
            freqs = np.logspace(-1, 1.3, m + 2)
        duck = Duck(spec, freqs)
        ra = ratio_value()
        args = () if isinstance(ra, str) else (ra,)
        lab = 'K%03d[%d,%d,%r]' % (i, kind, fkind, ra)
        spec0, freqs0 = copy.deepcopy(spec), copy.deepcopy(freqs)
        call(lab + ':bw_freqs', im.calc_bandwidth_freqs, duck, *args)
        call(lab + ':bw_fmin', im.calc_bandwidth_f_min, duck, *args)
        call(lab + ':bw_fmax', im.calc_bandwidth_f_max, duck, *args)
        if not isinstance(ra, str) and ra != 0:
            call(lab + ':sig_freq_range', fq.get_sig_freq_range, duck, 1.0 / ra)
            call(lab + ':idx_range', fq.get_sig_array_indexes_range, spec, 1.0 / ra)
        else:
            call(lab + ':sig_freq_range', fq.get_sig_freq_range, duck)
            call(lab + ':idx_range', fq.get_sig_array_indexes_range, spec)
        records.append((lab + ':mut', (same_or_value(spec0, spec), same_or_value(freqs0, freqs)), []))
        # custom-matrix product on a duck
        n = int(rng.choice([2, 3, 9]))
        fa = rng.randn(n) + 1j * rng.randn(n)
        mat = np.abs(rng.randn(n - 1, 3))
        call(lab + ':custom', fq.calc_smooth_fa_spectrum_w_custom_matrix, Duck(None, None, fa), mat)

    # ------------------------------------------------------------------ section 4: frequency-range sweep on Signal
    base_sig = eqsig.AccSignal(np.sin(np.arange(200) * 0.3) * np.hanning(200), 0.01)
    for i in range(400):
        lo = float(10 ** rng.uniform(-3, 1))
        hi = float(lo * 10 ** rng.uniform(0, 3))
        n = int(rng.choice([1, 2, 3, 7, 30, 50, 61, 100]))
        form = rng.randint(4)
        lim = [(lo, hi), [lo, hi], np.array([lo, hi]), (int(lo) + 1, int(hi) + 2)][form]
        lab = 'R%03d[%r,%d]' % (i, lim, n)
        call(lab + ':by_range', base_sig.set_smooth_fa_frequecies_by_range, lim, n)
        call(lab + ':freqs', lambda: base_sig.smooth_fa_freqs)
        call(lab + ':range-attr', lambda: base_sig._smooth_freq_range)
        if i % 4 == 0:
            call(lab + ':spec', lambda: base_sig.smooth_fa_spectrum)
            call(lab + ':bw', im.calc_bandwidth_freqs, base_sig, float(rng.uniform(0.05, 0.999)))
        if i % 5 == 0:
            call(lab + ':set_range', setattr, base_sig, 'smooth_freq_range', lim)
            call(lab + ':freqs2', lambda: base_sig.smooth_fa_freqs)
            call(lab + ':set_points', setattr, base_sig, 'smooth_freq_points', n)
            call(lab + ':freqs3', lambda: base_sig.smooth_fa_freqs)
            call(lab + ':get_range', lambda: base_sig.smooth_freq_range)
        if i % 7 == 0:
            s2 = call(lab + ':construct', eqsig.Signal, [0.0, 1.0, -1.0, 0.5, 0.0, 0.2], 0.02, smooth_freq_range=lim)
            if s2 is not None:
                call(lab + ':construct:freqs', lambda: s2.smooth_fa_freqs)
                call(lab + ':construct:spec', lambda: s2.smooth_fa_spectrum)

    # ------------------------------------------------------------------ section 5: dtype sweep, targets exactly on the grid
    for i in range(300):
        n = int(rng.choice([3, 8, 21, 64]))
        fd = [np.float64, np.float32, np.float16, np.int64, np.int32, np.uint8][rng.randint(6)]
        td = [np.float64, np.float32, np.float16, np.int64, np.int32, np.uint8][rng.randint(6)]
        ad = [np.float64, np.float32, np.float16, np.int64, np.complex128, np.complex64, np.uint8][rng.randint(7)]
        f = (np.arange(0 if rng.rand() < 0.6 else 1, n + 1) * float(rng.choice([1, 1, 0.5, 0.25, 2]))).astype(fd)
        a = (np.abs(rng.randn(len(f))) * 10 + 1).astype(ad)
        fpos = f[f > 0] if (f > 0).any() else np.array([1])
        t = np.concatenate([fpos[rng.choice(len(fpos), size=2)], [3, 7]]).astype(td)
        band = make_band()
        direct_case('T%03d[%s,%s,%s,%r]' % (i, np.dtype(fd).name, np.dtype(td).name, np.dtype(ad).name, band),
                    f, a, t, band)

    with open(outfile, 'wb') as fh:
        pickle.dump(records, fh, protocol=pickle.HIGHEST_PROTOCOL)


# ---------------------------------------------------------------------------------------------------------------------
# parent: obtain the original, run both, compare
# ---------------------------------------------------------------------------------------------------------------------

def run_driver(root, outfile):
    env = dict(os.environ)
    env['PYTHONPATH'] = root
    env['PYTHONHASHSEED'] = '0'
    env['PYTHONDONTWRITEBYTECODE'] = '1'
    proc = subprocess.run([sys.executable, os.path.abspath(__file__), '--driver', root, outfile], env=env, cwd=root)
    if proc.returncode != 0:
        print('driver failed for', root)
        sys.exit(2)
    with open(outfile, 'rb') as fh:
        return pickle.load(fh)


def main():
    cwd = os.getcwd()
    if not os.path.isdir(os.path.join(cwd, 'eqsig')):
        print('run from the worktree root (no eqsig/ in %s)' % cwd)
        sys.exit(2)
    tmp = tempfile.mkdtemp(prefix='eqsig_equiv_')
    try:
        orig_root = os.path.join(tmp, 'orig')
        os.mkdir(orig_root)
        blob = subprocess.run(['git', 'archive', 'HEAD', 'eqsig'], cwd=cwd, stdout=subprocess.PIPE, check=True).stdout
        with tarfile.open(fileobj=io.BytesIO(blob)) as tf:
            tf.extractall(orig_root)
        rec_o = run_driver(orig_root, os.path.join(tmp, 'orig.pkl'))
        rec_e = run_driver(cwd, os.path.join(tmp, 'edit.pkl'))
    finally:
        shutil.rmtree(tmp, ignore_errors=True)

    n_bad = 0
    if len(rec_o) != len(rec_e):
        print('DIFFERENT NUMBER OF RECORDS: original %d, edited %d' % (len(rec_o), len(rec_e)))
        n_bad += 1
    n_exc = n_warn = 0
    for ro, re_ in zip(rec_o, rec_e):
        if isinstance(ro[1], tuple) and ro[1] and ro[1][0] == 'exc':
            n_exc += 1
        if ro[2] and isinstance(ro[2][0], tuple):
            n_warn += 1
        if ro != re_:
            n_bad += 1
            if n_bad <= 10:
                print('MISMATCH at', ro[0], '/', re_[0])
                print('   original:', describe(ro[1]), ro[2])
                print('   edited  :', describe(re_[1]), re_[2])
    print('twin %d: compared %d records (%d raised exceptions, %d issued warnings): %d mismatches'
          % (TWIN, len(rec_o), n_exc, n_warn, n_bad))
    sys.exit(0 if n_bad == 0 else 1)


if __name__ == '__main__':
    if len(sys.argv) == 4 and sys.argv[1] == '--driver':
        driver(sys.argv[2], sys.argv[3])
    else:
        main()

"""
Equivalence program for twin 2 (C19: surface energy / time-shift utilities).

Run with the edit applied and cwd = the worktree:

    cd <worktree> && PYTHONPATH=<worktree> /venv/bin/python out/equiv2.py

The ORIGINAL package source is taken from git (`git archive HEAD eqsig`) into a temporary
directory.  Original and edited package are each exercised by the same deterministic worker
(this very file, started with --worker) in separate subprocesses; the parent compares every
recorded outcome (returned values incl. dtype/shape/flags, aliasing of the result with the
arguments, state of all arguments and of the signal object after the call, exception type and
message, warnings).  Exit status 0 iff everything matches.
"""
import io
import os
import pickle
import subprocess
import sys
import tarfile
import tempfile
import warnings

RTOL = 1e-12  # only used where bit-for-bit equality fails; then reported in the summary


# --------------------------------------------------------------------------------------------
# worker
# --------------------------------------------------------------------------------------------

def _snap(obj):
    """Snapshot of an argument / state item that is independent of later mutation."""
    import numpy as np
    if isinstance(obj, np.ndarray):
        return ('nd', obj.dtype.str, obj.shape, obj.copy())
    if isinstance(obj, np.generic):
        return ('ns', obj.dtype.str, obj.item() if obj.dtype.kind != 'V' else None)
    if isinstance(obj, (list, tuple)):
        return (type(obj).__name__, [_snap(o) for o in obj])
    if isinstance(obj, dict):
        return ('dict', sorted((k, _snap(v)) for k, v in obj.items()))
    if obj is None or isinstance(obj, (bool, int, float, str, complex)):
        return ('py', type(obj).__name__, obj)
    return ('obj', type(obj).__name__)


def _result(obj):
    import numpy as np
    if isinstance(obj, np.ndarray):
        return ('nd', obj.dtype.str, obj.shape, np.array(obj, copy=True),
                bool(obj.flags['C_CONTIGUOUS']), bool(obj.flags['WRITEABLE']))
    return _snap(obj)


def _sig_state(sig):
    return ('sig', type(sig).__name__, _snap(sig.values), sig.npts, _snap(sig.dt), sig.label)


def _run(tag, fn, args, kwargs, sigs=(), alias_with=()):
    """Call fn(*args, **kwargs); record everything observable."""
    import numpy as np
    rec = {'tag': tag}
    with warnings.catch_warnings(record=True) as wlist:
        warnings.simplefilter('always')
        try:
            res = fn(*args, **kwargs)
            rec['out'] = ('ok', _result(res))
            al = []
            for a in alias_with:
                if isinstance(res, np.ndarray) and isinstance(a, np.ndarray):
                    al.append((res is a, bool(np.shares_memory(res, a))))
                else:
                    al.append((res is a, False))
            rec['alias'] = al
        except Exception as e:  # noqa
            rec['out'] = ('exc', type(e).__name__, str(e))
            rec['alias'] = None
    rec['warn'] = sorted((w.category.__name__, str(w.message)) for w in wlist)
    rec['args'] = [_snap(a) for a in args if not hasattr(a, 'npts')]
    rec['kwargs'] = sorted((k, _snap(v)) for k, v in kwargs.items())
    rec['sigs'] = [_sig_state(s) for s in sigs]
    return rec


def worker(root, outfile):
    import numpy as np
    import eqsig
    from eqsig import surface
    from eqsig.fns import time_shift
    assert os.path.realpath(eqsig.__file__).startswith(os.path.realpath(root) + os.sep), \
        (eqsig.__file__, root)
    # the names must also be reachable the public way
    assert eqsig.surface is surface
    assert eqsig.fns.put_array_in_2d_array is time_shift.put_array_in_2d_array
    assert eqsig.fns.join_values_w_shifts is time_shift.join_values_w_shifts
    assert eqsig.fns.join_sig_w_time_shift is time_shift.join_sig_w_time_shift

    rng = np.random.RandomState(190619)
    recs = []

    # public names, signatures and defaults of the two modules
    import inspect
    for mod in (surface, time_shift):
        names = sorted(n for n in dir(mod) if not n.startswith('_'))
        sigs_ = []
        for n in names:
            o = getattr(mod, n)
            if inspect.isfunction(o):
                sigs_.append((n, str(inspect.signature(o)), o.__module__))
        recs.append({'tag': 'API_' + mod.__name__, 'out': ('ok', ('py', 'str', repr((names, sigs_)))),
                     'alias': None, 'warn': [], 'args': [], 'kwargs': [], 'sigs': []})

    def rand_values(n, kind):
        if kind == 'float':
            return rng.standard_normal(n)
        if kind == 'int':
            return rng.randint(-50, 50, size=n)
        if kind == 'int32':
            return rng.randint(-50, 50, size=n).astype(np.int32)
        if kind == 'f32':
            return rng.standard_normal(n).astype(np.float32)
        if kind == 'list':
            return [float(x) for x in np.round(rng.standard_normal(n), 3)]
        if kind == 'ilist':
            return [int(x) for x in rng.randint(-9, 9, size=n)]
        if kind == 'tuple':
            return tuple(float(x) for x in np.round(rng.standard_normal(n), 3))
        if kind == 'zeros':
            return np.zeros(n)
        if kind == 'big':
            return rng.standard_normal(n) * 1e150
        if kind == 'nan':
            v = rng.standard_normal(n)
            v[rng.randint(0, n)] = np.nan
            return v
        raise ValueError(kind)

    vkinds = ['float', 'float', 'float', 'int', 'int32', 'f32', 'list', 'ilist', 'tuple', 'zeros']

    # ---------------------------------------------------------------- A. put_array_in_2d_array
    clips = ['none', 'start', 'end', 'both', None, 'bogus', 'END']
    for k in range(3200):
        n = int(rng.choice([1, 2, 3, 4, 5, 7, 10, 16, 33, 40]))
        values = rand_values(n, vkinds[k % len(vkinds)])
        ns = int(rng.choice([1, 1, 2, 3, 4, 6]))
        span = int(rng.choice([0, 1, 2, n, n + 5]))
        mode = k % 7
        if mode == 0:
            sh = rng.randint(0, span + 1, size=ns)  # non-negative
        elif mode == 1:
            sh = -rng.randint(0, span + 1, size=ns)  # non-positive
        elif mode == 2:
            sh = np.zeros(ns, dtype=int)
        else:
            sh = rng.randint(-span, span + 1, size=ns)
        form = (k // 7) % 6
        if form == 0:
            shifts = sh
        elif form == 1:
            shifts = [int(s) for s in sh]
        elif form == 2:
            shifts = sh.astype(np.int32)
        elif form == 3:
            shifts = tuple(int(s) for s in sh)
        elif form == 4:
            shifts = sh.astype(np.int16)
        else:
            shifts = sh
        clip = clips[k % len(clips)] if k % 3 else clips[k % 4]
        if k % 5 == 0:
            args, kwargs = (values, shifts), {}
            if k % 10 == 0:
                kwargs = {'clip': clip}
        else:
            args, kwargs = (values, shifts, clip), {}
        recs.append(_run('A%d' % k, time_shift.put_array_in_2d_array, args, kwargs,
                         alias_with=(values, shifts)))
    # corners and failures
    bad = [
        (np.arange(5.), np.array([], dtype=int)),
        (np.arange(5.), []),
        (np.arange(5.), np.array([1.0, 2.0])),
        (np.arange(5.), np.array([-1.0, 2.0])),
        (np.arange(5.), [0.0]),
        (np.arange(5.), np.array([0.5])),
        (np.arange(5.), 3),
        (np.arange(5.), np.array(3)),
        (5.0, np.array([1, 2])),
        (np.arange(6.).reshape(2, 3), np.array([0, 1])),
        (np.arange(6.).reshape(3, 2), np.array([0, 1])),
        (np.array([]), np.array([0, 1])),
        (np.array([]), np.array([0, -1])),
        ([], [0]),
        (np.arange(4.), np.array([[0, 1], [2, 3]])),
        (np.arange(4.), np.array([True, False])),
        (np.arange(4.), None),
        (None, np.array([1])),
        (np.array([1 + 2j, 3 - 1j]), np.array([0, 1])),
        (np.array(['a', 'b']), np.array([0, 1])),
        (np.arange(3.), np.array([10 ** 3, -10 ** 3])),
        (np.arange(3.), np.array([2, -2], dtype=np.int8)),
        (np.arange(3.), np.array([2, 0], dtype=np.uint8)),
        (np.arange(3.), np.array([2, 1], dtype=np.uint64)),
    ]
    for i, (v, s) in enumerate(bad):
        for clip in ['none', 'start', 'end', 'both']:
            recs.append(_run('Abad%d%s' % (i, clip), time_shift.put_array_in_2d_array, (v, s),
                             {'clip': clip}, alias_with=(v, s)))

    # ---------------------------------------------------------------- B. join_values_w_shifts
    jtypes = ['add', 'sub', 'add', 'sub', 'mul', None, 'ADD']
    for k in range(2400):
        n = int(rng.choice([1, 2, 3, 5, 8, 13, 30]))
        values = rand_values(n, vkinds[k % len(vkinds)])
        ns = int(rng.choice([1, 1, 2, 3, 5]))
        span = int(rng.choice([0, 1, 3, n, n + 4]))
        if k % 6 == 5:
            sh = rng.randint(-span, span + 1, size=ns)  # mostly raises / odd broadcasting
        elif k % 6 == 4:
            sh = np.zeros(ns, dtype=int)
        else:
            sh = rng.randint(0, span + 1, size=ns)
        form = (k // 6) % 4
        shifts = [sh, [int(s) for s in sh], sh.astype(np.int32), tuple(int(s) for s in sh)][form]
        jt = jtypes[k % len(jtypes)]
        if k % 4 == 0:
            args, kwargs = (values, shifts), ({} if k % 8 else {'jtype': jt})
        else:
            args, kwargs = (values, shifts, jt), {}
        recs.append(_run('B%d' % k, time_shift.join_values_w_shifts, args, kwargs,
                         alias_with=(values, shifts)))
    for i, (v, s) in enumerate(bad):
        for jt in ['add', 'sub']:
            recs.append(_run('Bbad%d%s' % (i, jt), time_shift.join_values_w_shifts, (v, s),
                             {'jtype': jt}, alias_with=(v, s)))
    # npts + max(shifts) == 1 with negative shifts (legal broadcasting corner)
    for v, s in [(np.array([2.0, 3.0]), np.array([-1, -1])), (np.array([2.0]), np.array([0, -1])),
                 (np.array([2.0, 3.0, 4.0]), np.array([-2, -3])), (np.array([2]), np.array([0, -3, 0]))]:
        for jt in ['add', 'sub']:
            recs.append(_run('Bcorner', time_shift.join_values_w_shifts, (v, s, jt), {},
                             alias_with=(v, s)))

    # ---------------------------------------------------------------- C. join_sig_w_time_shift
    dts = [0.01, 0.005, 0.1, 0.02, 0.25, 1.0, 1. / 256]
    for k in range(700):
        n = int(rng.choice([1, 2, 5, 17, 64]))
        dt = dts[k % len(dts)]
        values = rand_values(n, ['float', 'int', 'list', 'f32'][k % 4])
        cls = eqsig.AccSignal if k % 2 else eqsig.Signal
        sig = cls(values, dt)
        ns = int(rng.choice([1, 2, 4]))
        which = k % 5
        if which == 0:
            ts = rng.randint(0, 12, size=ns) * dt  # whole samples (rounding corners of int())
        elif which == 1:
            ts = rng.uniform(0, 10 * dt, size=ns)  # fractional
        elif which == 2:
            ts = np.zeros(ns)
        elif which == 3:
            ts = rng.uniform(-3 * dt, 6 * dt, size=ns)  # some negative
        else:
            ts = rng.randint(0, 7, size=ns) * dt * 0.5
        if k % 50 == 7:
            ts = list(ts)  # list / float -> TypeError
        if k % 50 == 9:
            ts = float(ts[0])  # scalar
        if k % 50 == 11:
            ts = rng.randint(0, 3, size=ns)  # integer typed
        jt = jtypes[k % len(jtypes)]
        kwargs = {} if k % 3 == 0 else {'jtype': jt}
        recs.append(_run('C%d' % k, time_shift.join_sig_w_time_shift, (sig, ts), kwargs, sigs=(sig,),
                         alias_with=(sig.values,)))

    # ---------------------------------------------------------------- D. trim_to_length (direct)
    for k in range(3000):
        n = int(rng.choice([1, 2, 3, 5, 10, 25, 60]))
        dt = dts[k % len(dts)]
        ns = int(rng.choice([1, 1, 2, 3, 5]))
        which = k % 6
        if which == 0:
            tt = rng.randint(0, 10, size=ns) * dt
        elif which == 1:
            tt = rng.uniform(0, 8 * dt, size=ns)
        elif which == 2:
            tt = np.zeros(ns)
        elif which == 3:
            tt = rng.randint(0, 15, size=ns) * dt * 0.5
        elif which == 4:
            tt = rng.uniform(0, (n + 3) * dt, size=ns)
        else:
            tt = rng.uniform(-2 * dt, 5 * dt, size=ns)  # outside the domain: still must agree
        stt = [0.0, 0.0, float(rng.randint(0, 12)) * dt, float(rng.uniform(0, 9 * dt)), 3 * dt,
               float(rng.uniform(0, (n + 5) * dt))][(k // 6) % 6]
        max_shift = int(np.max(2 * tt / dt))
        if k % 11 == 10:
            width = int(rng.randint(1, n + 6))  # arbitrary width: may raise or broadcast
        else:
            width = max(n + max_shift, 1)
        rows = ns if k % 13 else ns + 1
        vals = rng.standard_normal((rows, width))
        if k % 17 == 0:
            vals = rng.randint(-9, 9, size=(rows, width))
        trim = bool((k >> 0) & 1)
        start = bool((k >> 1) & 1)
        if k % 29 == 0:
            trim, start = int(trim), int(start)  # truthy ints
        form = k % 4
        if form == 0:
            args = (vals, n, tt, dt)
            kwargs = {'trim': trim, 'start': start, 's2s_travel_time': stt}
        elif form == 1:
            args = (vals, n, tt, dt, trim, start, stt)
            kwargs = {}
        elif form == 2:
            args = (vals, n, tt, dt, trim, start)
            kwargs = {}
        else:
            args = (vals, n, tt, dt)
            kwargs = {'start': start, 'trim': trim}
        recs.append(_run('D%d' % k, surface.trim_to_length, args, kwargs, alias_with=(vals, tt)))
    dbad = [
        ((np.ones((2, 5)), 5, [0.1, 0.2], 0.1), {'trim': True}),  # list / float
        ((np.ones((2, 5)), 5, [0.1, 0.2], 0.1), {}),
        ((np.ones((1, 5)), 5, 0.1, 0.1), {'trim': True}),  # scalar travel time
        ((np.ones((1, 5)), 5, np.float64(0.1), 0.1), {'start': True}),
        ((np.ones((1, 5)), 5, np.array(0.1), 0.1), {'start': True, 'trim': True}),
        ((np.ones((1, 5)), 5, np.array([]), 0.1), {'start': True}),
        ((np.ones((1, 5)), 5, np.array([]), 0.1), {'trim': True}),
        ((np.ones((1, 5)), 5, np.array([0.1]), 0.0), {'trim': True}),  # dt = 0
        ((np.ones((1, 5)), 5.0, np.array([0.1]), 0.1), {'trim': True}),  # float npts
        ((np.ones(5), 5, np.array([0.1]), 0.1), {'trim': True}),  # 1d values
        (([[1., 2., 3.]], 3, np.array([0.1]), 0.1), {'trim': True}),  # list of lists
        ((np.ones((1, 5)), 5, np.array([1, 2]), 1), {'trim': True, 'start': True}),  # ints
        ((np.ones((2, 5)), 5, np.array([1, 2]), 1), {'trim': True, 'start': True, 's2s_travel_time': 1}),
        ((np.ones((2, 9)), 5, np.array([1, 2]), 1), {'trim': False, 'start': True, 's2s_travel_time': 4}),
        ((np.ones((2, 9)), 5, np.array([[1, 2]]), 1), {'trim': True}),
        ((np.ones((2, 9)), 5, np.array([np.nan, 1.0]), 1), {'trim': True}),
        ((np.ones((2, 9)), 0, np.array([1.0, 1.0]), 1), {'trim': True}),
        ((np.ones((2, 9)), -1, np.array([1.0, 1.0]), 1), {'trim': True}),
    ]
    for i, (a, kw) in enumerate(dbad):
        recs.append(_run('Dbad%d' % i, surface.trim_to_length, a, kw, alias_with=(a[0],)))

    # ------------------------------------- E. calc_surface_energy / cum_abs / time-shift motions
    fns3 = [('E', surface.calc_surface_energy), ('CE', surface.calc_cum_abs_surface_energy),
            ('M', surface.get_time_shift_motions)]
    rkinds = ['float', 'float', 'int', 'float', 'f32', 'list', 'zeros', 'float', 'int32', 'nan']
    ncfg = 1700
    for k in range(ncfg):
        n = int(rng.choice([1, 2, 3, 5, 8, 20, 50, 120]))
        dt = dts[k % len(dts)]
        values = rand_values(n, rkinds[k % len(rkinds)])
        if k % 97 == 0 and n > 1:
            values = rand_values(n, 'big')
        asig = eqsig.AccSignal(values, dt, label='rec%d' % k)
        ns = int(rng.choice([1, 1, 2, 3, 4, 6]))
        which = (k // 2) % 9
        if which == 0:
            tt = rng.randint(0, 12, size=ns) * dt * 0.5  # integer multiples of dt/2
        elif which == 1:
            tt = rng.uniform(0, 6 * dt, size=ns)  # fractional delays
        elif which == 2:
            tt = np.zeros(ns)  # zero travel time
        elif which == 3:
            tt = rng.randint(0, 9, size=ns) * dt  # whole samples
        elif which == 4:
            tt = rng.uniform(0, (n + 2) * dt, size=ns)  # delays up to / beyond the record length
        elif which == 5:
            tt = np.sort(rng.uniform(0, 10 * dt, size=ns))
        elif which == 6:
            tt = np.concatenate([[0.0], rng.uniform(0, 4 * dt, size=ns)])
        elif which == 7:
            tt = rng.randint(0, 5, size=ns) * dt + rng.choice([0.0, 1e-12, -1e-13], size=ns) * dt
            tt = np.abs(tt)
        else:
            tt = np.array([float(rng.randint(0, 40)) * dt * 0.25] * ns)  # repeated value
        nt = len(tt)
        tform = (k // 3) % 8
        if tform == 0:
            t_arg = tt
        elif tform == 1:
            t_arg = [float(t) for t in tt]
        elif tform == 2:
            t_arg = tuple(float(t) for t in tt)
        elif tform == 3:
            t_arg, nt = float(tt[0]), 1  # python scalar
        elif tform == 4:
            t_arg, nt = np.float64(tt[0]), 1  # numpy scalar
        elif tform == 5:
            t_arg = tt[:1]
            nt = 1
        elif tform == 6:
            t_arg = (rng.randint(0, 4, size=nt)).astype(int)  # integer-typed travel times
        else:
            t_arg = tt
        if k % 211 == 0:
            t_arg, nt = 0, 1  # integer zero
        rform = (k // 5) % 8
        if rform in (0, 1):
            up, down = 1., 1.
        elif rform == 2:
            up, down = 1, 1
        elif rform == 3:
            up, down = float(rng.uniform(0.2, 1.0)), float(rng.uniform(0.2, 1.0))
        elif rform == 4:
            up, down = rng.uniform(0.2, 1.0, size=nt), rng.uniform(0.2, 1.0, size=nt)
        elif rform == 5:
            up, down = rng.randint(1, 4, size=nt), rng.randint(0, 3, size=nt)  # integer arrays
        elif rform == 6:
            up, down = np.float64(rng.uniform(0.2, 1.0)), -0.5  # numpy scalar / negative
        else:
            up, down = rng.uniform(0.2, 1.0, size=nt), np.ones(nt)
        if k % 101 == 0:
            up, down = rng.uniform(0.2, 1.0, size=nt), 0.7  # array / scalar mix -> raises
        if k % 103 == 0:
            up, down = 0.7, rng.uniform(0.2, 1.0, size=nt)  # scalar / array mix
        if k % 107 == 0:
            up, down = [0.5] * nt, [0.5] * nt  # lists -> raises
        if k % 109 == 0:
            up, down = rng.uniform(0.2, 1.0, size=nt + 1), rng.uniform(0.2, 1.0, size=nt + 1)
        sform = (k // 7) % 7
        stt = [0.0, 0.0, float(rng.randint(0, 10)) * dt, float(rng.uniform(0, 7 * dt)), 2 * dt,
               float(rng.uniform(0, (n + 3) * dt)), 0][sform]
        for combo in range(8):
            nodal, trim, start = bool(combo & 1), bool(combo & 2), bool(combo & 4)
            # not every combination for every configuration and function (time budget), but
            # each configuration sees all 8 combos spread over the three functions
            for fi, (ftag, fn) in enumerate(fns3):
                if (combo + fi + k) % 3 != 0 and k % 10 != 0:
                    continue
                style = (k + combo + fi) % 4
                if style == 0:
                    args = (asig, t_arg)
                    kwargs = dict(nodal=nodal, up_red=up, down_red=down, stt=stt, trim=trim, start=start)
                elif style == 1:
                    args = (asig, t_arg, nodal, up, down, stt, trim, start)
                    kwargs = {}
                elif style == 2:
                    args = (asig, t_arg, nodal, up, down)
                    kwargs = dict(trim=trim, start=start, stt=stt)
                else:
                    args = (asig, t_arg)
                    kwargs = dict(start=start, trim=trim, stt=stt, down_red=down, up_red=up, nodal=nodal)
                recs.append(_run('%s%d_%d' % (ftag, k, combo), fn, args, kwargs, sigs=(asig,),
                                 alias_with=(asig.values,)))
    # defaults of every keyword
    for k in range(120):
        n = int(rng.choice([1, 4, 30]))
        dt = dts[k % len(dts)]
        asig = eqsig.AccSignal(rng.standard_normal(n), dt)
        tt = rng.uniform(0, 5 * dt, size=int(rng.choice([1, 2, 3])))
        for ftag, fn in fns3:
            recs.append(_run('%sdef%d' % (ftag, k), fn, (asig, tt), {}, sigs=(asig,)))
            recs.append(_run('%sdefs%d' % (ftag, k), fn, (asig, float(tt[0])), {}, sigs=(asig,)))
            recs.append(_run('%sdefa%d' % (ftag, k), fn, (asig, tt), {'nodal': False}, sigs=(asig,)))
    # failures / odd arguments
    asig = eqsig.AccSignal(np.sin(np.linspace(0, 10, 40)), 0.1)
    ebad = [
        ((asig, np.array([])), {}),
        ((asig, []), {}),
        ((asig, np.array(0.1)), {}),  # 0-d array has __len__
        ((asig, np.array([[0.1, 0.2]])), {}),
        ((asig, np.array([[0.1, 0.2]])), {'trim': True}),
        ((asig, 'abc'), {}),
        ((asig, None), {}),
        ((asig, np.array([-0.1, 0.2])), {}),  # negative travel time
        ((asig, np.array([-0.1, 0.2])), {'trim': True}),
        ((asig, np.array([-0.1, 0.2])), {'start': True}),
        ((asig, np.array([-0.3, -0.2])), {}),
        ((asig, np.array([-0.3, -0.2])), {'start': True, 'trim': True}),
        ((asig, np.array([0.1, 0.2])), {'up_red': 1 + 1j, 'down_red': 1.}),
        ((asig, np.array([0.1, 0.2])), {'up_red': 1., 'down_red': 1 + 1j}),
        ((asig, np.array([0.1, 0.2])), {'up_red': np.array([1., 2.]), 'down_red': np.array([1 + 1j, 2])}),
        ((asig, np.array([0.1, 0.2])), {'up_red': None}),
        ((asig, np.array([0.1, 0.2])), {'down_red': None}),
        ((asig, np.array([0.1, 0.2])), {'up_red': 'ab', 'down_red': 'ab'}),
        ((asig, np.array([0.1, 0.2])), {'up_red': np.ones((2, 1)), 'down_red': np.ones((2, 1))}),
        ((asig, np.array([0.1, 0.2])), {'up_red': np.ones((2, 2)), 'down_red': np.ones((2, 2))}),
        ((asig, np.array([0.1, 0.2])), {'stt': -0.3, 'start': True}),
        ((asig, np.array([0.1, 0.2])), {'stt': -0.3, 'start': True, 'trim': True}),
        ((asig, np.array([0.1, 0.2])), {'stt': 50.0, 'start': True, 'trim': True}),
        ((asig, np.array([0.1, 0.2])), {'stt': 50.0, 'start': True}),
        ((asig, np.array([0.1, 0.2])), {'stt': np.nan, 'start': True}),
        ((asig, np.array([0.1, np.nan])), {}),
        ((asig, np.array([0.1, np.inf])), {}),
        ((asig, np.array([0.1, 0.2])), {'nodal': 0}),
        ((asig, np.array([0.1, 0.2])), {'nodal': 'yes', 'trim': 1, 'start': 1}),
        ((asig, np.array([0.1, 0.2])), {'nodal': None, 'trim': None, 'start': None}),
        ((asig, np.array([0.1, 0.2])), {'nodal': np.array([True, False])}),
        ((asig, np.array([0.1, 0.2])), {'trim': np.array([True, False])}),
        ((asig, np.array([0.1, 0.2])), {'start': np.array([True, False])}),
        ((None, np.array([0.1, 0.2])), {}),
        ((np.arange(5.), np.array([0.1, 0.2])), {}),
        ((eqsig.Signal(np.arange(5.), 0.1), np.array([0.1, 0.2])), {'trim': True}),
        ((eqsig.AccSignal(np.arange(6.).reshape(2, 3), 0.1), np.array([0.1, 0.2])), {}),
        ((eqsig.AccSignal([], 0.1), np.array([0.1, 0.2])), {}),
        ((eqsig.AccSignal([], 0.1), np.array([0.0])), {}),
        ((eqsig.AccSignal([1.0], 0.0), np.array([0.1])), {}),  # dt = 0
        ((eqsig.AccSignal([1.0, 2.0], 1), np.array([1, 2])), {'trim': True}),  # integer dt
        ((eqsig.AccSignal([1, 2, 3], 1), 1), {'start': True, 'stt': 2}),
        ((eqsig.AccSignal([1, 2, 3], 1), np.array([0, 1, 2])), {'start': True, 'stt': 1, 'up_red': 2, 'down_red': 3}),
    ]
    for i, (a, kw) in enumerate(ebad):
        for ftag, fn in fns3:
            sg = tuple(x for x in a[:1] if hasattr(x, 'npts'))
            recs.append(_run('%sbad%d' % (ftag, i), fn, a, kw, sigs=sg))

    # ---------------------------------------------- F. histories of operations on one object
    for k in range(150):
        n = int(rng.choice([3, 10, 40]))
        dt = dts[k % len(dts)]
        asig = eqsig.AccSignal(rand_values(n, ['float', 'int'][k % 2]), dt)
        tt = rng.randint(0, 8, size=3) * dt * 0.5
        red_u = rng.uniform(0.3, 1, size=3)
        red_d = rng.uniform(0.3, 1, size=3)
        for step in range(6):
            op = int(rng.randint(0, 7))
            trim, start, nodal = bool(rng.randint(2)), bool(rng.randint(2)), bool(rng.randint(2))
            stt = float(rng.randint(0, 5)) * dt
            tag = 'F%d_%d_%d' % (k, step, op)
            if op == 0:
                recs.append(_run(tag, surface.calc_surface_energy, (asig, tt),
                                 dict(nodal=nodal, up_red=red_u, down_red=red_d, stt=stt, trim=trim, start=start),
                                 sigs=(asig,)))
            elif op == 1:
                recs.append(_run(tag, surface.calc_cum_abs_surface_energy, (asig, tt),
                                 dict(nodal=nodal, stt=stt, trim=trim, start=start), sigs=(asig,)))
            elif op == 2:
                recs.append(_run(tag, surface.get_time_shift_motions, (asig, tt),
                                 dict(nodal=nodal, up_red=red_u, down_red=red_d, stt=stt, trim=trim, start=start),
                                 sigs=(asig,)))
            elif op == 3:
                recs.append(_run(tag, time_shift.join_sig_w_time_shift, (asig, tt),
                                 dict(jtype=['add', 'sub'][step % 2]), sigs=(asig,)))
            elif op == 4:
                asig.reset_values(rand_values(int(rng.choice([2, 9, 31])), 'float'))
                recs.append({'tag': tag, 'out': ('ok', None), 'alias': None, 'warn': [], 'args': [],
                             'kwargs': [], 'sigs': [_sig_state(asig)]})
            elif op == 5:
                # feed the result of one public function into another
                try:
                    r = surface.get_time_shift_motions(asig, tt, nodal=nodal, trim=True)
                    sub = eqsig.AccSignal(r[1], dt)
                except Exception as e:  # noqa  (recorded: the other version must fail alike)
                    recs.append({'tag': tag + 'pre', 'out': ('exc', type(e).__name__, str(e)), 'alias': None,
                                 'warn': [], 'args': [], 'kwargs': [], 'sigs': [_sig_state(asig)]})
                    continue
                recs.append(_run(tag, surface.calc_cum_abs_surface_energy, (sub, float(tt[2])),
                                 dict(trim=trim, start=start, stt=stt), sigs=(asig, sub)))
            else:
                sh = np.array(tt / dt, dtype=int)
                recs.append(_run(tag, time_shift.put_array_in_2d_array, (asig.values, sh),
                                 dict(clip=['none', 'start', 'end', 'both'][step % 4]), sigs=(asig,),
                                 alias_with=(asig.values,)))
            # cached derived quantities of the record must not be disturbed either
            recs.append({'tag': tag + 'vel', 'out': ('ok', _result(asig.velocity)), 'alias': None, 'warn': [],
                         'args': [], 'kwargs': [], 'sigs': [_sig_state(asig)]})

    with open(outfile, 'wb') as f:
        pickle.dump(recs, f, protocol=pickle.HIGHEST_PROTOCOL)


# --------------------------------------------------------------------------------------------
# comparison (parent)
# --------------------------------------------------------------------------------------------

class Cmp(object):
    def __init__(self):
        self.n_tol = 0

    def same(self, a, b):
        import numpy as np
        if type(a) is not type(b):
            return False
        if isinstance(a, np.ndarray):
            if a.dtype != b.dtype or a.shape != b.shape:
                return False
            if a.dtype.kind in 'OSU':
                return bool(np.all(a == b))
            if a.tobytes() == b.tobytes():
                return True
            if np.array_equal(a, b, equal_nan=(a.dtype.kind in 'fc')):
                return True  # differs in the sign of a zero or of a NaN only
            if a.dtype.kind in 'fc':
                with np.errstate(all='ignore'):
                    fin = np.isfinite(a) & np.isfinite(b)
                    if not np.array_equal(np.isnan(a), np.isnan(b)):
                        return False
                    if not np.array_equal(a[~fin & ~np.isnan(a)], b[~fin & ~np.isnan(b)]):
                        return False
                    ok = np.abs(a[fin] - b[fin]) <= RTOL * np.maximum(np.abs(a[fin]), np.abs(b[fin]))
                if bool(np.all(ok)):
                    self.n_tol += 1
                    return True
            return False
        if isinstance(a, (list, tuple)):
            return len(a) == len(b) and all(self.same(x, y) for x, y in zip(a, b))
        if isinstance(a, dict):
            return sorted(a) == sorted(b) and all(self.same(a[k], b[k]) for k in a)
        if isinstance(a, float):
            return a == b or (a != a and b != b)
        return a == b


def main():
    import numpy as np  # noqa
    cwd = os.getcwd()
    here = os.path.abspath(__file__)
    tmp = tempfile.mkdtemp(prefix='c19_equiv_')
    orig_root = os.path.join(tmp, 'orig')
    os.makedirs(orig_root)
    blob = subprocess.check_output(['git', 'archive', 'HEAD', 'eqsig'], cwd=cwd)
    with tarfile.open(fileobj=io.BytesIO(blob)) as tf:
        tf.extractall(orig_root)
    assert os.path.isfile(os.path.join(orig_root, 'eqsig', 'surface.py'))

    outs = {}
    procs = []
    for name, root in (('orig', orig_root), ('edit', cwd)):
        env = dict(os.environ)
        env['PYTHONPATH'] = root
        env['PYTHONDONTWRITEBYTECODE'] = '1'
        env['PYTHONHASHSEED'] = '0'
        outfile = os.path.join(tmp, name + '.pkl')
        outs[name] = outfile
        procs.append((name, subprocess.Popen([sys.executable, here, '--worker', root, outfile], env=env, cwd=tmp)))
    for name, p in procs:
        rc = p.wait()
        if rc != 0:
            print('worker %s failed with status %d' % (name, rc))
            return 2
    with open(outs['orig'], 'rb') as f:
        ro = pickle.load(f)
    with open(outs['edit'], 'rb') as f:
        re_ = pickle.load(f)

    cmp_ = Cmp()
    bad = 0
    if len(ro) != len(re_):
        print('different number of records: %d vs %d' % (len(ro), len(re_)))
        bad += 1
    n_exc = 0
    for a, b in zip(ro, re_):
        if a['out'][0] == 'exc':
            n_exc += 1
        for key in ('tag', 'out', 'alias', 'warn', 'args', 'kwargs', 'sigs'):
            if not cmp_.same(a[key], b[key]):
                bad += 1
                if bad <= int(os.environ.get('EQUIV_SHOW', '15')):
                    print('MISMATCH in %s of case %s' % (key, a['tag']))
                    print('   original:', repr(a[key])[:600])
                    print('   edited  :', repr(b[key])[:600])
                break
    print('%d cases compared (%d of them raise in the original), %d mismatches, %d arrays equal only to %g'
          % (len(ro), n_exc, bad, cmp_.n_tol, RTOL))
    import shutil
    shutil.rmtree(tmp, ignore_errors=True)
    return 0 if bad == 0 else 1


if __name__ == '__main__':
    if len(sys.argv) > 1 and sys.argv[1] == '--worker':
        worker(sys.argv[2], sys.argv[3])
        sys.exit(0)
    sys.exit(main())

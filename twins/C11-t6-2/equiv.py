#!/usr/bin/env python
"""
Equivalence program for twin 2 (property C11, eqsig/fns/peaks_and_crossings.py).

Run with the edit applied and cwd = the worktree:

    cd <worktree> && PYTHONPATH=<worktree> python out/equiv2.py

What it does
------------
1. obtains the ORIGINAL package source with `git archive HEAD eqsig` into a temporary directory;
2. loads original and edited `eqsig/fns/peaks_and_crossings.py` side by side (importlib, two module names)
   and compares every public function of the module on many inputs:
   - exhaustively all sequences over a 5-level alphabet up to length 6, and every rise/fall/flat pattern
     (3^(n-1) of them) up to length 9 from a zero and from a non-zero start,
   - random real valued, plateau rich, integer typed, list / tuple typed, tiny / huge / denormal / signed-zero /
     inf / nan series up to length 5000,
   - all option values (ptype, opt, start; valid and invalid, positional and keyword),
   - direct calls of the lower level public helpers, and of the functions built on top of them,
   - short histories (outputs fed back as inputs, returned arrays mutated in place, arguments checked for mutation),
   - exceptions (type and message) and warnings (category and message);
3. imports the two complete packages in separate subprocesses and compares a digest of results obtained through
   the package level API (eqsig.fns star exports, eqsig.AccSignal based wrappers, eqsig.im users of the peaks).

Deterministic; exit status 0 iff everything matches.
"""
import hashlib
import importlib.util
import io
import itertools
import os
import subprocess
import sys
import tarfile
import tempfile
import time
import warnings

import numpy as np

TWIN = 2
REL = os.path.join('eqsig', 'fns', 'peaks_and_crossings.py')
MAX_REPORT = 15


# --------------------------------------------------------------------------------------------------------------------
# canonical forms and calling
# --------------------------------------------------------------------------------------------------------------------
def canon(obj):
    """A hashable / comparable description of a result that is exact (bit-for-bit for numeric arrays)"""
    if isinstance(obj, np.ndarray):
        if obj.dtype == object or obj.dtype.char in 'gG':  # (long doubles carry padding bytes)
            return ('nd', type(obj).__name__, obj.dtype.str, obj.shape, repr(obj.tolist()))
        return ('nd', type(obj).__name__, obj.dtype.str, obj.shape, obj.flags.writeable, obj.strides,
                np.ascontiguousarray(obj).tobytes())
    if isinstance(obj, np.generic):
        return ('npscalar', type(obj).__name__, repr(obj))
    if isinstance(obj, (tuple, list)):
        return (type(obj).__name__,) + tuple(canon(o) for o in obj)
    if isinstance(obj, float):
        return ('float', np.float64(obj).tobytes())
    return (type(obj).__name__, repr(obj))


def copy_arg(a):
    if isinstance(a, np.ndarray):
        if a.ndim == 1 and len(a) and a.dtype != object and a.strides[0] % a.itemsize == 0 \
                and a.strides[0] // a.itemsize not in (0, 1) and type(a) is np.ndarray:
            step = a.strides[0] // a.itemsize  # keep the memory layout of strided / reversed views
            view = np.empty(len(a) * abs(step), dtype=a.dtype)[::step]
            view[...] = a
            return view
        return a.copy()
    if isinstance(a, list):
        return [copy_arg(x) for x in a]
    if isinstance(a, tuple):
        return tuple(copy_arg(x) for x in a)
    if isinstance(a, SigLike):
        return SigLike(copy_arg(a.values))
    return a


class SigLike(object):
    """Minimal stand-in for an object with a `values` attribute (as eqsig.Signal has)"""
    def __init__(self, values):
        self.values = values

    def __repr__(self):
        return 'SigLike(%r)' % (self.values,)


def canon_arg(a):
    if isinstance(a, SigLike):
        return ('SigLike', canon(a.values))
    return canon(a)


def call(mod, fname, args, kwargs=None):
    """Calls mod.fname on private copies of the arguments. Returns (outcome, warnings, arguments afterwards)"""
    kwargs = kwargs or {}
    a = [copy_arg(x) for x in args]
    k = dict((key, copy_arg(v)) for key, v in kwargs.items())
    before = tuple(canon_arg(x) for x in a) + tuple((key, canon_arg(k[key])) for key in sorted(k))
    del WLOG[:]
    try:
        res = getattr(mod, fname)(*a, **k)
        out = ('ok', canon(res))
    except Exception as e:  # noqa
        out = ('exc', type(e).__name__, str(e))
    wset = tuple(sorted(set(WLOG)))
    after = tuple(canon_arg(x) for x in a) + tuple((key, canon_arg(k[key])) for key in sorted(k))
    return out, wset, after, before


WLOG = []  # warnings raised by the call in progress (category name, message)


def _record_warning(message, category, filename, lineno, file=None, line=None):
    WLOG.append((category.__name__, str(message)))


def install_warning_recorder():
    warnings.simplefilter('always')
    warnings.showwarning = _record_warning


class Tally(object):
    def __init__(self):
        self.n = 0
        self.bad = 0
        self.n_exc = 0
        self.msgs = []

    def merge(self, other):
        self.n += other.n
        self.bad += other.bad
        self.n_exc += other.n_exc
        self.msgs += other.msgs

    def compare(self, orig, new, fname, args, kwargs=None):
        self.n += 1
        ro = call(orig, fname, args, kwargs)
        rn = call(new, fname, args, kwargs)
        if ro[0][0] == 'exc':
            self.n_exc += 1
        if ro != rn:
            self.fail('%s%r %r' % (fname, tuple(args), kwargs), ro, rn)
        elif ro[2] != ro[3] and fname not in MUTATORS:
            # both versions agree, but neither may alter its argument
            self.fail('%s%r mutated its argument' % (fname, tuple(args)), ro[3], ro[2])
        return ro

    def fail(self, what, a, b):
        self.bad += 1
        if len(self.msgs) < MAX_REPORT:
            self.msgs.append('MISMATCH %s\n   original: %s\n   edited  : %s\n' % (what[:400], str(a)[:600],
                                                                                  str(b)[:600]))


MUTATORS = ()

PEAK_FNS = ('determine_indices_of_peaks_for_cleaned', 'determine_indices_of_peaks_for_cleaned_array',
            'clean_out_non_changing')
SERIES_FNS = ('determine_peak_only_delta_series_4_cleaned_data', '_determine_peak_only_series_4_cleaned_data',
              'determine_peaks_only_delta_series', 'determine_pseudo_cyclic_peak_only_series',
              'get_switched_peak_indices', 'get_zero_crossings_array_indices')


def core_battery(t, orig, new, v):
    """The observation points of the property + the anchored mechanism functions"""
    for ptype in ('all', 'max', 'min'):
        t.compare(orig, new, 'get_peak_array_indices', (v, ptype))
    t.compare(orig, new, 'get_n_cyc_array', (v,))
    t.compare(orig, new, 'get_n_cyc_array', (v,), dict(opt='switched', start='peak'))
    t.compare(orig, new, 'clean_out_non_changing', (v,))
    t.compare(orig, new, 'determine_indices_of_peaks_for_cleaned_array', (v,))


def full_battery(t, orig, new, v):
    core_battery(t, orig, new, v)
    for ptype in ('other', None, 'MAX', '', 1, 'Min', b'min'):
        t.compare(orig, new, 'get_peak_array_indices', (v, ptype))
    t.compare(orig, new, 'get_peak_array_indices', (v,))
    t.compare(orig, new, 'get_peak_array_indices', (v,), dict(ptype='min'))
    t.compare(orig, new, 'get_peak_array_indices', (), dict(values=v, ptype='max'))
    for opt in ('all', 'switched', 'bad', None, 0):
        for start in ('origin', 'peak', 'bad', None, 1):
            t.compare(orig, new, 'get_n_cyc_array', (v, opt, start))
    t.compare(orig, new, 'get_n_cyc_array', (v,), dict(start='peak'))
    t.compare(orig, new, 'get_n_cyc_array', (), dict(values=v, start='peak', opt='switched'))
    for fname in PEAK_FNS + SERIES_FNS:
        t.compare(orig, new, fname, (v,))
    t.compare(orig, new, 'get_peak_indices', (SigLike(v),))
    t.compare(orig, new, 'get_switched_peak_indices', (SigLike(v),))
    t.compare(orig, new, 'get_zero_crossings_indices', (SigLike(v),))
    for tol in (0.0, 0.01, 0.6):
        t.compare(orig, new, 'get_switched_peak_array_indices', (v, tol))
    for min_step in (0, 1):
        t.compare(orig, new, 'get_zero_and_peak_array_indices', (v, None, min_step))


def history(t, orig, new, v):
    """Sequences of public operations; outputs are fed back in, returned arrays are written to"""
    outs = []
    for mod in (orig, new):
        log = []
        del WLOG[:]
        if True:
            try:
                v0 = copy_arg(v)
                arr = np.array(v0, dtype=float)
                cleaned, inds = mod.clean_out_non_changing(arr)
                log.append(canon((cleaned, inds)))
                log.append(('alias', bool(np.shares_memory(cleaned, arr)), bool(np.shares_memory(inds, arr))))
                pk = mod.determine_indices_of_peaks_for_cleaned_array(cleaned)
                log.append(canon(pk))
                cleaned *= -1.0  # write into a returned array
                inds[...] = 0
                pk[...] = 0
                log.append(canon(arr))  # the argument must be unaffected
                # again, same results expected (no hidden state)
                cleaned2, inds2 = mod.clean_out_non_changing(arr)
                log.append(canon((cleaned2, inds2)))
                # cleaning a cleaned series
                cleaned3, inds3 = mod.clean_out_non_changing(cleaned2)
                log.append(canon((cleaned3, inds3)))
                for ptype in ('min', 'max', 'all'):
                    p = mod.get_peak_array_indices(v0, ptype)
                    log.append(canon(p))
                    sub = np.take(arr, p)
                    log.append(canon(mod.get_peak_array_indices(sub, ptype)))  # peaks of the peaks
                    p[...] = -7  # writing to the result must not change later results
                    log.append(canon(mod.get_peak_array_indices(v0, ptype)))
                    log.append(canon(mod.get_peak_array_indices(v0, 'all')))
                nc = mod.get_n_cyc_array(v0)
                log.append(canon(nc))
                nc2 = mod.get_n_cyc_array(nc, start='peak')  # a non-decreasing series
                log.append(canon(nc2))
                nc3 = mod.get_n_cyc_array(-nc, opt='switched')
                log.append(canon(nc3))
                nc[...] = 3.0
                log.append(canon(mod.get_n_cyc_array(v0)))
                log.append(canon(mod.get_n_cyc_array(arr[::-1], 'switched', 'peak')))  # negative stride view
                log.append(canon(mod.get_peak_array_indices(arr[::2], 'max')))  # strided view
                log.append(canon(mod.get_peak_array_indices(arr[::-2], 'min')))
                log.append(canon_arg(v0))
            except Exception as e:  # noqa
                log.append(('exc', type(e).__name__, str(e)))
        log.append(tuple(sorted(set(WLOG))))
        outs.append(log)
    t.n += 1
    if outs[0] != outs[1]:
        for i, (a, b) in enumerate(zip(outs[0], outs[1])):
            if a != b:
                t.fail('history step %d for %r' % (i, v), a, b)
                break
        else:
            t.fail('history length for %r' % (v,), len(outs[0]), len(outs[1]))


# --------------------------------------------------------------------------------------------------------------------
# inputs
# --------------------------------------------------------------------------------------------------------------------
def exhaustive_series():
    levels = (-2.0, -0.5, 0.0, 1.0, 3.0)
    for n in range(1, 7):
        for combo in itertools.product(levels, repeat=n):
            yield np.array(combo)
    # every pattern of rise / fall / flat, from zero and from a non-zero start, unequal step sizes
    for n in range(2, 10):
        for k, steps in enumerate(itertools.product((-1.0, 0.0, 1.0), repeat=n - 1)):
            w = np.array(steps) * (1.0 + 0.25 * (np.arange(n - 1) % 3))
            for first in ((0.0, 2.5) if n < 9 else (0.0,)):
                yield np.concatenate(([first], first + np.cumsum(w)))


def special_series():
    inf = np.inf
    nan = np.nan
    out = [
        [], [0], [0.0], [5], [-3.2], [0, 0], [1, 1], [0, 1], [1, 0], [0, -1], [-1, 0], [2, 2, 2, 2], [0, 0, 0, 0, 0],
        [0, 0, 1], [0, 0, -1], [1, 1, 2], [1, 1, 0], [1, 1, 2, 2, 1, 1], [0, 0, 1, 1, 0, 0], [3, 3, 1, 1, 4, 4, 4],
        [0, 2, 1, 2, -1, 1, 1, 0.3, -1, 0.2, 1, 0.2], [0, 1, 0, -1, 0, 1, 0, -1, 0, 1, 0],
        [0, 2, 1, 2, 0, 1, 0, -1, 0, 1, 0], [0, 2, 1, 2, -1, 1, 0, 0, 1, 0.3, 0, -1, 0.2, 1, 0.2],
        # underflowing products of successive differences
        [0, 1e-200, 0], [1e-200, 0, 1e-200], [0, 1e-170, 0, 1e-170, 0], [0, 1e-160, 0, 1e-162, -1e-163, 1e-165],
        [0, 5e-324, 0, 5e-324], [5e-324, 1e-323, 5e-324, 0, 5e-324], [0, 1e-162, 2e-162, 1e-162, 3e-162, 0],
        [1, 1 + 2.3e-16, 1, 1 - 1.2e-16, 1], [0, 1e-155, 0, -1e-154, 1e-156, 0],
        # overflowing differences / products
        [0, 1e308, -1e308, 1e308], [1e308, -1e308, 1e308, -1e308], [0, 1e200, 0, 1e200, -1e200, 1e300],
        [-1.7e308, 1.7e308, 1.7e308, -1.7e308, 0],
        # signed zeros
        [0.0, -0.0, 0.0], [-0.0, 1, -0.0, -1, 0.0], [-0.0, -0.0], [-0.0], [1, -0.0, 0.0, -1, -0.0, 0.0, 1],
        # non finite entries
        [inf], [nan], [-inf, inf], [inf, inf, 1, inf], [nan, 1, 2, 1], [1, nan, 2, 1, 3], [1, 2, nan], [0, inf, 0, -inf, 0],
        [nan, nan, nan], [inf, inf], [0, 1, inf, inf, 2, 1, 3], [1, 2, 1, nan, nan, 0, 1, 0], [-inf, 0, 1, 0, inf, nan],
        [0, 1, 2, inf], [inf, 1, 0, 1], [1, inf, -inf, inf, 1],
    ]
    res = []
    for s in out:
        res.append(list(s))
        res.append(tuple(s))
        res.append(np.array(s, dtype=float))
    # integer typed, other dtypes, odd containers
    base = [[0, 1, 0], [3, 3, 1, 1, 4, 4, 4], [1, 2, 3, 3, 2, 5, 5, 0], [0, 0, 2, -1, -1, 3], [7], [0], [5, 5, 5],
            [100, -100, 100, 100, 0], [0, 1, 1, 0, 0, -1, -1, 0, 0]]
    for s in base:
        for dt in (np.int64, np.int32, np.int16, np.int8, np.float32, np.float16, np.longdouble, np.uint8, np.uint32,
                   np.complex128, object):
            try:
                res.append(np.array(s, dtype=dt))
            except (OverflowError, ValueError):
                res.append(np.abs(np.array(s)).astype(dt))
        res.append(np.array(s) > 1)  # boolean
        res.append(np.array(s, dtype=float)[::-1])  # a view with a negative stride
        res.append(np.repeat(np.array(s, dtype=float), 2)[::2])  # a non-contiguous view
        res.append(range(len(s)))
        res.append([float(x) for x in s])
        res.append([x if i % 2 else float(x) for i, x in enumerate(s)])  # mixed int / float list
        res.append(np.array(s)[:, np.newaxis])  # column
        res.append(np.array([s, s]))  # 2-D
        res.append(np.ma.masked_array(np.array(s, dtype=float)))
    res += [np.array(3.0), 3.0, 2, None, 'abc', ['a', 'b'], [[1, 2], [3]], np.zeros((0, 3)), np.zeros((2, 0)),
            [True, False, True], [None, 1], (x for x in [1, 2, 1]), {1: 2}, np.array([], dtype=int),
            np.array([], dtype=float), [1, [2, 3]]]
    return res


def random_series(rng, n_small, n_mid, n_big):
    kinds = ('gauss', 'walk_round', 'repeat', 'int', 'int_small', 'lead_plateau', 'trail_plateau', 'both_plateau',
             'constant', 'monotone_up', 'monotone_down', 'saw', 'tiny', 'huge', 'denormal', 'signed_zero', 'nonfinite',
             'sine', 'list', 'tuple', 'int_list', 'offset', 'two_level', 'float32', 'near_equal')
    sizes = ([int(x) for x in rng.randint(0, 41, n_small)] + [int(x) for x in rng.randint(41, 600, n_mid)] +
             [int(x) for x in rng.randint(600, 5001, n_big)] + [5000, 4999, 1, 2, 3])
    for j, n in enumerate(sizes):
        kind = kinds[j % len(kinds)]
        yield kind, make_series(rng, kind, n)


def make_series(rng, kind, n):
    if kind == 'gauss':
        return rng.randn(n)
    if kind == 'walk_round':
        return np.round(np.cumsum(rng.randn(n)) * 0.7)
    if kind == 'repeat':
        m = max(1, n // 3)
        v = np.repeat(rng.randint(-3, 4, m).astype(float) * 0.5, rng.randint(1, 5, m))
        return v[:n]
    if kind == 'int':
        return rng.randint(-1000, 1000, n)
    if kind == 'int_small':
        return rng.randint(-1, 2, n).astype([np.int64, np.int32, np.int16, np.int8][n % 4])
    if kind == 'lead_plateau':
        v = rng.randint(-2, 3, n).astype(float)
        v[:min(n, 1 + n // 4)] = [0.0, 1.5, -1.5][n % 3]
        return v
    if kind == 'trail_plateau':
        v = rng.randn(n)
        v[n - min(n, 1 + n // 4):] = [0.0, 0.5][n % 2]
        return v
    if kind == 'both_plateau':
        v = rng.randint(-2, 3, n).astype(float)
        q = min(n, 1 + n // 5)
        v[:q] = v[0] if n else 0
        v[n - q:] = 1.0
        return v
    if kind == 'constant':
        return np.full(n, [0.0, 1.0, -2.5, 1e-300][n % 4])
    if kind == 'monotone_up':
        return np.cumsum(rng.randint(0, 2, n)).astype(float) - [0, 3][n % 2]
    if kind == 'monotone_down':
        return -np.cumsum(np.abs(rng.randn(n))) + 1.0
    if kind == 'saw':
        return (np.arange(n) % (2 + n % 5)).astype(float) - 1.0
    if kind == 'tiny':
        return rng.randn(n) * 10.0 ** rng.randint(-220, -140, n)
    if kind == 'huge':
        return rng.randn(n) * 10.0 ** rng.randint(290, 308, n) * 0.9
    if kind == 'denormal':
        return rng.randint(-3, 4, n) * 5e-324
    if kind == 'signed_zero':
        v = rng.randint(-1, 2, n).astype(float)
        v[v == 0] = np.where(rng.rand(int(np.sum(v == 0))) < 0.5, -0.0, 0.0)
        return v
    if kind == 'nonfinite':
        v = rng.randint(-2, 3, n).astype(float)
        if n:
            idx = rng.randint(0, n, max(1, n // 10))
            v[idx] = rng.choice([np.inf, -np.inf, np.nan], len(idx))
        return v
    if kind == 'sine':
        return np.sin(np.arange(n) * (0.1 + 0.9 * rng.rand())) * (1 + rng.rand())
    if kind == 'list':
        return [float(x) for x in np.round(rng.randn(n), 1)]
    if kind == 'tuple':
        return tuple(float(x) for x in np.round(rng.randn(n)))
    if kind == 'int_list':
        return [int(x) for x in rng.randint(-2, 3, n)]
    if kind == 'offset':
        return 1000.0 + np.round(rng.randn(n), 1)
    if kind == 'two_level':
        return rng.randint(0, 2, n).astype(float)
    if kind == 'float32':
        return np.round(rng.randn(n), 1).astype(np.float32)
    if kind == 'near_equal':
        return 1.0 + rng.randint(-2, 3, n) * 1.1102230246251565e-16
    raise ValueError(kind)


# --------------------------------------------------------------------------------------------------------------------
# package level worker (run in a subprocess for each of the two trees)
# --------------------------------------------------------------------------------------------------------------------
def worker():
    warnings.simplefilter('ignore')
    import eqsig
    import eqsig.fns
    import eqsig.fns.peaks_and_crossings as pc
    from eqsig import im
    if not os.path.realpath(eqsig.__file__).startswith(os.path.realpath(os.getcwd()) + os.sep):
        raise RuntimeError('worker imported eqsig from %s, expected below %s' % (eqsig.__file__, os.getcwd()))
    h = hashlib.sha256()
    names = sorted(n for n in dir(pc) if not n.startswith('_'))
    star = sorted(n for n in dir(eqsig.fns) if not n.startswith('_'))
    h.update(repr(names).encode())
    h.update(repr(star).encode())
    for n in names:
        obj = getattr(pc, n)
        if callable(obj) and hasattr(obj, '__code__'):
            import inspect
            h.update((n + str(inspect.signature(obj))).encode())
            h.update(repr(getattr(eqsig.fns, n) is obj).encode())
    rng = np.random.RandomState(77)
    n_done = 0
    for j in range(260):
        n = int(rng.randint(2, 400))
        kind = ('gauss', 'walk_round', 'repeat', 'lead_plateau', 'sine', 'int', 'trail_plateau')[j % 7]
        v = np.asarray(make_series(rng, kind, n), dtype=float)
        v2 = np.asarray(make_series(rng, 'gauss', n), dtype=float)
        dt = 0.01
        items = []

        def rec(f):
            try:
                items.append(canon(f()))
            except Exception as e:  # noqa
                items.append(('exc', type(e).__name__, str(e)))
        asig = eqsig.AccSignal(v, dt)
        rec(lambda: eqsig.fns.get_peak_array_indices(v, 'max'))
        rec(lambda: eqsig.fns.get_peak_array_indices(v, 'min'))
        rec(lambda: eqsig.fns.get_peak_indices(asig))
        rec(lambda: eqsig.fns.get_switched_peak_indices(asig))
        rec(lambda: eqsig.fns.get_zero_crossings_indices(asig))
        rec(lambda: eqsig.fns.get_n_cyc_array(asig.values, 'switched', 'peak'))
        rec(lambda: eqsig.fns.get_n_cyc_array(asig.values))
        rec(lambda: eqsig.fns.get_zero_and_peak_array_indices(v))
        rec(lambda: im.calc_cyc_amp_array_w_power_law(v, n_cyc=15, b=0.34))
        rec(lambda: im.calc_cyc_amp_gm_arrays_w_power_law(v, v2, n_cyc=15, b=0.34))
        rec(lambda: im.calc_cyc_amp_combined_arrays_w_power_law(v, v2, n_cyc=15, b=0.34))
        rec(lambda: im.calc_n_cyc_array_w_power_law(v, a_ref=0.65 * max(abs(v)), b=0.3, cut_off=0.01))
        # a short history on one signal object: modify it through its public API and look again
        rec(lambda: (asig.add_constant(0.3), eqsig.fns.get_peak_indices(asig))[1])
        rec(lambda: (asig.reset_values(np.round(asig.values, 1)), eqsig.fns.get_switched_peak_indices(asig))[1])
        rec(lambda: asig.values)
        h.update(repr(items).encode())
        n_done += len(items)
    sys.stdout.write('%s %d\n' % (h.hexdigest(), n_done))


# --------------------------------------------------------------------------------------------------------------------
ORIG = NEW = None
N_CHUNKS = 6


def run_job(job):
    """One share (series number % n_chunks == i) of one stage of the side by side comparison"""
    stage, i, n_chunks = job
    orig, new = ORIG, NEW
    t = Tally()
    install_warning_recorder()
    n_series = 0
    if stage == 'exhaustive':
        for j, v in enumerate(exhaustive_series()):
            if j % n_chunks == i:
                core_battery(t, orig, new, v)
                n_series += 1
    elif stage == 'special':
        for j, v in enumerate(special_series()):
            if j % n_chunks != i:
                continue
            n_series += 1
            if hasattr(v, '__next__'):  # a generator can be consumed only once: give each side its own
                lst = list(v)
                for fname in ('get_peak_array_indices', 'get_n_cyc_array', 'clean_out_non_changing',
                              'determine_indices_of_peaks_for_cleaned_array'):
                    t.n += 1
                    ro = call(orig, fname, ((x for x in lst),))[:2]
                    rn = call(new, fname, ((x for x in lst),))[:2]
                    if ro != rn:
                        t.fail('%s(generator)' % fname, ro, rn)
                continue
            full_battery(t, orig, new, v)
            history(t, orig, new, v)
    elif stage == 'random':
        rng = np.random.RandomState(20260928 + TWIN)
        for j, (kind, v) in enumerate(random_series(rng, 1200, 240, 48)):
            if j % n_chunks != i:
                continue
            n_series += 1
            if j % 3 == 0 or len(v) > 600:
                full_battery(t, orig, new, v)
            else:
                core_battery(t, orig, new, v)
            if j % 2 == 0:
                history(t, orig, new, v)
    return t, n_series


def fetch_original(tmpdir):
    data = subprocess.run(['git', 'archive', 'HEAD', 'eqsig'], cwd=os.getcwd(), check=True,
                          stdout=subprocess.PIPE).stdout
    with tarfile.open(fileobj=io.BytesIO(data)) as tf:
        try:
            tf.extractall(tmpdir, filter='data')
        except TypeError:
            tf.extractall(tmpdir)
    return tmpdir


def load(name, path):
    spec = importlib.util.spec_from_file_location(name, path)
    mod = importlib.util.module_from_spec(spec)
    spec.loader.exec_module(mod)
    return mod


def main():
    t_start = time.time()
    cwd = os.getcwd()
    if not os.path.isfile(os.path.join(cwd, REL)):
        sys.stdout.write('run from the worktree root\n')
        return 2
    with tempfile.TemporaryDirectory() as tmpdir:
        fetch_original(tmpdir)
        with open(os.path.join(tmpdir, REL)) as f0, open(os.path.join(cwd, REL)) as f1:
            same_text = f0.read() == f1.read()
        orig = load('pc_original', os.path.join(tmpdir, REL))
        new = load('pc_edited', os.path.join(cwd, REL))
        t = Tally()
        install_warning_recorder()

        # public surface of the module
        pub_o = sorted(n for n in dir(orig) if not n.startswith('_'))
        pub_n = sorted(n for n in dir(new) if not n.startswith('_'))
        if pub_o != pub_n:
            t.fail('public names of the module', pub_o, pub_n)
        import inspect
        for n in pub_o:
            fo, fn = getattr(orig, n), getattr(new, n, None)
            if inspect.isfunction(fo):
                if fn is None or str(inspect.signature(fo)) != str(inspect.signature(fn)):
                    t.fail('signature of %s' % n, inspect.signature(fo), fn and inspect.signature(fn))

        # 1.-3. side by side comparison (split over a few processes when possible; same work, same order)
        global ORIG, NEW
        ORIG, NEW = orig, new
        jobs = [(stage, i, N_CHUNKS) for stage in ('exhaustive', 'special', 'random') for i in range(N_CHUNKS)]
        results = None
        n_proc = 1 if os.environ.get('EQUIV_SERIAL') else min(N_CHUNKS, os.cpu_count() or 1)
        if n_proc > 1:
            try:
                import multiprocessing
                ctx = multiprocessing.get_context('fork')
                with ctx.Pool(n_proc) as pool:
                    results = pool.map(run_job, jobs, 1)
            except Exception as e:  # noqa
                sys.stdout.write('(process pool unavailable: %r; running serially)\n' % (e,))
                results = None
        if results is None:
            results = [run_job(job) for job in jobs]
        for stage in ('exhaustive', 'special', 'random'):
            ts = Tally()
            n_series = 0
            for job, (tj, nj) in zip(jobs, results):
                if job[0] == stage:
                    ts.merge(tj)
                    n_series += nj
            sys.stdout.write('%-10s: %6d series, %7d comparisons, %d mismatches\n' % (stage, n_series, ts.n, ts.bad))
            t.merge(ts)
        sys.stdout.write('side by side done at %.1f s\n' % (time.time() - t_start))

        # 4. whole packages in separate processes
        digests = []
        for root in (tmpdir, cwd):
            env = dict(os.environ)
            env['PYTHONPATH'] = root
            env['PYTHONDONTWRITEBYTECODE'] = '1'
            p = subprocess.run([sys.executable, os.path.abspath(__file__), '--worker'], cwd=root, env=env,
                               stdout=subprocess.PIPE, stderr=subprocess.PIPE, universal_newlines=True)
            if p.returncode != 0:
                t.fail('worker in %s' % root, p.returncode, p.stderr[-800:])
            digests.append(p.stdout.strip())
        t.n += 1
        if digests[0] != digests[1] or not digests[0]:
            t.fail('package level digest', digests[0], digests[1])
        sys.stdout.write('package level digests: %s | %s\n' % tuple(d[:24] + '...' + d[64:] for d in digests))

    sys.stdout.write(''.join(t.msgs))
    sys.stdout.write('twin %d: %d comparisons (%d of them exceptions in the original), %d mismatches, '
                     'source text %s, %.1f s\n' % (TWIN, t.n, t.n_exc, t.bad,
                                                   'IDENTICAL (edit not applied?)' if same_text else 'differs',
                                                   time.time() - t_start))
    return 0 if t.bad == 0 else 1


if __name__ == '__main__':
    if '--worker' in sys.argv:
        worker()
        sys.exit(0)
    sys.exit(main())

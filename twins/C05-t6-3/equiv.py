"""Equivalence program for twin 3 (re-write, in another style, of the peak-series family of
eqsig/fns/peaks_and_crossings.py: determine_peaks_only_delta_series, determine_pseudo_cyclic_peak_only_series,
their *_4_cleaned_data companions, clean_out_non_changing and determine_indices_of_peaks_for_cleaned_array).

Run with the edit applied and cwd = the worktree:

    cd <worktree> && PYTHONPATH=<worktree> python out/equiv3.py

The ORIGINAL package is taken from `git archive HEAD eqsig` into a temporary directory.  The same
deterministic scenario script is then executed in two separate subprocesses (one importing the original
package, one importing the edited package of the worktree).  For every input and every public function of
the module (and the functions of eqsig.im built on them) it records: the result (dtype, shape, bytes,
writeable flag), the result of a second call, whether the argument is bit-for-bit unchanged, whether the
result shares memory with the argument, the exception (type and text) and the warnings.  All records are
compared exactly.  Exit status 0 iff everything matches.
"""
import hashlib
import io
import os
import pickle
import shutil
import struct
import subprocess
import sys
import tarfile
import tempfile
import warnings


# ----------------------------------------------------------------------------------------------------------
# canonical (bit exact) description of python / numpy objects
# ----------------------------------------------------------------------------------------------------------
def canon(obj, depth=0):
    import numpy as np
    if depth > 6:
        return ('deep', type(obj).__name__)
    if isinstance(obj, np.ndarray):
        arr = np.ascontiguousarray(obj)
        if arr.dtype == object:
            return ('ndobj', obj.shape, tuple(canon(x, depth + 1) for x in arr.ravel().tolist()))
        return ('nd', arr.dtype.str, obj.shape, hashlib.sha1(arr.tobytes()).hexdigest(),
                bool(obj.flags.writeable))
    if isinstance(obj, np.generic):
        return ('npscalar', obj.dtype.str, obj.tobytes())
    if isinstance(obj, bool):
        return ('bool', obj)
    if isinstance(obj, int):
        return ('int', obj)
    if isinstance(obj, float):
        return ('float', struct.pack('<d', obj))
    if isinstance(obj, complex):
        return ('complex', struct.pack('<dd', obj.real, obj.imag))
    if obj is None or isinstance(obj, str):
        return ('lit', obj)
    if isinstance(obj, (list, tuple)):
        return (type(obj).__name__, tuple(canon(x, depth + 1) for x in obj))
    if isinstance(obj, dict):
        return ('dict', tuple((canon(k, depth + 1), canon(v, depth + 1)) for k, v in obj.items()))
    if isinstance(obj, BaseException):
        return ('exc', type(obj).__name__, str(obj))
    return ('other', type(obj).__name__, repr(obj))


def guarded(fn, *args, **kwargs):
    """Call fn and return (tag, canonical result or exception, warnings)."""
    with warnings.catch_warnings(record=True) as wlist:
        warnings.simplefilter('always')
        try:
            out = ('ok', canon(fn(*args, **kwargs)))
        except Exception as e:  # noqa
            out = ('raised', type(e).__name__, str(e))
    wrn = tuple((w.category.__name__, str(w.message)) for w in wlist)
    return out + (wrn,)


# ----------------------------------------------------------------------------------------------------------
# worker: runs the scenarios against whichever eqsig is first on sys.path
# ----------------------------------------------------------------------------------------------------------
def make_inputs():
    """(name, object) pairs: the records and the out-of-domain corners."""
    import numpy as np
    rs = np.random.RandomState(77123)
    inputs = []

    def add(name, obj):
        inputs.append((name, obj))

    lengths = list(range(0, 14)) + [17, 25, 40, 64, 101]
    for rep in range(4):
        for n in lengths:
            t = np.arange(n)
            walk = np.cumsum(rs.normal(size=n))
            noise = rs.normal(size=n)
            sine = np.sin(0.9 * t + rep) * (1 + 0.1 * rep) + 0.3 * (rep - 1)
            steps = np.round(walk)  # plateaus, repeated values
            coarse = np.round(2 * noise) / 2
            ints = rs.randint(-4, 5, size=n)
            tag = 'n%i_r%i' % (n, rep)
            add('walk_' + tag, walk)
            add('noise_' + tag, noise)
            add('sine_' + tag, sine)
            add('steps_' + tag, steps)
            add('coarse_' + tag, coarse)
            add('zero_start_' + tag, np.concatenate(([0.0], noise))[:n])
            add('neg_first_' + tag, -np.abs(walk) - 1)
            add('i64_' + tag, ints.astype(np.int64))
            add('i32_' + tag, ints.astype(np.int32))
            add('i16_' + tag, (ints * 1000).astype(np.int16))
            add('i8_' + tag, (ints * 30).astype(np.int8))
            add('u8_' + tag, (ints + 4).astype(np.uint8))
            add('u16_' + tag, (ints + 4).astype(np.uint16))
            add('u64_' + tag, (ints + 4).astype(np.uint64))
            add('f32_' + tag, noise.astype(np.float32))
            add('f16_' + tag, coarse.astype(np.float16))
            add('list_f_' + tag, [float(x) for x in coarse])
            add('list_i_' + tag, [int(x) for x in ints])
            add('tuple_i_' + tag, tuple(int(x) for x in ints))
            add('list_mixed_' + tag, [int(x) if k % 2 else float(x) + 0.5 for k, x in enumerate(ints)])
            add('bool_' + tag, ints > 0)
            add('strided_' + tag, rs.normal(size=2 * n)[::2])
            add('reversed_view_' + tag, np.round(rs.normal(size=n))[::-1])
            ro = np.round(3 * rs.normal(size=n)) / 3
            ro.flags.writeable = False
            add('readonly_' + tag, ro)
            add('const_' + tag, np.full(n, 1.5 + rep))
            add('const_zero_' + tag, np.zeros(n))
            add('const_int_' + tag, np.full(n, rep, dtype=np.int64))
            if n:
                w = noise.copy()
                w[rs.randint(n)] = np.nan
                add('with_nan_' + tag, w)
                w = coarse.copy()
                w[rs.randint(n)] = np.inf
                add('with_inf_' + tag, w)
                w = coarse.copy()
                w[0] = np.nan
                add('nan_first_' + tag, w)
                w = coarse.copy()
                w[0] = -np.inf
                add('inf_first_' + tag, w)
                w = np.where(coarse == 0, -0.0, coarse)
                add('neg_zero_' + tag, w)
                add('tiny_' + tag, noise * 1e-200)
                add('huge_' + tag, noise * 1e200)
                add('big_i64_' + tag, ints.astype(np.int64) * (2 ** 61))
                add('complex_' + tag, noise + 1j * coarse)
                add('object_' + tag, np.array([int(x) for x in ints], dtype=object))
    # triangle / documented examples
    add('doc1', np.array([0, 2, 1, 2, -1, 1, 1, 0.3, -1, 0.2, 1, 0.2]))
    add('doc2', np.array([0, 2, 1, 2, -1, 1, 0, 0, 1, 0.3, 0, -1, 0.2, 1, 0.2]))
    add('doc3', np.array([0, 2, 1, 2, 0, 1, 0, -1, 0, 1, 0]))
    add('doc3_list', [0, 2, 1, 2, 0, 1, 0, -1, 0, 1, 0])
    add('offset_double_peak', np.array([0, 2, 1, 2, 0, 1, 0, -1, 0, 1, 0]) + 4)
    # shapes outside the documented domain
    add('2d_f', rs.normal(size=(3, 4)))
    add('2d_i', rs.randint(-3, 4, size=(4, 3)))
    add('2d_fortran', np.asfortranarray(np.round(rs.normal(size=(3, 5)))))
    add('2d_list', [[0, 1, 0], [2, 1, 3]])
    add('col', rs.normal(size=(5, 1)))
    add('0d', np.array(3.0))
    add('scalar', 2.5)
    add('none', None)
    add('str', 'abc')
    add('list_str', ['a', 'b', 'a'])
    add('list_none', [1.0, None, 2.0])
    add('ragged', [[1, 2], [3]])
    add('range', range(7))
    add('i64_extreme', np.array([-2 ** 63, 2 ** 63 - 1, 0, -2 ** 63, 5], dtype=np.int64))
    add('i8_extreme', np.array([-128, 127, -128, 0, 127], dtype=np.int8))
    add('datetime', np.array(['2020-01-01', '2020-01-03', '2020-01-02'], dtype='datetime64[D]'))
    return inputs


def digest(obj):
    import numpy as np
    if isinstance(obj, np.ndarray):
        return canon(obj)
    if isinstance(obj, (list, tuple)):
        return canon(obj)
    return ('opaque', repr(obj))


class _Sig(object):
    """Minimal stand-in for the *_indices(asig) wrappers (they only read .values)."""

    def __init__(self, values):
        self.values = values


def calls(pc, im):
    """(label, callable(values)) for all public entry points that reach the edited code."""
    out = [
        ('determine_indices_of_peaks_for_cleaned', pc.determine_indices_of_peaks_for_cleaned),
        ('determine_indices_of_peaks_for_cleaned_array', pc.determine_indices_of_peaks_for_cleaned_array),
        ('_determine_peak_only_series_4_cleaned_data', pc._determine_peak_only_series_4_cleaned_data),
        ('determine_peak_only_delta_series_4_cleaned_data', pc.determine_peak_only_delta_series_4_cleaned_data),
        ('clean_out_non_changing', pc.clean_out_non_changing),
        ('get_peak_array_indices', pc.get_peak_array_indices),
        ('get_peak_array_indices_min', lambda v: pc.get_peak_array_indices(v, ptype='min')),
        ('get_peak_array_indices_max', lambda v: pc.get_peak_array_indices(v, 'max')),
        ('get_peak_indices', lambda v: pc.get_peak_indices(_Sig(v))),
        ('get_zero_and_peak_array_indices', pc.get_zero_and_peak_array_indices),
        ('get_zero_and_peak_array_indices_ms1', lambda v: pc.get_zero_and_peak_array_indices(v, min_step=1)),
        ('determine_peaks_only_delta_series', pc.determine_peaks_only_delta_series),
        ('determine_pseudo_cyclic_peak_only_series', pc.determine_pseudo_cyclic_peak_only_series),
        ('get_switched_peak_array_indices', pc.get_switched_peak_array_indices),
        ('get_switched_peak_array_indices_tol', lambda v: pc.get_switched_peak_array_indices(v, tol=0.4)),
        ('get_switched_peak_indices', lambda v: pc.get_switched_peak_indices(_Sig(v))),
        ('get_switched_peak_indices_arr', pc.get_switched_peak_indices),
        ('get_n_cyc_array', pc.get_n_cyc_array),
        ('get_n_cyc_array_sw_peak', lambda v: pc.get_n_cyc_array(v, opt='switched', start='peak')),
        ('im.calc_n_cyc_array_w_power_law', lambda v: im.calc_n_cyc_array_w_power_law(v, 1.0, 0.3)),
        ('im.calc_cyc_amp_array_w_power_law', lambda v: im.calc_cyc_amp_array_w_power_law(v, 2, 0.3)),
    ]
    return out


def one_call(fn, obj):
    import numpy as np
    before = digest(obj)
    first = guarded(fn, obj)
    mid = digest(obj)
    shares = None
    try:
        with warnings.catch_warnings():
            warnings.simplefilter('ignore')
            res = fn(obj)
        parts = res if isinstance(res, tuple) else (res,)
        if isinstance(obj, np.ndarray):
            shares = tuple(bool(np.shares_memory(p, obj)) for p in parts if isinstance(p, np.ndarray))
        # writing into the result must not reach the argument either
        for p in parts:
            if isinstance(p, np.ndarray) and p.size and p.flags.writeable:
                p[...] = p.ravel()[-1]
        second = ('ok', canon(res))
    except Exception as e:  # noqa
        second = ('raised', type(e).__name__, str(e))
    after = digest(obj)
    third = guarded(fn, obj)[:2]
    return (first, ('unchanged', before == mid == after), shares, second[0], third == first[:2])


def worker(root, outfile):
    sys.path.insert(0, root)
    import numpy as np  # noqa
    import eqsig
    import eqsig.fns.peaks_and_crossings as pc
    from eqsig import im
    assert os.path.realpath(eqsig.__file__).startswith(os.path.realpath(root)), (eqsig.__file__, root)
    results = []
    # the public names must be the same (the module is star-imported into eqsig.fns and eqsig)
    for mod in (pc, eqsig.fns, eqsig):
        names = sorted(n for n in dir(mod) if not n.startswith('_'))
        results.append(('public names of ' + mod.__name__, hashlib.sha1(repr(names).encode()).hexdigest(),
                        repr(names)[:3000], 'ok'))
    fns = calls(pc, im)
    for iname, obj in make_inputs():
        for label, fn in fns:
            out = one_call(fn, obj)
            status = out[0][0] if out[0][0] == 'ok' else 'raised:' + out[0][1]
            results.append(('%s(%s)' % (label, iname), hashlib.sha1(repr(out).encode()).hexdigest(),
                            repr(out)[:3000], status))
    # the same entry points of the package top level (star imports) are the same objects
    same = all(getattr(eqsig, n) is getattr(pc, n) for n in dir(pc) if not n.startswith('_') and n != 'np')
    results.append(('star import identity', str(same), str(same), 'ok'))
    # a Signal round trip: the object's array is never written by these functions
    rs = np.random.RandomState(5)
    for k in range(60):
        rec = np.round(rs.normal(size=5 + k), 1)
        sig = eqsig.AccSignal(rec if k % 2 else [float(x) for x in rec], 0.01)
        snap = sig.values.copy()
        out = (guarded(pc.get_peak_indices, sig), guarded(pc.get_switched_peak_indices, sig),
               guarded(pc.get_zero_crossings_indices, sig),
               guarded(pc.determine_peaks_only_delta_series, sig.values),
               guarded(pc.determine_pseudo_cyclic_peak_only_series, sig.values),
               canon(sig.values), bool(np.array_equal(snap, sig.values)), sig.npts)
        results.append(('signal round trip %i' % k, hashlib.sha1(repr(out).encode()).hexdigest(),
                        repr(out)[:3000], 'ok'))
    with open(outfile, 'wb') as f:
        pickle.dump(results, f)


# ----------------------------------------------------------------------------------------------------------
# driver
# ----------------------------------------------------------------------------------------------------------
def main():
    cwd = os.getcwd()
    tmp = tempfile.mkdtemp(prefix='equiv3_')
    try:
        orig_root = os.path.join(tmp, 'orig')
        os.makedirs(orig_root)
        blob = subprocess.check_output(['git', 'archive', 'HEAD', 'eqsig'], cwd=cwd)
        with tarfile.open(fileobj=io.BytesIO(blob)) as tf:
            tf.extractall(orig_root)
        same = open(os.path.join(orig_root, 'eqsig', 'fns', 'peaks_and_crossings.py')).read() == \
            open(os.path.join(cwd, 'eqsig', 'fns', 'peaks_and_crossings.py')).read()
        if same:
            print('NOTE: eqsig/fns/peaks_and_crossings.py of the worktree is identical to HEAD (edit not applied?)')
        outs = {}
        procs = []
        for label, root in (('orig', orig_root), ('edit', cwd)):  # the two workers run side by side
            outfile = os.path.join(tmp, label + '.pkl')
            env = dict(os.environ)
            env['PYTHONPATH'] = root
            env['PYTHONHASHSEED'] = '0'
            logfile = open(os.path.join(tmp, label + '.log'), 'wb')
            proc = subprocess.Popen([sys.executable, os.path.abspath(__file__), '--worker', root, outfile],
                                    env=env, cwd=tmp, stdout=logfile, stderr=subprocess.STDOUT)
            procs.append((label, outfile, logfile, proc))
        for label, outfile, logfile, proc in procs:
            proc.wait()
            logfile.close()
            if proc.returncode != 0:  # (the log only holds LAPACK chatter otherwise)
                print(open(logfile.name, errors='replace').read()[-4000:])
                print('worker for %s failed' % label)
                return 1
            with open(outfile, 'rb') as f:
                outs[label] = pickle.load(f)
        a, b = outs['orig'], outs['edit']
        bad = 0
        if len(a) != len(b):
            print('different number of cases', len(a), len(b))
            bad += 1
        stats = {}
        for (ka, ha, ra, sa), (kb, hb, rb, sb) in zip(a, b):
            stats[sa] = stats.get(sa, 0) + 1
            if ka != kb or ha != hb or sa != sb:
                bad += 1
                if bad <= 10:
                    print('MISMATCH in case', ka)
                    print('   orig:', ra[:1500])
                    print('   edit:', rb[:1500])
        print('outcome of the operation under study over the cases:', sorted(stats.items()))
        print('cases compared: %i, mismatches: %i' % (len(a), bad))
        return 1 if bad else 0
    finally:
        shutil.rmtree(tmp, ignore_errors=True)


if __name__ == '__main__':
    if len(sys.argv) > 1 and sys.argv[1] == '--worker':
        worker(sys.argv[2], sys.argv[3])
        sys.exit(0)
    sys.exit(main())

"""Equivalence check for twin2 (nigam_and_jennings_response: conditional expression, propagator entries unpacked
before the loop, loop-invariant len() hoisted, per-step views named, T=0 branch turned into an early return).

Run with the twin applied, cwd = the worktree.  Exit 0 iff original and edited code agree bit-for-bit.
"""
import os
import subprocess
import sys
import types
import warnings

HERE = os.getcwd()
sys.path.insert(0, HERE)

import numpy as np  # noqa: E402
import eqsig  # noqa: E402
import eqsig.sdof as new_sdof  # noqa: E402

assert os.path.abspath(eqsig.__file__).startswith(HERE), eqsig.__file__


def load_original(relpath, modname):
    src = subprocess.check_output(['git', 'show', 'HEAD:' + relpath], cwd=HERE).decode()
    mod = types.ModuleType(modname)
    mod.__file__ = '<HEAD:%s>' % relpath
    exec(compile(src, mod.__file__, 'exec'), mod.__dict__)
    return mod


old_sdof = load_original('eqsig/sdof.py', 'eqsig_orig_sdof')
assert old_sdof.nigam_and_jennings_response is not new_sdof.nigam_and_jennings_response

N_CHECKS = [0]


def same(x, y, what):
    """bit-for-bit identity (type, dtype, shape, bytes: distinguishes -0.0 / NaN payloads)"""
    N_CHECKS[0] += 1
    assert type(x) is type(y), (what, type(x), type(y))
    if isinstance(x, (tuple, list)):
        assert len(x) == len(y), what
        for k, (p, q) in enumerate(zip(x, y)):
            same(p, q, '%s[%d]' % (what, k))
        return
    if isinstance(x, np.ndarray):
        assert x.dtype == y.dtype, (what, x.dtype, y.dtype)
        assert x.shape == y.shape, (what, x.shape, y.shape)
        assert x.tobytes() == y.tobytes(), (what, np.max(np.abs(x - y)))
        for flag in ('c_contiguous', 'f_contiguous', 'writeable', 'owndata'):
            assert getattr(x.flags, flag) == getattr(y.flags, flag), (what, flag)
        return
    if isinstance(x, (float, np.floating)):
        assert np.float64(x).tobytes() == np.float64(y).tobytes(), (what, x, y)
        return
    assert x == y, (what, x, y)


def call(f, *args):
    """returns ('ok', result) or ('exc', type, text); warnings are recorded, too"""
    with warnings.catch_warnings(record=True) as wlist:
        warnings.simplefilter('always')
        try:
            out = ('ok', f(*args))
        except Exception as e:  # noqa
            out = ('exc', type(e), str(e))
    # a set: a shared term that is evaluated once instead of several times warns once instead of several times
    # (only possible outside the property's domain, e.g. xi == 1)
    return out, sorted(set((w.category.__name__, str(w.message)) for w in wlist))


def compare(fname, make_args, what):
    args_o = make_args()
    args_n = make_args()
    keep = make_args()
    (ro, wo) = call(getattr(old_sdof, fname), *args_o)
    (rn, wn) = call(getattr(new_sdof, fname), *args_n)
    assert ro[0] == rn[0], (what, ro, rn)
    if ro[0] == 'ok':
        same(ro[1], rn[1], what)
    else:
        assert ro[1:] == rn[1:], (what, ro, rn)
    assert wo == wn, (what, wo, wn)
    # arguments untouched (and hence identically "mutated") by both
    for k, (p, q, r) in enumerate(zip(args_o, args_n, keep)):
        same(p, r, what + ' arg%d (orig)' % k)
        same(q, r, what + ' arg%d (new)' % k)


rng = np.random.RandomState(20240101)

# ------------------------------------------------------------------ through the three entry points


def records():
    yield 'len2', np.array([0.3, -1.2])
    yield 'len2 list', [0.3, -1.2]
    yield 'len3 tuple', (0.0, 1.0, 0.0)
    yield 'zeros', np.zeros(17)
    yield 'int dtype', np.array([0, 3, -2, 5, 7, -11, 0, 1], dtype=np.int64)
    yield 'int32', np.arange(-5, 6, dtype=np.int32)
    yield 'int list', [1, 0, -1, 2]
    yield 'float32', rng.normal(size=33).astype(np.float32)
    yield 'impulse', np.concatenate([[1.0], np.zeros(60)])
    yield 'step', np.ones(41)
    yield 'ramp', np.linspace(0, 5, 50)
    yield 'sine', np.sin(0.1 * np.arange(300)) * 0.01
    yield 'huge', rng.normal(size=64) * 1e12
    yield 'tiny', rng.normal(size=64) * 1e-14
    yield 'neg zeros', -np.zeros(9)
    yield 'noncontig', rng.normal(size=200)[::3]
    for n in (2, 3, 5, 16, 101, 400):
        yield 'rand%d' % n, rng.normal(size=n) * 10 ** rng.uniform(-3, 3)


def period_sets(dt):
    yield np.array([0.2 * dt])
    yield np.array([2e4 * dt])
    yield [1.0 * dt]
    yield (0.0, 0.5 * dt, 7 * dt)
    yield np.array([0.0])
    yield np.array([0.0, 0.2 * dt, dt, 6 * dt, 20 * dt, 2e4 * dt])
    yield np.sort(dt * 10 ** rng.uniform(np.log10(0.2), np.log10(2e4), 9))
    yield dt * 10 ** rng.uniform(np.log10(0.2), np.log10(2e4), 4)  # unsorted
    yield np.array([3, 5, 40]) if dt >= 0.005 else np.array([1, 2])   # integer periods
    yield [0, 1, 2]


for name, rec in records():
    for dt in (0.001, 0.01, 0.025, 1.0):
        for periods in period_sets(dt):
            for xi in (0.0, 0.05, rng.uniform(0, 1), 0.99):
                for fname in ('nigam_and_jennings_response', 'response_series'):
                    compare(fname, lambda: (rec.copy() if isinstance(rec, np.ndarray) else type(rec)(rec), dt,
                                            periods.copy() if isinstance(periods, np.ndarray) else type(periods)(periods), xi),
                            '%s %s dt=%r T=%r xi=%r' % (fname, name, dt, periods, xi))
            # spectra built on the same propagators
            for fname in ('pseudo_response_spectra', 'true_response_spectra'):
                if isinstance(rec, np.ndarray):
                    compare(fname, lambda: (rec.copy(), dt, np.array(periods, dtype=float), 0.05), fname + ' ' + name)

# AccSignal.response_series: sdof.response_series resolves the global at call time -> swap the function in and out
new_fn = new_sdof.nigam_and_jennings_response
for name, rec in records():
    for dt in (0.005, 0.02):
        res = {}
        for tag, fn in (('old', old_sdof.nigam_and_jennings_response), ('new', new_fn)):
            new_sdof.nigam_and_jennings_response = fn
            try:
                asig = eqsig.AccSignal(np.array(rec, dtype=float), dt, response_times=np.array([0.0, 0.3 * dt, 0.1, 1.0, 4.0]))
                r1 = asig.response_series()
                r2 = asig.response_series(response_times=np.array([0.05, 0.5, 2.0]), xi=0.2)
                r3 = asig.response_series(xi=0.0)
                r4 = asig.response_series(response_times=[0.0, 0.4])
                state = {k: v for k, v in asig.__dict__.items()}
                res[tag] = (r1, r2, r3, r4, state)
            finally:
                new_sdof.nigam_and_jennings_response = new_fn
        for k in range(4):
            same(res['old'][k], res['new'][k], 'AccSignal.response_series %s call %d' % (name, k))
        so, sn = res['old'][4], res['new'][4]
        assert sorted(so) == sorted(sn)
        for k in so:
            if isinstance(so[k], (np.ndarray, float, tuple, list, np.floating)):
                same(so[k], sn[k], 'AccSignal state ' + k)
            else:
                assert so[k] == sn[k] or so[k] is sn[k], k

# results of one call do not alias each other, the inputs, or results of another call
rec = rng.normal(size=50)
for periods in (np.array([0.0, 0.1, 1.0]), np.array([0.1, 1.0])):
    for mod in (old_sdof, new_sdof):
        u1, v1, a1 = mod.nigam_and_jennings_response(rec, 0.01, periods, 0.05)
        u2, v2, a2 = mod.nigam_and_jennings_response(rec, 0.01, periods, 0.05)
        arrs = [u1, v1, a1, u2, v2, a2, rec, periods]
        for i in range(len(arrs)):
            for j in range(i + 1, len(arrs)):
                assert not np.shares_memory(arrs[i], arrs[j]), (mod.__name__, i, j)
        assert u1.shape == v1.shape == a1.shape == (len(periods), len(rec))

# exceptions on malformed input are the same
for bad in (lambda: (rec.copy(), 0.01, 1.0, 0.05),            # scalar period
            lambda: (rec.copy(), 0.01, np.array([]), 0.05),    # no periods
            lambda: (rec.copy(), 'x', np.array([1.0]), 0.05),
            lambda: (rec.copy(), 0.01, np.array([1.0]), None),
            lambda: (np.array([]), 0.01, np.array([1.0]), 0.05),  # empty record
            lambda: (np.array([1.0]), 0.01, np.array([0.0, 1.0]), 0.05),  # one sample
            lambda: (rec.copy(), 0.01, np.array([-1.0, 1.0]), 0.05),
            lambda: (rec.copy(), 0.01, np.array([1.0, 0.0]), 0.05),   # zero not leading
            lambda: (rec.copy(), 0.01, np.array([0.0, 0.0, 1.0]), 0.05),
            lambda: (rec.copy(), 0.01, np.array([1.0]), 1.0),
            lambda: (rec.copy(), np.float64(0.01), np.array([1.0]), np.float32(0.05)),
            lambda: (rec.copy(), np.array(0.01), np.array([0.5, 1.0]), np.array([0.05]))):
    compare('nigam_and_jennings_response', bad, 'malformed')
    compare('response_series', bad, 'malformed')

print('equiv2: %d comparisons identical' % N_CHECKS[0])

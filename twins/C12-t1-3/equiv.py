"""
Equivalence check for twin3 (run with twin3.diff applied, cwd = the worktree).

Compares the ORIGINAL eqsig/fns/peaks_and_crossings.py (taken from git HEAD) with the edited
module in the working tree, on exhaustive small-alphabet series, random series and edge cases.
Exit code 0 iff everything matches.
"""
import itertools
import os
import subprocess
import sys
import types

import numpy as np

HERE = os.getcwd()
sys.path.insert(0, HERE)

REL = 'eqsig/fns/peaks_and_crossings.py'
FUNCS = ['get_switched_peak_array_indices']  # functions touched by this twin
ALSO = ['get_switched_peak_indices', 'get_zero_and_peak_array_indices', 'get_n_cyc_array']  # callers (indirect)


def load_original():
    src = subprocess.check_output(['git', 'show', 'HEAD:' + REL], cwd=HERE).decode('utf-8')
    mod = types.ModuleType('orig_peaks_and_crossings')
    mod.__file__ = 'HEAD:' + REL
    exec(compile(src, 'HEAD:' + REL, 'exec'), mod.__dict__)
    return mod


def load_edited():
    import eqsig
    assert eqsig.__file__.startswith(HERE), eqsig.__file__
    import eqsig.fns.peaks_and_crossings as new
    assert new.__file__.startswith(HERE), new.__file__
    return new


orig = load_original()
new = load_edited()
with open(os.path.join(HERE, REL)) as f:
    assert f.read() != subprocess.check_output(['git', 'show', 'HEAD:' + REL], cwd=HERE).decode('utf-8'), \
        'twin is not applied: edited module is identical to HEAD'

n_cmp = 0


def snapshot(x):
    if isinstance(x, np.ndarray):
        return x.copy()
    if isinstance(x, list):
        return list(x)
    return x


def same_obj(a, b):
    if isinstance(a, np.ndarray) or isinstance(b, np.ndarray):
        return (isinstance(a, np.ndarray) and isinstance(b, np.ndarray) and a.dtype == b.dtype
                and a.shape == b.shape and np.array_equal(a, b, equal_nan=a.dtype.kind == 'f'))
    if isinstance(a, (tuple, list)):
        return type(a) is type(b) and len(a) == len(b) and all(same_obj(x, y) for x, y in zip(a, b))
    return type(a) is type(b) and (a is b or a == b or (a != a and b != b))


def call(fn, args, kwargs):
    try:
        return 'ok', fn(*args, **kwargs)
    except BaseException as e:  # noqa
        return 'exc', (type(e), str(e))


def compare(fname, values, **kwargs):
    """Call original and edited function on separate copies of the input, compare everything"""
    global n_cmp
    n_cmp += 1
    v0 = snapshot(values)
    v1 = snapshot(values)
    k0, r0 = call(getattr(orig, fname), (v0,), kwargs)
    k1, r1 = call(getattr(new, fname), (v1,), kwargs)
    ctx = (fname, values, kwargs, r0, r1)
    assert k0 == k1, ctx
    if k0 == 'exc':
        assert r0[0] is r1[0], ctx  # same exception type
        return
    assert same_obj(r0, r1), ctx
    if isinstance(r0, np.ndarray):
        assert r0.flags['C_CONTIGUOUS'] == r1.flags['C_CONTIGUOUS'], ctx
        assert r0.flags['WRITEABLE'] == r1.flags['WRITEABLE'], ctx
        # result must not alias the input in either version
        if isinstance(v1, np.ndarray):
            assert not np.shares_memory(r1, v1) and not np.shares_memory(r0, v0), ctx
    # arguments left untouched by both
    assert same_obj(v0, snapshot(values)), ('orig mutated arg',) + ctx
    assert same_obj(v1, snapshot(values)), ('edited mutated arg',) + ctx


def configs(scale=1.0):
    for tol in (0.0, 0, 0.25 * scale, 0.5 * scale, 1.0 * scale, 1.5 * scale, 2.0 * scale, 2.5 * scale, 3.0 * scale,
                10.0 * scale, 1e-300, -0.5 * scale, -1.0 * scale):
        yield dict(tol=tol)


def check_series(values, scale=1.0, light=False):
    for fname in FUNCS:
        compare(fname, values)  # defaults
        for cfg in configs(scale):
            if light and cfg['tol'] not in (0.0, 0.5 * scale, 1.0 * scale, 2.5 * scale, -1.0 * scale):
                continue
            compare(fname, values, **cfg)


rng = np.random.default_rng(12012)

# 1. exhaustive small alphabets (as arrays of floats), a subset also as lists / int arrays
for alphabet, max_len in (((-2, -1, 0, 1, 2), 6), ((-3, -2, -1, 0, 1, 2, 3), 5)):
    for n in range(1, max_len + 1):
        for j, tup in enumerate(itertools.product(alphabet, repeat=n)):
            check_series(np.array(tup, dtype=float), light=n >= 5)
            if j % 7 == 0:
                check_series(list(tup), light=True)
                check_series(np.array(tup, dtype=int), light=True)
                check_series(tuple(tup), light=True)

# 2. random samples of the longer exhaustive lengths
for alphabet, lens, cnt in (((-2, -1, 0, 1, 2), (7, 8), 6000), ((-3, -2, -1, 0, 1, 2, 3), (6,), 4000)):
    for _ in range(cnt):
        n = int(rng.choice(lens))
        check_series(rng.choice(alphabet, size=n).astype(float), light=True)


# 3. random series built from excursions with 3+ distinct levels, with zeros / zero runs in between
def excursion_series(n_target):
    out = []
    sgn = 1 if rng.random() < 0.5 else -1
    if rng.random() < 0.3:
        out += [0.0] * int(rng.integers(1, 4))
    while len(out) < n_target:
        m = int(rng.integers(3, 12))
        if rng.random() < 0.5:
            levels = rng.integers(1, 40, size=m).astype(float) / 4.0  # ties possible
        else:
            levels = rng.random(m) * 10 ** rng.uniform(-3, 2)
        out += list(sgn * levels)
        r = rng.random()
        if r < 0.3:
            out += [0.0]
        elif r < 0.45:
            out += [0.0] * int(rng.integers(2, 5))
        if rng.random() < 0.9:
            sgn = -sgn
    return np.array(out[:n_target])


for n in [1, 2, 3, 4, 5, 7, 10, 20, 50, 100, 333, 1000, 2500, 5000]:
    reps = 40 if n <= 100 else (8 if n <= 1000 else 3)
    for _ in range(reps):
        vals = excursion_series(n)
        scale = float(np.median(np.abs(vals)) or 1.0)
        check_series(vals, scale=scale, light=n > 100)
        if n <= 100:
            check_series(list(vals), scale=scale, light=True)
            check_series(vals.astype(np.float32), scale=scale, light=True)
            check_series(np.round(vals).astype(int), light=True)

# 4. smooth-ish random signals (noise + sine), non-contiguous views, read-only arrays
for n in (16, 257, 2048):
    for _ in range(5):
        t = np.arange(n) * 0.01
        vals = np.sin(2 * np.pi * rng.uniform(0.5, 5) * t) * rng.uniform(0.1, 3) + rng.normal(0, 0.3, n)
        check_series(vals, scale=0.3, light=True)
        check_series(vals[::2], scale=0.3, light=True)
        check_series(vals[::-1], scale=0.3, light=True)
        ro = vals.copy()
        ro.setflags(write=False)
        check_series(ro, scale=0.3, light=True)

# 5. edge cases
edge = [
    [0.0], [1.0], [-1.0], [0.0, 0.0], [0.0, 0.0, 0.0, 0.0], [1.0, 1.0, 1.0], [-1.0, -1.0],
    [0, 1, 0, 0, -1, 0, 0, 0, 1], [-0.0, 1.0, -0.0, -1.0], [1e-200, -1e-200, 1e-200],  # product underflows
    [1e200, -1e200, 1e200], [5e-324, -5e-324], [1, -1] * 10, [0, 2, 1, 2, -1, 1, 0, 0, 1, 0.3, 0, -1, 0.2, 1, 0.2],
    [True, False, True], [np.inf, -np.inf, 1.0, 0.0], [3, -0.1, 0.1, -0.1, 0.1, -3, 0.05, 0, 0, -0.05, 4],
]
for e in edge:
    check_series(e)
    check_series(np.array(e, dtype=float))
    for tol in (0.05, 0.1, 0.11, 0.2, 3.0, 5.0, np.float64(0.1), np.float32(0.1), 1):
        for fname in FUNCS:
            compare(fname, e, tol=tol)
            compare(fname, e, tol=-tol)

# invalid inputs: same exception types
for fname in FUNCS:
    for bad in ([], np.array([]), None, 'abc', [[1.0, -1.0], [0.0, 2.0]], 3.0, [1.0, np.nan, -1.0], [np.nan]):
        for kw in ({}, dict(tol=0.5), dict(tol=-1.0), dict(tol=float('nan')), dict(tol=np.inf)):
            compare(fname, bad, **kw)
    compare(fname, [1.0, -1.0, 0.0], tol=-0.1)
    compare(fname, [1.0, -1.0, 0.0], tol=float('nan'))


# 6. indirect callers give the same answers
class _Sig(object):
    def __init__(self, values):
        self.values = values


for _ in range(60):
    vals = excursion_series(int(rng.integers(5, 300)))
    s0, s1 = _Sig(vals.copy()), _Sig(vals.copy())
    assert same_obj(orig.get_switched_peak_indices(s0), new.get_switched_peak_indices(s1))
    assert same_obj(orig.get_switched_peak_indices(vals.copy()), new.get_switched_peak_indices(vals.copy()))
    assert np.array_equal(s0.values, vals) and np.array_equal(s1.values, vals)
    for start in ('origin', 'peak'):
        assert same_obj(orig.get_n_cyc_array(vals.copy(), opt='switched', start=start),
                        new.get_n_cyc_array(vals.copy(), opt='switched', start=start))
    for ms in (0, 1, 3):
        k0, r0 = call(orig.get_zero_and_peak_array_indices, (vals.copy(),), dict(min_step=ms))
        k1, r1 = call(new.get_zero_and_peak_array_indices, (vals.copy(),), dict(min_step=ms))
        assert k0 == k1 and (same_obj(r0, r1) if k0 == 'ok' else r0[0] is r1[0]), (vals, ms, r0, r1)
    n_cmp += 4

# 7. signature unchanged
import inspect
for fname in FUNCS:
    assert str(inspect.signature(getattr(orig, fname))) == str(inspect.signature(getattr(new, fname)))
# the public names of the module are unchanged
pub = lambda m: sorted(k for k, v in vars(m).items() if not k.startswith('_') and callable(v))
assert pub(orig) == pub(new), (pub(orig), pub(new))

print('equiv3: %d comparisons, all identical' % n_cmp)
sys.exit(0)

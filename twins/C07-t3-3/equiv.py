"""
Equivalence check for twin3 (explicit index-scanning loops with sentinels instead of np.where in
eqsig.im.calc_bandwidth_freqs / calc_bandwidth_f_min / calc_bandwidth_f_max).

Run with twin3 applied and cwd = the worktree.  Loads the ORIGINAL package from git (HEAD)
and the EDITED package from the working tree and compares the three functions on real
Signal/AccSignal objects (with multi-step histories) and on stub objects exposing arbitrary
smooth spectra.  Exit status 0 iff everything matches.
"""
import importlib
import inspect
import os
import subprocess
import sys
import tempfile
import warnings

import numpy as np

HERE = os.getcwd()


def _load(root):
    for name in [m for m in sys.modules if m == 'eqsig' or m.startswith('eqsig.')]:
        del sys.modules[name]
    sys.path.insert(0, root)
    try:
        pkg = importlib.import_module('eqsig')
        importlib.import_module('eqsig.fns.frequency')
        importlib.import_module('eqsig.im')
        importlib.import_module('eqsig.single')
    finally:
        sys.path.remove(root)
    assert os.path.abspath(pkg.__file__).startswith(os.path.abspath(root)), pkg.__file__
    mods = {k: v for k, v in sys.modules.items() if k == 'eqsig' or k.startswith('eqsig.')}
    for name in mods:
        del sys.modules[name]
    return mods


tmp = tempfile.mkdtemp(prefix='twin3_C07_eq3_', dir='/tmp')
subprocess.check_call('git archive HEAD eqsig | tar -x -C %s' % tmp, shell=True, cwd=HERE)
ORG = _load(tmp)
NEW = _load(HERE)
assert ORG['eqsig'].__file__ != NEW['eqsig'].__file__
assert 'np.where' in inspect.getsource(ORG['eqsig.im'].calc_bandwidth_freqs)
assert 'np.where' not in inspect.getsource(NEW['eqsig.im'].calc_bandwidth_freqs), "twin3 is not applied"

n_checks = 0
OUTCOMES = {}
FNAMES = ('calc_bandwidth_freqs', 'calc_bandwidth_f_min', 'calc_bandwidth_f_max')


def same(a, b, where):
    global n_checks
    n_checks += 1
    if isinstance(a, tuple):
        assert isinstance(b, tuple) and len(a) == len(b), where
        for x, y in zip(a, b):
            same(x, y, where)
        return
    assert type(a) is type(b), (where, type(a), type(b))
    if isinstance(a, np.ndarray):
        assert a.dtype == b.dtype and a.shape == b.shape, (where, a.dtype, b.dtype, a.shape, b.shape)
        assert np.array_equal(a, b, equal_nan=(a.dtype.kind in 'fc')), (where, a, b)
    elif isinstance(a, (float, np.floating)):
        assert (a == b) or (np.isnan(a) and np.isnan(b)), (where, a, b)
        if isinstance(a, np.generic):
            assert a.dtype == b.dtype
    elif a is None:
        assert b is None
    else:
        assert a == b, (where, a, b)


def call(fn, sig, *args, **kwargs):
    with warnings.catch_warnings(record=True) as wl:
        warnings.simplefilter('always')
        try:
            r = ('ok', fn(sig, *args, **kwargs))
        except Exception as e:  # noqa
            r = ('exc', type(e))
    return r, sorted(set((w.category.__name__, str(w.message)) for w in wl))


def compare(fname, so, sn, where, *args, **kwargs):
    (ro, wo), (rn, wn) = call(getattr(ORG['eqsig.im'], fname), so, *args, **kwargs), \
                         call(getattr(NEW['eqsig.im'], fname), sn, *args, **kwargs)
    where = '%s %s %r %r' % (fname, where, args, kwargs)
    assert ro[0] == rn[0], (where, ro, rn)
    OUTCOMES[ro[0]] = OUTCOMES.get(ro[0], 0) + 1
    if ro[0] == 'ok':
        same(ro[1], rn[1], where)
    else:
        assert ro[1] is rn[1], (where, ro, rn)
    assert wo == wn, (where, wo, wn)
    return ro


# ------------------------------------------------------------------ stub objects: arbitrary smooth spectra
class Stub(object):
    """exposes the two attributes the functions read and counts the reads"""

    def __init__(self, spectrum, freqs):
        self._s = spectrum
        self._f = freqs
        self.reads = []

    @property
    def smooth_fa_spectrum(self):
        self.reads.append('s')
        return self._s

    @property
    def smooth_fa_frequencies(self):
        self.reads.append('f')
        return self._f


rng = np.random.RandomState(3)
RATIOS = [0.707, 0.5, 0.1, 0.99, 1.0, 0.0, 1.5, -0.5, 1e-12, 0.9999999999, np.float64(0.6), 1, 0]


def stub_cases():
    for n in (1, 2, 3, 5, 8, 50, 61, 200):
        f = np.logspace(-1, 1.5, n)
        yield 'rand', np.abs(rng.randn(n)), f
        yield 'rand_shifted', np.abs(rng.randn(n)) + 2.0, f
        yield 'const', np.full(n, 2.5), f
        yield 'zeros', np.zeros(n), f
        yield 'ramp_up', np.linspace(0.1, 3, n), f
        yield 'ramp_down', np.linspace(3, 0.1, n), f
        yield 'peak_first', np.r_[5.0, np.abs(rng.randn(n - 1)) * 0.1], f
        yield 'peak_last', np.r_[np.abs(rng.randn(n - 1)) * 0.1, 5.0], f
        yield 'two_peaks', np.abs(np.sin(np.linspace(0, 2 * np.pi, n))) + 0.01, f
        yield 'plateaus', np.round(np.abs(rng.randn(n)) * 2) / 2, f  # many ties
        yield 'int', rng.randint(0, 10, n), f
        yield 'int_freqs', np.abs(rng.randn(n)), np.arange(1, n + 1)
        yield 'f32', np.abs(rng.randn(n)).astype(np.float32), f.astype(np.float32)
        yield 'negative', -np.abs(rng.randn(n)) - 0.1, f
        yield 'mixed_sign', rng.randn(n), f
        yield 'desc_freqs', np.abs(rng.randn(n)), f[::-1]
        yield 'noncontig', np.abs(rng.randn(2 * n))[::2], np.logspace(-1, 1, 2 * n)[1::2]
        yield 'tiny', np.abs(rng.randn(n)) * 1e-300, f
        yield 'huge', np.abs(rng.randn(n)) * 1e300, f
        if n > 2:
            s = np.abs(rng.randn(n)) + 0.5
            s[rng.randint(n)] = np.inf
            yield 'inf', s, f
            s = np.abs(rng.randn(n)) + 0.5
            s[rng.randint(1, n)] = np.nan  # python max() is order dependent with nan: kept as is in both versions
            yield 'nan_inside', s, f
            s = np.abs(rng.randn(n)) + 0.5
            s[0] = np.nan
            yield 'nan_first', s, f
            # values exactly at the limit: the comparison is strict
            s = np.full(n, 1.0)
            s[n // 2] = 2.0
            yield 'exactly_half', s, f
    yield 'empty', np.array([]), np.array([])
    yield 'all_nan', np.full(4, np.nan), np.logspace(0, 1, 4)


for name, spec, freqs in stub_cases():
    for ratio in RATIOS + (['exact'] if name == 'exactly_half' else []):
        if ratio == 'exact':
            ratio = 0.5
        for fname in FNAMES:
            a, b = Stub(spec.copy(), freqs.copy()), Stub(spec.copy(), freqs.copy())
            compare(fname, a, b, name, ratio)
            compare(fname, a, b, name, ratio=ratio)
            # inputs untouched
            same(a._s, spec, 'untouched')
            same(b._s, spec, 'untouched')
            same(a._f, freqs, 'untouched')
            same(b._f, freqs, 'untouched')
            # the spectrum is read first (this is what triggers the lazy evaluation on a Signal) and only once
            assert a.reads[0] == 's' and b.reads[0] == 's' and a.reads.count('s') == b.reads.count('s') == 2
    for fname in FNAMES:  # default ratio
        compare(fname, Stub(spec.copy(), freqs.copy()), Stub(spec.copy(), freqs.copy()), name)

# many random spectra, random ratios, compared also with an independent reference
for trial in range(3000):
    n = int(rng.randint(1, 80))
    spec = np.abs(rng.randn(n)) ** rng.choice([0.5, 1, 3])
    if trial % 5 == 0:
        spec = np.round(spec * 3) / 3
    freqs = np.sort(rng.uniform(0.05, 40, n))
    ratio = float(rng.uniform(0.01, 0.999))
    res = [compare(fname, Stub(spec, freqs), Stub(spec, freqs), 'random', ratio) for fname in FNAMES]
    if res[0][0] == 'ok':
        idx = np.flatnonzero(spec > spec.max() * ratio)
        assert res[0][1] == (freqs[idx[0]], freqs[idx[-1]])
        assert res[1][1] == freqs[idx[0]] and res[2][1] == freqs[idx[-1]]
        assert res[0][1][0] <= res[0][1][1]

# ------------------------------------------------------------------ real signals, multi-step histories
STATE = ['_smooth_fa_freqs', '_smooth_fa_spectrum', '_cached_smooth_fa', '_cached_fa', '_fa_spectrum', '_fa_freqs',
         '_smooth_freq_range', '_npts', '_values']


def same_state(a, b, where):
    assert sorted(vars(a)) == sorted(vars(b)), where
    for k in STATE:
        same(getattr(a, k), getattr(b, k), where + ' ' + k)


def record(npts):
    return rng.randn(npts) * np.hanning(npts)


def all_three(so, sn, where):
    for fname in FNAMES:
        compare(fname, so, sn, where)
        same_state(so, sn, where)
        for ratio in (0.2, 0.5, 0.707, 0.95, 1.0, 2.0):
            compare(fname, so, sn, where, ratio=ratio)
            same_state(so, sn, where)


def both(so, sn, fn):
    with warnings.catch_warnings():
        warnings.simplefilter('ignore')
        fn(so)
        fn(sn)
    same_state(so, sn, 'after step')


for trial in range(24):
    cls = 'AccSignal' if trial % 2 else 'Signal'
    npts = [5, 16, 33, 100, 256, 1000, 1025, 64, 50, 2048, 7, 300][trial % 12]
    dt = [0.01, 0.02, 0.005, 0.1][trial % 4]
    vals = record(npts)
    if trial % 6 == 3:
        vals = list(vals)
    if trial % 6 == 4:
        vals = rng.randint(-5, 5, npts)
    if trial == 10:
        vals = np.zeros(npts)  # zero record: nothing is above the limit
    kw = [{}, {'smooth_freq_range': (0.5, 20)}, {'smooth_fa_freqs': [0.5, 1, 2, 4.0, 8]}][trial % 3]
    with warnings.catch_warnings():
        warnings.simplefilter('ignore')
        so = getattr(ORG['eqsig.single'], cls)(vals, dt, **kw)
        sn = getattr(NEW['eqsig.single'], cls)(vals, dt, **kw)
    # first call on a cold object (smooth spectrum is generated lazily inside the call)
    assert so._cached_smooth_fa is False and sn._cached_smooth_fa is False
    all_three(so, sn, 'cold')
    assert so._cached_smooth_fa is True and sn._cached_smooth_fa is True
    both(so, sn, lambda s: s.gen_smooth_fa_spectrum(band=20))
    all_three(so, sn, 'band20')
    both(so, sn, lambda s: s.gen_smooth_fa_spectrum(smooth_fa_freqs=s.fa_freqs[1:], band=100))
    all_three(so, sn, 'own grid')
    both(so, sn, lambda s: setattr(s, 'smooth_fa_freqs', [0.3, 0.9, 2.7, 8.1]))
    all_three(so, sn, 'after setter (stale cache)')
    both(so, sn, lambda s: setattr(s, 'smooth_fa_frequencies', np.arange(1, 12)))
    all_three(so, sn, 'after other setter')
    both(so, sn, lambda s: s.gen_smooth_fa_spectrum(smooth_fa_freqs=np.arange(1, 12), band=40))  # int frequencies
    all_three(so, sn, 'int freqs aliased')
    both(so, sn, lambda s: s.set_smooth_fa_frequecies_by_range((0.2, 10), 17))
    all_three(so, sn, 'by range')
    both(so, sn, lambda s: s.reset_values(np.asarray(s.values)[::-1] * 2))
    all_three(so, sn, 'after reset')
    both(so, sn, lambda s: s.butter_pass((0.02 / s.dt, 0.2 / s.dt)) if s.npts > 30 else None)
    all_three(so, sn, 'after filter')
    both(so, sn, lambda s: setattr(s, 'smooth_fa_freqs', [2.0]))
    all_three(so, sn, 'single target')
    # bandwidth limits stay ordered and bracket the smoothed peak
    r, _ = call(NEW['eqsig.im'].calc_bandwidth_freqs, sn)
    if r[0] == 'ok':
        peak_f = sn.smooth_fa_freqs[np.argmax(sn.smooth_fa_spectrum)]
        assert r[1][0] <= peak_f <= r[1][1]

assert OUTCOMES.get('ok', 0) > 1000 and OUTCOMES.get('exc', 0) > 10, OUTCOMES
print('equiv3: all %d comparisons identical (calls: %r)' % (n_checks, OUTCOMES))

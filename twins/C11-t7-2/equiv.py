"""
Equivalence program: compares the ORIGINAL eqsig/fns/peaks_and_crossings.py (taken from git HEAD) with the
EDITED one in the working tree, on exhaustive small series and on many random series / option values.

Run with cwd = worktree:  PYTHONPATH=$PWD python out/equivK.py
Exits 0 iff every comparison matched.
"""
import copy
import importlib.util
import io
import itertools
import os
import subprocess
import sys
import tarfile
import tempfile
import time
import warnings

import numpy as np

warnings.simplefilter('ignore')
np.seterr(all='ignore')

REL = os.path.join('eqsig', 'fns', 'peaks_and_crossings.py')
T0 = time.time()


def load(path, name):
    spec = importlib.util.spec_from_file_location(name, path)
    mod = importlib.util.module_from_spec(spec)
    spec.loader.exec_module(mod)
    return mod


def load_both():
    cwd = os.getcwd()
    tmp = tempfile.mkdtemp(prefix='eqsig_orig_')
    raw = subprocess.check_output(['git', 'archive', 'HEAD', 'eqsig'], cwd=cwd)
    with tarfile.open(fileobj=io.BytesIO(raw)) as tf:
        tf.extractall(tmp)
    orig = load(os.path.join(tmp, REL), 'orig_pc')
    edit = load(os.path.join(cwd, REL), 'edit_pc')
    assert os.path.realpath(orig.__file__) != os.path.realpath(edit.__file__)
    return orig, edit


def canon(x):
    """A canonical, exactly comparable description of a result / argument."""
    if isinstance(x, np.ndarray):
        return ('nd', str(x.dtype), x.shape, x.strides if x.size else None, x.base is None,
                x.tobytes() if x.dtype != object else repr(x.tolist()))
    if isinstance(x, np.generic):
        return ('ng', str(x.dtype), x.tobytes())
    if isinstance(x, (list, tuple)):
        return (type(x).__name__, tuple(canon(v) for v in x))
    if isinstance(x, dict):
        return ('dict', tuple((k, canon(v)) for k, v in sorted(x.items())))
    if isinstance(x, float):
        return ('float', np.float64(x).tobytes())
    if isinstance(x, FakeSig):
        return ('FakeSig', canon(x.values))
    return (type(x).__name__, repr(x))


class FakeSig(object):
    """Minimal stand-in for an AccSignal: only the public attribute `values` is used by the module."""

    def __init__(self, values):
        self.values = values


def run(fn, args, kwargs):
    try:
        res = fn(*args, **kwargs)
        return ('ok', canon(res))
    except BaseException as e:  # noqa
        if isinstance(e, (KeyboardInterrupt, SystemExit, MemoryError)):
            raise
        return ('exc', type(e).__name__, str(e))


N_CASES = 0
FAILS = []


def compare(orig, edit, fname, *args, **kwargs):
    global N_CASES
    N_CASES += 1
    a_args, a_kw = copy.deepcopy((args, kwargs))
    b_args, b_kw = copy.deepcopy((args, kwargs))
    ra = run(getattr(orig, fname), a_args, a_kw)
    rb = run(getattr(edit, fname), b_args, b_kw)
    ok = ra == rb and canon(list(a_args)) == canon(list(b_args)) and canon(a_kw) == canon(b_kw)
    if not ok:
        if len(FAILS) < 10:
            print('MISMATCH in %s args=%.300r kwargs=%.200r\n   orig: %.300r\n   edit: %.300r' % (fname, args, kwargs, ra, rb))
        FAILS.append(fname)
    return ok


PTYPES = ['all', 'max', 'min']
ODD_PTYPES = ['ALL', 'Max', '', None, 0, 1, 'minimum', b'min', ('min',), ['max'], np.str_('min'), np.str_('max'),
              np.array(['min']), np.array(['max', 'min']), np.array([]), 2.5, True]
OPTS = ['all', 'switched']
ODD_OPTS = ['ALL', None, '', 0, ['all'], ('switched',), np.str_('all'), np.str_('switched'), np.array(['all']),
            np.array(['all', 'switched']), b'all', 'both']
STARTS = ['origin', 'peak']
ODD_STARTS = ['Origin', None, '', 1, ['origin'], np.str_('peak'), np.str_('origin'), np.array(['peak']),
              np.array(['peak', 'origin']), b'peak', 'zero']


def light(orig, edit, v):
    """the observation points of the property, every option"""
    for pt in PTYPES:
        compare(orig, edit, 'get_peak_array_indices', v, ptype=pt)
    compare(orig, edit, 'get_peak_array_indices', v)
    compare(orig, edit, 'get_n_cyc_array', v)
    compare(orig, edit, 'get_n_cyc_array', v, start='peak')


def medium(orig, edit, v):
    light(orig, edit, v)
    compare(orig, edit, 'clean_out_non_changing', v)
    compare(orig, edit, 'determine_indices_of_peaks_for_cleaned_array', v)
    compare(orig, edit, 'get_n_cyc_array', v, opt='switched')
    compare(orig, edit, 'get_n_cyc_array', v, 'switched', 'peak')


def full(orig, edit, v, rng):
    medium(orig, edit, v)
    compare(orig, edit, 'determine_indices_of_peaks_for_cleaned', v)
    compare(orig, edit, '_determine_peak_only_series_4_cleaned_data', v)
    compare(orig, edit, 'determine_peak_only_delta_series_4_cleaned_data', v)
    compare(orig, edit, 'determine_peaks_only_delta_series', v)
    compare(orig, edit, 'determine_pseudo_cyclic_peak_only_series', v)
    compare(orig, edit, 'get_switched_peak_array_indices', v)
    compare(orig, edit, 'get_switched_peak_array_indices', v, tol=float(rng.choice([0.0, 0.01, 0.5, 2.0, -0.3])))
    compare(orig, edit, 'get_switched_peak_indices', v)
    compare(orig, edit, 'get_switched_peak_indices', FakeSig(v))
    compare(orig, edit, 'get_peak_indices', FakeSig(v))
    compare(orig, edit, 'get_zero_and_peak_array_indices', v)
    compare(orig, edit, 'get_zero_and_peak_array_indices', v, None, int(rng.integers(0, 3)))
    for opt in OPTS:
        for start in STARTS:
            compare(orig, edit, 'get_n_cyc_array', v, opt=opt, start=start)
    # positional / odd option values (dispatch, error order)
    compare(orig, edit, 'get_peak_array_indices', v, PTYPES[int(rng.integers(0, 3))])
    k = int(rng.integers(0, len(ODD_PTYPES)))
    compare(orig, edit, 'get_peak_array_indices', v, ptype=ODD_PTYPES[k])
    k = int(rng.integers(0, len(ODD_OPTS)))
    compare(orig, edit, 'get_n_cyc_array', v, opt=ODD_OPTS[k], start=STARTS[k % 2])
    k = int(rng.integers(0, len(ODD_STARTS)))
    compare(orig, edit, 'get_n_cyc_array', v, opt=OPTS[k % 2], start=ODD_STARTS[k])
    compare(orig, edit, 'get_n_cyc_array', v, ODD_OPTS[k % len(ODD_OPTS)], ODD_STARTS[k])


def random_series(rng, n):
    kind = int(rng.integers(0, 12))
    if kind == 0:
        v = rng.standard_normal(n)
    elif kind == 1:  # plateau rich
        v = rng.integers(-2, 3, n).astype(float)
    elif kind == 2:  # long plateaus
        v = np.repeat(rng.integers(-3, 4, n), rng.integers(1, 6, n))[:n].astype(float)
    elif kind == 3:  # integer typed
        v = rng.integers(-5, 6, n)
    elif kind == 4:  # flat start then motion
        v = rng.standard_normal(n)
        v[:int(rng.integers(0, n + 1))] = float(rng.choice([0.0, 1.5, -2.0]))
    elif kind == 5:  # flat end
        v = rng.standard_normal(n).round(1)
        v[int(rng.integers(0, n + 1)):] = float(rng.choice([0.0, 0.3, -0.7]))
    elif kind == 6:  # random walk rounded (many repeated values, no zero crossing for long)
        v = np.cumsum(rng.integers(-1, 2, n)) * 0.5 + float(rng.choice([0.0, 10.0, -10.0]))
    elif kind == 7:  # tiny / huge magnitudes (products of differences under- or overflow)
        v = rng.standard_normal(n) * 10.0 ** rng.integers(-220, 300, n).astype(float) \
            if rng.random() < 0.5 else rng.standard_normal(n) * float(rng.choice([1e-200, 1e-170, 1e300, 1e-310]))
    elif kind == 8:  # with nan / inf / signed zeros
        v = rng.integers(-2, 3, n).astype(float)
        m = min(n, int(rng.integers(1, 4)))
        v[rng.integers(0, n, m)] = rng.choice([np.nan, np.inf, -np.inf, -0.0, 0.0], m)
    elif kind == 9:  # sine-like record
        t = np.arange(n) * float(rng.choice([0.01, 0.1, 0.7]))
        v = np.sin(t * float(rng.uniform(0.5, 20))) * np.exp(-t * 0.1) + 0.05 * rng.standard_normal(n)
    elif kind == 10:  # float32 / small ints / bool
        v = rng.integers(-3, 4, n).astype(rng.choice([np.float32, np.int8, np.int32, np.uint8, np.float16]))
    else:  # two-valued
        v = rng.choice([float(rng.standard_normal()), float(rng.standard_normal())], n)
    form = int(rng.integers(0, 6))
    if form == 0:
        return v.tolist()
    if form == 1:
        return tuple(v.tolist())
    if form == 2 and n > 1:
        return np.concatenate((v, v))[::2][:n]  # non-contiguous view
    return v


def main():
    global N_CASES
    orig, edit = load_both()
    rng = np.random.default_rng(20240611)

    # 1. exhaustive: 5-level alphabet up to length 6, 3-level up to length 8 (every rise / fall / flat pattern)
    levels5 = [-2.0, -0.5, 0.0, 1.0, 3.0]
    for n in range(1, 7):
        for seq in itertools.product(levels5, repeat=n):
            light(orig, edit, np.array(seq))
    print('exhaustive 5-level done, cases=%d, t=%.1fs' % (N_CASES, time.time() - T0))
    for lv in ([-1.0, 0.0, 1.0], [1, 2, 3], [-3.0, -2.0, -1.0]):
        for n in range(1, 9):
            if (lv[0] == 1 and n > 6) or (lv[0] == -3.0 and n > 7):
                continue
            for seq in itertools.product(lv, repeat=n):
                if lv[0] == 1:
                    medium(orig, edit, list(seq))
                else:
                    light(orig, edit, np.array(seq))
    print('exhaustive 3-level done, cases=%d, t=%.1fs' % (N_CASES, time.time() - T0))

    # 2. random series, short (every public function of the module, odd options)
    for i in range(2000):
        n = int(rng.integers(1, 40))
        full(orig, edit, random_series(rng, n), rng)
    print('random short done, cases=%d, t=%.1fs' % (N_CASES, time.time() - T0))

    # 3. random series, long (up to 5000)
    for i in range(260):
        n = int(rng.choice([50, 200, 1000, 5000, int(rng.integers(40, 5000))]))
        v = random_series(rng, n)
        if i % 4 == 0:
            full(orig, edit, v, rng)
        else:
            medium(orig, edit, v)
    print('random long done, cases=%d, t=%.1fs' % (N_CASES, time.time() - T0))

    # 4. corners: degenerate inputs, every odd option value, exceptions
    corners = [[], np.array([]), [0.0], [3.0], [0, 0, 0], [2, 2, 2, 2], [0, 0, 1], [1, 1, 0], [0, 0, -1, -1, 0, 0],
               [5, 5, 5, 7, 7, 3, 3, 3, 9], np.array([1, 2]), np.array([2, 1]), (1, 1), 5.0, 7, np.float64(2.0),
               np.array(3.0), None, 'abc', ['a', 'b'], [1, None, 2], [[1, 2, 3]], [[1], [2], [1]],
               [np.nan], [np.nan, np.nan], [np.nan, 1, 0, 1], [np.inf, np.inf, 1.0, np.inf], [0.0, -0.0, 0.0, 1.0, -0.0],
               [1e-200, 0.0, 1e-200, 0.0], [1e308, -1e308, 1e308], [True, False, True, True], np.array([1, 2, 1], dtype=object),
               [1 + 2j, 2 + 1j, 0j], np.arange(10), np.arange(10)[::-1], np.zeros(100), np.ones(7, dtype=int),
               [0, 2, 1, 2, -1, 1, 1, 0.3, -1, 0.2, 1, 0.2], [0, 2, 1, 2, 0, 1, 0, -1, 0, 1, 0],
               np.array([0, 1, 0, 1], dtype=np.uint8), np.array([3, 1, 3, 1], dtype=np.uint64), range(5), {1: 2}]
    for v in corners:
        try:
            full(orig, edit, v, rng)
        except RecursionError:
            raise
        for pt in PTYPES + ODD_PTYPES:
            compare(orig, edit, 'get_peak_array_indices', v, pt)
        for opt in OPTS + ODD_OPTS:
            for start in STARTS + ODD_STARTS:
                compare(orig, edit, 'get_n_cyc_array', v, opt, start)
    # wrong arity / unknown keywords
    compare(orig, edit, 'get_peak_array_indices')
    compare(orig, edit, 'get_peak_array_indices', [1, 2], 'max', 3)
    compare(orig, edit, 'get_peak_array_indices', [1, 2], kind='max')
    compare(orig, edit, 'get_n_cyc_array')
    compare(orig, edit, 'get_n_cyc_array', [1, 2, 1], 'all', 'peak', 1)
    compare(orig, edit, 'get_n_cyc_array', [1, 2, 1], ptype='all')
    compare(orig, edit, 'clean_out_non_changing')
    compare(orig, edit, 'determine_indices_of_peaks_for_cleaned_array')

    # 5. the public surface of the module is unchanged (names exported by `from ... import *`)
    N_CASES += 1
    pub_a = sorted(k for k in vars(orig) if not k.startswith('_'))
    pub_b = sorted(k for k in vars(edit) if not k.startswith('_'))
    if pub_a != pub_b:
        print('MISMATCH public names', set(pub_a) ^ set(pub_b))
        FAILS.append('names')
    import inspect
    for k in pub_a:
        fa, fb = getattr(orig, k), getattr(edit, k, None)
        if inspect.isfunction(fa):
            N_CASES += 1
            if fb is None or str(inspect.signature(fa)) != str(inspect.signature(fb)):
                print('MISMATCH signature', k)
                FAILS.append('sig:' + k)

    print('total cases=%d, mismatches=%d, t=%.1fs' % (N_CASES, len(FAILS), time.time() - T0))
    if FAILS:
        print('NOT EQUIVALENT')
        sys.exit(1)
    print('EQUIVALENT on all cases')
    sys.exit(0)


if __name__ == '__main__':
    main()

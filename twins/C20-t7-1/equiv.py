"""
Equivalence program: compares the edited eqsig (cwd) against the original (git HEAD) on the
functions named by property C20.

Run: cd <worktree> && PYTHONPATH=<worktree> python out/equivK.py
Exit 0 iff everything matches.
"""
import contextlib
import copy
import io
import os
import subprocess
import sys
import tarfile
import tempfile
import warnings

import numpy as np

warnings.simplefilter("ignore")
np.seterr(all="ignore")


def load_pkg(root):
    """Import the eqsig package found in `root` and return the modules of interest."""
    for k in [k for k in sys.modules if k == "eqsig" or k.startswith("eqsig.")]:
        del sys.modules[k]
    sys.path.insert(0, root)
    try:
        import eqsig  # noqa
        import eqsig.fns as fns
        import eqsig.design_spectra as ds
        import eqsig.fns.average as av
        import eqsig.fns.generic as ge
        assert os.path.realpath(eqsig.__file__).startswith(os.path.realpath(root)), (eqsig.__file__, root)
    finally:
        sys.path.pop(0)
    mods = dict(eqsig=eqsig, fns=fns, ds=ds, av=av, ge=ge)
    for k in [k for k in sys.modules if k == "eqsig" or k.startswith("eqsig.")]:
        del sys.modules[k]
    return mods


def canon(v):
    """Canonical, exactly comparable form of a value (bit-for-bit for arrays/floats)."""
    if isinstance(v, np.ndarray):
        if v.dtype == object:
            return ("ndarray-obj", v.shape, tuple(canon(i) for i in v.ravel().tolist()))
        return ("ndarray", str(v.dtype), v.shape, np.ascontiguousarray(v).tobytes())
    if isinstance(v, np.generic):
        return ("npscalar", str(v.dtype), v.tobytes())
    if isinstance(v, float):
        return ("float", np.float64(v).tobytes())
    if isinstance(v, (tuple, list)):
        return (type(v).__name__,) + tuple(canon(i) for i in v)
    if isinstance(v, dict):
        return ("dict",) + tuple((k, canon(v[k])) for k in v)
    return (type(v).__name__, repr(v))


def run(fn, args, kwargs):
    args = copy.deepcopy(args)
    kwargs = copy.deepcopy(kwargs)
    out = io.StringIO()
    try:
        with contextlib.redirect_stdout(out):
            res = ("ok", canon(fn(*args, **kwargs)))
    except BaseException as e:  # noqa
        a = e.args
        try:
            a = canon(a)
        except Exception:
            a = repr(a)
        res = ("exc", type(e).__name__, a)
    return res, out.getvalue(), canon(args), canon(kwargs)


N_CASES = 0
FAILS = []
STATS = {}


def check(getter, name, *args, **kwargs):
    global N_CASES
    N_CASES += 1
    ro = run(getter(ORIG, name), args, kwargs)
    re_ = run(getter(EDIT, name), args, kwargs)
    st = STATS.setdefault(name, [0, 0])
    st[0 if ro[0][0] == "ok" else 1] += 1
    if ro != re_:
        FAILS.append((name, args, kwargs, ro[:2], re_[:2]))
        if len(FAILS) <= 10:
            print("MISMATCH", name, repr(args)[:300], kwargs, "\n  orig:", repr(ro[:2])[:400],
                  "\n  edit:", repr(re_[:2])[:400])


def g_fns(mods, name):
    return getattr(mods["fns"], name)


def g_ds(mods, name):
    return getattr(mods["ds"], name)


def g_av(mods, name):
    return getattr(mods["av"], name)


def g_ge(mods, name):
    return getattr(mods["ge"], name)


def series(rng, n, kind):
    if kind == 0:
        return rng.normal(size=n)
    if kind == 1:
        return rng.integers(-9, 10, size=n)
    if kind == 2:
        return rng.integers(0, 20, size=n).astype(float)
    if kind == 3:
        return np.abs(rng.normal(size=n)) * 100 + 1
    if kind == 4:
        return -np.abs(rng.normal(size=n)) - 0.5
    if kind == 5:
        return np.full(n, rng.normal())
    if kind == 6:
        v = rng.normal(size=n) * 0.1
        v[n // 2:] += rng.normal() * 5
        return v
    if kind == 7:
        return rng.normal(size=n).astype(np.float32)
    if kind == 8:
        return rng.integers(-5, 6, size=n).astype(np.int32)
    return np.cumsum(rng.normal(size=n))


def test_average(rng):
    # rolling average
    for n in list(range(1, 14)) + [17, 32, 63, 100]:
        for kind in range(10):
            v = series(rng, n, kind)
            forms = [v, v.tolist(), tuple(v.tolist())]
            step_list = sorted(set(list(range(1, min(n, 12) + 1)) + [n, max(1, n - 1), max(1, n // 2)]))
            for steps in step_list:
                for mode in ("forward", "backward", "centre", "center"):
                    form = forms[(steps + kind) % 3]
                    check(g_fns, "calc_roll_av_vals", form, steps, mode=mode)
                check(g_fns, "calc_roll_av_vals", forms[0], steps)
            # steps > len, float steps, numpy int steps, unusual modes, positional mode
            check(g_fns, "calc_roll_av_vals", v, n + 3, "forward")
            check(g_fns, "calc_roll_av_vals", v, n + 2, "backward")
            check(g_fns, "calc_roll_av_vals", v, n + 1, "centre")
            check(g_fns, "calc_roll_av_vals", v, 2.7, "centre")
            check(g_fns, "calc_roll_av_vals", v, np.int64(min(n, 3)), mode="backward")
            check(g_fns, "calc_roll_av_vals", v, "2", mode="forward")
            for mode in (None, "Forward", "middle", "", 3, ["forward"], np.str_("backward")):
                check(g_fns, "calc_roll_av_vals", v, min(n, 3), mode=mode)
    # corners / errors
    for mode in ("forward", "backward", "centre"):
        for steps in (0, -1, 1, 2):
            check(g_fns, "calc_roll_av_vals", [], steps, mode=mode)
            check(g_fns, "calc_roll_av_vals", [1.0, 2.0, 4.0], steps, mode=mode)
            check(g_fns, "calc_roll_av_vals", np.array([[1.0, 2.0], [3.0, 5.0]]), steps, mode=mode)
            check(g_fns, "calc_roll_av_vals", 3.0, steps, mode=mode)
        check(g_fns, "calc_roll_av_vals", [1.0, 2.0], None, mode=mode)
        check(g_fns, "calc_roll_av_vals", [1.0, 2.0], "a", mode=mode)
        check(g_fns, "calc_roll_av_vals", [1 + 2j, 2 - 1j, 3j], 2, mode=mode)
        check(g_fns, "calc_roll_av_vals", [True, False, True, True], 2, mode=mode)
        check(g_fns, "calc_roll_av_vals", [np.nan, 1.0, np.inf, 2.0], 2, mode=mode)
        check(g_fns, "calc_roll_av_vals", ["a", "b"], 2, mode=mode)

    # step function error and steps
    for n in list(range(1, 14)) + [20, 41, 80]:
        for kind in range(10):
            v = series(rng, n, kind)
            forms = [v, v.tolist(), tuple(v.tolist())]
            for pw in (1, 2, 3, 0.5, 0, 2.0):
                for d in (None, "down", "up", "sideways"):
                    check(g_fns, "calc_step_fn_vals_error", forms[(kind + n) % 3], pow=pw, dir=d)
            check(g_fns, "calc_step_fn_vals_error", v)
            check(g_fns, "calc_step_fn_vals_error", v, 2, "up")
            check(g_fns, "calc_step_fn_vals_error", v, 1, "down")
            check(g_fns, "calc_step_fn_vals_error", v, dir=np.str_("up"))
            check(g_fns, "calc_step_fn_vals_error", v, pow=-1)
            check(g_fns, "calc_step_fn_vals_error", v, pow="2")
            check(g_fns, "calc_step_fn_vals_error", v, pow=None)
            check(g_fns, "calc_step_fn_steps_vals", v)
            check(g_fns, "calc_step_fn_steps_vals", v.tolist())
            for ind in sorted(set([0, 1, n // 2, n - 1, n, n + 2, -1])):
                check(g_fns, "calc_step_fn_steps_vals", v, ind)
                check(g_fns, "calc_step_fn_steps_vals", v, ind=ind)
    for d in (None, "down", "up"):
        for pw in (1, 2):
            check(g_fns, "calc_step_fn_vals_error", [], pow=pw, dir=d)
            check(g_fns, "calc_step_fn_vals_error", 5.0, pow=pw, dir=d)
            check(g_fns, "calc_step_fn_vals_error", np.array([[1.0, -2.0], [3.0, 5.0]]), pow=pw, dir=d)
            check(g_fns, "calc_step_fn_vals_error", np.arange(27.).reshape(3, 3, 3) - 9, pow=pw, dir=d)
            check(g_fns, "calc_step_fn_vals_error", [np.nan, 1.0, -2.0], pow=pw, dir=d)
            check(g_fns, "calc_step_fn_vals_error", [np.inf, 1.0, -2.0], pow=pw, dir=d)
            check(g_fns, "calc_step_fn_vals_error", [1 + 1j, 2.0, -3j], pow=pw, dir=d)
            check(g_fns, "calc_step_fn_vals_error", [True, False, True], pow=pw, dir=d)
            check(g_fns, "calc_step_fn_vals_error", ["a", "b"], pow=pw, dir=d)
            check(g_fns, "calc_step_fn_vals_error", None, pow=pw, dir=d)
    check(g_fns, "calc_step_fn_steps_vals", [])
    check(g_fns, "calc_step_fn_steps_vals", None)

    # get_section_average lives in the same module; exercise it through a tiny stand-in
    class TS(object):
        def __init__(self, values, dt):
            self.values = values
            self.dt = dt
            self.npts = len(values)

        def __repr__(self):
            return "TS(%r, %r)" % (self.values.tolist(), self.dt)

    for n in (5, 20):
        ts = TS(rng.normal(size=n), 0.1)
        for start, end, index in ((0, -1, False), (1, 4, True), (0.1, 0.35, False), (2, 2, True)):
            check(g_fns, "get_section_average", ts, start, end, index)


def test_generic(rng):
    # interp2d
    for trial in range(700):
        nn = int(rng.integers(1, 9))
        ncol = int(rng.integers(1, 5))
        kind = trial % 5
        if kind == 0:
            xf = np.cumsum(rng.uniform(0.05, 2.0, size=nn)) - rng.uniform(0, 3)
        elif kind == 1:
            xf = np.arange(nn) * int(rng.integers(1, 4)) - int(rng.integers(0, 3))  # integer nodes
        elif kind == 2:
            xf = np.sort(rng.integers(0, 6, size=nn)).astype(float)  # repeated nodes
        elif kind == 3:
            xf = -np.cumsum(rng.uniform(0.05, 2.0, size=nn))  # decreasing
        else:
            xf = np.linspace(0, 1, nn) if nn > 1 else np.array([0.5])
        if trial % 3 == 0:
            f = rng.integers(-10, 11, size=(nn, ncol))
        else:
            f = rng.normal(size=(nn, ncol)) * 10
        nq = int(rng.integers(0, 9))
        lo, hi = float(np.min(xf)) - 1.5, float(np.max(xf)) + 1.5
        x = rng.uniform(lo, hi, size=nq)
        x_all = np.concatenate([x, xf.astype(float), [lo, hi], (xf[:-1] + xf[1:]) / 2.0,
                                np.nextafter(xf.astype(float), np.inf), np.nextafter(xf.astype(float), -np.inf)])
        check(g_fns, "interp2d", x, xf, f)
        check(g_fns, "interp2d", x_all, xf, f)
        if trial % 7 == 0:
            check(g_fns, "interp2d", x_all.astype(int), xf, f)
            check(g_fns, "interp2d", x_all, xf, f[:, 0])
            check(g_fns, "interp2d", x_all, xf, f.tolist())
            check(g_fns, "interp2d", x_all.tolist(), xf, f)
            check(g_fns, "interp2d", x_all, xf.tolist(), f)
            check(g_fns, "interp2d", x_all, xf, f[:-1])
            check(g_fns, "interp2d", x_all, xf, rng.normal(size=(nn, 2, 3)))
            check(g_fns, "interp2d", x_all[0], xf, f)
            check(g_fns, "interp2d", x_all[:, np.newaxis], xf, f)
            check(g_fns, "interp2d", np.array([np.nan, xf[0]]), xf, f)
    check(g_fns, "interp2d", np.array([0.5]), np.array([]), np.zeros((0, 2)))
    # docstring / test-suite example
    f = np.array([[0, 0, 0], [0, 1, 4], [2, 6, 2], [10, 10, 10]])
    check(g_fns, "interp2d", np.array([0.5, 1, 2.2, 2.5]), np.array([0, 1, 2, 3]), f)

    # interp_left
    for trial in range(700):
        nn = int(rng.integers(1, 10))
        kind = trial % 4
        if kind == 0:
            x = np.cumsum(rng.uniform(0.05, 2.0, size=nn)) - 2
        elif kind == 1:
            x = np.arange(nn) * 2 - 3
        elif kind == 2:
            x = np.sort(rng.integers(0, 6, size=nn)).astype(float)
        else:
            x = np.linspace(-1, 1, nn) if nn > 1 else np.array([0.0])
        ykind = trial % 3
        y = None if ykind == 0 else (rng.normal(size=nn) if ykind == 1 else rng.integers(-5, 6, size=nn).tolist())
        nq = int(rng.integers(1, 8))
        q = np.concatenate([rng.uniform(float(x[0]), float(x[-1]) + 2, size=nq), x.astype(float),
                            np.nextafter(x.astype(float), np.inf)])
        for xx in (x, x.tolist()):
            check(g_fns, "interp_left", q, xx, y)
            check(g_fns, "interp_left", q.tolist(), xx, y=y)
            check(g_fns, "interp_left", float(q[0]), xx, y)
            check(g_fns, "interp_left", q[1], xx, y)
            check(g_fns, "interp_left", int(np.ceil(x[0])), xx, y)
            check(g_fns, "interp_left", x[0] - 0.5, xx, y)  # assertion
            check(g_fns, "interp_left", np.append(q, x[0] - 1.0), xx, y)  # assertion
            check(g_fns, "interp_left", [], xx, y)
            check(g_fns, "interp_left", q.reshape(-1, 1), xx, y)
        if y is not None:
            check(g_fns, "interp_left", q, x, np.array(y)[:-1])
            check(g_fns, "interp_left", q, x, np.tile(np.array(y, dtype=float)[:, None], (1, 2)))
    check(g_fns, "interp_left", 1.0, [])
    check(g_fns, "interp_left", 1.0, None)
    check(g_fns, "interp_left", None, [0.0, 1.0])

    # remove_poly + ricker (same module)
    for n in (2, 5, 30):
        v = rng.normal(size=n)
        for pf in (0, 1, 2, 3):
            check(g_fns, "remove_poly", v, pf)
        check(g_fns, "remove_poly", v)

    def ricker(mods, name):
        def fn(*a):
            asig = mods["fns"].gen_ricker_wavelet_asig(*a)
            return asig.values, asig.dt, asig.npts
        return fn
    check(ricker, "gen_ricker_wavelet_asig", 2.0, 1.0, 3.0, 0.01)


def test_design_spectra(rng):
    classes = ["C", "D", "E"]
    odd_classes = ["A", "B", "c", "", None, 3, np.str_("D"), ["C"], np.array(["E"]), b"C"]
    knots = [0.0, 0.1, 0.3, 0.56, 1.0, 1.5, 3.0]
    periods = list(knots)
    for k in knots:
        periods += [float(np.nextafter(k, np.inf)), float(np.nextafter(k, -np.inf)), k + 1e-9, k - 1e-9]
    periods += rng.uniform(0, 0.12, size=150).tolist()
    periods += rng.uniform(0, 4.0, size=500).tolist()
    periods += rng.uniform(3.0, 50.0, size=100).tolist()
    periods += [-0.0, -1e-300, -0.5, 1e-300, 1e300, float("inf"), float("-inf"), float("nan")]
    facs = [(1.0, 1.0, 1.0), (0.4, 1.0, 1.0), (0.13, 1.3, 1.2), (0.6, 0.25, 1.0), (0.0, 1.0, 1.0), (2, 1, 1)]
    for sc in classes + odd_classes:
        plist = periods if (isinstance(sc, str) and sc in classes) else periods[:40] + periods[-8:]
        for i, T in enumerate(plist):
            z, r, n = facs[i % len(facs)]
            check(g_ds, "c_h_factor", T, sc)
            check(g_ds, "c_h_factor", T, site_class=sc)
            check(g_ds, "c_h_factor", np.float64(T), sc)
            check(g_ds, "c_h_factor", [T], sc)
            check(g_ds, "sd_nzs", T, sc, z, r, n)
            check(g_ds, "sd_nzs", np.float64(T), sc, z_factor=z, r_factor=r, n_factor=n)
            if i % 5 == 0:
                check(g_ds, "sd_nzs", np.array([T]), sc, z, r, n)
                check(g_ds, "sd_nzs", np.float32(T), sc, z, r, n)
                check(g_ds, "c_h_factor", np.float32(T), sc)
                check(g_ds, "c_h_factor", np.array([[T]]), sc)
                check(g_ds, "sd_nzs", T, sc, np.array([z, 2 * z]), r, n)
        # default site class, integer periods, arrays / lists / tuples
        for T in (0, 1, 2, 3, 4, -1, True):
            check(g_ds, "c_h_factor", T, sc)
            check(g_ds, "c_h_factor", [T], sc)
            check(g_ds, "c_h_factor", np.array([T]), sc)
            check(g_ds, "sd_nzs", T, sc, 0.4, 1.0, 1.0)
            check(g_ds, "sd_nzs", np.int64(T), sc, 0.4, 1.0, 1.0)
        for trial in range(25):
            m = int(rng.integers(0, 12))
            arr = rng.uniform(0, 5, size=m)
            if trial % 4 == 1 and m:
                arr[rng.integers(0, m)] = rng.choice(knots)
            if trial % 6 == 2 and m:
                arr[rng.integers(0, m)] = -0.2  # negative in the middle
            for form in (arr, arr.tolist(), tuple(arr.tolist()), (arr * 2).astype(int), arr.astype(np.float32)):
                check(g_ds, "c_h_factor", form, sc)
            check(g_ds, "sd_nzs", arr, sc, 0.4, 1.0, 1.0)
            check(g_ds, "sd_nzs", arr.tolist(), sc, 0.4, 1.0, 1.0)
        check(g_ds, "c_h_factor", np.array([[0.5, 1.0], [2.0, 3.5]]), sc)
        check(g_ds, "c_h_factor", "0.5", sc)
        check(g_ds, "c_h_factor", None, sc)
        check(g_ds, "c_h_factor", {0: 0.5}, sc)
        check(g_ds, "sd_nzs", "0.5", sc, 1, 1, 1)
        check(g_ds, "sd_nzs", None, sc, 1, 1, 1)
        check(g_ds, "sd_nzs", 0.5, sc, "a", 1, 1)
        check(g_ds, "sd_nzs", 3.5, sc, "a", 2, 1)
        check(g_ds, "sd_nzs", 0.5, sc, None, 1, 1)
        # t_eff
        for z, r, n in facs + [(-0.4, 1.0, 1.0), (np.float64(0.3), np.float32(1.0), 1)]:
            disps = rng.uniform(0, 1.2, size=10).tolist() + [0, 0.0, 1, -0.1, 1e-300, float("nan"), float("inf"), 5]
            coef = {"C": 3.96, "D": 6.42, "E": 9.96}.get(sc if isinstance(sc, str) else "C", 3.96)
            try:
                d_c = coef * z * r * n / (2 * np.pi) ** 2 * 9.81
                disps += (rng.uniform(0, 1.05, size=60) * float(d_c)).tolist()
                disps += [d_c, float(np.nextafter(d_c, np.inf)), float(np.nextafter(d_c, -np.inf)), d_c / 2, d_c / 3]
            except Exception:
                pass
            for d in disps:
                check(g_ds, "t_eff", d, sc, z, r, n)
            check(g_ds, "t_eff", disps[0], site_class=sc, z_factor=z, r_factor=r, n_factor=n)
            check(g_ds, "t_eff", np.array([disps[0]]), sc, z, r, n)
            check(g_ds, "t_eff", np.array(disps[:3]), sc, z, r, n)
            check(g_ds, "t_eff", np.float32(disps[1]), sc, z, r, n)
        check(g_ds, "t_eff", 0.1, sc, "a", 1, 1)
        check(g_ds, "t_eff", "a", sc, 1, 1, 1)
        check(g_ds, "t_eff", None, sc, 1, 1, 1)
    check(g_ds, "c_h_factor", 0.5)
    check(g_ds, "c_h_factor", [0.5, 2.0])
    check(g_ds, "c_h_factor")
    check(g_ds, "sd_nzs", 0.5, "C")
    check(g_ds, "t_eff", 0.5, "C")


def public_names(mod):
    return sorted(k for k in vars(mod) if not k.startswith("_"))


def main():
    global ORIG, EDIT
    cwd = os.getcwd()
    with tempfile.TemporaryDirectory() as tmp:
        tar_path = os.path.join(tmp, "orig.tar")
        subprocess.check_call(["git", "archive", "-o", tar_path, "HEAD", "eqsig"], cwd=cwd)
        orig_root = os.path.join(tmp, "orig")
        os.mkdir(orig_root)
        with tarfile.open(tar_path) as tf:
            tf.extractall(orig_root)
        EDIT = load_pkg(cwd)
        ORIG = load_pkg(orig_root)
        assert EDIT["fns"] is not ORIG["fns"]

        # same public namespaces
        for key in ("eqsig", "fns", "ds", "av", "ge"):
            if public_names(ORIG[key]) != public_names(EDIT[key]):
                FAILS.append(("namespace", key))
                print("MISMATCH public names of", key,
                      set(public_names(ORIG[key])) ^ set(public_names(EDIT[key])))
        # same signatures
        import inspect
        for key, names in (("fns", ["interp2d", "interp_left", "calc_roll_av_vals", "calc_step_fn_vals_error",
                                    "calc_step_fn_steps_vals", "get_section_average", "remove_poly",
                                    "gen_ricker_wavelet_asig"]),
                           ("ds", ["c_h_factor", "sd_nzs", "t_eff"])):
            for nm in names:
                so = str(inspect.signature(getattr(ORIG[key], nm)))
                se = str(inspect.signature(getattr(EDIT[key], nm)))
                if so != se:
                    FAILS.append(("signature", nm))
                    print("MISMATCH signature", nm, so, se)

        test_average(np.random.default_rng(20))
        test_generic(np.random.default_rng(21))
        test_design_spectra(np.random.default_rng(22))

    for nm in sorted(STATS):
        print("  %-28s returned: %6d  raised: %6d" % (nm, STATS[nm][0], STATS[nm][1]))
    print("cases compared: %d, mismatches: %d" % (N_CASES, len(FAILS)))
    return 1 if FAILS else 0


if __name__ == "__main__":
    sys.exit(main())

#!/usr/bin/env python
"""
Equivalence check for twin3 (AccSignal.generate_duration_stats: three copy-pasted bracketed-duration blocks ->
loop over the thresholds + private helper AccSignal._set_brac_dur_stats that works on sample indices).

Run with twin3 applied and cwd = the worktree:

    /venv/bin/python out/equiv3.py

The ORIGINAL package is extracted from git (HEAD) into a temporary directory under /tmp.  The same
deterministic battery of calls is executed in two subprocesses (one importing the original package, one
importing the edited worktree) and the pickled, canonically encoded results (values bit-for-bit, types,
dtypes, shapes, exceptions, warnings, argument mutation and object state) are compared.
Exit status 0 iff everything matches.
"""
import os
import pickle
import shutil
import subprocess
import sys
import tempfile
import types
import warnings

WORKTREE = os.getcwd() if os.path.isdir(os.path.join(os.getcwd(), 'eqsig')) else \
    os.path.dirname(os.path.dirname(os.path.abspath(__file__)))


# ----------------------------------------------------------------------------------------------------------
# canonical encoding (bit exact, NaN safe, type / dtype / shape sensitive)
# ----------------------------------------------------------------------------------------------------------
def encode(obj):
    import numpy as np
    if isinstance(obj, np.ndarray):
        return ('ndarray', obj.dtype.str, obj.shape, np.ascontiguousarray(obj).tobytes())
    if isinstance(obj, np.generic):
        return ('npscalar', type(obj).__name__, obj.dtype.str, obj.tobytes())
    if isinstance(obj, bool) or obj is None or isinstance(obj, (int, str)):
        return (type(obj).__name__, obj)
    if isinstance(obj, float):
        return ('float', obj.hex())
    if isinstance(obj, (tuple, list)):
        return (type(obj).__name__, [encode(o) for o in obj])
    if isinstance(obj, dict):
        return ('dict', [(k, encode(v)) for k, v in obj.items()])  # insertion order matters
    if isinstance(obj, BaseException):
        return ('exception', type(obj).__name__, str(obj))
    return ('repr', type(obj).__name__, repr(obj))


def call(fn, *args, **kwargs):
    """Call and encode the outcome (result or exception) together with the emitted warnings"""
    with warnings.catch_warnings(record=True) as wlist:
        warnings.simplefilter('always')
        try:
            out = fn(*args, **kwargs)
        except Exception as e:  # noqa
            out = e
    return encode(out), [(w.category.__name__, str(w.message)) for w in wlist]


def state_of(asig):
    """Public + private state of a signal object that the functions under test could touch"""
    d = {}
    for k, v in asig.__dict__.items():
        d[k] = v
    return encode(d)


# ----------------------------------------------------------------------------------------------------------
# the battery
# ----------------------------------------------------------------------------------------------------------
G = 9.8


def make_records(np, rng):
    records = []
    for n in [1, 2, 3, 4, 5, 9, 17, 64, 256, 3000]:
        for amp in [0.02, 0.3, 1.0, 4.0]:  # never / sometimes / often above the 0.01g, 0.05g and 0.1g thresholds
            records.append(('rand_n%i_a%s' % (n, amp), rng.standard_normal(n) * amp))
    records.append(('zeros5', np.zeros(5)))
    records.append(('zeros1', np.zeros(1)))
    records.append(('empty', np.zeros(0)))
    records.append(('ones7', np.ones(7)))
    records.append(('neg_ones4', -np.ones(4)))
    records.append(('int_rec', np.array([0, 3, -4, 1, 0, 4, -2, 0, 0], dtype=int)))
    records.append(('int_small', np.array([0, 0, 1, 0, 0, -1, 0], dtype=int)))
    records.append(('int_long', rng.integers(-2, 3, 200)))
    records.append(('int32_rec', np.array([0, 1, -1, 2, -2, 0, 1, 1, 1, 0], dtype=np.int32)))
    records.append(('list_rec', [0.0, 0.5, -1.5, 0.25, 1.5, 0.0, -0.1, 0.3, 0.2]))
    records.append(('list_small', [0.0, 0.05, -0.01, 0.02, 0.0]))
    records.append(('list_int_rec', [0, 2, -3, 3, 1, 1, 0]))
    # samples exactly on / next to the three thresholds (strict inequality, division by 9.8)
    edge = []
    for lev in [0.01, 0.05, 0.1]:
        x = lev * G
        edge += [x, np.nextafter(x, 0), np.nextafter(x, 10), -x, -np.nextafter(x, 10), 0.0]
    records.append(('on_thresholds', np.array(edge)))
    records.append(('on_thresholds_rev', np.array(edge[::-1])))
    records.append(('just_0p098', np.array([0., 0.098, 0.098, 0.])))
    records.append(('just_above_0p098', np.array([0., 0.0981, 0., 0.0981, 0.])))
    records.append(('single_spike_01', np.array([0., 0., 0., 0.2, 0., 0.])))   # t_b01 = 0 -> division by zero
    records.append(('single_spike_05', np.array([0., 0.2, 0., 0.6, 0., 0.15, 0.])))
    records.append(('single_spike_10', np.array([0., 0.2, 0., 0.6, 1.5, 0.15, 0.])))
    records.append(('adjacent_pair', np.array([0., 0., 2.0, -2.0, 0., 0.])))
    records.append(('spike_first', np.array([3.0, 0., 0., 0., 0.])))
    records.append(('spike_last', np.array([0., 0., 0., 0., -3.0])))
    records.append(('first_and_last', np.array([3.0, 0., 0.3, 0., -3.0])))
    records.append(('with_nan', np.array([0., 1.0, np.nan, -2.0, 0.5, 0.])))
    records.append(('with_nan_small', np.array([0., 0.01, np.nan, -0.02, 0.05, 0.])))
    records.append(('with_inf', np.array([0., 1.0, np.inf, -2.0, 0.5, 0.])))
    records.append(('float32_rec', rng.standard_normal(50).astype(np.float32)))
    records.append(('float32_small', (rng.standard_normal(50) * 0.02).astype(np.float32)))
    t = np.arange(1500) * 0.01
    records.append(('sweep', np.sin(2 * np.pi * t * (0.5 + t)) * np.exp(-((t - 6) / 3) ** 2) * 3.0))
    records.append(('sweep_mid', np.sin(2 * np.pi * t * (0.5 + t)) * np.exp(-((t - 6) / 3) ** 2) * 0.6))
    records.append(('sweep_small', np.sin(2 * np.pi * t * (0.5 + t)) * np.exp(-((t - 6) / 3) ** 2) * 0.09))
    return records


STAT_NAMES = ['t_b01', 'a_rms01', 't_b05', 'a_rms05', 't_b10', 'a_rms10', 'sd_start', 'sd_end', 't_595',
              'arias_intensity', 'cav']


def stats_of(asig):
    return encode([(k, getattr(asig, k, 'MISSING')) for k in STAT_NAMES])


def battery(eqsig, np, tag, results):
    rng = np.random.default_rng(20240412)

    def add(label, val):
        results.append((tag + '/' + label, val))

    dts = [0.01, 0.005, 0.1, 1, 1.0, np.float32(0.02), np.float64(0.0125), 1.0 / 3.0, 2.5e-3, 7, np.array(0.04)]
    records = make_records(np, rng)
    for rname, rec in records:
        n = len(rec)
        for di, dt in enumerate(dts if n <= 256 else dts[:4]):
            asig = eqsig.AccSignal(rec, dt)
            vals_before = asig.values.copy()
            lab = 'stats/%s/dt%i' % (rname, di)
            add(lab + '/state0', state_of(asig))
            add(lab + '/generate_duration_stats', call(asig.generate_duration_stats))
            add(lab + '/stats1', stats_of(asig))
            add(lab + '/state1', state_of(asig))
            for thr in [0.0, 0.098, 0.5]:
                add(lab + '/acc_rms_%s' % thr, call(eqsig.im.calc_acc_rms, asig, thr))
                add(lab + '/brac_dur_%s' % thr, call(eqsig.im.calc_brac_dur, asig, thr, se=True))
            # second call on the same object (attributes now pre-exist)
            add(lab + '/generate_duration_stats_again', call(asig.generate_duration_stats))
            add(lab + '/state2', state_of(asig))
            add(lab + '/reset_all_motion_stats', call(asig.reset_all_motion_stats))
            add(lab + '/state3', state_of(asig))
            add(lab + '/generate_all_motion_stats', call(asig.generate_all_motion_stats))
            add(lab + '/stats4', stats_of(asig))
            add(lab + '/state4', state_of(asig))
            add(lab + '/values_untouched', bool(np.array_equal(vals_before, asig.values, equal_nan=True)
                                                and vals_before.dtype == asig.values.dtype))
            # a fresh object going straight through generate_all_motion_stats
            asig2 = eqsig.AccSignal(rec, dt, label='second')
            add(lab + '/fresh/generate_all_motion_stats', call(asig2.generate_all_motion_stats))
            add(lab + '/fresh/state', state_of(asig2))

    # amplitude scaling and zero padding (record stays below 0.01 g so that the Trifunac and Brady part is reached
    # even without np.trapz, and a larger one that exercises the bracketed part)
    base = rng.standard_normal(500) * np.hanning(500)
    for amp in [0.02, 0.05, 0.4, 2.0]:
        for k in [0, 1, 5, 33]:
            asig = eqsig.AccSignal(np.concatenate([np.zeros(k), base * amp]), 0.01)
            add('pad/a%s/k%i/call' % (amp, k), call(asig.generate_duration_stats))
            add('pad/a%s/k%i/stats' % (amp, k), stats_of(asig))
            add('pad/a%s/k%i/state' % (amp, k), state_of(asig))

    # multi step history on one object
    asig = eqsig.AccSignal(rng.standard_normal(300) * 0.01, 0.02)
    for step in range(6):
        add('hist/step%i/duration_stats' % step, call(asig.generate_duration_stats))
        add('hist/step%i/state' % step, state_of(asig))
        add('hist/step%i/sig_dur' % step, call(eqsig.im.calc_sig_dur, asig, se=True))
        if step == 0:
            asig.reset_values(rng.standard_normal(41) * 0.3)
        elif step == 1:
            asig.add_constant(0.07)
        elif step == 2:
            asig.reset_all_motion_stats()
            add('hist/butter', call(asig.butter_pass, (0.5, 10)))
        elif step == 3:
            asig.reset_values(rng.standard_normal(1000) * 1.5)
            add('hist/all', call(asig.generate_all_motion_stats))
        elif step == 4:
            asig.reset_values(np.zeros(12))


def compute(eqsig):
    import numpy as np
    results = []
    # pass 1: numpy as installed (np.trapz may not exist -> AttributeError after t_bXX has been set)
    battery(eqsig, np, 'native', results)
    # pass 2: make sure that np.trapz exists so that the rms branch is really evaluated
    if not hasattr(np, 'trapz'):
        np.trapz = np.trapezoid
        try:
            battery(eqsig, np, 'trapz_shim', results)
        finally:
            del np.trapz
    return results


# ----------------------------------------------------------------------------------------------------------
# driver
# ----------------------------------------------------------------------------------------------------------
def worker(pkg_root, out_file):
    sys.path.insert(0, pkg_root)
    import eqsig
    assert os.path.abspath(eqsig.__file__).startswith(os.path.abspath(pkg_root) + os.sep), eqsig.__file__
    res = compute(eqsig)
    with open(out_file, 'wb') as f:
        pickle.dump(res, f)


def run_worker(pkg_root, out_file):
    env = dict(os.environ)
    env.pop('PYTHONPATH', None)
    subprocess.check_call([sys.executable, os.path.abspath(__file__), '--worker', pkg_root, out_file],
                          cwd=pkg_root, env=env)
    with open(out_file, 'rb') as f:
        return pickle.load(f)


def main():
    tmp = tempfile.mkdtemp(prefix='eqsig_orig_C10_3_', dir='/tmp')
    try:
        orig_root = os.path.join(tmp, 'orig')
        os.makedirs(orig_root)
        subprocess.check_call('git archive HEAD eqsig | tar -x -C "%s"' % orig_root, shell=True, cwd=WORKTREE)
        res_o = run_worker(orig_root, os.path.join(tmp, 'orig.pkl'))
        res_e = run_worker(WORKTREE, os.path.join(tmp, 'edit.pkl'))
    finally:
        shutil.rmtree(tmp, ignore_errors=True)
    n_bad = 0
    if len(res_o) != len(res_e):
        print('different number of results: %i vs %i' % (len(res_o), len(res_e)))
        n_bad += 1
    for (lab_o, val_o), (lab_e, val_e) in zip(res_o, res_e):
        if lab_o != lab_e or val_o != val_e:
            n_bad += 1
            if n_bad < 20:
                print('MISMATCH %s:\n   orig: %r\n   edit: %r' % (lab_o, val_o, val_e))
    n_exc = sum(1 for _, v in res_o if isinstance(v, tuple) and len(v) == 2 and isinstance(v[0], tuple)
                and v[0] and v[0][0] == 'exception')
    print('%i comparisons (%i of them exceptions), %i mismatches' % (len(res_o), n_exc, n_bad))
    return 1 if n_bad else 0


if __name__ == '__main__':
    if len(sys.argv) >= 2 and sys.argv[1] == '--worker':
        worker(sys.argv[2], sys.argv[3])
    else:
        sys.exit(main())

"""
Equivalence check for twin2 (peaks_and_crossings: determine_peaks_only_delta_series and
determine_pseudo_cyclic_peak_only_series share one private worker that rebases on a fresh array).

Run with twin2 applied and cwd = the worktree:
    /venv/bin/python out/equiv2.py

The ORIGINAL package is extracted from git (HEAD) into a temp dir under /tmp.  The same scenario
script is executed in two subprocesses (one importing the original, one importing the edited copy)
and the pickled observations are compared bit-for-bit.
"""
import os
import pickle
import shutil
import subprocess
import sys
import tempfile
import warnings

import numpy as np

TOUCHED = ['eqsig/fns/peaks_and_crossings.py']


# ----------------------------------------------------------------------------------------------
# generic helpers (observation -> plain picklable data, compared exactly)
# ----------------------------------------------------------------------------------------------
def freeze(obj):
    """Turn a result into nested plain data that can be compared with == (bit exact for arrays)."""
    if isinstance(obj, np.ndarray):
        if obj.dtype in (np.dtype(np.longdouble), np.dtype(np.clongdouble)) and np.finfo(obj.dtype).nmant == 63:
            # x87 extended precision: only 10 of every 16 bytes are significant, the rest is padding garbage
            raw = np.ascontiguousarray(obj).view(np.uint8).reshape(-1, 16)[:, :10]
            return ('ndarray', str(obj.dtype), obj.shape, raw.tobytes())
        return ('ndarray', str(obj.dtype), obj.shape, np.ascontiguousarray(obj).tobytes())
    if isinstance(obj, np.generic):
        return ('npscalar', type(obj).__name__, np.asarray(obj).tobytes())
    if isinstance(obj, (list, tuple)):
        return (type(obj).__name__, [freeze(o) for o in obj])
    if isinstance(obj, dict):
        return ('dict', [(repr(k), freeze(v)) for k, v in obj.items()])
    if isinstance(obj, (int, float, complex, str, bool, type(None))):
        return (type(obj).__name__, repr(obj))
    return ('other', type(obj).__name__)


def snapshot(sig):
    """Full object state (instance dict) + derived public views."""
    state = {k: freeze(v) for k, v in sorted(vars(sig).items())}
    state['<values>'] = freeze(sig.values)
    state['<npts>'] = freeze(sig.npts)
    state['<time>'] = freeze(sig.time)
    state['<len==npts>'] = len(sig.values) == sig.npts
    return state


def call(fn, *args, **kwargs):
    try:
        return ('ok', freeze(fn(*args, **kwargs)))
    except Exception as e:  # noqa
        return ('raised', type(e).__name__, str(e))


# ----------------------------------------------------------------------------------------------
# scenarios
# ----------------------------------------------------------------------------------------------
def make_inputs():
    rng = np.random.RandomState(52)
    ins = []
    # random float records of many lengths (short ones included)
    for n in (0, 1, 2, 3, 4, 5, 6, 7, 10, 33, 100, 1001):
        for rep in range(4):
            ins.append(('randn%i_%i' % (n, rep), rng.randn(n)))
    # records with many repeated adjacent values (what clean_out_non_changing is for)
    for n in (2, 3, 5, 9, 40, 300):
        for rep in range(6):
            ins.append(('steps%i_%i' % (n, rep), np.round(np.cumsum(rng.randn(n)), 0)))
            ins.append(('isteps%i_%i' % (n, rep), rng.randint(-3, 4, size=n)))
            ins.append(('offset%i_%i' % (n, rep), np.round(rng.randn(n), 1) + 5.5))
    # first move downwards / upwards, leading repeats, trailing repeats
    ins.append(('down_first', np.array([3., 1., 2., 0., 0., 4., 4., 1.])))
    ins.append(('up_first', np.array([-3., 1., -2., 0., 0., 4., 4., 1.])))
    ins.append(('lead_rep', np.array([2., 2., 2., 1., 3., 3., 0.])))
    ins.append(('trail_rep', np.array([0., 1., -1., 2., 2., 2.])))
    ins.append(('doc1', np.array([0, 2, 1, 2, 0, 1, 0, -1, 0, 1, 0])))
    ins.append(('doc2', np.array([0, 2, 1, 2, 0.3, 1, 0.3, -1, 0.4, 1, 0])))
    # constants (no second cleaned value -> IndexError in both)
    ins.append(('zeros', np.zeros(12)))
    ins.append(('ones', np.ones(5)))
    ins.append(('izeros', np.zeros(4, dtype=int)))
    ins.append(('const_list', [2, 2, 2]))
    # lists / tuples / mixed
    ins.append(('list_float', list(rng.randn(30))))
    ins.append(('list_int', [0, 2, 1, 2, 0, 1, 0, -1, 0, 1, 0]))
    ins.append(('list_int_offset', [4, 2, 2, 7, 7, 1, 0, -1, 0, 9, 9]))
    ins.append(('list_mixed', [1, 2.5, 2.5, -1, 0, 3.25, 3]))
    ins.append(('list_mixed2', [1.5, 2, 2, -1, 0, 3, 3]))
    ins.append(('tuple_float', tuple(rng.randn(11))))
    ins.append(('tuple_int', (5, 3, 3, 8, 1)))
    ins.append(('list_npfloat', [np.float64(v) for v in rng.randn(8)]))
    ins.append(('list_bool', [True, False, True, True]))
    ins.append(('empty_list', []))
    ins.append(('one_list', [3]))
    # dtypes
    base = rng.randint(-20, 20, size=50)
    for dt in (np.int8, np.int16, np.int32, np.int64, np.uint8, np.uint16, np.uint32, np.uint64,
               np.float16, np.float32, np.float64, np.longdouble, np.complex128, bool):
        ins.append(('dtype_%s' % np.dtype(dt).name, base.astype(dt)))
        ins.append(('dtype_abs_%s' % np.dtype(dt).name, np.abs(base[::-1]).astype(dt)))
    ins.append(('uint8_wrap', np.array([200, 10, 10, 250, 3, 3, 90], dtype=np.uint8)))
    ins.append(('int8_edge', np.array([-128, 127, 127, -1, 0, 100, -100], dtype=np.int8)))
    ins.append(('big_int', np.array([2 ** 62, -2 ** 62, 5, 5, 2 ** 61], dtype=np.int64)))
    # special floats
    ins.append(('with_nan', np.array([0., 1., np.nan, 2., 2., -1., 3.])))
    ins.append(('nan_first', np.array([np.nan, 1., 0., 2., 2., -1., 3.])))
    ins.append(('with_inf', np.array([0., np.inf, 1., -np.inf, 2., 2.])))
    ins.append(('neg_zero', np.array([-0., 0., 1., -0., 0., -2., -2., 1.])))
    ins.append(('tiny', np.array([1e-320, 3e-320, 2e-320, 2e-320, 5e-320])))
    ins.append(('huge', np.array([1e308, -1e308, 1e308, 5e307, 5e307])))
    # memory layouts
    b = rng.randn(90)
    ins.append(('strided', b[::3]))
    ins.append(('reversed', b[::-1]))
    ins.append(('offset_view', b[7:41]))
    ro = np.round(rng.randn(25), 1)
    ro.setflags(write=False)
    ins.append(('readonly', ro))
    ins.append(('col_of_2d', np.asfortranarray(rng.randn(20, 3))[:, 1]))
    ins.append(('sine', np.sin(np.linspace(0, 30, 700))))
    ins.append(('triangle', np.array([0, 1, 2, 1, 0, -1, -2, -1, 0, 1, 2, 1, 0], dtype=float)))
    return ins


def dup(x):
    if isinstance(x, np.ndarray):
        return x  # never copied: the function under test must not touch it
    return type(x)(x)


def observe(fn, x):
    """Call fn(x) twice; record result, exception, argument integrity and aliasing."""
    obs = {}
    before = freeze(x)
    with warnings.catch_warnings():
        warnings.simplefilter('ignore')
        try:
            r1 = fn(x)
            obs['r1'] = ('ok', freeze(r1))
        except Exception as e:  # noqa
            r1 = None
            obs['r1'] = ('raised', type(e).__name__, str(e))
        obs['arg_after_1'] = freeze(x)
        obs['arg_unchanged_1'] = obs['arg_after_1'] == before
        try:
            r2 = fn(x)
            obs['r2'] = ('ok', freeze(r2))
        except Exception as e:  # noqa
            r2 = None
            obs['r2'] = ('raised', type(e).__name__, str(e))
    obs['arg_unchanged_2'] = freeze(x) == before
    obs['same_again'] = obs['r1'] == obs['r2']
    if isinstance(r1, np.ndarray):
        obs['flags'] = (bool(r1.flags.writeable), bool(r1.flags.c_contiguous), bool(r1.flags.owndata), type(r1).__name__)
        obs['aliases_arg'] = bool(isinstance(x, np.ndarray) and np.shares_memory(r1, x))
        obs['aliases_r2'] = bool(isinstance(r2, np.ndarray) and np.shares_memory(r1, r2))
        # mutating the result must not reach the argument
        if r1.size and r1.flags.writeable and r1.dtype != bool:
            r1[...] = 1
            obs['arg_unchanged_after_result_write'] = freeze(x) == before
    return obs


def run_scenarios(eqsig):
    import eqsig.fns.peaks_and_crossings as pc
    fns = [
        ('delta', pc.determine_peaks_only_delta_series),
        ('pseudo', pc.determine_pseudo_cyclic_peak_only_series),
        ('delta_top', eqsig.determine_peaks_only_delta_series),
        ('pseudo_top', eqsig.determine_pseudo_cyclic_peak_only_series),
        # untouched helpers used by the shared worker (must stay identical and side-effect free)
        ('delta_cleaned', pc.determine_peak_only_delta_series_4_cleaned_data),
        ('pseudo_cleaned', pc._determine_peak_only_series_4_cleaned_data),
        ('clean', pc.clean_out_non_changing),
    ]
    out = []
    for name, x in make_inputs():
        for fname, fn in fns:
            obs = observe(fn, dup(x))
            obs['key'] = (name, fname)
            obs['step'] = obs['r1']
            out.append(obs)
    # signal objects: values handed to the functions must stay intact and the object state too
    rng = np.random.RandomState(8)
    for n in (3, 10, 200):
        for maker in (lambda v: eqsig.AccSignal(v, 0.01), lambda v: eqsig.Signal(v, 0.02)):
            v = np.round(rng.randn(n), 1)
            sig = maker(v)
            s0 = snapshot(sig)
            for fname, fn in fns[:2]:
                obs = observe(fn, sig.values)
                obs['key'] = ('sig%i' % n, type(sig).__name__, fname)
                obs['step'] = obs['r1']
                obs['state_same'] = snapshot(sig) == s0
                obs['state'] = snapshot(sig)
                out.append(obs)
    # public namespace must not have grown / shrunk
    out.append({'key': 'namespace', 'step': ('ok', 0),
                'fns_all': sorted(n for n in vars(eqsig.fns) if not n.startswith('_')),
                'top_all': sorted(n for n in vars(eqsig) if not n.startswith('_')),
                'pc_public': sorted(n for n in vars(pc) if not n.startswith('_'))})
    return out


# ----------------------------------------------------------------------------------------------
# driver
# ----------------------------------------------------------------------------------------------
def worker(root, outpath):
    root = os.path.realpath(root)
    sys.path.insert(0, root)
    os.chdir(root)
    warnings.simplefilter('ignore')
    np.seterr(all='ignore')
    import eqsig
    assert os.path.realpath(eqsig.__file__).startswith(root + os.sep), (eqsig.__file__, root)
    res = run_scenarios(eqsig)
    with open(outpath, 'wb') as f:
        pickle.dump(res, f)


def diff_path(a, b, path=''):
    if type(a) != type(b):
        return '%s: type %s vs %s' % (path, type(a), type(b))
    if isinstance(a, dict):
        if sorted(a) != sorted(b):
            return '%s: keys %s vs %s' % (path, sorted(a), sorted(b))
        for k in a:
            d = diff_path(a[k], b[k], path + '/' + str(k))
            if d:
                return d
        return None
    if isinstance(a, (list, tuple)):
        if len(a) != len(b):
            return '%s: len %i vs %i' % (path, len(a), len(b))
        for i, (x, y) in enumerate(zip(a, b)):
            d = diff_path(x, y, path + '[%i]' % i)
            if d:
                return d
        return None
    if a != b:
        return '%s: %r vs %r' % (path, a if not isinstance(a, bytes) else a[:40], b if not isinstance(b, bytes) else b[:40])
    return None


def main():
    here = os.path.realpath(os.getcwd())
    assert os.path.isdir(os.path.join(here, 'eqsig')), 'run with cwd = the worktree'
    tmp = tempfile.mkdtemp(prefix='c05_equiv2_', dir='/tmp')
    try:
        subprocess.check_call('git archive HEAD eqsig | tar -x -C "%s"' % tmp, shell=True, cwd=here)
        changed = False
        for rel in TOUCHED:
            with open(os.path.join(tmp, rel)) as f0, open(os.path.join(here, rel)) as f1:
                changed = changed or (f0.read() != f1.read())
        assert changed, 'twin2 does not seem to be applied (touched files identical to HEAD)'
        outs = {}
        for tag, root in (('orig', tmp), ('edit', here)):
            outpath = os.path.join(tmp, tag + '.pkl')
            subprocess.check_call([sys.executable, os.path.abspath(__file__), '--worker', root, outpath], cwd=root)
            with open(outpath, 'rb') as f:
                outs[tag] = pickle.load(f)
        assert len(outs['orig']) == len(outs['edit']) and len(outs['orig']) > 100
        n_ok_steps = 0
        n_raise_steps = 0
        for o, e in zip(outs['orig'], outs['edit']):
            d = diff_path(o, e)
            assert d is None, 'MISMATCH in scenario %r: %s' % (o.get('key'), d)
            for k, v in o.items():
                if k == 'step':
                    if v[0] == 'ok':
                        n_ok_steps += 1
                    else:
                        n_raise_steps += 1
        assert n_ok_steps > 500 and n_raise_steps > 20, (n_ok_steps, n_raise_steps)
        print('equiv2: %i scenarios identical (%i successful steps, %i raising steps)' % (
            len(outs['orig']), n_ok_steps, n_raise_steps))
    finally:
        shutil.rmtree(tmp, ignore_errors=True)


if __name__ == '__main__':
    if len(sys.argv) > 1 and sys.argv[1] == '--worker':
        worker(sys.argv[2], sys.argv[3])
    else:
        main()
